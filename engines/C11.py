"""C11 — outgoing sequence numbers increase by one per chunk, across renewals and senders; no interleaved messages."""
import json
import vf

IMPORTS = ("From Coq Require Import ZArith List Bool.\n"
           "From Opcua Require Import Gen.ArithFromGo Model.ChannelSched.\n"
           "Import ListNotations. Open Scope Z_scope.")
CTYPE = "bool * Z * Z * list ev * list (Z * Z * bool * bool)"
AGREE = ("  let '(full, seq0, req0, evs, obs) := c in\n"
         "  schedule_agrees full seq0 req0 evs obs")

EV = {"gate": "EGate", "active": "EActive", "id": "EId", "locki": "ELockI", "chunk": "EChunk", "fail": "EFail",
      "unlocki": "EUnlockI", "done": "EDone"}
REV = {"renstart": "ERenStart", "rengate": "ERenGate", "rendrain": "ERenDrain", "renlock": "ERenLock", "rencopy": "ERenCopy",
       "renopn": "ERenOpn", "reninstall": "ERenInstall", "renfail": "ERenFail", "renunlock": "ERenUnlock"}


def ev(e):
    if e[0] == "spawn":
        return "ESpawn %d%%nat" % e[1]
    if e[0] in EV:
        return "%s %d%%nat" % (EV[e[0]], e[1])
    return REV[e[0]]


def b(x):
    return "true" if x else "false"


def case_term(c):
    obs = "[" + "; ".join("(%d, %d, %s, %s)" % (w[0], w[1], b(w[2]), b(w[3])) for w in c["wire"]) + "]"
    return "(%s, %d, %d, [%s], %s)" % (b(c.get("full", True)), c["seq0"], c["req0"], "; ".join(ev(e) for e in c["events"]), obs)


def next_seq(x):
    x = (x + 1) % 4294967296
    return 1 if x > 4294967295 - 1023 else x


def classify(c):
    """(a renewal found pendingReq drained while a sender was counted, a renewal failed after its OPN)"""
    inflight, overtook, failed = set(), False, False
    for e in c["events"]:
        n = e[0]
        if n == "gate":
            inflight.add(e[1])
        elif n == "done":
            inflight.discard(e[1])
        elif n == "rendrain":
            if inflight:
                overtook = True
        elif n == "renfail":
            failed = True
    return overtook, failed


def early_failures(c):
    """number of sends that failed after taking their first sequence number but before writing a chunk"""
    written, n = {}, 0
    for e in c["events"]:
        if e[0] == "chunk":
            written[e[1]] = written.get(e[1], 0) + 1
        elif e[0] == "fail" and not written.get(e[1]):
            n += 1
    return n


def oracle(c):
    fails = []
    w = c["wire"]
    overtook, failed = classify(c)
    # a gap of exactly the numbers used up by early failures is the known finding; anything else is not
    gaps, budget = 0, 0   # since fix bf63793 a send that fails before its first chunk hands its number back
    prev = c["seq0"]
    for i in range(len(w)):
        if c.get("sign") and (w[i][3] or (i > 0 and w[i - 1][3])):
            prev = w[i][0]
            continue    # the sequence header of an encrypted OPN is not readable on the wire
        if w[i][0] != next_seq(prev):
            x, skipped = next_seq(prev), 0
            while x != w[i][0] and skipped <= budget:
                x, skipped = next_seq(x), skipped + 1
            if x == w[i][0] and 0 < skipped <= budget - gaps:
                gaps += skipped
            else:
                fails.append(("sequence-numbers-not-consecutive", "chunk %d carries sequence number %d after %d (request ids %d, %d)%s" % (
                    i, w[i][0], prev, w[i][1], w[i - 1][1] if i else 0, " after a failed renewal" if failed else "")))
                break
        prev = w[i][0]
    if gaps:
        fails.append(("failed-send-before-first-chunk-leaves-gap", "%d sequence number(s) taken by requests that failed before their first chunk never reached the wire: %s" % (
            gaps, [x[0] for x in w])))
    # every chunk continues the message of the chunk before it or starts a message not seen before
    for i in range(1, len(w)):
        if c.get("sign") and (w[i][3] or w[i - 1][3]):
            continue
        if w[i][1] != w[i - 1][1] and any(x[1] == w[i][1] for x in w[:i - 1]):
            fails.append(("messages-interleaved", "chunk %d resumes request id %d after a chunk of request id %d" % (i, w[i][1], w[i - 1][1])))
            break
    if overtook:
        fails.append(("renewal-overtook-counted-sender", "pendingReq.Wait() returned while a request was between the renewal gate and pendingReq.Done()"))
    if c["scenario"] == "witness-gate-atomic":
        # while a sender is inside waitIfLockThen (gate seen open, not yet counted) the renewer cannot lock the gate
        if not any(st[0] == "R0" and st[1] == "" and st[2] == "blocked" for st in c.get("steps", [])):
            fails.append(("gate-check-and-count-not-atomic", "the renewal locked the gate while a sender was between the gate check and pendingReq.Add: steps %s" % c.get("steps")))
    if c["scenario"] in ("witness-renewal-window", "witness-interleaved-messages", "sign-renewal-window"):
        # the renewer must be seen blocked after it has locked the gate, while the first sender is counted
        if not any(st[0] == "R0" and st[1] == "sc.renew.gateLocked" and st[2] == "blocked" for st in c.get("steps", [])):
            fails.append(("renewal-not-held-back", "the renewal did not block in pendingReq.Wait() although a sender was past the gate: steps %s" % c.get("steps")))
    if c.get("log"):
        fails.append(("unmapped-segment", "a thread moved between scheduling points in an order the code does not have: %s" % c["log"][:3]))
    if c.get("deadlock"):
        fails.append(("schedule-deadlocked", "no thread could be scheduled and not all were finished: %s" % c["schedule"]))
    return fails


def run(ctx, mode="c11"):
    n = 300 if ctx.thorough() else 24
    proof_ok, detail = True, {}
    if ctx.replay:
        # a replay file names the seed and the scenario; all scenarios are deterministic functions of the seed
        try:
            rp = json.load(open(ctx.replay))
            ctx.seed = int(rp.get("seed", ctx.seed))
            ctx.log("replaying %s: %s" % (ctx.replay, rp.get("how") or rp.get("broken")))
        except Exception as e:
            ctx.log("cannot read replay file: %s" % e)
    ok, out = ctx.regen(["arith", "sendside"])
    if not ok:
        proof_ok = False
        detail["translator"] = out[-2000:]
        ctx.log("translator failed: " + out[-600:])
    r = ctx.props() if ok else None
    if r is not None and not r["ok"]:
        proof_ok = False
        detail["coq"] = r["failed_at"] or r["log"][-1500:]
    if ctx.thorough() and proof_ok:
        ok2, log = ctx.coqchk()
        if not ok2:
            proof_ok = False
            detail["coqchk"] = log[-1500:]

    h, log = ctx.go_build("schedharness")
    if h is None:
        ctx.broken_tie("harness does not build against /repo", log[-2000:])
        return
    cases, errors = [], []
    for args in (["-n", str(n), "c11"], ["-n", str(max(4, n // 5)), "c11resp"]):
        rc, out = vf.sh([h, "-seed", str(ctx.seed)] + args, timeout=1500, env=vf.GOENV)
        lines = [json.loads(l) for l in out.splitlines() if l.startswith("{")]
        cases += [l for l in lines if l.get("kind") == "case"]
        errors += [l for l in lines if l.get("kind") == "error"]
        if rc != 0:
            ctx.broken_tie("harness crashed", out[-2000:])
            return
    if not cases:
        ctx.broken_tie("harness produced no cases", "")
        return
    # a case without a wire, or with fewer chunks on the wire than the schedule wrote (the proxy had not seen them
    # all when the scenario ended), is inconclusive: counted, not fed to the oracle or to the Coq comparison
    def conclusive(c):
        if c.get("wire") is None:
            return False
        wrote = sum(1 for e in c["events"] if e[0] in ("chunk", "renopn"))
        return len(c["wire"]) >= wrote
    inconclusive = [c for c in cases if not conclusive(c)]
    cases = [c for c in cases if conclusive(c)]
    if not cases:
        ctx.broken_tie("every schedule was inconclusive", json.dumps([c.get("scenario") for c in inconclusive])[:1500])
        return

    new, seen = 0, set()
    for c in cases:
        for key, why in oracle(c):
            if key in seen:
                continue
            seen.add(key)
            if ctx.finding(key, why, {"case": c, "how": "schedharness -seed %d c11 (scenario %s); replay one schedule with: schedharness -schedule %s c11" % (
                    ctx.seed, c["scenario"], ",".join(c["schedule"]))}):
                new += 1
    for e in errors[:3]:
        if ctx.finding("scenario-aborted", "scenario %s aborted: %s" % (e["scenario"], e["err"]), {"error": e, "how": "schedharness -seed %d c11" % ctx.seed}):
            new += 1
            break

    corr_ok, mism = True, []
    if ok:
        okc, idx, clog = ctx.eval_cases(IMPORTS, CTYPE, [case_term(c) for c in cases], AGREE, shard=60)
        if not okc:
            corr_ok = False
            detail["cases"] = clog[-1500:]
        elif idx:
            corr_ok = False
            mism = [cases[i] for i in idx[:5]]
            detail["model_vs_impl_mismatches"] = [{"scenario": m["scenario"], "events": m["events"], "wire": m["wire"], "log": m.get("log")} for m in mism]
            if new == 0 and ctx.finding("model-mismatch", "the wire captured for a forced schedule differs from the model's wire for the same schedule",
                                        {"case": mism[0], "how": "schedharness -seed %d c11 (scenario %s)" % (ctx.seed, mism[0]["scenario"])}):
                new += 1
    else:
        corr_ok = False

    held = sum(1 for c in cases if any(st[0].startswith("R") and st[1] == "sc.renew.gateLocked" and st[2] == "blocked" for st in c.get("steps", [])))
    distinct = {json.dumps(c["events"]) for c in cases}
    ctx.coverage.update({
        "evaluations": len(cases), "distinct_nontrivial": len(distinct),
        "rule": "schedules forced on the real client channel through the verifhook points (go/internal/sched): the 3 schedules that refuted the property before the fixes (now the renewal is observed blocked in pendingReq.Wait()), 1 renewal under load, and seeded random schedules of 1-3 senders (1-3 chunks each, 8 KiB send buffer) and 0-2 renewals; plus concurrent multi-chunk response senders on the server channel; wire captured by a TCP proxy (None mode); distinct = distinct event schedules",
        "samples": [{"scenario": c["scenario"], "schedule": c["schedule"][:20], "wire": c["wire"][:8]} for c in cases[:3] + cases[-1:]],
        "schedules_in_which_a_renewal_was_held_back_by_a_counted_sender": held,
        "schedules_with_failed_renewal": sum(1 for c in cases if classify(c)[1]),
        "schedules_with_send_failing_between_chunks": sum(1 for c in cases if any(e[0] == "fail" for e in c["events"]) and not early_failures(c)),
        "schedules_with_send_failing_before_first_chunk": sum(1 for c in cases if early_failures(c)),
        "schedules_with_renewal": sum(1 for c in cases if c.get("renews")),
        "chunks_on_wire": sum(len(c["wire"]) for c in cases), "scenario_errors": len(errors),
        "inconclusive": len(inconclusive), "inconclusive_scenarios": [c.get("scenario") for c in inconclusive][:10],
        "traces_validated_against_impl": len(cases), "model_impl_mismatches": len(mism),
    })
    ctx.notes.append("level: full on the model (all schedules, any number of threads); the tie to Go scheduling is by forced schedules at the granularity of the scheduling points")
    ctx.conclude(proof_ok, corr_ok, new, detail)
