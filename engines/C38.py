"""C38 — a maximal chunk body always fits the negotiated chunk size."""
import json, os
import vf

MODE = {1: "ModeNone", 2: "ModeSign", 3: "ModeSignEnc"}


def run(ctx):
    n = 400 if ctx.thorough() else 25
    proof_ok = True
    detail = {}
    ok, out = ctx.regen(["arith", "policy"])
    if not ok:
        proof_ok = False
        detail["translator"] = out[-2000:]
        ctx.log("translator failed: " + out[-500:])
    r = ctx.props() if ok else None
    if r is not None and not r["ok"]:
        proof_ok = False
        detail["coq"] = r["failed_at"] or r["log"][-1500:]
    if ctx.thorough() and proof_ok:
        ok2, log = ctx.coqchk()
        if not ok2:
            proof_ok = False
            detail["coqchk"] = log[-1500:]

    # implementation side
    h, log = ctx.go_build("chunkharness")
    if h is None:
        ctx.broken_tie("harness does not build against /repo", log[-2000:])
        return
    rc, out = vf.sh([h, "-seed", str(ctx.seed), "-n", str(n), "c38"], timeout=1200, env=vf.GOENV)
    allobs = [json.loads(l) for l in out.splitlines() if l.startswith("{")]
    obs = [o for o in allobs if o.get("kind") != "encode"]
    encs = [o for o in allobs if o.get("kind") == "encode"]
    if rc != 0 or not obs:
        ctx.broken_tie("harness crashed", out[-2000:])
        return
    # the wiring: real client and server channels on connections with asymmetric negotiated buffer sizes
    rcw, outw = vf.sh([h, "-seed", str(ctx.seed), "-n", str(200 if ctx.thorough() else 24), "c38wired"], timeout=600, env=vf.GOENV)
    wired = [json.loads(l) for l in outw.splitlines() if l.startswith("{")]
    if rcw != 0 or not wired:
        ctx.broken_tie("harness crashed (c38wired)", outw[-2000:])
        return

    # (1) the property itself, evaluated on the implementation (oracle used for replay search)
    fails = []
    for o in obs:
        why = None
        if o.get("err"):
            if o["body"] <= o["maxbody"]:
                why = "signAndEncrypt failed on a body <= max: " + o["err"]
        else:
            if o["maxbody"] >= 2**31 or o["maxbody"] >= o["cs"]:
                why = "maximum body size wrapped or exceeds chunk size"
            elif o["body"] <= o["maxbody"] and o["outlen"] > o["cs"]:
                why = "secured chunk of %d bytes exceeds chunk size %d" % (o["outlen"], o["cs"])
            elif o["mode"] == 3 and o["body"] == o["maxbody"] + 1 and o["outlen"] <= o["cs"]:
                why = "SignAndEncrypt: max body + 1 still fits (maximum is not tight)"
            elif o["mode"] == 3 and (o["outlen"] - 16) % o["block"] != 0:
                why = "ciphertext is not a whole number of blocks"
            elif o["sizefield"] != o["outlen"]:
                why = "MessageSize field differs from chunk length"
            elif not o["round_ok"]:
                why = "peer could not verify/decrypt the chunk back to the body"
        if why:
            fails.append((why, o))

    # (1b) newMessage -> EncodeChunks(maxBodySize) -> signAndEncrypt for bodies k*max+j: every chunk carries at most
    #      max body bytes and its secured size fits the chunk size; len/max + 1 chunks, all 'C' but the last 'F'
    for o in encs:
        why = None
        if o.get("err"):
            why = "EncodeChunks/signAndEncrypt failed: " + o["err"]
        elif not o.get("raw"):
            why = "no chunk produced"
        elif max(o["raw"]) > o["maxbody"]:
            why = "a chunk carries %d body bytes, more than the maximum body size %d" % (max(o["raw"]), o["maxbody"])
        elif max(o["secured"]) > o["cs"]:
            why = "secured chunk of %d bytes exceeds chunk size %d" % (max(o["secured"]), o["cs"])
        elif sum(o["raw"]) != o["bodylen"]:
            why = "chunks carry %d bytes of a %d-byte body" % (sum(o["raw"]), o["bodylen"])
        elif len(o["raw"]) != o["bodylen"] // o["maxbody"] + 1 or o["types"] != "C" * (len(o["raw"]) - 1) + "F":
            why = "unexpected number or types of chunks"
        if why:
            fails.append((why, dict(o, body=o["bodylen"])))

    # (1c) the maximal body of a live channel end fits the chunk size of the direction it is sent in (policy None: 24 bytes of headers)
    wired_setup_errors = [o for o in wired if o.get("err")]
    for o in wired:
        if o.get("err"):
            continue
        if o["maxbody"] + 24 > o["send"]:
            fails.append(("the %s channel (after %s) takes a maximal body of %d bytes, its chunk of %d bytes exceeds the negotiated send chunk size %d (HEL recv/send %d/%d, server %d/%d)" % (
                o["side"], o["phase"], o["maxbody"], o["maxbody"] + 24, o["send"], o["cli_recv"], o["cli_send"], o["srv_recv"], o["srv_send"]),
                dict(o, policy="None", mode=1, body=o["maxbody"], how="chunkharness c38wired: uacp.Listen/Dialer with these buffer sizes, policy None, Open (+Renew), read the active instance's maxBodySize")))
    if len(wired_setup_errors) > len(wired) // 2:
        ctx.broken_tie("c38wired: most connections could not be set up", json.dumps(wired_setup_errors[:3]))
        return

    # (2) correspondence: model (Coq, vm_compute) vs implementation on the same inputs
    corr_ok, mism = True, []
    if ok:
        lines = []
        for o in obs:
            if o.get("err"):
                continue
            lines.append("(%s, %d, (%d, %d, %d, %d), (%d, %d, %d, %d))" % (
                MODE[o["mode"]], o["cs"], o["block"], o["plain"], o["sig"], o["rsig"],
                o["maxbody"], o["body"], o["outlen"], o["sizefield"]))
        good = [o for o in obs if not o.get("err")]
        okc, idx, clog = ctx.eval_cases(
            "From Coq Require Import ZArith List Bool.\nFrom Opcua Require Import Model.Layout Gen.ArithFromGo.\nImport ListNotations. Open Scope Z_scope.",
            "sec_mode * Z * (Z*Z*Z*Z) * (Z*Z*Z*Z)", lines,
            """  let '(m, cs, (block, plain, sig, rsig), (maxbody, body, outlen, sizefld)) := c in
  (go_SetMaximumBodySize cs block plain sig rsig =? maxbody) &&
  (secured_len m block plain sig rsig sym_hdr (seq_hdr + body) =? outlen) &&
  (message_size m block plain sig rsig sym_hdr (seq_hdr + body) =? sizefld)""")
        elines = []
        egood = [o for o in encs if not o.get("err") and o.get("raw")]
        for o in egood:
            elines.append("(%s, %d, (%d, %d, %d, %d), %d, %d, [%s])" % (
                MODE[o["mode"]], o["cs"], next(g["block"] for g in obs if g["policy"] == o["policy"]),
                next(g["plain"] for g in obs if g["policy"] == o["policy"]), next(g["sig"] for g in obs if g["policy"] == o["policy"]),
                next(g["rsig"] for g in obs if g["policy"] == o["policy"]), o["maxbody"], o["bodylen"],
                ";".join("(%d,%d)" % rs for rs in zip(o["raw"], o["secured"]))))
        oke, idxe, cloge = ctx.eval_cases(
            "From Coq Require Import ZArith List Bool.\nFrom Opcua Require Import Model.Layout Gen.ArithFromGo.\nImport ListNotations. Open Scope Z_scope.",
            "sec_mode * Z * (Z*Z*Z*Z) * Z * Z * list (Z*Z)", elines,
            """  let '(m, cs, (block, plain, sig, rsig), maxbody, bodylen, chunks) := c in
  (go_SetMaximumBodySize cs block plain sig rsig =? maxbody) &&
  (fst (go_nrChunks bodylen maxbody) =? Z.of_nat (length chunks)) &&
  forallb (fun rs => secured_len m block plain sig rsig sym_hdr (seq_hdr + fst rs) =? snd rs) chunks""", name="Enc")
        wgood = [o for o in wired if not o.get("err")]
        okw, idxw, clogw = ctx.eval_cases(
            "From Coq Require Import ZArith List Bool.\nFrom Opcua Require Import Model.Layout Gen.ArithFromGo.\nImport ListNotations. Open Scope Z_scope.",
            "Z * Z", ["(%d, %d)" % (o["send"], o["maxbody"]) for o in wgood],
            """  let '(send, maxbody) := c in
  (go_SetMaximumBodySize send 1 1 0 0 =? maxbody) &&
  (secured_len ModeNone 1 1 0 0 sym_hdr (seq_hdr + maxbody) <=? send)""", name="Wired")
        if not okw:
            oke = False
            cloge = (cloge or "") + clogw
        elif idxw:
            corr_ok = False
            detail["wired_mismatches"] = [wgood[i] for i in idxw[:6]]
        if not oke:
            okc = False
            clog = (clog or "") + cloge
        elif idxe:
            corr_ok = False
            detail["encode_mismatches"] = [egood[i] for i in idxe[:6]]
        if not okc:
            corr_ok = False
            detail["cases"] = clog
        elif idx:
            corr_ok = False
            mism = [good[i] for i in idx[:10]]
            detail["model_vs_impl_mismatches"] = mism
    else:
        corr_ok = False

    distinct = {(o["policy"], o["mode"], o["cs"], o["body"]) for o in obs}
    ctx.coverage.update({
        "evaluations": len(obs) + len(encs) + len(wired),
        "wired_channel_ends": len(wired), "wired_asymmetric_ends": sum(1 for o in wired if not o.get("err") and o["send"] != o["recv"]), "distinct_nontrivial": len(distinct) + len({(o["policy"], o["mode"], o["cs"], o["bodylen"]) for o in encs}),
        "encode_chunks_cases": len(encs),
        "rule": "real uapolicy.Symmetric algorithms x allowed modes x chunk sizes (all residues mod 16 near 8192, 65535, 65536, 2^20 + %d seeded random sizes) x bodies {max, max+1, 0, random}; plus newMessage -> EncodeChunks -> signAndEncrypt for message bodies k*max+j (k=1..4, j=0..3): per-chunk body <= max, secured size <= chunk size, sizes vs the model; plus real client and server channels (policy None) opened and renewed on uacp connections with asymmetric HEL/ACK buffer sizes: each end's maximal body fits ITS send chunk size and equals the model at that size; distinct = distinct (policy, mode, chunk size, body size)" % n,
        "samples": obs[:3] + obs[-2:],
        "policies": sorted({o["policy"] for o in obs}),
        "chunk_sizes": len({o["cs"] for o in obs}),
        "traces_validated_against_impl": len(obs),
        "model_impl_mismatches": len(mism),
    })

    new = 0
    seen = set()
    import re
    for why, o in fails:
        key = "%s/%d/%s" % (o["policy"], o["mode"], re.sub(r"\d+", "N", why.split(":")[0])[:40].replace(" ", "_"))
        if key in seen:
            continue
        seen.add(key)
        if ctx.finding(key, why, {"observation": o, "how": "chunkharness c38: SetMaximumBodySize(cs) then signAndEncrypt of a body of that size"}):
            new += 1
    ctx.conclude(proof_ok, corr_ok, new, detail)
