"""C31 — node access levels are enforced for value reads and writes."""
import json, os
import vf
import server_common as sc

READ, WRITE = 1, 2
DENIED = 0x801F0000


def lacks(node, flag):
    """the statement's hypothesis evaluated on a dumped node: AccessLevel (17) or UserAccessLevel (18) present and not
    a uint8 with the bit"""
    for a in node.get("attrs") or []:
        if a["id"] in (17, 18):
            v = a["v"]["v"]
            if not (v["k"] == "u8" and v["n"] & flag):
                return True
    return False


def value_of(node):
    return (node["val"], json.dumps(node.get("valdv"), sort_keys=True))


def oracle(h):
    """the property itself on the implementation's observations of one history"""
    fails = []
    h.handles, h.notifs = {}, []
    nodes = {n["id"]["key"]: n for n in (h.init.get("nodes") or [])}
    for e in h.evs:
        ev, o = e["ev"], e["out"]
        after = {n["id"]["key"]: n for n in (e.get("nodes") or [])}
        if ev["kind"] == "read" and o["k"] == "read":
            for j, rv in enumerate(ev["reads"]):
                n = nodes.get(rv["node"]["key"])
                if n is None or rv["node"]["ns"] != n["id"]["ns"]:
                    continue
                if lacks(n, READ):
                    d = o["dvs"][j]
                    if d["s"] != DENIED or d["v"]["k"] != "nil":
                        fails.append(("read-not-denied", "attribute %d of %s read although the node lacks CurrentRead: %s" % (
                            rv["attr"], n["id"]["str"], json.dumps(d)), e))
        if ev["kind"] == "write" and o["k"] == "write":
            touched = set()
            for j, wv in enumerate(ev["writes"]):
                k = wv["node"]["key"]
                n = nodes.get(k)
                if n is None:
                    continue
                if k not in touched and lacks(n, WRITE) and o["sts"][j] != DENIED:
                    fails.append(("write-not-refused", "write of attribute %d of %s answered 0x%08x although the node lacks CurrentWrite" % (
                        wv["attr"], n["id"]["str"], o["sts"][j]), e))
                if o["sts"][j] == 0:
                    touched.add(k)
            for k, n in nodes.items():
                if lacks(n, WRITE) and k in after and value_of(after[k]) != value_of(n):
                    fails.append(("value-changed", "value of %s changed although the node lacks CurrentWrite" % n["id"]["str"], e))
        if ev["kind"] == "createitems" and o["k"] == "createitems":
            for hd, rv in zip(ev.get("handles") or [], ev.get("reads") or []):
                h.handles[hd] = rv
        if ev["kind"] == "publish" and o.get("notifs"):
            # data change notifications are reads too: the node's state is the one dumped after the previous request
            for nt in o["notifs"]:
                rv = h.handles.get(nt["handle"])
                n = nodes.get(rv["node"]["key"]) if rv else None
                if n is None:
                    continue
                h.notifs.append((n, list(nodes.values()), rv, nt["dv"], e))
                if lacks(n, READ) and (nt["dv"]["s"] != DENIED or nt["dv"]["v"]["k"] != "nil"):
                    fails.append(("notification-not-denied", "a data change notification for attribute %d of %s carries %s although the node lacks CurrentRead" % (
                        rv["attr"], n["id"]["str"], json.dumps(nt["dv"])), e))
        if ev["kind"] in ("read", "write") and o["k"] in ("timeout", "error", "dead"):
            fails.append(("no-answer", "the server did not answer a %s request (%s)" % (ev["kind"], o.get("err", o["k"])), e))
        if after:
            nodes = after
    return fails


def run(ctx):
    n = 1500 if ctx.thorough() else 150
    detail = {}
    proof_ok = sc.standard_proof_steps(ctx, ["server"], detail)

    runs = []      # (label, args)
    for f in sc.corpus_files("C31"):
        runs.append(("corpus:" + os.path.basename(f), ["replay", "-file", f]))
    if ctx.replay:
        runs = [("replay", ["replay", "-file", ctx.replay])]
    else:
        runs.append(("generated", ["hist", "-mode", "c31", "-seed", str(ctx.seed), "-n", str(n)]))

    hists, crashes = [], []
    for label, args in runs:
        res, err = sc.run_harness(ctx, args, timeout=1500)
        if res is None:
            ctx.broken_tie("harness does not build against /repo", err[-2000:])
            return
        rc, out = res
        hs, done = sc.parse(out)
        for h in hs:
            h.label = label
        hists += hs
        if not done:
            last = hs[-1] if hs else None
            crashes.append({"run": label, "rc": rc, "tail": out[-1500:], "request": last.pre["op"] if last is not None and last.pre else None,
                            "history": {"id": last.id, "nodes": last.init.get("nodes"), "ops": [x["ev"] for x in last.evs]} if last else None})

    # oracle
    new = 0
    seen = set()
    fails = []
    for h in hists:
        fails += [(k, w, e, h) for (k, w, e) in oracle(h)]
    for key, why, e, h in fails:
        if key in seen:
            continue
        seen.add(key)
        if ctx.finding(key, why, {"history": h.id, "run": h.label, "event": e["ev"], "outcome": e["out"], "nodes_before": h.init.get("nodes"),
                                  "how": "serverharness hist -mode c31 -seed %d (history %d): real client requests against the real server" % (ctx.seed, h.id)}):
            new += 1
    for c in crashes:
        if ctx.finding("server-died", "the server process died or the harness stopped during a read/write history", c):
            new += 1

    # correspondence
    corr_ok, bad = sc.correspondence(ctx, hists, detail)
    if crashes:
        corr_ok = False
    for h in bad[:3]:
        # a disagreement is reported with the history as replay (the oracle may not have flagged it)
        detail.setdefault("mismatch_histories", []).append({"hist": h.id, "events": [[x["ev"], x["out"]] for x in h.evs]})

    # correspondence for the notification path: what the subscriber was sent = Model read_one on the node's state
    notifs = [x for h in hists for x in getattr(h, "notifs", [])]
    nbad = []
    if notifs:
        nl = []
        for n, allnodes, rv, dv, e in notifs:
            nl.append("(Space %d [%s], %s, %d, %s)" % (max(2, rv["node"]["ns"] + 1), "; ".join(sc.node(x) for x in allnodes), sc.nid(rv["node"]), rv["attr"], sc.dval(dv)))
        okn, idxn, clogn = ctx.eval_cases(sc.IMPORTS, "space * nid * N * dval", nl,
                                          "  let '(sp, n, attr, d) := c in dval_eqb (snd (read_one sp (n, attr))) d", shard=200, name="NotifCases")
        if not okn:
            corr_ok = False
            detail["notif_cases"] = clogn[-1500:]
        elif idxn:
            corr_ok = False
            nbad = [notifs[i] for i in idxn]
            detail["notification_model_vs_impl_mismatches"] = [{"node": x[0]["id"]["str"], "attr": x[2]["attr"], "sent": x[3]} for x in nbad[:5]]

    reads = sum(len(e["ev"].get("reads") or []) for h in hists for e in h.evs if e["ev"]["kind"] == "read")
    writes = sum(len(e["ev"].get("writes") or []) for h in hists for e in h.evs if e["ev"]["kind"] == "write")
    combos = set()
    denied_r = denied_w = 0
    for h in hists:
        for nd in h.init.get("nodes") or []:
            lv = {a["id"]: (a["v"]["v"]["k"], a["v"]["v"].get("n", 0)) for a in nd.get("attrs") or [] if a["id"] in (17, 18)}
            combos.add((lv.get(17), lv.get(18), nd["val"]))
        for e in h.evs:
            if e["out"]["k"] == "read":
                denied_r += sum(1 for d in e["out"]["dvs"] if d["s"] == DENIED)
            if e["out"]["k"] == "write":
                denied_w += sum(1 for s in e["out"]["sts"] if s == DENIED)
    ctx.coverage.update({
        "evaluations": reads + writes, "distinct_nontrivial": len(combos),
        "rule": "histories of Read/Write requests by a real client (raw secure channel, activated session) against the real server; "
                "nodes carry generated AccessLevel x UserAccessLevel x value-function combinations (absent, uint8 0..255, uint32, int32, "
                "nil Variant, nil value); distinct = distinct (AccessLevel, UserAccessLevel, value kind) of the nodes used",
        "histories": len(hists), "read_elements": reads, "write_elements": writes,
        "denied_reads": denied_r, "denied_writes": denied_w,
        "notifications_checked": len(notifs), "notifications_denied": sum(1 for x in notifs if x[3]["s"] == DENIED),
        "notification_model_impl_mismatches": len(nbad),
        "samples": [{"node": h.init["nodes"][0], "first_event": h.evs[2]["ev"], "outcome": h.evs[2]["out"]} for h in hists[:3] if len(h.evs) > 2 and h.init.get("nodes")],
        "traces_validated_against_impl": len([h for h in hists if h.final is not None]),
        "model_impl_mismatches": len(bad),
        "oracle_failures": len(fails),
    })
    ctx.conclude(proof_ok, corr_ok, new, detail)
