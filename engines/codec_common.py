"""Shared machinery of engine E1 codec (C01, C02, C03): harness runs, Coq case generation, correspondence."""
import json, os
import vf

IMPORTS = """From Coq Require Import NArith ZArith List Bool.
From Coq.Strings Require Import Byte.
From Opcua Require Import Model.CodecTypes Model.Codec Model.CodecEq Gen.UaTypes.
Import ListNotations. Open Scope Z_scope.
Definition reg := mk_reg eo_table."""

CLASS = {"ok": 0, "err:eof": 1, "err": 2, "panic": 3, "killed": 9}


def hex2coq(h):
    return "[" + ";".join("x" + h[i:i + 2] for i in range(0, len(h), 2)) + "]"


def regen_and_props(ctx, detail):
    """Steps 1+2 of every codec check. Returns proof_ok."""
    proof_ok = True
    ok, out = ctx.regen(["uatypes"])
    if not ok:
        proof_ok = False
        detail["translator"] = out[-2000:]
        ctx.log("translator failed: " + out[-800:])
        return False
    r = ctx.props()
    if not r["ok"]:
        proof_ok = False
        detail["coq"] = r["failed_at"] or r["log"][-1500:]
    if ctx.thorough() and proof_ok:
        ok2, log = ctx.coqchk()
        if not ok2:
            proof_ok = False
            detail["coqchk"] = log[-1500:]
    return proof_ok


def build_model(ctx):
    """Make sure the model objects needed by Cases.v exist even if Props failed."""
    ok, log = vf.coq_make(["Model/CodecEq.vo", "Gen/UaTypes.vo"], timeout=900)
    return ok, log


def run_values(ctx, n, empty_eo=False, seed=None):
    h, log = ctx.go_build("codecharness")
    if h is None:
        return None, log
    cmd = [h, "-seed", str(seed if seed is not None else ctx.seed), "-n", str(n)]
    if empty_eo:
        cmd.append("-empty-eo")
    rc, out = vf.sh(cmd + ["values"], timeout=1200, env=vf.GOENV)
    obs = [json.loads(l) for l in out.splitlines() if l.startswith("{")]
    if rc != 0 or not obs:
        return None, out[-2000:]
    return obs, ""


def run_hostile(ctx, n, deep=0, cases_file=None, seed=None, timeout="10s", memkb=None):
    h, log = ctx.go_build("codecharness")
    if h is None:
        return None, log
    cmd = [h, "-seed", str(seed if seed is not None else ctx.seed), "-n", str(n), "-timeout", timeout]
    if memkb:
        cmd += ["-memkb", str(memkb)]
    if deep:
        cmd += ["-deep", str(deep)]
        if ctx.thorough():
            cmd += ["-deep-all"]
    if cases_file:
        cmd += ["-cases", cases_file]
    rc, out = vf.sh(cmd + ["hostile"], timeout=3000, env=vf.GOENV)
    obs = [json.loads(l) for l in out.splitlines() if l.startswith("{")]
    if rc != 0 or not obs:
        return None, out[-2000:]
    return obs, ""


VALUE_CTYPE = "ty * val * Z * bytes * Z * val * Z"
VALUE_AGREE = """  let '(t, v, ec, bs, dc, dv, csm) := c in
  match encode reg t v with
  | EOk b => (ec =? 0) && bytes_eqb b bs &&
      (match decode reg (fuel_for b) t b with
       | Ok v' rest _ => (dc =? 0) && val_eqb v' dv && (blen b - blen rest =? csm)
       | r => res_class r =? dc
       end)
  | r => eres_class r =? ec
  end"""


def value_line(o):
    ec = CLASS[o["enc"]]
    if o["enc"] != "ok":
        return "(%s, %s, %d, [], 0, VBool false, 0)" % (o["ty"], o["val"], ec)
    dc = CLASS[o["dec"]]
    if o["dec"] != "ok":
        return "(%s, %s, 0, %s, %d, VBool false, 0)" % (o["ty"], o["val"], hex2coq(o["hex"]), dc)
    return "(%s, %s, 0, %s, 0, %s, %d)" % (o["ty"], o["val"], hex2coq(o["hex"]), o["dval"], o["consumed"])


HOST_CTYPE = "ty * bytes * Z * val * Z * Z * bytes * N"
# the Go allocation (TotalAlloc delta around Decode) must be covered by the model's accounting (an upper bound on the
# implementation by the model: memory the model does not account, e.g. a length prefix allocated before its bounds check, is a
# mismatch); this validates the constants of `al` from below
HOST_AGREE = """  let '(t, bs, cls, dv, csm, re, bs2, goal) := c in
  let r := decode reg (fuel_for bs) t bs in
  (N.leb goal (3 * res_alloc r + 256 * N.of_nat (length bs) + 524288)) &&
  match r with
  | Ok v rest _ => (cls =? 0) && val_eqb v dv && (blen bs - blen rest =? csm) &&
      (match encode reg t v with
       | EOk b2 => (re =? 0) && bytes_eqb b2 bs2
       | e => eres_class e =? re
       end)
  | r => res_class r =? cls
  end"""


def host_line(o):
    cls = CLASS[o["out"]]
    if o["out"] != "ok":
        return "(%s, %s, %d, VBool false, 0, 0, [], %d%%N)" % (o["ty"], hex2coq(o["hex"]), cls, o.get("alloc", 0))
    re = CLASS[o["re"]]
    return "(%s, %s, 0, %s, %d, %d, %s, %d%%N)" % (o["ty"], hex2coq(o["hex"]), o["val"], o["consumed"], re,
                                                 hex2coq(o.get("hex2", "")) if o["re"] == "ok" else "[]", o.get("alloc", 0))


def model_evaluable(o):
    """cases the model is evaluated on: the child survived, input and re-encoding small enough to be recorded"""
    if o["out"] == "killed" or "hex" not in o:
        return False
    if o["out"] == "ok" and ("val" not in o or (o["re"] == "ok" and "hex2" not in o)):
        return False
    return True


def correspond_values(ctx, obs, name="ValCases", imports=None):
    lines = [value_line(o) for o in obs]
    okc, idx, clog = ctx.eval_cases(imports or IMPORTS, VALUE_CTYPE, lines, VALUE_AGREE, shard=80, name=name)
    return okc, idx, clog


def correspond_hostile(ctx, obs, name="HostCases"):
    good = [o for o in obs if model_evaluable(o)]
    lines = [host_line(o) for o in good]
    okc, idx, clog = ctx.eval_cases(IMPORTS, HOST_CTYPE, lines, HOST_AGREE, shard=80, name=name)
    return okc, [good[i] for i in idx], clog, len(good)


def shape_key(o):
    """a coarse signature of a case for the distinct-nontrivial count"""
    return (o["ty"], o.get("src", ""), o.get("out", o.get("enc")), len(o.get("hex", "")) // 8)
