"""C16 — token renewal keeps the channel usable."""
import json
import vf
import C11 as c11

IMPORTS = ("From Coq Require Import ZArith List Bool.\n"
           "From Opcua Require Import Gen.ArithFromGo Gen.SendSide Model.ChannelSched.\n"
           "Import ListNotations. Open Scope Z_scope.")
# kind 0: (lifetime, delay) ; kind 1: schedule on a signed channel + whether every request completed
CTYPE = "Z * (Z * Z) * (Z * Z * list ev * bool)"
AGREE = ("  let '(k, (l, d), (seq0, req0, evs, all_ok)) := c in\n"
         "  if k =? 0 then go_renewalDelay l =? d\n"
         "  else if k =? 2 then go_tokenLifetime seq0 req0 =? l\n"
         "  else match run evs (init seq0 req0) with\n"
         "       | Some s => Bool.eqb (tokens_monotone_rev (wire_rev s)) all_ok\n"
         "       | None => false end")
SLACK_MS = 120.0


def run(ctx):
    n = 2000 if ctx.thorough() else 150
    proof_ok, detail = True, {}
    if ctx.replay:
        # a replay file names the seed and the scenario; all scenarios are deterministic functions of the seed
        try:
            rp = json.load(open(ctx.replay))
            ctx.seed = int(rp.get("seed", ctx.seed))
            ctx.log("replaying %s: %s" % (ctx.replay, rp.get("how") or rp.get("broken")))
        except Exception as e:
            ctx.log("cannot read replay file: %s" % e)
    ok, out = ctx.regen(["arith", "sendside"])
    if not ok:
        proof_ok = False
        detail["translator"] = out[-2000:]
        ctx.log("translator failed: " + out[-600:])
    r = ctx.props() if ok else None
    if r is not None and not r["ok"]:
        proof_ok = False
        detail["coq"] = r["failed_at"] or r["log"][-1500:]
    if ctx.thorough() and proof_ok:
        ok2, log = ctx.coqchk()
        if not ok2:
            proof_ok = False
            detail["coqchk"] = log[-1500:]

    h, log = ctx.go_build("schedharness")
    if h is None:
        ctx.broken_tie("harness does not build against /repo", log[-2000:])
        return
    rc, out = vf.sh([h, "-seed", str(ctx.seed), "-n", str(n), "c16", "all"], timeout=1500, env=vf.GOENV)
    lines = [json.loads(l) for l in out.splitlines() if l.startswith("{")]
    if rc != 0 or not lines:
        ctx.broken_tie("harness crashed", out[-2000:])
        return
    delays = [l for l in lines if l.get("kind") == "delay"]
    lives = [l for l in lines if l.get("kind") == "live"]
    signs = [l for l in lines if l.get("kind") == "case" and l.get("wire") is not None]
    inconclusive = [l for l in lines if l.get("kind") == "case" and l.get("wire") is None]
    errors = [l for l in lines if l.get("kind") == "error"]
    pendings = [l for l in lines if l.get("kind") == "pending"]

    new, seen = 0, set()

    def report(key, why, obj, how):
        nonlocal new
        if key in seen:
            return
        seen.add(key)
        if ctx.finding(key, why, dict(obj, how=how)):
            new += 1

    # oracle (1): the renewal instant of the real code
    for d in delays:
        L, w = d["lifetime_ns"], d["delay_ns"]
        if L >= 8 and not (L <= 2 * w and w < L):
            early = 2 * w < L
            report("renewal-before-half-lifetime" if early else "renewal-not-before-expiry",
                   "lifetime %d ns is renewed after %d ns (%s)" % (L, w, "less than half of the lifetime" if early else "not before it expires"),
                   {"observation": d}, "uasc.VerifRenewalDelay(%d) (schedharness c16 delays)" % L)
    # oracle (2): live renewals
    for lv in lives:
        if lv.get("token_lifetime_ns") is not None and lv["token_lifetime_ns"] != 1000000 * min(lv["requested_ms"], lv["revised_ms"]):
            report("token-lifetime-not-min-of-requested-and-granted",
                   "requested %d ms, server granted %d ms: the client uses a token lifetime of %.0f ms" % (lv["requested_ms"], lv["revised_ms"], lv["token_lifetime_ns"] / 1e6),
                   {"observation": lv}, "schedharness c16 revise (scripted server revising the lifetime)")
        L = float(lv["lifetime_ms"])
        t = lv["opn_at_ms"]
        gaps = [t[i + 1] - t[i] for i in range(len(t) - 1)]
        stall = lv.get("stall_ms", 0.0)
        overloaded = stall > 40.0   # the harness process itself was not scheduled for that long: upper bounds are meaningless
        for g in gaps:
            if g < L / 2:
                report("renewal-before-half-lifetime", "lifetime %.0f ms: two OpenSecureChannel requests only %.1f ms apart" % (L, g),
                       {"observation": lv}, "schedharness c16 live")
            if g >= L + SLACK_MS and not overloaded:
                report("renewal-not-before-expiry", "lifetime %.0f ms: next OpenSecureChannel request only after %.1f ms" % (L, g),
                       {"observation": lv}, "schedharness c16 live")
        if lv["duration_ms"] > 1.2 * L and len(t) < 2 and not overloaded:
            report("token-not-renewed", "lifetime %.0f ms: no renewal within %.0f ms" % (L, lv["duration_ms"]), {"observation": lv}, "schedharness c16 live")
        if lv["failed"] and not overloaded:
            report("request-failed-around-renewal", "%d of %d requests issued while tokens were renewed failed: %s" % (lv["failed"], lv["requests"], lv["errors"]),
                   {"observation": lv}, "schedharness c16 live")
    # oracle (2b): a request that fails early must not leave the channel counting it as pending
    for pd in pendings:
        how = "schedharness c16 pending (request with a context that is already done, then Renew, then a request)"
        if not pd["renew_done"]:
            report("renewal-never-completes-after-failed-request", "after a request with an already cancelled context (result: %s) a token renewal did not complete within %.0f ms" % (
                pd["first_request_result"], pd["renew_ms"]), {"observation": pd}, how)
        if not pd["request_done"]:
            report("request-hangs-behind-stuck-renewal", "a request with a timeout of %d ms issued after that renewal did not return within %.0f ms" % (
                pd["request_timeout_ms"], pd["request_ms"]), {"observation": pd}, how)
        elif pd["request_result"]:
            report("request-failed-around-renewal", "the request issued after the renewal failed: %s" % pd["request_result"], {"observation": pd}, how)
        w = [x[0] for x in pd.get("wire") or []]
        if any(w[i + 1] != c11.next_seq(w[i]) for i in range(len(w) - 1)):
            report("sequence-numbers-not-consecutive", "wire %s" % w, {"observation": pd}, how)
    # oracle (3): requests around a renewal on a signed channel
    for c in signs:
        bad = {k: v for k, v in c["results"].items() if v != "ok"}
        if bad or c.get("server_errors"):
            report("request-failed-around-renewal",
                   "requests %s failed around a renewal; server: %s" % (bad, c.get("server_errors")),
                   {"case": c}, "schedharness c16 signwindow (scenario %s)" % c["scenario"])
        for key, why in c11.oracle(c):
            report(key, why, {"case": c}, "schedharness c16 signwindow (scenario %s)" % c["scenario"])
    for e in errors[:2]:
        report("scenario-aborted", "scenario %s aborted: %s" % (e["scenario"], e["err"]), {"error": e}, "schedharness c16 all")

    corr_ok, mism = True, []
    if ok:
        terms = ["(0, (%d, %d), (0, 0, [], true))" % (d["lifetime_ns"], d["delay_ns"]) for d in delays]
        for c in signs:
            all_ok = all(v == "ok" for v in c["results"].values()) and not c.get("server_errors")
            terms.append("(1, (0, 0), (%d, %d, [%s], %s))" % (c["seq0"], c["req0"], "; ".join(c11.ev(e) for e in c["events"]), c11.b(all_ok)))
        # kind 2: (requested, revised) -> token lifetime the client really uses (fields reused: seq0 = requested, req0 = revised)
        lsel = [lv for lv in lives if lv.get("token_lifetime_ns") is not None]
        for lv in lsel:
            terms.append("(2, (%d, 0), (%d, %d, [], true))" % (lv["token_lifetime_ns"], lv["requested_ms"], lv["revised_ms"]))
        okc, idx, clog = ctx.eval_cases(IMPORTS, CTYPE, terms, AGREE, shard=800)
        if not okc:
            corr_ok = False
            detail["cases"] = clog[-1500:]
        elif idx:
            corr_ok = False
            allc = delays + signs + lsel
            mism = [allc[i] for i in idx[:5]]
            detail["model_vs_impl_mismatches"] = mism
            if new == 0:
                report("model-mismatch", "the implementation differs from the model (renewal delay or acceptance of a request around a renewal)",
                       {"case": mism[0]}, "schedharness c16 all")
    else:
        corr_ok = False

    gaps_all = {str(lv["lifetime_ms"]): [round(lv["opn_at_ms"][i + 1] - lv["opn_at_ms"][i], 1) for i in range(len(lv["opn_at_ms"]) - 1)] for lv in lives}
    ctx.coverage.update({
        "evaluations": len(delays) + len(signs) + len(lives) + len(pendings),
        "distinct_nontrivial": len({d["lifetime_ns"] for d in delays}) + len(signs) + len(lives),
        "rule": "renewal delay of the real code (uasc.renewalDelay via hook) for boundary lifetimes (1 ms .. 2^32-1 ms, the old truncation boundaries 1.333 s / 2 s / 2.667 s / 4 s, odd nanosecond values) + seeded random lifetimes, compared with go_renewalDelay inside Coq; live channels with lifetimes 400 ms and 1000 ms renewing for 1.9 s under a continuous request load, and with the server's clock 500 ms ahead / 400 ms behind (createdAt shifted, lifetime 1000 ms), a request with an already cancelled context followed by a renewal and a request; and behind a server that revises the requested lifetime down (60 s -> 1 s) and up (1 s -> 4 s); the former renewal-window schedule (the renewal is now held back) and a renewal between two requests forced on a Basic256Sha256/Sign channel",
        "samples": delays[:2] + [{"live": lv["lifetime_ms"], "opn_at_ms": lv["opn_at_ms"]} for lv in lives] + [{"scenario": c["scenario"], "results": c["results"], "server_errors": c.get("server_errors")} for c in signs],
        "renewal_gaps_ms": gaps_all,
        "inconclusive": len(inconclusive),
        "live_runs_overloaded": [lv["lifetime_ms"] for lv in lives if lv.get("stall_ms", 0.0) > 40.0],
        "max_scheduling_stall_ms": max([lv.get("stall_ms", 0.0) for lv in lives] or [0.0]),
        "requests_during_live_renewals": sum(lv["requests"] for lv in lives),
        "traces_validated_against_impl": len(delays) + len(signs), "model_impl_mismatches": len(mism),
    })
    ctx.notes.append("level: the renewal instant is proved for the translated formula (full); timers and wall-clock are observed, not proved; requests around a renewal: full on the model, tied by forced schedules")
    ctx.conclude(proof_ok, corr_ok, new, detail)
