"""C33 — Browse returns exactly the matching references."""
import json, os
import vf
import server_common as sc

HAS_SUBTYPE = 45


def closure(space, start_key, start_ns, ns_count, memo):
    """keys of the proper subtypes of a reference type: targets reachable over forward HasSubtype references"""
    if (start_ns, start_key) in memo:
        return memo[(start_ns, start_key)]
    seen, todo = set(), [(start_ns, start_key)]
    visited = set()
    while todo:
        ns, k = todo.pop()
        if (ns, k) in visited:
            continue
        visited.add((ns, k))
        n = space.get(k) if ns < ns_count else None
        if n is None or n["id"]["ns"] != ns:
            continue
        for r in n.get("refs") or []:
            if r["type"] == HAS_SUBTYPE and r["fwd"] and r["target"] is not None:
                seen.add(r["target"]["key"])
                todo.append((r["target"]["ns"], r["target"]["key"]))
    memo[(start_ns, start_key)] = seen
    return seen


def spec_refs(space, ns_count, bd, memo):
    """the statement of the property evaluated on the dumped address space: (status, multiset of references)"""
    if bd["node"]["ns"] >= ns_count:
        return None, []
    n = space.get(bd["node"]["key"])
    if n is None:
        return None, []
    want = []
    for r in n.get("refs") or []:
        if r["target"] is None or not r["named"]:
            continue          # cannot be encoded, Browse skips them
        d = bd["dir"]
        if not (d == 2 or (d == 0 and r["fwd"]) or (d == 1 and not r["fwd"])):
            continue
        rt = bd["reftype"]
        if rt["key"] != 0 and r["type"] != rt["key"]:
            if not bd["subtypes"]:
                continue
            if r["type"] not in closure(space, rt["key"], rt["ns"], ns_count, memo):
                continue
        if bd["mask"] > 0 and (bd["mask"] & r["class"]) == 0:
            continue
        want.append((r["type"], r["fwd"], r["target"]["key"], r["class"]))
    return 0, want


def run(ctx):
    n = 200 if ctx.thorough() else 14
    detail = {}
    proof_ok = sc.standard_proof_steps(ctx, ["server", "serverspace"], detail)

    runs = [("corpus:" + os.path.basename(f), ["replay", "-file", f]) for f in sc.corpus_files("C33")]
    if ctx.replay:
        runs = [("replay", ["replay", "-file", ctx.replay])]
    else:
        runs.append(("generated", ["hist", "-mode", "c33", "-seed", str(ctx.seed), "-n", str(n)]))
    hists, crashes, std = [], [], None
    for label, args in runs:
        res, err = sc.run_harness(ctx, args, timeout=1500)
        if res is None:
            ctx.broken_tie("harness does not build against /repo", err[-2000:])
            return
        rc, out = res
        for ln in out.splitlines():
            if ln.startswith('{"nodes":') or '"t":"space"' in ln[-40:]:
                try:
                    o = json.loads(ln)
                    if o.get("t") == "space":
                        std = {x["id"]["key"]: x for x in o["nodes"]}
                except Exception:
                    pass
        hs, done = sc.parse(out)
        for h in hs:
            h.label = label
        hists += hs
        if not done:
            last = hs[-1] if hs else None
            crashes.append({"run": label, "rc": rc, "tail": out[-1200:], "request": last.pre["op"] if last is not None and last.pre else None})

    # oracle: the specification on the dumped address space vs the server's answers
    new, fails, seen = 0, [], set()
    nbrowse, nonempty, shapes = 0, 0, set()
    nmap, map_cases = 0, []
    for h in hists:
        space = dict(std or {})
        for nd in h.init.get("nodes") or []:
            space[nd["id"]["key"]] = nd
        memo = {}
        for e in h.evs:
            if e["ev"]["kind"] != "browse":
                continue
            if e["ev"].get("mapns") and e["out"]["k"] == "browse":
                # MapNamespace: the references are made up from the keys; the description must still be honoured
                mp = h.init.get("map") or {}
                for bd, ni, res in zip(e["ev"]["browses"], e["ev"]["node_ints"], e["out"]["browse"]):
                    nmap += 1
                    made = []
                    if ni == 84:
                        made = [{"type": 35, "fwd": True, "target": mp["objects"], "class": 1, "named": True}]
                    elif ni == 85:
                        made = [{"type": 47, "fwd": True, "target": k, "class": 2, "named": True} for k in mp["keys"]]
                    fake = {"id": bd["node"], "refs": made}
                    sp2 = dict(space)
                    sp2[bd["node"]["key"]] = fake
                    st, want = spec_refs(sp2, h.init["ns_count"], bd, memo)
                    got = [(r["type"], r["fwd"], r["target"], r["class"]) for r in res["refs"]]
                    map_cases.append((h, mp, bd, ni, res))
                    if res["st"] != 0 or sorted(got) != sorted(want):
                        extra = [x for x in got if x not in want]
                        fails.append(("mapns-description-ignored" if extra else "mapns-missing-references",
                                      "Browse of %s in the map namespace (dir %d, type %s, subtypes %s, mask %d): %d unexpected, %d missing; e.g. %s" % (
                                          bd["node"]["str"], bd["dir"], bd["reftype"]["str"], bd["subtypes"], bd["mask"], len(extra),
                                          len([x for x in want if x not in got]), json.dumps((extra or want)[:2])), e, h))
                continue
            if e["out"]["k"] != "browse":
                fails.append(("no-answer", "Browse was not answered: %s" % json.dumps(e["out"])[:200], e, h))
                continue
            for bd, res in zip(e["ev"]["browses"], e["out"]["browse"]):
                nbrowse += 1
                if std is None and bd["node"]["ns"] == 0:
                    continue
                st, want = spec_refs(space, h.init["ns_count"], bd, memo)
                got = [(r["type"], r["fwd"], r["target"], r["class"]) for r in res["refs"]]
                shapes.add((bd["dir"], bd["reftype"]["key"], bd["subtypes"], bd["mask"] > 0, bool(got)))
                if got:
                    nonempty += 1
                if st is None:
                    if res["st"] == 0 or got:
                        fails.append(("unknown-node-answered", "Browse of an unknown node returned status 0x%08x with %d references" % (res["st"], len(got)), e, h))
                    continue
                if res["st"] != 0:
                    fails.append(("bad-status", "Browse of %s answered 0x%08x" % (bd["node"]["str"], res["st"]), e, h))
                elif sorted(got) != sorted(want):
                    extra = [x for x in got if x not in want]
                    missing = [x for x in want if x not in got]
                    tag = "subtypes-ignored" if (extra and not bd["subtypes"]) else ("extra-references" if extra else "missing-references")
                    fails.append((tag, "Browse of %s (dir %d, type %s, subtypes %s, mask %d): %d unexpected, %d missing references; e.g. %s" % (
                        bd["node"]["str"], bd["dir"], bd["reftype"]["str"], bd["subtypes"], bd["mask"], len(extra), len(missing),
                        json.dumps((extra or missing)[:2])), e, h))
    for key, why, e, h in fails:
        if key in seen:
            continue
        seen.add(key)
        if ctx.finding(key, why, {"history": h.id, "run": h.label, "event": e["ev"], "outcome": e["out"],
                                  "how": "serverharness hist -mode c33 -seed %d (history %d); replay: a file with this history for `serverharness replay`" % (ctx.seed, h.id),
                                  "replay_history": [{"id": h.id, "mode": "c33", "nodes": h.init.get("nodes"), "ops": [
                                      {"kind": "createsession", "ch": 0, "tok": "null"}, {"kind": "activate", "ch": 0, "tok": "s0"},
                                      {"kind": "browse", "ch": 0, "tok": "s0", "browses": e["ev"].get("browses")}]}]}):
            new += 1
    for c in crashes:
        if ctx.finding("server-died", "the server process died or stopped answering during a browse history", c):
            new += 1

    # correspondence: model over (generated nodes ++ Gen.ServerStdSpace.g_std_nodes)
    for h in hists:
        nodes = "; ".join(sc.node(x) for x in (h.init.get("nodes") or []))
        h.space = "Space %d ([%s] ++ g_std_nodes)" % (h.init["ns_count"], nodes)
    orig = sc.case_term
    sc.case_term = lambda h, extra_space=None, with_nodes=True: orig(h, h.space, False)
    try:
        corr_ok, bad = sc.correspondence(ctx, hists, detail, extra_imports="\nFrom Opcua Require Import Gen.ServerStdSpace.", shard=2)
    finally:
        sc.case_term = orig
    if crashes:
        corr_ok = False

    # correspondence for the map namespace: Model.ServerBrowse.map_browse on the same descriptions (multiset of references)
    map_bad = []
    if map_cases:
        lines = []
        for h, mp, bd, ni, res in map_cases:
            nodes = "; ".join(sc.node(x) for x in (h.init.get("nodes") or []))
            refs = "; ".join(sc.rdesc(r) for r in sorted(res["refs"], key=lambda r: (r["type"], r["target"])))
            lines.append("(Space %d ([%s] ++ g_std_nodes), (%d, %d, [%s], %d), BD %s %d %s %s %d, (%d, [%s]))" % (
                h.init["ns_count"], nodes, mp["ns"], mp["objects"]["key"], "; ".join(str(k["key"]) for k in sorted(mp["keys"], key=lambda k: k["key"])), ni,
                sc.nid(bd["node"]), bd["dir"], sc.nid(bd["reftype"]), sc.b(bd["subtypes"]), bd["mask"], res["st"], refs))
        okm, idxm, clogm = ctx.eval_cases(
            sc.IMPORTS + "\nFrom Opcua Require Import Gen.ServerStdSpace.",
            "space * (N * key * list key * N) * bdesc * (N * list rdesc)", lines,
            """  let '(sp, (ns, objects, keys, node_int), bd, (st, refs)) := c in
  match map_browse FUEL sp ns objects keys node_int bd with
  | Ok (st', refs') => (st =? st') && (Nat.eqb (length refs) (length refs')) &&
                       forallb (fun r => existsb (fun r' => if rdesc_eq_dec r r' then true else false) refs') refs
  | _ => false
  end""", shard=60, name="MapCases")
        if not okm:
            corr_ok = False
            detail["map_cases"] = clogm[-1500:]
        elif idxm:
            corr_ok = False
            map_bad = [map_cases[i] for i in idxm]
            detail["map_model_vs_impl_mismatches"] = [{"browse": c[2], "node_int": c[3], "result": c[4]} for c in map_bad[:5]]

    ctx.coverage.update({
        "evaluations": nbrowse, "distinct_nontrivial": len(shapes),
        "rule": "Browse requests by a real client against the real server: nodes of the standard nodeset and generated nodes x direction "
                "(forward, inverse, both, invalid) x reference type (abstract supertypes, leaves, unknown, i=0) x IncludeSubtypes x class mask; "
                "distinct = distinct (direction, reference type, subtypes, mask used, result non-empty)",
        "histories": len(hists), "browse_descriptions": nbrowse, "non_empty_results": nonempty,
        "std_nodes_in_oracle": len(std or {}), "map_namespace_descriptions": nmap, "map_model_impl_mismatches": len(map_bad),
        "samples": [{"browse": e["ev"]["browses"][0], "refs_returned": len(e["out"]["browse"][0]["refs"])}
                    for h in hists[:3] for e in h.evs[2:4] if e["out"]["k"] == "browse"],
        "traces_validated_against_impl": len([h for h in hists if h.final is not None]),
        "model_impl_mismatches": len(bad), "oracle_failures": len(fails),
    })
    ctx.conclude(proof_ok, corr_ok, new, detail)
