"""MANIFEST.setup_cmd: build the Go harness, regenerate coq/Gen, build the whole Coq library (full .vo)."""
import os, sys, time
import vf

ALL_GENS = ["all"]


def main():
    t0 = time.time()
    os.makedirs(vf.BIN, exist_ok=True)
    rc = 0
    cmds = sorted(d for d in os.listdir(os.path.join(vf.GO, "cmd")) if os.path.isdir(os.path.join(vf.GO, "cmd", d)))
    for c in cmds:
        p, log = vf.go_build(c)
        print("go build", c, "ok" if p else "FAILED")
        if p is None:
            print(log[-3000:])
            rc = 1
    tr = os.path.join(vf.BIN, "translate")
    if os.path.exists(tr):
        os.makedirs(os.path.join(vf.COQ, "Gen"), exist_ok=True)
        r, out = vf.sh([tr, "-repo", vf.REPO, "-out", os.path.join(vf.COQ, "Gen")] + ALL_GENS, timeout=900, env=vf.GOENV)
        print("translate rc=%d %s" % (r, out[-2000:]))
        if r != 0:
            rc = 1
    ok, log = vf.coq_make([], timeout=3400)
    print(log[-3000:])
    if not ok:
        rc = 1
    r, out = vf.sh([os.path.join(vf.VERIF, "tools", "hygiene.sh")], timeout=300)
    print(out[-1500:])
    if r != 0:
        rc = 1
    print("setup done in %.1fs rc=%d" % (time.time() - t0, rc))
    return rc
