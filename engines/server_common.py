"""Shared machinery of the E8 (server) checks C29-C33, C35: run go/cmd/serverharness, turn its observations into Coq
terms over Model/Server*.v and evaluate the model on the same histories inside Coq (ctx.eval_cases)."""
import json, os, re
import vf

IMPORTS = """From Coq Require Import NArith ZArith Bool List.
From Opcua Require Import Model.ServerSpace Model.ServerBrowse Model.Server Model.ServerDec.
Import ListNotations. Open Scope N_scope."""

ST = {"BadServiceUnsupported": 0x800B0000, "BadSessionIDInvalid": 0x80250000, "BadSessionNotActivated": 0x80270000,
      "BadUserAccessDenied": 0x801F0000, "BadNodeIDUnknown": 0x80340000, "Bad": 0x80000000,
      "BadSubscriptionIDInvalid": 0x80280000, "BadMonitoredItemIDInvalid": 0x80420000, "BadUnexpectedError": 0x80010000}


def b(x):
    return "true" if x else "false"


def tokkey(s):
    """key of a token / node id string as the harness numbers them (only "i=N" strings appear for tokens)"""
    m = re.fullmatch(r"i=(\d+)", s)
    if m:
        return int(m.group(1))
    raise ValueError("non-numeric token " + s)


def vnt(j):
    k = j["k"]
    n = j.get("n", 0)
    if k == "nil":
        return "VNil"
    if k == "null":
        return "VNull"
    if k == "u8":
        return "(VU8 %d)" % n
    if k == "u32":
        return "(VU32 %d)" % n
    if k == "i32":
        return "(VI32 (%d)%%Z)" % n
    if k == "nid":
        return "(VNodeId %d)" % n
    if k == "xid":
        return "(VExpId %d)" % n
    return "(VOther %d %d)" % (n, max(0, j.get("p", 0)))


def dval(j):
    return "(DV %s %d)" % (vnt(j["v"]), j["s"])


def nid(j):
    return "(%d, %d)" % (j["ns"], j["key"])


def ref(j):
    ty = "None" if j["type"] is None else "(Some %d)" % j["type"]
    tg = "None" if j["target"] is None else "(Some %s)" % nid(j["target"])
    return "Ref %s %d %s %s %d %s" % (ty, j["tint"], b(j["fwd"]), tg, j["class"], b(j["named"]))


def node(j):
    attrs = "; ".join("(%d, %s)" % (a["id"], dval(a["v"])) for a in (j.get("attrs") or []))
    refs = "; ".join(ref(r) for r in (j.get("refs") or []))
    v = {"none": "None", "nil": "(Some None)"}.get(j["val"]) or "(Some (Some %s))" % dval(j["valdv"])
    return "(%d, Node [%s] [%s] %s)" % (j["id"]["key"], attrs, refs, v)


def ival(j):
    return {"nan": "INaN", "ninf": "INegInf", "pinf": "IPosInf"}.get(j["k"]) or "(IFin (%d)%%Z)" % j["u"]


def nlist(xs):
    return "[" + "; ".join(str(x) for x in xs) + "]"


def event(ev):
    k = ev["kind"]
    if k == "read":
        r = "RRead [%s]" % "; ".join("(%s, %d)" % (nid(x["node"]), x["attr"]) for x in ev["reads"])
    elif k == "write":
        r = "RWrite [%s]" % "; ".join("(%s, %d, %s)" % (nid(x["node"]), x["attr"], dval(x["val"])) for x in ev["writes"])
    elif k == "browse":
        r = "RBrowse [%s]" % "; ".join("BD %s %d %s %s %d" % (nid(x["node"]), x["dir"], nid(x["reftype"]), b(x["subtypes"]), x["mask"])
                                       for x in ev["browses"])
    elif k == "createsession":
        r = "RCreateSession %d %s" % (ev["fresh"], b(ev["crypto_ok"]))
    elif k == "activate":
        r = "RActivate %s" % b(ev["sig_ok"])
    elif k == "closesession":
        r = "RCloseSession"
    elif k == "createsub":
        r = "RCreateSub %s" % ival(ev["interval"])
    elif k == "deletesubs":
        r = "RDeleteSubs %s" % nlist(ev["ids"])
    elif k == "createitems":
        r = "RCreateItems %d [%s]" % (ev["sub"], "; ".join("(%s, %d)" % (nid(x["node"]), x["attr"]) for x in (ev.get("reads") or [])))
    elif k == "deleteitems":
        r = "RDeleteItems %s" % nlist(ev["ids"])
    elif k == "setmode":
        r = "RSetMode %s %d" % (nlist(ev["ids"]), ev["mode"])
    elif k == "publish":
        r = "RPublish"
    elif k == "svc":
        r = "RSvc %d %s" % (ev["svc"], b(ev["registered"]))
    else:
        raise ValueError(k)
    return "EReq %d %d (%s)" % (ev["ch"], ev["tok"], r)


def rdesc(j):
    td = "None" if j["typedef"] is None else "(Some %d)" % j["typedef"]
    return "RD %d %s %d %d %s" % (j["type"], b(j["fwd"]), j["target"], j["class"], td)


def outcome(ev, o):
    k = o["k"]
    if k == "fault":
        if ev["kind"] == "svc" and ev.get("registered") and o["st"] == ST["BadServiceUnsupported"]:
            return "OOther"     # a handler that answers with a BadServiceUnsupported fault of its own
        return "OFault %d" % o["st"]
    if k == "read":
        return "ORead [%s]" % "; ".join(dval(d) for d in o.get("dvs") or [])
    if k == "write":
        return "OWrite %s" % nlist(o.get("sts") or [])
    if k == "browse":
        return "OBrowse [%s]" % "; ".join("(%d, [%s])" % (x["st"], "; ".join(rdesc(r) for r in x["refs"])) for x in o.get("browse") or [])
    if k == "createsession":
        return "OCreateSession %d" % o["tok"]
    if k == "activate":
        return "OActivate"
    if k == "close":
        return "OClose"
    if k == "createsub":
        return "OCreateSub %d (%d)%%Z" % (o["id"], o.get("revised", 0))
    if k == "deletesubs":
        return "ODeleteSubs %s" % nlist(o.get("sts") or [])
    if k == "createitems":
        return "OCreateItems %s" % nlist(o.get("ids") or [])
    if k == "deleteitems":
        return "ODeleteItems %s" % nlist(o.get("sts") or [])
    if k == "setmode":
        return "OSetMode %s" % nlist(o.get("sts") or [])
    if k == "publishqueued":
        return "OPublishQueued"
    if k == "publishnosession":
        return "OPublishNoSession"
    if k == "findservers":
        return "OFindServers %d" % o.get("n", 0)
    if k == "other":
        return "OOther"
    return "OPanic 999"     # timeout / transport error / dead server: never what the model of the fixed code says


def tables_terms(t):
    sess = "[%s]" % "; ".join("(%d, %s)" % (tokkey(s["Token"]), b(s["Activated"])) for s in (t.get("sessions") or []))
    subs = "[%s]" % "; ".join("(%d, (%s, (%d)%%Z))" % (s["ID"], "None" if not s["Owner"] else "Some %d" % tokkey(s["Owner"]),
                                                       round(s["Interval"] * 1000)) for s in (t.get("subs") or []))
    items = "[%s]" % "; ".join("(%d, (%d, %s, %d, %d, %d))" % (i["id"], i["sub"], "Some %d" % i["owner"] if i["has_owner"] else "None",
                                                             i["node"]["key"], i["attr"], i["mode"]) for i in (t.get("items") or []))
    return sess, subs, t.get("last_sub", 0), items, t.get("item_ctr", 0)


class Hist:
    def __init__(self, init):
        self.init = init
        self.id = init["hist"]
        self.evs = []       # (ev, out, internal, tables)
        self.final = None
        self.pre = None     # last "pre" line without a matching "ev": the request during which the harness died
        self.ops = []       # the ops as generated (input format of `serverharness replay`)


def parse(out):
    """harness stdout -> list of Hist, plus the line kinds seen"""
    hists, cur, done = [], None, False
    for ln in out.splitlines():
        if not ln.startswith("{"):
            continue
        try:
            o = json.loads(ln)
        except Exception:
            continue
        t = o.get("t")
        if t == "init":
            cur = Hist(o)
            hists.append(cur)
        elif t == "pre" and cur is not None:
            cur.pre = o
            cur.ops.append(o["op"])
        elif t == "ev" and cur is not None:
            cur.evs.append(o)
            cur.pre = None
        elif t == "final" and cur is not None:
            cur.final = o
        elif t == "done":
            done = True
    return hists, done


CASE_TYPE = "srv * list event * list outcome * (list (N * bool) * list (N * (option N * Z)) * N * list (N * (N * option N * N * N * N)) * N) * list (key * node)"

AGREE = """  let '(s0, evs, outs, (sess, subs, lastsub, items, ctr), fnodes) := c in
  let '(s, os) := run_out FUEL s0 evs in
  match first_diff os outs 0 with
  | Some _ => false
  | None => sessions_agree s sess && subs_agree s subs lastsub && items_agree s items ctr && nodes_agree (sv_space s) fnodes
  end"""


def init_srv(h, extra_space=None):
    t = h.init["tables"]
    nodes = "; ".join(node(n) for n in (h.init.get("nodes") or []))
    space = extra_space or ("Space %d [%s]" % (h.init["ns_count"], nodes))
    sess, subs, last, items, ctr = tables_terms(t)
    if (t.get("sessions") or t.get("subs") or t.get("items")):
        raise ValueError("history %d does not start from empty tables" % h.id)
    return "Srv (%s) [] [] %d [] %d %d" % (space, last, ctr, t.get("endpoints", 0))


def case_term(h, extra_space=None, with_nodes=True):
    evs, outs = [], []
    for e in h.evs:
        if e["ev"].get("mapns") or e["ev"].get("nomodel"):
            continue    # requests on the map namespace (Browse is compared with Model map_browse by C33) and harness-side
                        # application actions (a change notification: reads only) are not events of the model
        evs.append(event(e["ev"]))
        outs.append(outcome(e["ev"], e["out"]))
        for i in e.get("internal") or []:
            evs.append(("EDelSub %d" if i["kind"] == "delsub" else "EDelItem %d") % i["id"])
            outs.append("OInternal")
    fin = h.final or {"tables": h.evs[-1]["tables"] if h.evs else h.init["tables"], "nodes": []}
    sess, subs, last, items, ctr = tables_terms(fin["tables"])
    fnodes = "; ".join(node(n) for n in (fin.get("nodes") or [])) if with_nodes else ""
    return "(%s, [%s], [%s], (%s, %s, %d, %s, %d), [%s])" % (
        init_srv(h, extra_space), "; ".join(evs), "; ".join(outs), sess, subs, last, items, ctr, fnodes)


def run_harness(ctx, args, timeout=600):
    h, log = ctx.go_build("serverharness")
    if h is None:
        return None, log
    rc, out = vf.sh([h] + args, timeout=timeout, env=vf.GOENV)
    return (rc, out), None


def standard_proof_steps(ctx, gens, detail):
    """regen + props (+ coqchk in the thorough tier). Returns proof_ok."""
    proof_ok = True
    ok, out = ctx.regen(gens)
    if not ok:
        proof_ok = False
        detail["translator"] = out[-2000:]
        ctx.log("translator failed: " + out[-500:])
    # the correspondence files import Model.ServerDec, which a Props file need not depend on: keep it up to date
    r = ctx.props(extra_targets=["Model/ServerDec.vo", "Model/ServerSec.vo"]) if ok else None
    if r is not None and not r["ok"]:
        proof_ok = False
        detail["coq"] = r["failed_at"] or r["log"][-1500:]
    if ctx.thorough() and proof_ok:
        ok2, log = ctx.coqchk()
        if not ok2:
            proof_ok = False
            detail["coqchk"] = log[-1500:]
    return proof_ok


def correspondence(ctx, hists, detail, name="Cases", extra_imports="", extra_space=None, with_nodes=True, shard=40):
    """evaluate the model on every complete history; returns (corr_ok, mismatching histories)"""
    lines, good = [], []
    for h in hists:
        if h.final is None:
            continue
        try:
            lines.append(case_term(h, extra_space, with_nodes))
            good.append(h)
        except ValueError as e:
            detail.setdefault("unconvertible", []).append(str(e))
    if not lines:
        detail["cases"] = "no complete history"
        return False, []
    okc, idx, clog = ctx.eval_cases(IMPORTS + extra_imports, CASE_TYPE, lines, AGREE, shard=shard, name=name)
    if not okc:
        detail["cases"] = clog[-2000:]
        return False, []
    bad = [good[i] for i in idx]
    if bad:
        detail["model_vs_impl_mismatches"] = [{"hist": h.id, "first_events": [e["ev"] for e in h.evs[:3]]} for h in bad[:5]]
    return not bad and not detail.get("unconvertible"), bad


def corpus_files(pid):
    d = os.path.join(vf.VERIF, "corpus", pid)
    if not os.path.isdir(d):
        return []
    return sorted(os.path.join(d, f) for f in os.listdir(d) if f.endswith(".json"))


def collect(ctx, pid, gen_args_list):
    """corpus + replay + generated runs. Returns (hists, crashes) or None when the harness does not build."""
    runs = [("corpus:" + os.path.basename(f), ["replay", "-file", f]) for f in corpus_files(pid)]
    if ctx.replay:
        runs = [("replay", ["replay", "-file", ctx.replay])]
    else:
        runs += gen_args_list
    hists, crashes = [], []
    for label, args in runs:
        res, err = run_harness(ctx, args, timeout=2400)
        if res is None:
            ctx.broken_tie("harness does not build against /repo", err[-2000:])
            return None
        rc, out = res
        hs, done = parse(out)
        for h in hs:
            h.label = label
        hists += hs
        if not done:
            last = hs[-1] if hs else None
            crashes.append({"run": label, "rc": rc, "tail": out[-1500:],
                            "request": last.pre["op"] if last is not None and last.pre else None,
                            "replay_history": [{"id": last.id, "mode": last.init.get("mode"), "nodes": last.init.get("nodes"),
                                                "ops": last.ops_so_far()}] if last is not None else None})
    return hists, crashes


def _ops_so_far(self):
    return [self_op for self_op in getattr(self, "ops", [])]


Hist.ops_so_far = _ops_so_far


def replay_file_obj(h, upto=None):
    """a history in the input format of `serverharness replay` (ops are recorded on the pre lines)"""
    return [{"id": h.id, "mode": h.init.get("mode"), "nodes": h.init.get("nodes"), "ops": h.ops[: upto + 1 if upto is not None else None]}]
