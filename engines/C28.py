"""C28 — monitor notifications name the right node and converge to the latest value.

proof   : Props/C28.v — delivered NodeID = the node registered for the handle (every schedule, drops allowed);
          C28_statement refuted by a consumer-side drop; C28_partial_no_drop: convergence for every schedule without drops.
tie     : burst runs (200 monitored nodes added in one call, then every node updated back to back on the server side,
          three rounds) and 3 real writer clients (one writer per node, increasing unique values) + a NodeMonitor with
          nodes added, removed and re-added while the writers run; after quiescence the values are read back.  The
          observable consequences of the model (Model/MonitorObs.v: right node, per-node order, silence after removal,
          convergence) are evaluated inside Coq on each recorded run.
          One more run writes A -> B -> A value histories (A delivered, then B and A again back to back on the server
          side, round after round, fast consumer, then silence): right node and convergence are checked inside Coq.
known   : the last generated run uses a consumer that stalls (ChanSubscribe, channel of 1): the pump drops notifications and the last
          delivered value stays stale = the replay of C28_refuted_consumer_drop (known finding consumer-drop).
"""
import json, os
import vf

IMPORTS = ("From Coq Require Import NArith ZArith Bool List.\nFrom Opcua Require Import Model.MonitorObs.\n"
           "Import ListNotations. Open Scope Z_scope.")


def coq_obs(o):
    writes = "; ".join("[" + "; ".join(str(v) for v in ws) + "]" for ws in o["writes"])
    deliv = "; ".join("(%d%%nat, %d)" % (d["node"], d["value"]) for d in o["deliveries"] if d["node"] >= 0)
    # positions in the filtered delivery list
    def at(k):
        return sum(1 for d in o["deliveries"][:k] if d["node"] >= 0)
    # +1: the pump may be between its handle lookup and the callback for one message when RemoveNodeIDs returns
    rem = "; ".join("(%d%%nat, %d%%nat)" % (n, at(k) + 1) for n, k in o["removed_at"])
    # per node the events alternate add, remove, add, ...: the j-th removal of a node is bounded by its (j+1)-th addition.
    # Both are stamped with the number of deliveries seen, and a re-add that follows its removal with no delivery in
    # between carries the same stamp: with the +1 above it would look as if it came BEFORE the removal, so the silent
    # interval would run on to the next re-add.  Never place a re-add before the removal it follows.
    adds, rems = {}, {}
    for n, k in o["added_at"]:
        adds.setdefault(n, []).append(k)
    for n, k in o["removed_at"]:
        rems.setdefault(n, []).append(k)
    readd = []
    for n, ks in adds.items():
        for j, k in enumerate(ks[1:]):
            pos = at(k)
            if j < len(rems.get(n, [])):
                pos = max(pos, at(rems[n][j]) + 1)
            readd.append("(%d%%nat, %d%%nat)" % (n, pos))
    return ("{| ob_writes := [%s]; ob_deliv := [%s]; ob_monitored := [%s]; ob_removed := [%s]; ob_readded := [%s]; ob_final := [%s] |}"
            % (writes, deliv, "; ".join("%d%%nat" % n for n in o["monitored"]), rem, "; ".join(readd),
               "; ".join(str(v) for v in o["final"])))


def py_checks(o):
    """the same predicates on the python side, to name what failed (the verdict comes from Coq)"""
    bad = []
    pos = [{0: 0, **{v: i + 1 for i, v in enumerate(ws)}} for ws in o["writes"]]
    lastp, last = {}, {}
    for k, d in enumerate(o["deliveries"]):
        n, v = d["node"], d["value"]
        if n == -2:
            continue
        if n == -1 or v not in pos[n]:
            bad.append(("wrong-node", "delivery #%d names node %s with value %s which that node never held" % (k, n, v)))
            continue
        if pos[n][v] < lastp.get(n, 0):
            bad.append(("order", "delivery #%d for node %d goes back from write #%d to #%d" % (k, n, lastp[n], pos[n][v])))
        lastp[n], last[n] = pos[n][v], v
    readd = {}
    seen = set()
    for n, k in o["added_at"]:
        if n in seen:
            readd.setdefault(n, []).append(k)
        seen.add(n)
    for n, k in o["removed_at"]:
        upto = min([x for x in readd.get(n, []) if x >= k] + [len(o["deliveries"])])
        if o["dropped"] == 0 and any(d["node"] == n for d in o["deliveries"][k + 1:upto]):
            bad.append(("after-remove", "node %d delivered after RemoveNodeIDs returned" % n))
    for i, v in enumerate(o["final"]):
        if o["writes"][i] and v != o["writes"][i][-1]:
            bad.append(("final-read", "node %d reads %d after quiescence, last acknowledged write %d" % (i, v, o["writes"][i][-1])))
    stale = [(n, last.get(n), o["final"][n]) for n in o["monitored"] if last.get(n) != o["final"][n]]
    if stale:
        bad.append(("stale", "after quiescence last delivered != current for (node, last delivered, current) %s" % stale))
    return bad


def run(ctx):
    proof_ok, detail = True, {}
    r = ctx.props(extra_targets=["Model/MonitorObs.vo"])
    if not r["ok"]:
        proof_ok = False
        detail["coq"] = r["failed_at"] or r["log"][-1500:]
    if ctx.thorough() and proof_ok:
        ok2, log = ctx.coqchk()
        if not ok2:
            proof_ok = False
            detail["coqchk"] = log[-1500:]
    h, log = ctx.go_build("sysharness")
    if h is None:
        ctx.broken_tie("harness does not build against /repo", log[-2000:])
        return
    runs, wpn = (16, 250) if ctx.thorough() else (4, 120)
    if ctx.replay:
        rp = json.load(open(ctx.replay))
        seed = rp.get("seed", ctx.seed)
        runs = rp.get("runs", runs)
    else:
        seed = ctx.seed
    rc, out = vf.sh([h, "-seed", str(seed), "-n", str(runs), "-ops", str(wpn), "c28"], timeout=1200, env=vf.GOENV)
    obs = [json.loads(l) for l in out.splitlines() if l.startswith('{"kind":"c28"')]
    for o in obs:
        for k in ("removed_at", "added_at", "monitored", "deliveries", "final"):
            if o.get(k) is None:
                o[k] = []
    if rc != 0 or len(obs) != runs + 1 or any(o.get("err") for o in obs):
        ctx.finding("harness-crash", "C28 harness failed: " + "; ".join(str(o.get("err")) for o in obs if o.get("err"))[:300],
                    {"output": out[-3000:], "seed": seed, "runs": runs})
        ctx.conclude(proof_ok, False, 1, detail)
        return

    new, corr_ok = 0, True
    # the write-back run (values return to an earlier value: A -> B -> A) is checked for the right node and for
    # convergence only; its values are not unique, so the per-node order predicate does not apply to it
    wback = [o for o in obs if o["mode"] == "writeback"]
    obs_u = [o for o in obs if o["mode"] != "writeback"]
    nodrop = [o for o in obs_u if o["dropped"] == 0]
    dropped = [o for o in obs_u if o["dropped"] > 0]
    if os.path.exists(os.path.join(vf.COQ, "Model/MonitorObs.vo")):
        # runs without drops: everything must hold; runs with drops: everything but convergence
        okc, idx, clog = ctx.eval_cases(IMPORTS, "mobs", [coq_obs(o) for o in nodrop],
                                        "  right_node c && monotone c && silent_after_remove c && final_is_last_write c && obs_converged c",
                                        shard=2)
        okd, didx, dlog = ctx.eval_cases(IMPORTS, "mobs", [coq_obs(o) for o in dropped],
                                         "  right_node c && monotone c && final_is_last_write c",
                                         shard=2, name="Dropped")
        oks, sidx, slog = ctx.eval_cases(IMPORTS, "mobs", [coq_obs(o) for o in dropped], "  obs_converged c", shard=2, name="Stale")
        okw, widx, wlog = ctx.eval_cases(IMPORTS, "mobs", [coq_obs(o) for o in wback],
                                         "  right_node c && final_is_last_write c && obs_converged c", shard=2, name="WriteBack")
        if not (okc and okd and oks and okw):
            corr_ok = False
            detail["cases"] = (clog + dlog + slog + wlog)[-2000:]
        for i in widx:
            o = wback[i]
            last = {}
            for d in o["deliveries"]:
                if d["node"] >= 0:
                    last[d["node"]] = d["value"]
            stale = [(n, last.get(n), o["final"][n]) for n in o["monitored"] if last.get(n) != o["final"][n]]
            wrong = [d for d in o["deliveries"] if d["node"] == -1 or (d["node"] >= 0 and d["value"] not in [0] + o["writes"][d["node"]])]
            if o["dropped"] > 0:
                key, what = "writeback-dropped", "the fast consumer of the write-back run had %d notifications dropped" % o["dropped"]
            elif stale:
                key = "stale-after-write-back"
                what = ("values were written A -> B -> A back to back on the server and writing stopped; no notification was dropped by the consumer, "
                        "yet the last value delivered differs from the value the server holds for (node, last delivered, Read) %s" % stale[:6])
            elif wrong:
                key, what = "wrong-node", "delivery names a node with a value it never held: %s" % wrong[:3]
            else:
                key, what = "final-read", "Read after quiescence is not the last acknowledged write: final %s" % o["final"]
            small = dict(o, deliveries=o["deliveries"][-80:], writes=[w[-12:] for w in o["writes"]])
            if ctx.finding(key, "run %d (writeback): %s" % (o["run"], what),
                           {"seed": seed, "runs": runs, "run": o["run"], "observation_tail": small,
                            "how": "sysharness -seed S -n RUNS c28 (last run, mode writeback): 8 monitored nodes, callback consumer, each round writes B then A again (every third node B, C, A) back to back on the server side with NodeNameSpace.SetAttribute, then waits for silence; at the end the last delivered value per node is compared with a Read"}):
                new += 1
        if any(o["dropped"] > 0 for o in wback) and not widx:
            ctx.notes.append("write-back run: the consumer dropped notifications although it is a plain callback")
        bad_runs = [nodrop[i] for i in idx] + [dropped[i] for i in didx]
        for o in bad_runs:
            why = py_checks(o) or [("coq-only", "Coq predicates reject the run; python agrees on nothing specific")]
            why = [w for w in why if not (o["dropped"] > 0 and w[0] == "stale")] or why
            key = why[0][0]
            small = dict(o, deliveries=o["deliveries"][-60:], writes=[w[-10:] for w in o["writes"]])
            if ctx.finding(key, "run %d (%s): %s" % (o["run"], o["mode"], "; ".join(w[1] for w in why[:3])),
                           {"seed": seed, "runs": runs, "run": o["run"], "observation_tail": small,
                            "how": "sysharness -seed S -n RUNS c28: 3 writers + NodeMonitor (add/remove/re-add) against the stock server"}):
                new += 1
        # the refuted statement replayed: with a stalled consumer the last delivered value is stale
        for i in sidx:
            o = dropped[i]
            ctx.finding("consumer-drop", "run %d: consumer stalled, %d notifications dropped by the pump, last delivered value stale" % (o["run"], o["dropped"]),
                        {"seed": seed, "runs": runs, "run": o["run"], "dropped": o["dropped"], "final": o["final"]})
        if ctx.is_known("consumer-drop") and dropped and not sidx:
            ctx.notes.append("the stalled-consumer run dropped notifications but still converged in this run (timing); known finding not reproduced this time")
    else:
        corr_ok = False

    ndel = sum(len(o["deliveries"]) for o in obs)
    ctx.coverage.update({
        "evaluations": ndel,
        "distinct_nontrivial": len({(o["run"], d["node"], d["value"]) for o in obs for d in o["deliveries"]}),
        "rule": "DataChangeMessages recorded in %d runs + one write-back run (8 nodes, a delivered value A, then per round B and A again written back to back on the server side, fast consumer, then silence) (4 nodes, 3 concurrent writers, %d writes per node, monitor adds 2 nodes, removes one, re-adds it); distinct = distinct (run, node, value); every run is checked inside Coq against Model/MonitorObs.v" % (runs, wpn),
        "samples": [{"run": o["run"], "mode": o["mode"], "writes": [len(w) for w in o["writes"]], "deliveries": len(o["deliveries"]),
                     "dropped": o["dropped"], "errors": o["errors"], "final": o["final"]} for o in obs[:4]],
        "runs": runs, "runs_without_drop": len(nodrop), "runs_with_drop": len(dropped),
        "writes": sum(len(w) for o in obs for w in o["writes"]),
        "traces_validated_against_impl": runs + len(wback),
        "writeback_runs": len(wback), "writeback_write_backs": sum(max(0, len(w) - 1) for o in wback for w in o["writes"]),
    })
    ctx.conclude(proof_ok, corr_ok, new, detail)
