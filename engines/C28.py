"""C28 — monitor notifications name the right node and converge to the latest value.

proof   : Props/C28.v — delivered NodeID = the node registered for the handle (every schedule, drops allowed);
          C28_statement refuted by a consumer-side drop; C28_partial_no_drop: convergence for every schedule without drops.
tie     : burst runs (200 monitored nodes added in one call, then every node updated back to back on the server side,
          three rounds) and 3 real writer clients (one writer per node, increasing unique values) + a NodeMonitor with
          nodes added, removed and re-added while the writers run; after quiescence the values are read back.  The
          observable consequences of the model (Model/MonitorObs.v: right node, per-node order, silence after removal,
          convergence) are evaluated inside Coq on each recorded run.
known   : the last run uses a consumer that stalls (ChanSubscribe, channel of 1): the pump drops notifications and the last
          delivered value stays stale = the replay of C28_refuted_consumer_drop (known finding consumer-drop).
"""
import json, os
import vf

IMPORTS = ("From Coq Require Import NArith ZArith Bool List.\nFrom Opcua Require Import Model.MonitorObs.\n"
           "Import ListNotations. Open Scope Z_scope.")


def coq_obs(o):
    writes = "; ".join("[" + "; ".join(str(v) for v in ws) + "]" for ws in o["writes"])
    deliv = "; ".join("(%d%%nat, %d)" % (d["node"], d["value"]) for d in o["deliveries"] if d["node"] >= 0)
    # positions in the filtered delivery list
    def at(k):
        return sum(1 for d in o["deliveries"][:k] if d["node"] >= 0)
    # +1: the pump may be between its handle lookup and the callback for one message when RemoveNodeIDs returns
    rem = "; ".join("(%d%%nat, %d%%nat)" % (n, at(k) + 1) for n, k in o["removed_at"])
    first = set()
    readd = []
    for n, k in o["added_at"]:
        if n in first:
            readd.append("(%d%%nat, %d%%nat)" % (n, at(k)))
        first.add(n)
    return ("{| ob_writes := [%s]; ob_deliv := [%s]; ob_monitored := [%s]; ob_removed := [%s]; ob_readded := [%s]; ob_final := [%s] |}"
            % (writes, deliv, "; ".join("%d%%nat" % n for n in o["monitored"]), rem, "; ".join(readd),
               "; ".join(str(v) for v in o["final"])))


def py_checks(o):
    """the same predicates on the python side, to name what failed (the verdict comes from Coq)"""
    bad = []
    pos = [{0: 0, **{v: i + 1 for i, v in enumerate(ws)}} for ws in o["writes"]]
    lastp, last = {}, {}
    for k, d in enumerate(o["deliveries"]):
        n, v = d["node"], d["value"]
        if n == -2:
            continue
        if n == -1 or v not in pos[n]:
            bad.append(("wrong-node", "delivery #%d names node %s with value %s which that node never held" % (k, n, v)))
            continue
        if pos[n][v] < lastp.get(n, 0):
            bad.append(("order", "delivery #%d for node %d goes back from write #%d to #%d" % (k, n, lastp[n], pos[n][v])))
        lastp[n], last[n] = pos[n][v], v
    readd = {}
    seen = set()
    for n, k in o["added_at"]:
        if n in seen:
            readd.setdefault(n, []).append(k)
        seen.add(n)
    for n, k in o["removed_at"]:
        upto = min([x for x in readd.get(n, []) if x >= k] + [len(o["deliveries"])])
        if o["dropped"] == 0 and any(d["node"] == n for d in o["deliveries"][k + 1:upto]):
            bad.append(("after-remove", "node %d delivered after RemoveNodeIDs returned" % n))
    for i, v in enumerate(o["final"]):
        if o["writes"][i] and v != o["writes"][i][-1]:
            bad.append(("final-read", "node %d reads %d after quiescence, last acknowledged write %d" % (i, v, o["writes"][i][-1])))
    stale = [(n, last.get(n), o["final"][n]) for n in o["monitored"] if last.get(n) != o["final"][n]]
    if stale:
        bad.append(("stale", "after quiescence last delivered != current for (node, last delivered, current) %s" % stale))
    return bad


def run(ctx):
    proof_ok, detail = True, {}
    r = ctx.props(extra_targets=["Model/MonitorObs.vo"])
    if not r["ok"]:
        proof_ok = False
        detail["coq"] = r["failed_at"] or r["log"][-1500:]
    if ctx.thorough() and proof_ok:
        ok2, log = ctx.coqchk()
        if not ok2:
            proof_ok = False
            detail["coqchk"] = log[-1500:]
    h, log = ctx.go_build("sysharness")
    if h is None:
        ctx.broken_tie("harness does not build against /repo", log[-2000:])
        return
    runs, wpn = (16, 250) if ctx.thorough() else (4, 120)
    if ctx.replay:
        rp = json.load(open(ctx.replay))
        seed = rp.get("seed", ctx.seed)
        runs = rp.get("runs", runs)
    else:
        seed = ctx.seed
    rc, out = vf.sh([h, "-seed", str(seed), "-n", str(runs), "-ops", str(wpn), "c28"], timeout=1200, env=vf.GOENV)
    obs = [json.loads(l) for l in out.splitlines() if l.startswith('{"kind":"c28"')]
    for o in obs:
        for k in ("removed_at", "added_at", "monitored", "deliveries", "final"):
            if o.get(k) is None:
                o[k] = []
    if rc != 0 or len(obs) != runs or any(o.get("err") for o in obs):
        ctx.finding("harness-crash", "C28 harness failed: " + "; ".join(str(o.get("err")) for o in obs if o.get("err"))[:300],
                    {"output": out[-3000:], "seed": seed, "runs": runs})
        ctx.conclude(proof_ok, False, 1, detail)
        return

    new, corr_ok = 0, True
    nodrop = [o for o in obs if o["dropped"] == 0]
    dropped = [o for o in obs if o["dropped"] > 0]
    if os.path.exists(os.path.join(vf.COQ, "Model/MonitorObs.vo")):
        # runs without drops: everything must hold; runs with drops: everything but convergence
        okc, idx, clog = ctx.eval_cases(IMPORTS, "mobs", [coq_obs(o) for o in nodrop],
                                        "  right_node c && monotone c && silent_after_remove c && final_is_last_write c && obs_converged c",
                                        shard=2)
        okd, didx, dlog = ctx.eval_cases(IMPORTS, "mobs", [coq_obs(o) for o in dropped],
                                         "  right_node c && monotone c && final_is_last_write c",
                                         shard=2, name="Dropped")
        oks, sidx, slog = ctx.eval_cases(IMPORTS, "mobs", [coq_obs(o) for o in dropped], "  obs_converged c", shard=2, name="Stale")
        if not (okc and okd and oks):
            corr_ok = False
            detail["cases"] = (clog + dlog + slog)[-2000:]
        bad_runs = [nodrop[i] for i in idx] + [dropped[i] for i in didx]
        for o in bad_runs:
            why = py_checks(o) or [("coq-only", "Coq predicates reject the run; python agrees on nothing specific")]
            why = [w for w in why if not (o["dropped"] > 0 and w[0] == "stale")] or why
            key = why[0][0]
            small = dict(o, deliveries=o["deliveries"][-60:], writes=[w[-10:] for w in o["writes"]])
            if ctx.finding(key, "run %d (%s): %s" % (o["run"], o["mode"], "; ".join(w[1] for w in why[:3])),
                           {"seed": seed, "runs": runs, "run": o["run"], "observation_tail": small,
                            "how": "sysharness -seed S -n RUNS c28: 3 writers + NodeMonitor (add/remove/re-add) against the stock server"}):
                new += 1
        # the refuted statement replayed: with a stalled consumer the last delivered value is stale
        for i in sidx:
            o = dropped[i]
            ctx.finding("consumer-drop", "run %d: consumer stalled, %d notifications dropped by the pump, last delivered value stale" % (o["run"], o["dropped"]),
                        {"seed": seed, "runs": runs, "run": o["run"], "dropped": o["dropped"], "final": o["final"]})
        if ctx.is_known("consumer-drop") and dropped and not sidx:
            ctx.notes.append("the stalled-consumer run dropped notifications but still converged in this run (timing); known finding not reproduced this time")
    else:
        corr_ok = False

    ndel = sum(len(o["deliveries"]) for o in obs)
    ctx.coverage.update({
        "evaluations": ndel,
        "distinct_nontrivial": len({(o["run"], d["node"], d["value"]) for o in obs for d in o["deliveries"]}),
        "rule": "DataChangeMessages recorded in %d runs (4 nodes, 3 concurrent writers, %d writes per node, monitor adds 2 nodes, removes one, re-adds it); distinct = distinct (run, node, value); every run is checked inside Coq against Model/MonitorObs.v" % (runs, wpn),
        "samples": [{"run": o["run"], "mode": o["mode"], "writes": [len(w) for w in o["writes"]], "deliveries": len(o["deliveries"]),
                     "dropped": o["dropped"], "errors": o["errors"], "final": o["final"]} for o in obs[:4]],
        "runs": runs, "runs_without_drop": len(nodrop), "runs_with_drop": len(dropped),
        "writes": sum(len(w) for o in obs for w in o["writes"]),
        "traces_validated_against_impl": runs,
    })
    ctx.conclude(proof_ok, corr_ok, new, detail)
