"""C37 — client and server interoperate under every supported security configuration.

proof   : Props/C37.v — connect_ok over the complete configuration set (client and server key sizes chosen independently) computed from Gen.PolicyParams /
          Gen.InteropTables (regenerated from /repo by calling uapolicy on every run), vm_compute + forallb_forall.
seq     : additionally ONE long-lived server enabling 7 pairs serves all its (policy, mode, token) cells in seeded random
          orders (secured -> None/discovery transitions, secured clients kept connected meanwhile); the model treats
          connections as independent, so every cell is predicted to succeed and compared the same way.
tie     : the same matrix is run for real (stock server + stock client: GetEndpoints, Connect = OPN + CreateSession +
          ActivateSession, Read, Write, Read back); every outcome and every advertised endpoint list is compared with
          connect_ok_on / endpoints_on inside Coq.  quick: RSA-2048 for every policy plus RSA-1024 (accepted by the two
          SHA-1 policies, rejected by the three SHA-256 ones); thorough: 1024/2048/3072/4096 and the mixed-server edge.
oracle  : the property itself on the observations: a configuration inside the Part 7 limits whose token type is
          advertised must connect/read/write; nonce lengths the real constructors produce must be the profile's.
"""
import json, os
import vf

# RSA keys do not depend on /repo: scratch copies share the cache of the main tree when it exists
KEYS = "/verif/work/keys" if os.path.isdir("/verif/work/keys") else os.path.join(vf.VERIF, "work", "keys")

SPEC_KEYS = {"Basic128Rsa15": (1024, 2048), "Basic256": (1024, 2048), "Basic256Sha256": (2048, 4096),
             "Aes128_Sha256_RsaOaep": (2048, 4096), "Aes256_Sha256_RsaPss": (2048, 4096)}
SPEC_NONCE = {"None": 0, "Basic128Rsa15": 16, "Basic256": 32, "Basic256Sha256": 32,
              "Aes128_Sha256_RsaOaep": 32, "Aes256_Sha256_RsaPss": 32}

MIXED = [  # server enables a second policy first (DESIGN C37 open edge); outcome compared with the model only
    "Basic256Sha256:2:2048:1:Basic128Rsa15/2",
    "Basic256Sha256:2:4096:1:Basic128Rsa15/2",
    "Basic256Sha256:2:4096:0:Basic128Rsa15/2",
    "Basic256Sha256:3:2048/4096:1:Basic128Rsa15/2",
    "Basic128Rsa15:2:1024:1:Basic256Sha256/3",
    "Basic128Rsa15:3:2048:1:Basic256Sha256/3+Aes256_Sha256_RsaPss/2",
]


SHA2 = ["Aes128_Sha256_RsaOaep", "Aes256_Sha256_RsaPss", "Basic256Sha256"]
SHA1 = ["Basic128Rsa15", "Basic256"]


def quick_matrix():
    """equal 2048-bit keys for every policy/mode/token, client and server keys on different sides of every limit,
    and a few pairs outside the limits (must fail)"""
    cfgs = ["None:1:0:0", "None:1:0:1"]
    # the None/None endpoint of a server that also enables a secured pair (client without certificate)
    for i, p in enumerate(SHA2 + SHA1):
        cfgs.append("None:1:0/2048:1:%s/%d" % (p, 2 + i % 2))
    cfgs += ["None:1:0/2048:0:Basic256Sha256/3", "None:1:0/3072:1:Aes256_Sha256_RsaPss/2", "None:1:0/1024:1:Basic256/3"]
    for p in SHA2 + SHA1:
        other = 3072 if p in SHA2 else 1024
        for m in (2, 3):
            for t in (0, 1):
                cfgs.append("%s:%d:2048:%d" % (p, m, t))
            cfgs.append("%s:%d:2048/%d:%d" % (p, m, other, m % 2))
            cfgs.append("%s:%d:%d/2048:%d" % (p, m, other, (m + 1) % 2))
    cfgs += ["Basic256Sha256:3:1024/2048:0", "Basic256Sha256:2:2048/1024:1", "Basic128Rsa15:2:2048/3072:0", "Aes256_Sha256_RsaPss:3:1024:0"]
    return cfgs


def cfg_str(o):
    kb = str(o["keybits"]) if o["keybits"] == o.get("skeybits", o["keybits"]) else "%d/%d" % (o["keybits"], o["skeybits"])
    s = "%s:%d:%s:%d" % (o["policy"], o["mode"], kb, o["token"])
    if o.get("extra"):
        s += ":" + o["extra"]
    if o.get("pairs"):
        s += "@seq%d.%d" % (o.get("seq_seed", 0), o.get("seq", 0))
    return s


def none_cell(o):
    """None/None endpoint of a server enabling exactly one secured pair with a key inside that policy's limits"""
    x = o.get("extra") or ""
    if o["policy"] != "None" or "+" in x or "/" not in x:
        return False
    lo, hi = SPEC_KEYS.get(x.split("/")[0], (1, 0))
    return lo <= o.get("skeybits", 0) <= hi


def spec_supported(o):
    if o["policy"] == "None":
        return o["mode"] == 1
    lo, hi = SPEC_KEYS.get(o["policy"], (1, 0))
    return o["mode"] in (2, 3) and lo <= o["keybits"] <= hi and lo <= o.get("skeybits", o["keybits"]) <= hi


def coq_case(o):
    tok = "TUser" if o["token"] == 1 else "TAnon"
    pairs = ['{| sc_pol := "None"; sc_mode := 1 |}']
    if o.get("pairs"):  # sequence scenario: the long-lived server's full list, in its order
        pairs = ['{| sc_pol := "%s"; sc_mode := %s |}' % tuple(e.split("/")) for e in o["pairs"]]
    elif o.get("extra"):
        for e in o["extra"].split("+"):
            p, m = e.split("/")
            pairs.append('{| sc_pol := "%s"; sc_mode := %s |}' % (p, m))
    if o["policy"] != "None" and not o.get("pairs"):
        pairs.append('{| sc_pol := "%s"; sc_mode := %d |}' % (o["policy"], o["mode"]))
    eps = []
    for e in o.get("endpoints") or []:
        toks = ["{| tp_type := %s; tp_uri := \"%s\" |}" % ("TUser" if t["type"] == 1 else "TAnon", t["uri"]) for t in e.get("tokens") or []]
        eps.append('{| ep_pol := "%s"; ep_mode := %d; ep_level := %d; ep_toks := [%s] |}' % (e["policy"], e["mode"], e["level"], "; ".join(toks)))
    return '({| c_pol := "%s"; c_mode := %d; c_kb := %d; c_skb := %d; c_tok := %s; c_extra := [] |}, [%s], %s, [%s])' % (
        o["policy"], o["mode"], o["keybits"] // 8, o.get("skeybits", o["keybits"]) // 8, tok, "; ".join(pairs), "true" if o["ok"] else "false", "; ".join(eps))


def policy_ids_ok(o):
    """PolicyID strings are the function of (type, uri) the model assumes."""
    for e in o.get("endpoints") or []:
        for t in e.get("tokens") or []:
            want = ("username" if t["type"] == 1 else "anonymous") + "_" + t["uri"].lower()
            if t["policy_id"] != want or t["type"] not in (0, 1):
                return False
    return True


def run(ctx):
    proof_ok, detail = True, {}
    ok, out = ctx.regen(["policy", "interop"])
    if not ok:
        proof_ok = False
        detail["translator"] = out[-2000:]
        ctx.log("translator failed: " + out[-800:])
    r = ctx.props(extra_targets=["Model/InteropGen.vo"]) if ok else None
    if r is not None and not r["ok"]:
        proof_ok = False
        detail["coq"] = r["failed_at"] or r["log"][-1500:]
    if ctx.thorough() and proof_ok:
        ok2, log = ctx.coqchk()
        if not ok2:
            proof_ok = False
            detail["coqchk"] = log[-1500:]

    h, log = ctx.go_build("sysharness")
    if h is None:
        ctx.broken_tie("harness does not build against /repo", log[-2000:])
        return
    if ctx.replay:
        rp = json.load(open(ctx.replay))
        args = [rp["config"]] if "config" in rp else []
        sizes = "2048"
    elif ctx.thorough():
        args, sizes = [], "1024,2048,3072,4096"
    else:
        args, sizes = quick_matrix(), "2048"
    cmd = [h, "-keys", KEYS, "-sizes", sizes, "c37"] + args
    rc, out = vf.sh(cmd, timeout=1500, env=vf.GOENV)
    obs = [json.loads(l) for l in out.splitlines() if l.startswith('{"kind":"c37"')]
    if (rc != 0 or not obs) and not ctx.replay:
        # a harness that dies is reported below as a failure of the property; make sure it is not a transient
        # environment problem first (port clash, key cache written by a parallel process): one retry
        import time as _t
        ctx.notes.append("harness exited rc=%s with %d observations; retried once. tail: %s" % (rc, len(obs), out[-600:]))
        _t.sleep(3)
        rc, out = vf.sh(cmd, timeout=1500, env=vf.GOENV)
        obs = [json.loads(l) for l in out.splitlines() if l.startswith('{"kind":"c37"')]
    if ctx.thorough() and not ctx.replay and rc == 0:
        cells = ["None:1:0/%d:%d:%s/%d" % (kb, t, p, m) for p in SHA2 + SHA1 for m in (2, 3)
                 for kb in (1024, 2048, 3072, 4096) if SPEC_KEYS[p][0] <= kb <= SPEC_KEYS[p][1] for t in (0, 1)]
        rc2, out2 = vf.sh([h, "-keys", KEYS, "c37"] + MIXED + cells, timeout=900, env=vf.GOENV)
        obs += [json.loads(l) for l in out2.splitlines() if l.startswith('{"kind":"c37"')]
        rc = rc or rc2
    # one long-lived server enabling several configurations, cells in seeded random orders, overlapping clients
    if not (ctx.replay and "config" in json.load(open(ctx.replay))):
        seq_seeds = [json.load(open(ctx.replay)).get("seq_seed", ctx.seed)] if ctx.replay else \
            ([ctx.seed + i for i in range(6)] if ctx.thorough() else [ctx.seed, ctx.seed + 1])
        for sd in seq_seeds:
            rc3, out3 = vf.sh([h, "-keys", KEYS, "-seed", str(sd), "-n", "8" if ctx.thorough() else "4", "c37seq"], timeout=600, env=vf.GOENV)
            so = [json.loads(l) for l in out3.splitlines() if l.startswith('{"kind":"c37"')]
            for o in so:
                o["seq_seed"] = sd
            obs += so
            if rc3 != 0 or not so:
                rc = rc or rc3 or 1
                out += out3
    if rc != 0 or not obs:
        # the harness itself died (a panic in a library goroutine): that is a failure of the property on some configuration
        ctx.finding("harness-crash", "interop harness crashed (panic in the library?)", {"output": out[-3000:], "cmd": " ".join(cmd)})
        ctx.conclude(proof_ok, False, 1, detail)
        return

    # (1) the property itself on the implementation
    fails = []
    for o in obs:
        if o.get("extra") and not none_cell(o):
            continue  # outside the property's quantifier; compared with the model below
        sup = spec_supported(o) or bool(o.get("pairs"))  # the sequence server holds a 2048-bit key: inside every policy's limits
        if not o["endpoints"] or not o["ep_found"]:
            if not o["endpoints"]:
                fails.append(("discovery", "GetEndpoints over the unsecured discovery channel fails: %s" % o.get("err", ""), o))
            else:
                fails.append(("endpoint-not-advertised", "server does not advertise the enabled policy/mode", o))
            continue
        if sup and o["tok_advertised"] and not o["ok"]:
            fails.append(("no-connect/" + o["stage"], "supported configuration fails at stage %s: %s" % (o["stage"], o.get("err", "")), o))
        if not sup and o["ok"]:
            fails.append(("outside-limits-connects", "connects with an RSA key size outside the profile's limits", o))
        if sup and o["mode"] != 1 and not o.get("pairs"):
            want = SPEC_NONCE.get(o["policy"])
            if not o["asym_ok"]:
                fails.append(("asym-rejects", "asymmetric constructor rejects a key size inside the profile's limits", o))
            elif o["client_nonce"] != want or o["server_nonce"] != want:
                fails.append(("nonce-length", "channel nonce length %d/%d differs from the profile's SecureChannelNonceLength %s (a conforming peer answers Bad_NonceInvalid)" % (o["client_nonce"], o["server_nonce"], want), o))
        if not policy_ids_ok(o):
            fails.append(("policy-id", "user token PolicyID is not <type>_<policy>", o))

    # (2) correspondence inside Coq
    corr_ok, mism = True, []
    if ok and r is not None and (r["ok"] or os.path.exists(os.path.join(vf.COQ, "Model/InteropGen.vo"))):
        lines = [coq_case(o) for o in obs]
        okc, idx, clog = ctx.eval_cases(
            "From Coq Require Import ZArith Bool String List.\nFrom Opcua Require Import Model.Interop Model.InteropGen.\nImport ListNotations. Open Scope string_scope. Open Scope Z_scope.",
            "config * list secpair * bool * list endpoint", lines,
            """  let '(c, pairs, ok, eps) := c in
  Bool.eqb (connect_ok_on gen_tables pairs c) ok && endpoints_eqb (endpoints_on gen_tables pairs) eps""")
        if not okc:
            corr_ok = False
            detail["cases"] = clog
        elif idx:
            corr_ok = False
            mism = [dict(config=cfg_str(obs[i]), ok=obs[i]["ok"], stage=obs[i]["stage"], err=obs[i].get("err"), endpoints=obs[i]["endpoints"]) for i in idx[:10]]
            detail["model_vs_impl_mismatches"] = mism
    else:
        corr_ok = False

    n_ok = sum(1 for o in obs if o["ok"])
    ctx.coverage.update({
        "evaluations": len(obs),
        "distinct_nontrivial": len({cfg_str(o) for o in obs}),
        "rule": "one real server+client run per configuration (policy x mode x client/server RSA bits (thorough: all pairs of {%s}) x token%s); distinct = distinct configuration strings; each run = GetEndpoints, Connect (OPN, CreateSession, ActivateSession), Read, Write, Read back" % (sizes, ", plus mixed-server edge cases" if ctx.thorough() else ""),
        "samples": [{k: o[k] for k in ("policy", "mode", "keybits", "skeybits", "token", "ok", "stage", "client_nonce", "server_nonce", "ms")} for o in (obs[:3] + obs[-2:])],
        "outcomes": {"ok": n_ok, "failed_as_predicted_or_not": len(obs) - n_ok},
        "spec_supported_configs_run": sum(1 for o in obs if not o.get("extra") and spec_supported(o) and o["tok_advertised"]),
        "model_configs_total": 193,
        "key_sizes": sizes,
        "traces_validated_against_impl": len(obs),
        "model_impl_mismatches": len(mism),
    })
    if not ctx.thorough():
        ctx.notes.append("quick tier: 10 None/None-endpoint cells (server also enables a secured pair; user-name password encrypted for the certificate of the CreateSessionResponse), 2048/2048 for every policy, mode and token, client and server keys on different sides of 2048 bits (2048/3072, 3072/2048; 1024/2048 for the SHA-1 policies) and 4 pairs outside the limits; the thorough tier runs every client x server key size pair and all 52 None/None-endpoint cells = the complete matrix of 193 configurations plus the pairs that must fail")

    new, seen = 0, set()
    for key0, why, o in fails:
        key = "%s/%s" % (cfg_str(o), key0)
        if key in seen:
            continue
        seen.add(key)
        extra = {}
        if o.get("pairs"):
            extra = {"seq_seed": o["seq_seed"], "server_pairs": o["pairs"],
                     "sequence_before": [cfg_str(x).split("@")[0] + (" ok" if x["ok"] else " FAILED") for x in obs
                                         if x.get("seq_seed") == o["seq_seed"] and x.get("pairs") and x["seq"] < o["seq"]],
                     "how_seq": "sysharness -seed <seq_seed> c37seq: one long-lived server, cells in this order, some secured clients kept connected"}
        if ctx.finding(key, why, dict({"config": cfg_str(o), "observation": o,
                                  "how": "sysharness c37 <config>: stock server (None/None + the pair, key of that size) vs stock client built with SecurityFromEndpoint"}, **extra)):
            new += 1
    ctx.conclude(proof_ok, corr_ok, new, detail)
