"""C20 — messages delivered to the application never change afterwards."""
import json
import vf, recvlib
from recvlib import hexN

IMPORTS = """From Coq Require Import NArith List Bool Arith.
From Opcua Require Import Model.RecvBase Model.RecvMerge Model.RecvHeap.
Import ListNotations. Local Open Scope nat_scope.
Definition beq (a b : bytes) : bool := if list_eq_dec N.eq_dec a b then true else false.
Fixpoint all2 {A B} (f : A -> B -> bool) (l1 : list A) (l2 : list B) : bool :=
  match l1, l2 with [], [] => true | a :: l1', b :: l2' => f a b && all2 f l1' l2' | _, _ => false end.
Definition fr (b : bytes) (cap : nat) (sec : bool) (plain : bytes) (strip : nat) (t r : N) : frame :=
  {| fr_bytes := b; fr_cap := cap; fr_secured := sec; fr_hl := 16; fr_plain := plain; fr_strip := strip; fr_type := t; fr_req := r |}."""
CTYPE = "list frame * list bytes"
AGREE = """  let '(ds, s2) := hrun {| hp := {| cells := [] |}; pend := [] |} (fst c) in
  all2 beq (map (fun d => deref (hp s2) (fst d)) ds) (snd c)
  && forallb (fun d => beq (deref (hp s2) (fst d)) (firstn (snd (fst d)) (skipn (snd (fst (fst d))) (snd d)))) ds"""


def term(c):
    frs = []
    for f in c["frames"]:
        n = len(f["b"]) // 2
        frs.append("fr %s%%N %d %s %s%%N %d %d%%N %d%%N" % (hexN(f["b"]), min(c["cap"], n + 16), "true" if f["secured"] else "false",
                                                        hexN(f.get("plain", "")), f.get("strip", 0), f["t"], f["req"]))
    afters = [hexN(m["after"]) + "%N" for m in c["msgs"] if m.get("after")]
    return "([%s], [%s])" % (";".join(frs), ";".join(afters))


def oracle(c):
    for i, m in enumerate(c["msgs"]):
        if m["at_delivery"] != m["sent"]:
            return "delivery", "message %d was not delivered as sent (%s)" % (i, m["at_delivery"][:60])
        if m["after"] != m["at_delivery"] or not m["payload_ok"]:
            return "changed-after-delivery", "message %d (%d chunks) delivered to the application read differently after later traffic: its ByteString now starts %s" % (i, m["chunks"], m["payload_after"][:40])
    if c["overlap"]:
        return "shared-memory", "the ByteStrings of two delivered messages share memory"
    if not c["distinct"]:
        return "receive-buffer-reused", "successive uacp.Conn.Receive calls returned the same buffer while the earlier result was still referenced"
    return None


def run(ctx):
    rp = recvlib.replay_case(ctx)
    n = 60 if ctx.thorough() else 5
    proof_ok, detail = (True, {}) if rp else recvlib.prove(ctx)
    obs = recvlib.harness(ctx, ["-n", n, "c20"])
    if obs is None:
        return
    srv = [c for c in obs if c.get("name") == "server"]
    obs = [c for c in obs if c.get("name") != "server"]
    if rp is not None:
        obs = [c for c in obs if c["name"] == rp.get("case", {}).get("name")] or obs
        ctx.level = "other"
        ctx.coverage["explanation"] = "replay run (history re-generated from the seed by name and re-run)"
    fails = []
    for c in obs:
        r = oracle(c)
        if r:
            fails.append((r[0], r[1], c))
    bad = [o for o in srv if not o["ok"]]
    if bad:
        o = bad[0]
        fails.append(("server-value-changed", "stock server, mode None: a ByteString of %d bytes written by a client (single-chunk WriteRequest) read back differently after %d later requests on the same and on another connection: sent %s read %s %s" % (
            o["len"], o["other_requests"], o["sent"][:40], o["read"][:40], o.get("err", "")), {"name": "server", "rounds": srv[:o["round"] + 1]}))
    corr_ok, mism, idx = True, [], []
    if rp is None:
        okc, idx, clog = ctx.eval_cases(IMPORTS, CTYPE, [term(c) for c in obs], AGREE, shard=4)
        if not okc:
            corr_ok = False
            detail["cases"] = clog[-1500:]
        elif idx:
            corr_ok = False
            mism = [obs[i] for i in idx[:3]]
            detail["model_vs_impl_mismatches"] = [c["name"] for c in mism]
    def small(c):
        return dict(c, frames=[dict(f, b=f["b"][:48] + "...", plain=f.get("plain", "")[:32]) for f in c["frames"][:3]],
                    msgs=[{k: (v[:48] + "..." if isinstance(v, str) and len(v) > 48 else v) for k, v in m.items()} for m in c["msgs"]])
    ctx.coverage.update({
        "evaluations": sum(len(c["msgs"]) for c in obs),
        "distinct_nontrivial": len({m["sent"] for c in obs for m in c["msgs"] if m["chunks"] >= 1 and len(m["sent"]) > 100}),
        "rule": "%d histories x mode None / toy Sign / toy SignAndEncrypt on a real server SecureChannel over TCP: 2-6 WriteRequests carrying a ByteString of 1..3000 bytes, each sent as 1-3 chunks, traffic on a second channel in between; the decoded request is kept, re-encoded at delivery and again after all later traffic, its ByteString compared with what was sent, the memory windows of all delivered ByteStrings checked for overlap, three successive uacp.Conn.Receive buffers checked for identity; plus the REAL SERVER LOOP: a stock server (mode None) and two clients, per round a ByteString of 1..4000 bytes is written (single-chunk request, the server keeps the decoded value as the node's value), 2-6 further writes/reads follow on the same and on the other connection, then the value is read back and compared; the frames of the channel-level histories are replayed through Model.RecvHeap in Coq and the model's final reading of every delivered message compared with the implementation's; distinct = distinct message bodies longer than 50 bytes" % n,
        "samples": [small(obs[0])],
        "server_loop_rounds": len(srv), "server_loop_rounds_ok": sum(1 for o in srv if o["ok"]),
        "multi_chunk_messages": sum(1 for c in obs for m in c["msgs"] if m["chunks"] > 1),
        "traces_validated_against_impl": len(obs),
        "model_impl_mismatches": len(idx),
    })
    new, seen = 0, set()
    for key, why, c in fails + [("model-mismatch", "model and implementation disagree on the final content of the delivered messages", c) for c in mism]:
        if key in seen:
            continue
        seen.add(key)
        if ctx.finding(key, why, {"case": small(c) if "msgs" in c else c, "how": "recvharness c20 with the same seed regenerates the history by name; ./check C20 --replay <this file>"}):
            new += 1
    ctx.conclude(proof_ok, corr_ok, new, detail)
