"""C30 — the server only opens channels with security settings it enabled."""
import json
import vf
import server_common as sc


def run(ctx):
    detail = {}
    proof_ok = True
    r = ctx.props()
    if not r["ok"]:
        proof_ok = False
        detail["coq"] = r["failed_at"] or r["log"][-1500:]
    if ctx.thorough() and proof_ok:
        ok2, log = ctx.coqchk()
        if not ok2:
            proof_ok = False
            detail["coqchk"] = log[-1500:]

    res, err = sc.run_harness(ctx, ["sec", "-seed", str(ctx.seed)], timeout=900)
    if res is None:
        ctx.broken_tie("harness does not build against /repo", err[-2000:])
        return
    obs, done = [], False
    for ln in res[1].splitlines():
        if ln.startswith("{"):
            try:
                o = json.loads(ln)
            except Exception:
                continue
            if o.get("t") == "sec":
                obs.append(o)
            elif o.get("t") == "done":
                done = True
    if not obs or not done:
        ctx.broken_tie("the security matrix run did not complete", res[1][-2000:])
        return

    # oracle: the property on the implementation
    new, seen = 0, set()
    for o in obs:
        enabled = [tuple(x) for x in (o.get("enabled") or [])]
        adv = [tuple(x) for x in (o.get("advertised") or [])]
        if sorted(adv) != sorted(enabled * max(1, o.get("urls", 1))):
            key = "advertised-differs-from-enabled"
            if key not in seen:
                seen.add(key)
                if ctx.finding(key, "configuration %s advertises %s but enables %s" % (o["config"], adv, enabled), {"observation": o, "how": "serverharness sec"}):
                    new += 1
        if o["opened"] and tuple(o["client"]) not in enabled:
            key = "opn-not-checked-against-config"
            if key not in seen:
                seen.add(key)
                if ctx.finding(key, "server configured with %s (%s) opened a %s channel%s" % (
                        o["config"], enabled, o["client_name"], " and served GetEndpoints on it" if o.get("served") else ""),
                        {"observation": o, "how": "serverharness sec"}):
                    new += 1
        if not o["opened"] and tuple(o["client"]) in enabled and (o["has_key"] or o["client"][0] == 0):
            key = "enabled-pair-refused/" + o["client_name"]
            if key not in seen:
                seen.add(key)
                if ctx.finding(key, "an enabled pair was refused: %s on %s: %s" % (o["client_name"], o["config"], o.get("err")), {"observation": o}):
                    new += 1

    lines = []
    for o in obs:
        en = "[%s]" % "; ".join("(%d, %d)" % tuple(x) for x in (o.get("enabled") or []))
        adv = "[%s]" % "; ".join("(0, (%d, %d))" % tuple(x) for x in (o.get("advertised") or []))
        lines.append("(%s, %s, (%d, %d), %s, %s, %d%%nat)" % (en, sc.b(o["has_key"]), o["client"][0], o["client"][1], sc.b(o["opened"]), adv, o.get("urls", 1)))
    okc, idx, clog = ctx.eval_cases(
        "From Coq Require Import NArith Bool List.\nFrom Opcua Require Import Model.ServerSec.\nImport ListNotations. Open Scope N_scope.",
        "list secpair * bool * (N * N) * bool * list (N * secpair) * nat", lines,
        """  let '(en, key, (p, m), opened, adv, nurls) := c in
  Bool.eqb (opn_accept en key p m) opened &&
  Nat.eqb (length adv) (length (advertised en (repeat 0 nurls))) &&
  forallb (fun a => existsb (fun b => (fst (snd a) =? fst (snd b)) && (snd (snd a) =? snd (snd b))) (advertised en (repeat 0 nurls))) adv""")
    corr_ok = okc and not idx
    if not okc:
        detail["cases"] = clog[-1500:]
    elif idx:
        detail["model_vs_impl_mismatches"] = [obs[i] for i in idx[:8]]

    ctx.coverage.update({
        "evaluations": len(obs), "distinct_nontrivial": len({(o["config"], o["client_name"], o["opened"]) for o in obs}),
        "rule": "server configurations (None only with and without key, one secured pair only, mixed, nothing enabled) x client policy/mode "
                "(None, Basic256Sha256 Sign and SignAndEncrypt, Basic128Rsa15, Aes128_Sha256_RsaOaep, Aes256_Sha256_RsaPss) over real channels; "
                "distinct = distinct (configuration, client pair, opened)",
        "opened": sum(1 for o in obs if o["opened"]), "opened_not_enabled": sum(1 for o in obs if o["opened"] and tuple(o["client"]) not in [tuple(x) for x in (o.get("enabled") or [])]),
        "samples": obs[12:15],
        "traces_validated_against_impl": len(obs), "model_impl_mismatches": len(idx) if okc else -1,
    })
    ctx.conclude(proof_ok, corr_ok, new, detail)
