"""C30 — the server only opens channels with security settings it enabled."""
import json
import vf
import server_common as sc


def run(ctx):
    detail = {}
    proof_ok = sc.standard_proof_steps(ctx, ["server"], detail)

    res, err = sc.run_harness(ctx, ["sec", "-seed", str(ctx.seed)], timeout=900)
    if res is None:
        ctx.broken_tie("harness does not build against /repo", err[-2000:])
        return
    obs, done = [], False
    for ln in res[1].splitlines():
        if ln.startswith("{"):
            try:
                o = json.loads(ln)
            except Exception:
                continue
            if o.get("t") == "sec":
                obs.append(o)
            elif o.get("t") == "done":
                done = True
    if not obs or not done:
        ctx.broken_tie("the security matrix run did not complete", res[1][-2000:])
        return

    # oracle: the property on the implementation
    new, seen = 0, set()

    def report(key, why, o):
        nonlocal new
        if key in seen:
            return
        seen.add(key)
        if ctx.finding(key, why, {"observation": o, "how": "serverharness sec"}):
            new += 1

    for o in obs:
        enabled = [tuple(x) for x in (o.get("enabled") or [])]
        adv = [tuple(x) for x in (o.get("advertised") or [])]
        pair = tuple(o["client"])
        effective = enabled or [(0, 1)]          # a server without EnableSecurity serves None/None
        if not o.get("raw") and sorted(adv) != sorted(enabled * max(1, o.get("urls", 1))):
            report("advertised-differs-from-enabled", "configuration %s advertises %s but enables %s" % (o["config"], adv, enabled), o)
        if o.get("renew") and o.get("opened") and pair not in effective and pair != (0, 1):
            report("renew-not-checked-against-config", "server configured with %s (%s): a channel opened as %s was renewed as %s%s" % (
                o["config"], enabled, tuple(o["from"]), pair, " and kept being served" if o.get("served") else ""), o)
        elif o.get("opened") and pair not in effective and pair != (0, 1):
            report("opn-not-checked-against-config", "server configured with %s (%s) opened a %s channel" % (o["config"], enabled, o["client_name"]), o)
        if o.get("session") and pair not in effective:
            report("session-on-channel-not-enabled", "server configured with %s (%s) created a session on a %s channel" % (o["config"], enabled, o["client_name"]), o)
        if o.get("opened") and o.get("session") is False and pair in effective:
            report("session-refused-on-enabled-channel", "CreateSession refused (0x%08x) on an enabled %s channel of %s" % (o.get("session_status", 0), o["client_name"], o["config"]), o)
        if o.get("opened") and o.get("served") is False:
            report("discovery-refused", "GetEndpoints refused on an opened %s channel of %s" % (o["client_name"], o["config"]), o)
        if not o.get("opened") and pair in effective and (o["has_key"] or pair[0] == 0) and pair[0] != 99 and (pair[0] == 0) == (pair[1] == 1):
            report("enabled-pair-refused/" + o["client_name"], "an enabled pair was refused: %s on %s: %s" % (o["client_name"], o["config"], o.get("err")), o)
        if not o.get("opened") and o.get("status") and o["status"] not in (0x80540000, 0x80550000) and o.get("raw"):
            report("refusal-status", "refused with status 0x%08x" % o["status"], o)

    lines = []
    for o in obs:
        en = "[%s]" % "; ".join("(%d, %d)" % tuple(x) for x in (o.get("enabled") or []))
        adv = "[%s]" % "; ".join("(0, (%d, %d))" % tuple(x) for x in (o.get("advertised") or []))
        sess = "None" if o.get("session") is None else "(Some %s)" % sc.b(o["session"])
        lines.append("(%s, %s, %s, (%d, %d), (%s, %d, %s), %s, %d%%nat)" % (en, sc.b(o["has_key"]), "OpnRenew" if o.get("renew") else "OpnIssue", o["client"][0], o["client"][1],
                                                                     sc.b(bool(o.get("opened"))), (o.get("status") if o.get("status") in (0x80540000, 0x80550000) else 0), sess, adv, o.get("urls", 1)))
    okc, idx, clog = ctx.eval_cases(
        "From Coq Require Import NArith Bool List.\nFrom Opcua Require Import Model.ServerSpace Model.ServerBrowse Model.Server Model.ServerSec.\nImport ListNotations. Open Scope N_scope.",
        "list secpair * bool * opn_kind * (N * N) * (bool * N * option bool) * list (N * secpair) * nat", lines,
        """  let '(en, key, kind, (p, m), (opened, status, sess), adv, nurls) := c in
  Bool.eqb (opn_accept_k en key kind p m) opened &&
  (if status =? 0 then true else match accept_security en p m with Some st => st =? status | None => false end) &&
  (match sess with
   | None => true
   | Some served =>
       match snd (handle_on en (fun _ => (p, m)) 1 (init (Space 1 []) 1) (EReq 0 0 (RCreateSession 7 true))) with
       | OCreateSession _ => served
       | OFault st => negb served && (st =? StBadSecurityPolicyRejected)
       | _ => false
       end
   end) &&
  Nat.eqb (length adv) (length (advertised en (repeat 0 nurls))) &&
  forallb (fun a => existsb (fun b => (fst (snd a) =? fst (snd b)) && (snd (snd a) =? snd (snd b))) (advertised en (repeat 0 nurls))) adv""")
    corr_ok = okc and not idx
    if not okc:
        detail["cases"] = clog[-1500:]
    elif idx:
        detail["model_vs_impl_mismatches"] = [obs[i] for i in idx[:8]]

    ctx.coverage.update({
        "evaluations": len(obs), "distinct_nontrivial": len({(o["config"], o["client_name"], o["opened"]) for o in obs}),
        "rule": "server configurations (None only with and without key, one secured pair only, mixed, nothing enabled) x client policy/mode "
                "(None, Basic256Sha256 Sign and SignAndEncrypt, Basic128Rsa15, Aes128_Sha256_RsaOaep, Aes256_Sha256_RsaPss) over real channels, "
                "each followed by GetEndpoints and CreateSession, plus raw OPN frames with pairs the client library refuses to send "
                "(None with Sign / SignAndEncrypt / Invalid / 4, an unknown policy URI), plus renewals: every opened channel asks for a new token "
                "with each mode its policy can carry, and unsecured channels send raw Renew frames naming modes 0..4; distinct = distinct (configuration, client pair, opened)",
        "sessions_created": sum(1 for o in obs if o.get("session")), "discovery_only_channels": sum(1 for o in obs if o.get("opened") and o.get("session") is False),
        "raw_frames": sum(1 for o in obs if o.get("raw")), "renewals": sum(1 for o in obs if o.get("renew")),
        "renewals_refused": sum(1 for o in obs if o.get("renew") and not o.get("opened")),
        "opened": sum(1 for o in obs if o.get("opened")), "refused_with_status": sum(1 for o in obs if not o.get("opened") and o.get("status")),
        "samples": obs[12:15],
        "traces_validated_against_impl": len(obs), "model_impl_mismatches": len(idx) if okc else -1,
    })
    ctx.conclude(proof_ok, corr_ok, new, detail)
