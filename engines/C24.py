"""C24 — endpoint selection returns a best matching endpoint (opcua.SelectEndpoint, ua.FormatSecurityPolicyURI)."""
import glob, json, os
import vf

PREFIX = b"http://opcfoundation.org/UA/SecurityPolicy#"
# the oracle's own (specification-side) short-name table: OPC UA Part 7 profile names
SHORT = {b"None": b"None", b"Basic128Rsa15": b"Basic128Rsa15", b"Basic256": b"Basic256", b"Basic256Sha256": b"Basic256Sha256",
         b"Aes128Sha256RsaOaep": b"Aes128_Sha256_RsaOaep", b"Aes256Sha256RsaPss": b"Aes256_Sha256_RsaPss"}

IMPORTS = """From Coq Require Import List Bool NArith.
From Coq.Strings Require Import Byte.
From Opcua Require Import Model.PureBytes Model.EndpointSelect Gen.EndpointTables.
Import ListNotations. Open Scope N_scope.
Definition E := Build_endpoint."""
CTYPE = "list (option endpoint) * bytes * N * (bytes * list nat * (N * nat))"
AGREE = """  let '(eps, policy, mode, (fmt, idx, (kind, ri))) := c in
  let sel := select_sorted security_policy_uris security_policy_uri_prefix mode_invalid in
  beqb (format_policy security_policy_uris security_policy_uri_prefix policy) fmt &&
  is_perm_of idx (seq 0 (length eps)) &&
  match pick eps idx with
  | None => false
  | Some s =>
    match sel s policy mode, kind with
    | SelOk i _, 0 => sorted_desc s && Nat.eqb i ri
    | SelErr ErrNoEndpoints, 1 => true
    | SelErr ErrNoMatch, 2 => sorted_desc s
    | SelPanic, 3 => true
    | _, _ => false
    end
  end"""
KIND = {"ok": 0, "err_empty": 1, "err_nomatch": 2, "panic": 3}


DICT = {}     # long byte strings that occur in many cases are bound once (elaborating big list literals is slow)


def cb(hexs):
    if len(hexs) > 16:
        if hexs not in DICT:
            DICT[hexs] = "u%d" % len(DICT)
        return DICT[hexs]
    return cb_raw(hexs)


def cb_raw(hexs):
    b = bytes.fromhex(hexs)
    return "[" + ";".join("x%02x" % x for x in b) + "]"


def norm(policy):
    if policy == b"":
        return b""
    if policy in SHORT:
        return PREFIX + SHORT[policy]
    if not policy.startswith(PREFIX):
        return PREFIX + policy
    return policy


def spec_match(e, policy, mode):
    return (policy == b"" or bytes.fromhex(e["u"]) == norm(policy)) and (mode == 0 or e["m"] == mode)


def oracle(o):
    """The property itself on one observation of the implementation. Returns None or a reason."""
    eps = o["eps"] or []
    if any(e is None for e in eps):
        return None     # nil pointers are outside the property's quantifier (the model says: panic)
    policy, mode = bytes.fromhex(o["policy"]), o["mode"]
    m = [e for e in eps if spec_match(e, policy, mode)]
    if o["outcome"] == "panic":
        return "SelectEndpoint panicked on a list of non-nil endpoints: " + o.get("err", "")
    if o["outcome"] == "ok":
        if not (0 <= o["res"] < len(o["after"])) or not (0 <= o["after"][o["res"]] < len(eps)):
            return "returned pointer is not an element of the list"
        e = eps[o["after"][o["res"]]]
        if not spec_match(e, policy, mode):
            return "returned endpoint does not match the requested policy/mode"
        if e["l"] < max(x["l"] for x in m):
            return "returned endpoint has security level %d but a matching endpoint has level %d" % (e["l"], max(x["l"] for x in m))
        return None
    if o["outcome"] in ("err_empty", "err_nomatch"):
        if m:
            return "error although %d endpoints match" % len(m)
        return None
    return "unexpected outcome " + o["outcome"] + " " + o.get("err", "")


def coq_case(o):
    eps = o["eps"] or []
    es = ";".join("None" if e is None else "Some (E %s %d %d)" % (cb(e["u"]), e["m"], e["l"]) for e in eps)
    after = o["after"]
    res = o["res"]
    if o["outcome"] == "ok" and res == -1:      # nil pointer returned: position of the first nil in the sorted slice
        res = next((p for p, i in enumerate(after) if 0 <= i < len(eps) and eps[i] is None), 10**6)
    return "([%s], %s, %d, (%s, [%s]%%nat, (%d, %d%%nat)))" % (
        es, cb(o["policy"]), o["mode"], cb(o["formatted"]), ";".join(str(max(i, 10**6) if i < 0 else i) for i in after),
        KIND.get(o["outcome"], 9), max(res, 0) if o["outcome"] == "ok" else 0)


def run(ctx):
    n = 6000 if ctx.thorough() else 700
    proof_ok, detail = True, {}
    ok, out = ctx.regen(["endpoint"])
    if not ok:
        proof_ok = False
        detail["translator"] = out[-2000:]
    r = ctx.props() if ok else None
    if r is not None and not r["ok"]:
        proof_ok = False
        detail["coq"] = r["failed_at"] or r["log"][-1500:]
    if ctx.thorough() and proof_ok:
        ok2, log = ctx.coqchk()
        if not ok2:
            proof_ok = False
            detail["coqchk"] = log[-1500:]

    h, log = ctx.go_build("endpointharness")
    if h is None:
        ctx.broken_tie("endpointharness does not build against /repo", log[-2000:])
        return
    # corpus / replay first, then generated cases
    files = sorted(glob.glob(os.path.join(vf.VERIF, "corpus", "C24", "*.json")))
    if ctx.replay:
        files = [ctx.replay]
    pre = []
    for f in files:
        try:
            j = json.load(open(f))
            pre.append(j.get("case", j.get("observation", j)))
        except Exception as e:
            ctx.notes.append("unreadable corpus entry %s: %s" % (f, e))
    obs = []
    if pre:
        cf = os.path.join(ctx.work, "precases.jsonl")
        with open(cf, "w") as fh:
            for c in pre:
                fh.write(json.dumps({"eps": c.get("eps"), "policy": c.get("policy", ""), "mode": c.get("mode", 0), "kind": "corpus"}) + "\n")
        rc, out = vf.sh([h, "-cases", cf], timeout=300, env=vf.GOENV)
        obs += [json.loads(l) for l in out.splitlines() if l.startswith("{")]
    if not ctx.replay:
        rc, out = vf.sh([h, "-seed", str(ctx.seed), "-n", str(n)], timeout=600, env=vf.GOENV)
        gen = [json.loads(l) for l in out.splitlines() if l.startswith("{")]
        if rc != 0 or not gen:
            ctx.broken_tie("endpointharness crashed", out[-2000:])
            return
        obs += gen

    fails = [(why, o) for o in obs for why in [oracle(o)] if why]

    corr_ok, mism = True, []
    if ok:
        lines = [coq_case(o) for o in obs]
        defs = "".join("\nDefinition %s : bytes := %s." % (v, cb_raw(k)) for k, v in DICT.items())
        okc, idx, clog = ctx.eval_cases(IMPORTS + defs, CTYPE, lines, AGREE, shard=100)
        if not okc:
            corr_ok = False
            detail["cases"] = clog
        elif idx:
            corr_ok = False
            mism = [obs[i] for i in idx[:5]]
            detail["model_vs_impl_mismatches"] = mism
            detail["mismatch_count"] = len(idx)
    else:
        corr_ok = False

    def key_of(o):
        return json.dumps([o["eps"], o["policy"], o["mode"]])
    nontriv = {key_of(o) for o in obs if o["eps"] and len(o["eps"]) >= 2 and o["outcome"] in ("ok", "err_nomatch")}
    reordered = 0
    for o in obs:
        eps = o["eps"] or []
        if any(e is None for e in eps) or o["outcome"] == "panic":
            continue
        stable = sorted(range(len(eps)), key=lambda i: -eps[i]["l"])
        if stable != o["after"]:
            reordered += 1
    hist = {}
    for o in obs:
        ln = len(o["eps"] or [])
        b = "0" if ln == 0 else "1" if ln == 1 else "2-12" if ln <= 12 else "13-70"
        hist[b] = hist.get(b, 0) + 1
    outc = {}
    for o in obs:
        outc[o["outcome"]] = outc.get(o["outcome"], 0) + 1
    ctx.coverage.update({
        "evaluations": len(obs), "distinct_nontrivial": len(nontriv),
        "rule": "seeded lists of 0..70 endpoints (URIs from the code's table, prefix+random, short names, empty, random bytes; modes 0..4 and random; levels from pools of 1/2/3/5/256 values so ties are frequent; 4% with a nil pointer) x queries (empty, short names, URIs, unknown, truncated prefix, aimed at a list member); distinct_nontrivial = distinct (list, policy, mode) with >= 2 endpoints and outcome ok or no-match",
        "samples": [dict(o, eps=(o["eps"] or [])[:4]) for o in obs[5:8]],
        "length_histogram": hist, "outcomes": outc,
        "cases_where_sort_order_differs_from_stable_sort": reordered,
        "traces_validated_against_impl": len(obs), "model_impl_mismatches": len(detail.get("model_vs_impl_mismatches", [])) and detail.get("mismatch_count", 0),
    })

    new, seen = 0, set()
    for why, o in fails:
        key = why.split(":")[0].split(" but ")[0][:60].replace(" ", "_")
        key = "".join(ch for ch in key if not ch.isdigit())
        if key in seen:
            continue
        seen.add(key)
        small = shrink(h, ctx, o)
        why = oracle(small) or why
        if ctx.finding(key, why, {"case": {"eps": small["eps"], "policy": small["policy"], "mode": small["mode"]}, "observation": small,
                                  "how": "go/cmd/endpointharness -cases <file with the 'case' object on one line>: opcua.SelectEndpoint(eps, policy, mode); ./check C24 --replay <this file>"}):
            new += 1
    ctx.conclude(proof_ok, corr_ok, new, detail)


def shrink(h, ctx, o):
    """Greedy list shrinking that keeps the oracle failing (re-running the implementation each time)."""
    cur = o
    cf = os.path.join(ctx.work, "shrink.jsonl")
    changed = True
    rounds = 0
    while changed and rounds < 200:
        changed = False
        eps = cur["eps"] or []
        for i in range(len(eps)):
            rounds += 1
            cand = {"eps": eps[:i] + eps[i + 1:], "policy": cur["policy"], "mode": cur["mode"]}
            with open(cf, "w") as fh:
                fh.write(json.dumps(cand) + "\n")
            rc, out = vf.sh([h, "-cases", cf], timeout=60, env=vf.GOENV)
            got = [json.loads(l) for l in out.splitlines() if l.startswith("{")]
            if got and oracle(got[0]):
                cur = got[0]
                changed = True
                break
    return cur
