"""C23 — client options affect only the client they are applied to (config.go, uacp.DefaultClientACK)."""
import copy, glob, json, os
import vf

IMPORTS = """From Coq Require Import List Bool NArith ZArith.
From Coq.Strings Require Import Byte.
From Opcua Require Import Model.PureBytes Model.EndpointSelect Model.ConfigHeap Gen.EndpointTables Gen.ConfigOptions.
Import ListNotations.
Definition go_run := run security_policy_uris security_policy_uri_prefix security_policy_uri_none default_dialer_shares_ack default_sechan default_session default_dial_timeout.
Definition pristine : gstate := {| g_client_ack := pristine_client_ack |}.
Definition exp_eqb (g : gstate) (o : outcome) (e : N * option econfig) : bool :=
  match o, e with
  | Created c, (0%N, Some x) => econfig_eqb (effective g c) x
  | Failed, (1%N, None) => true
  | Panic, (2%N, None) => true
  | _, _ => false
  end.
Fixpoint all2 {A B} (f : A -> B -> bool) (a : list A) (b : list B) : bool :=
  match a, b with [], [] => true | x :: a', y :: b' => f x y && all2 f a' b' | _, _ => false end.
Definition A := Build_ack. Definition SC := Build_sechan. Definition SS := Build_session. Definition T := Build_token.
Definition EC := Build_econfig."""
# a case: the program, and for every step k (after the k-th NewClient): the package-level Acknowledge and, for every
# construction so far, its outcome and (if created) its effective configuration as dumped from the implementation
CTYPE = "list (list opt) * list (ack * list (N * option econfig))"
AGREE = """  let '(progs, steps) := c in
  all2 (fun k st => let '(g, outs) := go_run pristine (firstn (S k) progs) in
                    ack_eqb (g_client_ack g) (fst st) && all2 (exp_eqb g) outs (snd st))
       (seq 0 (length steps)) steps && Nat.eqb (length steps) (length progs)"""


class Unmodelled(Exception):
    pass


def B(hexs):
    return "[" + ";".join("x%02x" % x for x in bytes.fromhex(hexs)) + "]"


def OB(hexs):
    return "None" if hexs is None else "(Some %s)" % B(hexs)


def Z(n):
    return "(%d)%%Z" % n


def N(n):
    return "%d%%N" % n


def cert_info(ci):
    if not ci["ok"]:
        return "CertBad"
    if ci.get("uri") is None:
        return "CertNoURI"
    return "(CertURI %s)" % B(ci["uri"])


def cert_file(a):
    k = a["file"]
    if k == "none":
        return "CFNone"
    if k in ("missing", "pemkey"):
        return "CFErr"
    return "(CFData %s %s)" % (OB(a["data"]), cert_info(a["cert"]))


def key_file(a):
    k = a["file"]
    if k == "none":
        return "KFNone"
    if k == "pemkey":
        return "(KFKey %s)" % N(a["key"])
    return "KFErr"


def ack_term(d):
    return "(A %s %s %s %s %s)" % (N(d["Version"]), N(d["ReceiveBufSize"]), N(d["SendBufSize"]), N(d["MaxMessageSize"]), N(d["MaxChunkCount"]))


def opt_term(o):
    n, a = o["opt"], o["args"]
    s = lambda i: B(a[i]["s"])
    simple = {"ApplicationName": "OApplicationName", "ApplicationURI": "OApplicationURI", "ProductURI": "OProductURI",
              "SecurityModeString": "OSecurityModeString", "SecurityPolicy": "OSecurityPolicy", "SessionName": "OSessionName",
              "AuthPolicyID": "OAuthPolicyID"}
    dur = {"ReconnectInterval": "OReconnectInterval", "Lifetime": "OLifetime", "SessionTimeout": "OSessionTimeout",
           "RequestTimeout": "ORequestTimeout", "DialTimeout": "ODialTimeout"}
    u32 = {"MaxMessageSize": "OMaxMessageSize", "MaxChunkCount": "OMaxChunkCount", "ReceiveBufferSize": "OReceiveBufferSize",
           "SendBufferSize": "OSendBufferSize", "SecurityMode": "OSecurityMode"}
    byt = {"RemoteCertificate": "ORemoteCertificate", "AuthCertificate": "OAuthCertificate", "AuthIssuedToken": "OAuthIssuedToken"}
    key = {"PrivateKey": "OPrivateKey", "AuthPrivateKey": "OAuthPrivateKey"}
    if n in simple:
        return "%s %s" % (simple[n], s(0))
    if n in dur:
        return "%s %s" % (dur[n], Z(a[0]["n"]))
    if n in u32:
        return "%s %s" % (u32[n], N(a[0]["n"]))
    if n in byt:
        return "%s %s" % (byt[n], OB(a[0]["b"]))
    if n in key:
        return "%s %s" % (key[n], N(a[0]["key"]))
    if n == "AutoReconnect":
        return "OAutoReconnect %s" % ("true" if a[0]["v"] else "false")
    if n == "Locales":
        l = a[0]["l"]
        return "OLocales %s" % ("None" if l is None else "(Some [%s])" % ";".join(B(x) for x in l))
    if n == "RandomRequestID":
        return "ORandomRequestID %s" % N(a[-1]["rand"])
    if n == "RemoteCertificateFile":
        return "ORemoteCertificateFile %s" % cert_file(a[0])
    if n == "CertificateFile":
        return "OCertificateFile %s" % cert_file(a[0])
    if n == "PrivateKeyFile":
        return "OPrivateKeyFile %s" % key_file(a[0])
    if n == "Certificate":
        return "OCertificate %s %s" % (OB(a[0]["b"]), cert_info(a[0]["cert"]))
    if n == "AuthAnonymous":
        return "OAuthAnonymous"
    if n == "AuthUsername":
        return "OAuthUsername %s %s" % (s(0), s(1))
    if n == "StateChangedCh":
        return "OStateChangedCh %s" % N(a[0]["chan"])
    if n == "StateChangedFunc":
        return "OStateChangedFunc %s" % N(a[0]["func"])
    if n == "Dialer":
        d = a[0]
        if d.get("nil"):
            return "ODialer None"
        ack = d["ack"]
        u = "UNil" if ack == "nil" else "UGlobal" if ack == "global" else "(UFresh %s)" % ack_term(ack)
        return "ODialer (Some (Build_udialer %s %s))" % ("None" if d["net"] is None else "(Some %s)" % Z(d["net"]), u)
    if n == "SecurityFromEndpoint":
        e, auth = a[0], a[1]["n"]
        if e.get("nil"):
            return "OSecurityFromEndpoint None %s None" % N(auth)
        toks = ";".join("None" if t is None else "Some (Build_ep_token %s %s %s)" % (N(t["type"]), B(t["policyid"]), B(t["secpolicy"]))
                        for t in (e["tokens"] or []))
        return "OSecurityFromEndpoint (Some (Build_ep_desc %s %s %s [%s])) %s %s" % (B(e["policy"]), N(e["mode"]), OB(e["cert"]), toks, N(auth), OB(e["thumb"]))
    raise Unmodelled(n)


def uses_explicit_global(prog):
    return any(o["opt"] == "Dialer" and o["args"] and isinstance(o["args"][0], dict) and o["args"][0].get("ack") == "global"
               for cl in prog for o in cl)


# ---- projection of a reflective client dump onto the model's effective configuration ------------------------------

def S(v):      # "s:hex" -> hex
    assert isinstance(v, str) and v.startswith("s:"), v
    return v[2:]


def Bv(v):     # null | "b:hex"
    if v is None:
        return None
    assert isinstance(v, str) and v.startswith("b:"), v
    return v[2:]


TOKEN_KIND = {"*ua.AnonymousIdentityToken": 0, "*ua.UserNameIdentityToken": 1, "*ua.X509IdentityToken": 2, "*ua.IssuedIdentityToken": 3}


def project(dump):
    """Returns (coq econfig term, remainder of the dump with every modelled leaf removed, list of problems)."""
    d = strip(copy.deepcopy(dump))
    problems = []
    cfg = d["cfg"]["to"]
    # Client.stateCh/stateFunc are copies of the config's
    if d.get("stateCh") != cfg.get("stateCh") or d.get("stateFunc") != cfg.get("stateFunc"):
        problems.append("Client.stateCh/stateFunc differ from cfg.stateCh/stateFunc")
    d.pop("stateCh", None), d.pop("stateFunc", None)
    ch = cfg.pop("stateCh")
    fn = cfg.pop("stateFunc")
    statech = 0 if ch is None else ch["chan"]
    statefn = 0 if fn is None else fn["func"]
    dl = cfg.pop("dialer")
    isdef = "false"
    if dl is None:
        net, ack = "None", "None"
    else:
        dd = dl["to"]
        nd = dd.pop("Dialer")
        if nd is None:
            net = "(Some None)"
        else:
            net = "(Some (Some %s))" % Z(nd["to"].pop("Timeout"))
            dd["Dialer.rest"] = nd["to"]
        ak = dd.pop("ClientACK")
        if ak is None:
            ack = "(Some None)"
        else:
            ack = "(Some (Some %s))" % ack_term(ak["to"])
            if ak.get("ptr") == "uacp.DefaultClientACK":
                isdef = "true"
            elif ak.get("ptr"):
                problems.append("ClientACK points at package-level " + ak["ptr"])
        cfg["dialer.rest"] = dd
    sc = cfg["sechan"]["to"]
    keyid = lambda v: 0 if v is None else v["key"]
    sechan = "(SC %s %s %s %s %s %s %s %s %s %s %s %s)" % (
        B(S(sc.pop("SecurityPolicyURI"))), OB(Bv(sc.pop("Certificate"))), N(keyid(sc.pop("LocalKey"))), N(keyid(sc.pop("UserKey"))),
        OB(Bv(sc.pop("Thumbprint"))), OB(Bv(sc.pop("RemoteCertificate"))), N(sc.pop("RequestIDSeed")), N(sc.pop("SecurityMode")),
        "true" if sc.pop("AutoReconnect") else "false", Z(sc.pop("ReconnectInterval")), N(sc.pop("Lifetime")), Z(sc.pop("RequestTimeout")))
    ss = cfg["session"]["to"]
    cd = ss["ClientDescription"]["to"]
    an = cd["ApplicationName"]["to"]
    text = S(an.pop("Text"))
    if an.pop("EncodingMask") != (2 if text else 0):
        problems.append("ApplicationName.EncodingMask inconsistent with Text")
    tok = ss.pop("UserIdentityToken")
    if tok is None:
        token = "None"
    else:
        kind = TOKEN_KIND.get(tok["type"])
        tv = tok["val"]["to"] if tok["val"] else None
        if kind is None or tv is None:
            problems.append("unexpected UserIdentityToken " + json.dumps(tok)[:200])
            token = "None"
        else:
            pol = S(tv.pop("PolicyID"))
            user = S(tv.pop("UserName")) if kind == 1 else ""
            data = Bv(tv.pop("CertificateData")) if kind == 2 else Bv(tv.pop("TokenData")) if kind == 3 else None
            for k, v in tv.items():          # Password, EncryptionAlgorithm: never written by an option
                if v not in (None, "s:"):
                    problems.append("token field %s set" % k)
            token = "(Some (T %s %s %s %s))" % (N(kind), B(pol), B(user), OB(data))
    loc = ss.pop("LocaleIDs")
    session = "(SS %s %s %s %s %s %s %s %s %s)" % (
        Z(ss.pop("SessionTimeout")), B(S(cd.pop("ApplicationURI"))), B(S(cd.pop("ProductURI"))), B(text),
        "None" if loc is None else "(Some [%s])" % ";".join(B(S(x)) for x in loc), B(S(ss.pop("SessionName"))),
        "None" if token == "None" else "(Some 0%nat)",
        B(S(ss.pop("AuthPolicyURI"))), B(S(ss.pop("AuthPassword"))))
    term = "(EC %s %s %s %s %s %s %s %s)" % (net, ack, isdef, sechan, session, token, N(statech), N(statefn))
    return term, d, problems


def strip(d):
    """remove the pointer addresses ("@") from a dump"""
    if isinstance(d, dict):
        return {k: strip(v) for k, v in d.items() if k != "@"}
    if isinstance(d, list):
        return [strip(x) for x in d]
    return d


def pointers(d, path="", acc=None):
    """address -> path of every pointer in a dump"""
    if acc is None:
        acc = {}
    if isinstance(d, dict):
        if "@" in d:
            acc.setdefault(d["@"], path)
        for k, v in d.items():
            if k != "@":
                pointers(v, path + "/" + k, acc)
    elif isinstance(d, list):
        for i, x in enumerate(d):
            pointers(x, "%s/%d" % (path, i), acc)
    return acc


def first_diff(a, b, path=""):
    if type(a) != type(b):
        return path or "/"
    if isinstance(a, dict):
        for k in sorted(set(a) | set(b)):
            if k not in a or k not in b:
                return path + "/" + k
            r = first_diff(a[k], b[k], path + "/" + k)
            if r:
                return r
        return None
    if isinstance(a, list):
        if len(a) != len(b):
            return path + "/len"
        for i, (x, y) in enumerate(zip(a, b)):
            r = first_diff(x, y, "%s/%d" % (path, i))
            if r:
                return r
        return None
    return None if a == b else (path or "/")


def prog_text(prog):
    return "; ".join("NewClient(" + ", ".join(o["opt"] for o in cl) + ")" for cl in prog)


def oracle(o, baseline):
    """The property itself on one observed program. Returns list of (key, what)."""
    out = []
    prog = o["prog"]
    created_at = {}
    pristine = strip(o["pristine"])
    caller_shared_dialer = any(x.get("reused") and x["opt"] == "Dialer" for cl in prog for x in cl)
    for k, st in enumerate(o["steps"]):
        # no object may be reachable from two clients, or from a client and a package-level variable
        gl = pointers({n: v for n, v in st["defaults"].items() if not n.endswith("()")})
        cps = [(j, pointers(cd)) for j, cd in enumerate(st["clients"]) if cd is not None]
        for j, pj in cps:
            for a in pj:
                if a in gl:
                    out.append(("client-points-into-package-default", "client %d = NewClient(%s): %s is the package-level object %s" % (j, ",".join(x["opt"] for x in prog[j]), pj[a], gl[a])))
        for x in range(len(cps)):
            for y in range(x + 1, len(cps)):
                for a in cps[x][1]:
                    if a in cps[y][1] and caller_shared_dialer and cps[x][1][a].startswith("/cfg/to/dialer"):
                        continue        # the caller passed one *uacp.Dialer to both clients: shared as such, by the caller
                    if a in cps[y][1]:
                        out.append(("clients-share-object", "clients %d and %d (%s) share one object: %s" % (cps[x][0], cps[y][0], prog_text(prog[:cps[y][0] + 1]), cps[x][1][a])))
        if out:
            break
        d = first_diff(pristine, strip(st["defaults"]))
        if d:
            who = ",".join(x["opt"] for x in prog[k]) or "no options"
            out.append(("default-changed:" + d.split("/")[1], "after client %d = NewClient(%s) the package default %s differs from its value at process start" % (k, who, d)))
            break
        for j, cd in enumerate(st["clients"]):
            if cd is None:
                continue
            cd = strip(cd)
            if j not in created_at:
                created_at[j] = cd
                if not prog[j] and baseline is not None:
                    d2 = first_diff(baseline, cd)
                    if d2:
                        out.append(("later-default-client-differs", "client %d was made with no options after %s but its configuration differs from a default client's at %s" % (j, prog_text(prog[:j]), d2)))
            else:
                d2 = first_diff(created_at[j], cd)
                if d2:
                    out.append(("earlier-client-changed", "configuration of client %d changed at %s when client %d = NewClient(%s) was constructed" % (j, d2, k, ",".join(x["opt"] for x in prog[k]))))
        if out:
            break
    return out


def run(ctx):
    n = 1500 if ctx.thorough() else 100
    proof_ok, detail = True, {}
    ok, out = ctx.regen(["config", "endpoint"])
    if not ok:
        proof_ok = False
        detail["translator"] = out[-2000:]
        ctx.log("translator: " + out[-800:])
    r = ctx.props() if ok else None
    if r is not None and not r["ok"]:
        proof_ok = False
        detail["coq"] = r["failed_at"] or r["log"][-1500:]
    if ctx.thorough() and proof_ok:
        ok2, log = ctx.coqchk()
        if not ok2:
            proof_ok = False
            detail["coqchk"] = log[-1500:]

    h, log = ctx.go_build("confharness")
    if h is None:
        ctx.broken_tie("confharness (with the regenerated options_gen.go) does not build against /repo", log[-2000:])
        return
    fxdir = os.path.join(ctx.work, "fx")
    args = [h, "-seed", str(ctx.seed), "-dir", fxdir, "-n", str(n)]
    if ctx.replay:
        try:
            rp = json.load(open(ctx.replay))
            vf.sh([h, "-dir", fxdir, "-n", "0", "-from", "1000000000"], timeout=300, env=vf.GOENV)      # prepares the fixtures only
            args = [h, "-seed", str(rp.get("seed", ctx.seed)), "-dir", fxdir, "-one", str(rp["index"])]
        except Exception as e:
            ctx.notes.append("replay file not understood: %s" % e)
    rc, out = vf.sh(args, timeout=1200, env=vf.GOENV)
    obs = [json.loads(l) for l in out.splitlines() if l.startswith("{")]
    crashed = [o for o in obs if "crashed" in o]
    obs = [o for o in obs if "crashed" not in o]
    if rc != 0 or not obs:
        ctx.broken_tie("confharness failed", out[-2000:])
        return
    if crashed:
        detail["crashed_children"] = crashed[:3]

    baseline = None
    for o in obs:
        if o["prog"] and not o["prog"][0] and o["steps"][0]["outcome"] == "created":
            baseline = strip(o["steps"][0]["clients"][0])
            break
    base_rest = project(baseline)[1] if baseline else None

    # (1) the property on the implementation
    fails = []
    excluded = 0
    for o in obs:
        if uses_explicit_global(o["prog"]):
            excluded += 1
            continue
        for key, what in oracle(o, baseline):
            fails.append((key, what, o))

    # (2) model vs implementation
    corr_ok, lines, line_obs, unmodelled, outside = True, [], [], {}, []
    for o in obs:
        try:
            progs = "[%s]" % ";".join("[%s]" % ";".join(opt_term(x) for x in cl) for cl in o["prog"])
        except Unmodelled as e:
            unmodelled[str(e)] = unmodelled.get(str(e), 0) + 1
            continue
        steps = []
        for st in o["steps"]:
            dca = strip(st["defaults"]).get("uacp.DefaultClientACK")
            exp = []
            for j, cd in enumerate(st["clients"]):
                oc = o["steps"][j]["outcome"]
                if cd is not None:
                    term, rest, problems = project(cd)
                    if base_rest is not None:
                        # a nil dialer / nil net.Dialer has no remaining fields to compare
                        rc_, bc_ = rest["cfg"]["to"], base_rest["cfg"]["to"]
                        if "dialer.rest" not in rc_:
                            rc_["dialer.rest"] = bc_.get("dialer.rest")
                        elif "Dialer.rest" not in rc_["dialer.rest"] and "Dialer.rest" in (bc_.get("dialer.rest") or {}):
                            rc_["dialer.rest"]["Dialer.rest"] = bc_["dialer.rest"]["Dialer.rest"]
                        dd = first_diff(base_rest, rest)
                        if dd:
                            problems.append("a field outside the model differs from a default client's: " + dd)
                    if problems:
                        outside.append({"index": o["index"], "client": j, "problems": problems})
                    exp.append("(0%%N, Some %s)" % term)
                else:
                    exp.append("(%d%%N, None)" % (2 if oc == "panic" else 1))
            steps.append("(%s, [%s])" % (ack_term(dca["to"]) if dca else "(A 0%N 0%N 0%N 0%N 0%N)", ";".join(exp)))
        lines.append("(%s, [%s])" % (progs, ";".join(steps)))
        line_obs.append(o)
    if unmodelled:
        corr_ok = False
        detail["options_without_model"] = unmodelled
    if outside:
        corr_ok = False
        detail["fields_outside_model"] = outside[:5]
    if ok and proof_ok or ok:
        okc, idx, clog = ctx.eval_cases(IMPORTS, CTYPE, lines, AGREE, shard=60)
        if not okc:
            corr_ok = False
            detail["cases"] = clog[-3000:]
        elif idx:
            corr_ok = False
            detail["mismatch_count"] = len(idx)
            detail["model_vs_impl_mismatches"] = [{"index": line_obs[i]["index"], "prog": line_obs[i]["prog"],
                                                   "outcomes": [s["outcome"] for s in line_obs[i]["steps"]]} for i in idx[:4]]
    else:
        corr_ok = False

    used = {}
    outcomes = {}
    for o in obs:
        for cl in o["prog"]:
            for x in cl:
                used[x["opt"]] = used.get(x["opt"], 0) + 1
        for s in o["steps"]:
            outcomes[s["outcome"]] = outcomes.get(s["outcome"], 0) + 1
    nontriv = {json.dumps(o["prog"]) for o in obs if len(o["prog"]) >= 2 and any(cl for cl in o["prog"])}
    ctx.coverage.update({
        "evaluations": len(obs), "distinct_nontrivial": len(nontriv),
        "rule": "programs = sequences of NewClient calls, each program in a fresh process: every exported Option constructor of config.go (list regenerated from the source) alone followed by a default client, then between two default clients, then after Dialer(d) for each partially filled d (empty, only net.Dialer, only ClientACK), then one Option VALUE X applied to two clients each followed by its own AuthPolicyID (every X), then two clients that both take SecurityFromEndpoint's fallback with every option X on the later resp. the earlier one, then %d seeded random programs (1-4 clients, 0-9 options each, arguments incl. nil/empty/boundary values, caller-built dialers, unparsable certificates, missing files); after every call all package defaults and all clients are dumped by reflection, by value and with object addresses (no object may be reachable from two clients or from a client and a package variable); distinct_nontrivial = distinct programs with >= 2 clients and >= 1 option" % n,
        "samples": [{"prog": o["prog"], "outcomes": [s["outcome"] for s in o["steps"]]} for o in obs[16:18] + obs[-2:]],
        "options_exercised": used, "outcomes": outcomes, "programs_with_explicit_default_pointer_excluded_from_oracle": excluded,
        "traces_validated_against_impl": len(lines), "model_impl_mismatches": detail.get("mismatch_count", 0),
        "package_defaults_dumped": sorted(obs[0]["pristine"].keys()),
    })

    new, seen = 0, set()
    for key, what, o in fails:
        if key in seen:
            continue
        seen.add(key)
        if ctx.finding(key, what, {"index": o["index"],
                                   "program": o["prog"], "outcomes": [s["outcome"] for s in o["steps"]],
                                   "how": "go/cmd/confharness -seed <seed> -dir <fixtures> -one <index> (fresh process): the listed NewClient calls in order, dumping package defaults and all clients after each; ./check C23 --replay <this file>"}):
            new += 1
    ctx.conclude(proof_ok, corr_ok, new, detail)
