"""C18 — each request receives its own response, whatever the concurrency and ordering."""
import json
import vf
import sendcorr_common as sc


def run(ctx):
    n = 400 if ctx.thorough() else 36
    proof_ok, detail = True, {}
    if ctx.replay:
        # a replay file names the seed and the scenario; all scenarios are deterministic functions of the seed
        try:
            rp = json.load(open(ctx.replay))
            ctx.seed = int(rp.get("seed", ctx.seed))
            ctx.log("replaying %s: %s" % (ctx.replay, rp.get("how") or rp.get("broken")))
        except Exception as e:
            ctx.log("cannot read replay file: %s" % e)
    ok, out = ctx.regen(["arith", "sendside"])
    if not ok:
        proof_ok = False
        detail["translator"] = out[-2000:]
        ctx.log("translator failed: " + out[-600:])
    r = ctx.props() if ok else None
    if r is not None and not r["ok"]:
        proof_ok = False
        detail["coq"] = r["failed_at"] or r["log"][-1500:]
    if ctx.thorough() and proof_ok:
        ok2, log = ctx.coqchk()
        if not ok2:
            proof_ok = False
            detail["coqchk"] = log[-1500:]

    h, log = ctx.go_build("schedharness")
    if h is None:
        ctx.broken_tie("harness does not build against /repo", log[-2000:])
        return
    rc, out = vf.sh([h, "-seed", str(ctx.seed), "-n", str(n), "c18"], timeout=1500, env=vf.GOENV)
    lines = [json.loads(l) for l in out.splitlines() if l.startswith("{")]
    # the forced orderings: a process of its own with one P (what a request gets from a sync.Pool depends on the P)
    if rc == 0:
        rc, out2 = vf.sh([h, "-seed", str(ctx.seed), "-n", "4" if ctx.thorough() else "3", "c18forced"], timeout=600,
                         env=dict(vf.GOENV, GOMAXPROCS="1"))
        lines += [json.loads(l) for l in out2.splitlines() if l.startswith("{")]
        out += out2
    cases = [l for l in lines if l.get("kind") == "case"]
    errors = [l for l in lines if l.get("kind") == "error"]
    if rc != 0 or not cases:
        ctx.broken_tie("harness crashed", out[-2000:])
        return

    # oracle: the property evaluated directly on what the real callers returned
    new, seen = 0, set()
    for c in cases:
        for key, why in sc.oracle_c18(c):
            if key in seen:
                continue
            seen.add(key)
            if ctx.finding(key, why, {"case": c, "how": "schedharness -seed %d c18 (scenario %s, %s)" % (ctx.seed, c["scenario"], c["label"])}):
                new += 1
    for e in errors[:3]:
        # a scenario that could not be completed (e.g. the barrier call never returned: dispatcher wedged)
        if ctx.finding("scenario-aborted", "scenario %s aborted: %s" % (e["scenario"], e["err"]), {"error": e, "how": "schedharness -seed %d c18" % ctx.seed}):
            new += 1
            break

    # correspondence: the model replays each observed history inside Coq
    corr_ok, mism = True, []
    if ok:
        ecases = [c for c in cases if not c.get("oracle_only")]
        terms = [sc.case_term(c) for c in ecases]
        okc, idx, clog = ctx.eval_cases(sc.IMPORTS, sc.CTYPE, terms, sc.AGREE, shard=120)
        if not okc:
            corr_ok = False
            detail["cases"] = clog[-1500:]
        elif idx:
            corr_ok = False
            mism = [ecases[i] for i in idx[:5]]
            detail["model_vs_impl_mismatches"] = [{"scenario": m["scenario"], "label": m["label"], "events": m["events"],
                                                   "outcomes": [(o["t"], o["code"], o["id"], o["uid"]) for o in m["outcomes"]],
                                                   "handlers": m["handlers"]} for m in mism]
            for m in mism[:1]:
                # a disagreement with the model that the oracle did not classify is still a concrete replay
                if new == 0 and ctx.finding("model-mismatch", "the implementation's outcome differs from the model's for the same history",
                                            {"case": m, "how": "schedharness -seed %d c18 (scenario %s, %s)" % (ctx.seed, m["scenario"], m["label"])}):
                    new += 1
    else:
        corr_ok = False

    kinds = {}
    for c in cases:
        if c["label"] == "end":
            for s in c["sent"]:
                kinds[s["kind"]] = kinds.get(s["kind"], 0) + 1
    codes = {}
    for c in cases:
        if c["label"] == "end":
            for o in c["outcomes"]:
                codes[str(o["code"])] = codes.get(str(o["code"]), 0) + 1
    distinct = {json.dumps([c["events"], c["start"] > 4294967000]) for c in cases}
    ctx.coverage.update({
        "evaluations": len(cases), "distinct_nontrivial": len(distinct),
        "rule": "seeded scenarios: 1-3 waves of 1-6 concurrent real callers (Read/Write) + barrier calls against a scripted server (uacp.Listen + uasc.NewServerSecureChannel) that answers in random order with ok/wrong type/ServiceFault/bad status/abort chunks, duplicates, unsolicited and late frames; request id counter started at random values incl. just below the 2^32 wrap; one case per wave boundary; plus forced orderings in a GOMAXPROCS=1 process (dispatcher held between popHandler and delivery while the caller gives up and three new requests are issued, repeated; request id counter coming round to a pending id); distinct = distinct event histories",
        "samples": [{"scenario": c["scenario"], "label": c["label"], "start": c["start"], "events": c["events"][:14]} for c in cases[:2] + cases[-1:]],
        "scenarios": n, "scenario_errors": len(errors),
        "frames_by_kind": kinds, "caller_results_by_code": codes,
        "wrap_scenarios": len({c["scenario"] for c in cases if c["start"] > 4294967000}),
        "traces_validated_against_impl": len(cases), "model_impl_mismatches": len(mism),
    })
    ctx.conclude(proof_ok, corr_ok, new, detail)
