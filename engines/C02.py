"""C02 — decoding arbitrary bytes: no panic, no hang, bounded memory."""
import glob, json, os
import vf
import codec_common as cc

MEM_A, MEM_B = 478066, 310685      # the same budget as Props/C02.v (mem_A, mem_B): theorem C02_memory
# the inputs of the three repaired findings must be rejected quickly and without noticeable allocation
REG_ALLOC, REG_MS = 1 << 20, 1000
MAX_MS = 5000


def classify(o):
    """the property's own statement on one observation of the implementation; returns (key, what) or None"""
    src = o.get("src", "")
    fam = None
    if src.startswith("deep "):
        fam = "nesting-depth"
    elif src.startswith("nested arrays claiming"):
        fam = "nesting-amplification"
    elif src.endswith("dimensions of 1"):
        fam = "variant-dimension-count"
    if o["out"] in ("panic", "killed"):
        what = "decoding %d bytes into %s: %s" % (o["len"], o["ty"], "panic" if o["out"] == "panic" else "process died / timed out (fatal error, out of memory or hang)")
        return ("%s/%s/%s" % (o["out"], o["ty"], (fam or src.split(" ")[0])), what)
    if fam and (o.get("alloc", 0) > REG_ALLOC or o.get("ms", 0) > REG_MS or (o["out"] == "ok" and not src.endswith((" 1 dimensions of 1", " 10 dimensions of 1")) and o["len"] > 600)):
        return ("regression/" + fam, "the input of the repaired finding %s is no longer rejected cheaply: %d bytes -> %s, %d bytes allocated, %d ms"
                % (fam, o["len"], o["out"], o.get("alloc", 0), o.get("ms", 0)))
    if o.get("alloc", 0) > MEM_A * o["len"] + MEM_B:
        return ("alloc/%s/%s" % (o["ty"], src.split(" ")[0]),
                "decoding %d bytes into %s allocated %d bytes (> %d*len + %d)" % (o["len"], o["ty"], o["alloc"], MEM_A, MEM_B))
    if o.get("ms", 0) > MAX_MS:
        return ("slow/%s/%s" % (o["ty"], src.split(" ")[0]), "decoding %d bytes took %d ms" % (o["len"], o["ms"]))
    return None


def run(ctx):
    n = 20000 if ctx.thorough() else 500
    detail = {}
    proof_ok = cc.regen_and_props(ctx, detail)
    okm, mlog = cc.build_model(ctx)
    if not okm:
        proof_ok = False
        detail.setdefault("coq", mlog[-1500:])

    obs = []
    # corpus first
    for f in sorted(glob.glob(os.path.join(vf.VERIF, "corpus", "C02", "*.jsonl"))):
        o, err = cc.run_hostile(ctx, 0, cases_file=f)
        if o is None:
            ctx.broken_tie("harness crashed on corpus " + f, err)
            return
        obs += o
    o, err = cc.run_hostile(ctx, n)
    if o is None:
        ctx.broken_tie("harness does not build or crashed", err)
        return
    obs += o
    # regression of the repaired nesting-depth finding: a chain of 3 million nested Variants must be rejected at level 101
    empty = os.path.join(ctx.work, "empty.jsonl")
    open(empty, "w").close()
    o, err = cc.run_hostile(ctx, 0, deep=3000000, cases_file=empty, timeout="30s")
    if o is None:
        ctx.broken_tie("harness crashed on the deep chain", err)
        return
    obs += o
    ctx.log("%d byte strings decoded by the implementation (child processes)" % len(obs))

    # oracle
    new, seen = 0, set()
    for ob in obs:
        c = classify(ob)
        if c is None:
            continue
        key, what = c
        if key in seen:
            continue
        seen.add(key)
        if ctx.finding(key, what, {"type": ob["ty"], "hex": ob.get("hex", "(%d bytes, see src)" % ob["len"]), "src": ob.get("src"),
                                   "observation": {k: ob[k] for k in ob if k not in ("val", "hex", "hex2")},
                                   "how": "ua.Decode(bytes, new(T)) in a child process (codecharness hostile)"}):
            new += 1

    # correspondence
    corr_ok = True
    if okm:
        okc, mism, clog, nmodel = cc.correspond_hostile(ctx, obs)
        if not okc:
            corr_ok = False
            detail["cases"] = clog[-2000:]
        elif mism:
            corr_ok = False
            detail["model_vs_impl_mismatches"] = [{k: m[k] for k in m if k not in ("val",)} for m in mism[:8]]
            ctx.log("model/implementation mismatches: %d, e.g. %s" % (len(mism), json.dumps(detail["model_vs_impl_mismatches"][0])[:600]))
            # a disagreeing case is a concrete input on which the implementation left the proved model
            for m in mism[:3]:
                if ctx.finding("mismatch/%s/%s" % (m["ty"], m.get("src", "").split(" ")[0]),
                               "implementation and model disagree (outcome class, value, consumed bytes, re-encoding or allocation)",
                               {"type": m["ty"], "hex": m.get("hex"), "src": m.get("src"), "implementation": {k: m[k] for k in m if k != "val"}}):
                    new += 1
    else:
        corr_ok, nmodel = False, 0

    outs = {}
    for ob in obs:
        outs[ob["out"]] = outs.get(ob["out"], 0) + 1
    distinct = {(ob["ty"], ob.get("hex", ob.get("src"))) for ob in obs if ob["len"] > 0}
    ctx.coverage.update({
        "evaluations": len(obs), "distinct_nontrivial": len(distinct),
        "rule": "handcrafted boundary inputs (length prefixes -2,-1,0,2^31-1; length prefixes of 16 MB .. 4 GB with no data at every Buffer.ReadBytes/ReadString site; dimension products overflowing int32 and wrapping modulo 2^64 to the array length 0, -1, 1, 4; all 256 encoding masks of DataValue and DiagnosticInfo, alone and nested; every Variant type id x scalar/array with and without data; nesting chains incl. depth 98..101 around ua.MaxNestingLevel and 3 million, and 1..3 / 28..51 rounds through registered structures (Variant/ExtensionObject/KeyValuePair); 31..64 dimensions; array lengths one above the remaining bytes; extension object bodies) + %d seeded mutations (truncate, bit flip, byte, 4-byte length overwrite, trailing bytes) of valid encodings of generated values of random registered types + random bytes; distinct = distinct (type, input)" % n,
        "samples": [{k: ob[k] for k in ob if k not in ("val", "hex2")} for ob in obs[:2] + obs[-2:]],
        "outcomes": outs,
        "types_hit": len({ob["ty"] for ob in obs}),
        "sources": {s: sum(1 for ob in obs if ob.get("src", "").split(" ")[0] == s) for s in ("valid", "truncated", "bitflip", "byte", "length", "trailing", "random")},
        "traces_validated_against_impl": nmodel,
        "max_alloc_per_input_byte": max((ob.get("alloc", 0) / (ob["len"] + 1) for ob in obs), default=0),
        "memory_budget": "alloc <= %d*len + %d, time <= %d ms" % (MEM_A, MEM_B, MAX_MS),
    })
    ctx.notes.append("memory: the model accounts allocations (al); Go's TotalAlloc delta must be <= 3*al + 256*len + 524288 in every case (the constant covers reflect.SliceOf creating a new slice type once per process); theorem C02_memory bounds al by %d*len + %d for every input; the inputs of the three repaired findings (nesting depth, nesting amplification, dimension count) must be rejected within %d ms and %d bytes" % (MEM_A, MEM_B, REG_MS, REG_ALLOC))
    ctx.conclude(proof_ok, corr_ok, new, detail)
