"""C08 — secured chunks conform to the OPC UA Part 6 layout."""
import json, os
import vf

MODE = {1: "ModeNone", 2: "ModeSign", 3: "ModeSignEnc"}

IMPORTS = """From Coq Require Import ZArith Bool String.
From Coq Require Import List.
From Coq.Strings Require Import Byte.
From Opcua Require Import Model.Layout Model.ChunkBytes Model.ChunkModel Model.ChunkToy Model.Part6Spec Proofs.Part6Proofs.
Import ListNotations. Open Scope Z_scope.
Definition content_eqb (a b : content) : bool :=
  bytes_eqb (x_t4 a) (x_t4 b) && bytes_eqb (x_h8 a) (x_h8 b) && (x_seq a =? x_seq b) && (x_req a =? x_req b) && bytes_eqb (x_body a) (x_body b)."""

# (mode, asym, (p1, p2, p3, ks, kr), (t4, h8, seq, req, body), secured, [(n, sent)])
#   symmetric: p1 = block, p2 = signature length; asymmetric: p1 = local key size, p2 = remote key size, p3 = padding overhead
CTYPE = "sec_mode * bool * (Z*Z*Z*Z*Z) * (string * string * Z * Z * string) * string * list (Z * string)"
AGREE = """  let '(m, asym, (p1, p2, p3, ks, kr), (t4, h8, sq, rq, body), secured, tries) := c in
  let S := if asym then toy_asym_algo p1 p2 p3 ks kr else toy_sym_algo p1 p2 ks kr in
  let R := if asym then toy_asym_algo p2 p1 p3 kr ks else toy_sym_algo p1 p2 kr ks in
  let k := spec_of m asym S R in
  let x := mkContent (unhex t4) (unhex h8) sq rq (unhex body) in
  let pnone := match m with ModeNone => true | _ => false end in
  (* gopcua's chunk = the model's chunk, and the specification's receiver reads it back *)
  match model_secure m asym S x with Ok w => bytes_eqb w (unhex secured) | _ => false end &&
  match spec_receive k (hl_of x) (unhex secured) with Some y => content_eqb y x | None => false end &&
  (* the reference sender's chunk = the specification's chunk, and the model accepts it (as gopcua did) *)
  forallb (fun t => let '(n, sent) := t in
     match spec_send k n x with Some w => bytes_eqb w (unhex sent) | None => false end &&
     match model_receive m pnone asym R (hl_of x) (unhex sent) with Ok y => content_eqb y x | _ => false end) tries"""


def oracle(o):
    if o.get("sec_err"):
        return "signAndEncrypt failed: " + o["sec_err"]
    if not o["ref_open_ok"]:
        return "the reference receiver (written from Part 6) rejects or misreads gopcua's chunk: " + o.get("ref_open_err", "content differs")
    for t in o["tries"] or []:
        if not t["impl_ok"]:
            return "gopcua rejects or misreads a conforming chunk (padding length %d): %s" % (t["n"], t.get("err", "content differs"))
    if not o["tries"]:
        return "no reference chunk produced"
    return None


def run(ctx):
    n = 24 if ctx.thorough() else 2
    proof_ok, detail = True, {}
    ok, out = ctx.regen(["arith", "policy", "chunkpreds"])
    if not ok:
        proof_ok = False
        detail["translator"] = out[-2000:]
        ctx.log("translator failed: " + out[-500:])
    r = ctx.props()
    if not r["ok"]:
        proof_ok = False
        detail["coq"] = r["failed_at"] or r["log"][-1500:]
    if ctx.thorough() and proof_ok:
        ok2, log = ctx.coqchk()
        if not ok2:
            proof_ok = False
            detail["coqchk"] = log[-1500:]
    h, log = ctx.go_build("chunkharness")
    if h is None:
        ctx.broken_tie("harness does not build against /repo", log[-2000:])
        return
    rc, out = vf.sh([h, "-seed", str(ctx.seed), "-n", str(n), "-keys", os.path.join("/verif/work", "keys"), "c08"], timeout=2400, env=vf.GOENV)
    obs = [json.loads(l) for l in out.splitlines() if l.startswith("{")]
    if rc != 0 or not obs:
        ctx.broken_tie("harness crashed", out[-2000:])
        return
    fails = [(why, o) for o in obs for why in [oracle(o)] if why]

    toy = [o for o in obs if o["kind"] == "toy" and not o.get("sec_err")]
    q = lambda s: '"%s"%%string' % s
    lines = []
    for o in toy:
        p = (o["LA"], o["LB"], o["MinPad"]) if o["asym"] else (o["Block"], o["Sig"], 0)
        tries = ";".join("(%d, %s)" % (t["n"], q(t.get("sent", ""))) for t in (o["tries"] or []) if not t.get("err", "").startswith("ref:"))
        lines.append("(%s, %s, (%d,%d,%d,%d,%d), (%s, %s, %d, %d, %s), %s, [%s])" % (
            MODE[o["mode"]], "true" if o["asym"] else "false", p[0], p[1], p[2], o["KS"], o["KR"],
            q(o["T4"]), q(o["H8"]), o["seq"] if "seq" in o else o["Seq"], o["req"] if "req" in o else o["Req"], q(o.get("body", "")), q(o.get("secured", "")), tries))
    corr_ok, mism = True, []
    if r["ok"]:
        okc, idx, clog = ctx.eval_cases(IMPORTS, CTYPE, lines, AGREE, shard=20)
        if not okc:
            corr_ok = False
            detail["cases"] = clog[-2000:]
        mism = [toy[i] for i in idx]
        if mism:
            corr_ok = False
            detail["model_vs_impl_mismatches"] = [{k: v for k, v in m.items() if k not in ("secured", "body", "tries")} for m in mism[:6]]
    else:
        corr_ok = False
    slim = lambda o: {k: (v if k != "tries" else [{kk: vv for kk, vv in t.items() if kk != "sent"} for t in v]) for k, v in o.items() if k not in ("secured", "body")}
    ctx.coverage.update({
        "evaluations": len(obs),
        "distinct_nontrivial": len({(o["kind"], o["asym"], o["policy"], o["mode"], o["LA"], o["LB"], o["MinPad"], o["Sig"], o["bodylen"]) for o in obs}),
        "rule": "every chunk goes both ways between gopcua (signAndEncrypt / verifyAndDecrypt of real channel instances) and the reference codec written "
                "from Part 6 (minimal padding and whole extra blocks of padding). toy primitives: symmetric (MSG/CLO, None/Sign/SignAndEncrypt) and asymmetric "
                "(OPN, key sizes 128..512 bytes on both sides of 2048 bits, overheads 11/42/66/130) — bytes evaluated in Coq against the model AND Part6Spec; "
                "real crypto: five policies x modes (keys derived by the reference's own P_SHA) and OPN with RSA keys 1024..4096 bits; "
                "distinct = distinct (kind, shape, policy, mode, sizes, body length)",
        "samples": [slim(o) for o in (obs[:1] + [o for o in obs if o["asym"]][:1] + obs[-1:])],
        "kinds": {"toy_sym": sum(1 for o in obs if o["kind"] == "toy" and not o["asym"]), "toy_asym": sum(1 for o in obs if o["kind"] == "toy" and o["asym"]),
                  "real_sym": sum(1 for o in obs if o["kind"] == "real" and not o["asym"]), "real_asym": sum(1 for o in obs if o["kind"] == "real" and o["asym"])},
        "reference_chunks_accepted": sum(len(o["tries"] or []) for o in obs),
        "nonminimal_padding_chunks": sum(max(0, len(o["tries"] or []) - 1) for o in obs),
        "traces_validated_against_impl": len(lines),
        "model_impl_mismatches": len(mism),
    })
    new, seen = 0, set()
    for why, o in fails:
        key = "%s/%s/%d/%s" % (o["policy"], "asym" if o["asym"] else "sym", o["mode"], why.split(":")[0][:40].replace(" ", "_"))
        if key in seen:
            continue
        seen.add(key)
        if ctx.finding(key, why, {"observation": slim(o), "how": "chunkharness -seed %d -n %d c08 (keys in work/keys)" % (ctx.seed, n)}):
            new += 1
    ctx.conclude(proof_ok, corr_ok, new, detail)
