"""C13 — the channel receive path survives any peer byte stream."""
import json
import vf, recvlib
from recvlib import hexN

NONE_URI = "http://opcfoundation.org/UA/SecurityPolicy#None".encode().hex()
OK_URIS = ["http://opcfoundation.org/UA/SecurityPolicy#Basic256Sha256".encode().hex(),
           "http://opcfoundation.org/UA/SecurityPolicy#Basic128Rsa15".encode().hex()]


def imports(cert_hex, ec_hex=""):
    return """From Coq Require Import NArith ZArith List Bool.
From Opcua Require Import Model.RecvBase Model.RecvCrypto Model.RecvMerge Model.RecvFrame.
Import ListNotations. Open Scope Z_scope.
Inductive iobs := IChunk (t s q : N) (d : bytes) | IErr (e : N) | IPanic.
Definition none_uri : bytes := %s%%N.
Definition ok_uri1 : bytes := %s%%N.
Definition ok_uri2 : bytes := %s%%N.
Definition the_cert : bytes := %s%%N.
Definition ec_cert : bytes := %s%%N.
(* certificate oracle: the harness' RSA certificate parses (RSA key), its ECDSA certificate parses (non-RSA key), everything else it sends does not parse *)
Definition cc (c : bytes) : N := if bytes_eqb c the_cert then 2%%N else if bytes_eqb c ec_cert then 1%%N else 0%%N.
Definition un (u : bytes) : bool := bytes_eqb u none_uri.
(* a real RSA algorithm fed with bytes that were not produced under its keys: decryption fails *)
Definition rsa_algo : algo := {| a_dec := fun _ => None; a_verify := fun _ _ => false; a_rsl := 256; a_lsl := 256 |}.
Definition af (u c : bytes) : option algo :=
  if (bytes_eqb u ok_uri1 || bytes_eqb u ok_uri2) then Some rsa_algo else None.
Definition toy (block : Z) (kc km : N) (sl : Z) : option algo :=
  Some {| a_dec := toy_dec block kc; a_verify := toy_verify km; a_rsl := sl; a_lsl := sl |}.
Definition md (n : Z) : smode := if n =? 2 then SSign else if n =? 3 then SSignEnc else SNone.
Definition obs_agree (r : res chunk) (o : iobs) : bool :=
  match r, o with
  | Ok c, IChunk t s q d => ((ck_type c =? t) && (ck_seq c =? s) && (ck_req c =? q))%%N && bytes_eqb (ck_data c) d
  | Err e, IErr e' => (e =? e')%%N
  | Panic _, IPanic => true
  | _, _ => false
  end.
Fixpoint chk (st : fstate) (l : list (bytes * iobs)) : bool :=
  match l with
  | [] => true
  | (b, o) :: r => let '(st', x) := read_frame un cc af true st b in obs_agree x o && chk st' r
  end.""" % (hexN(NONE_URI), hexN(OK_URIS[0]), hexN(OK_URIS[1]), hexN(cert_hex), hexN(ec_hex))


CTYPE = "fstate * list (bytes * iobs)"
AGREE = "  chk (fst c) (snd c)"


def toy(p):
    return "toy %d %d%%N %d%%N %d" % (p["block"], p["kc"], p["km"], p["sl"])


def term(c):
    opening = {0: "None", 1: "Some None", 2: "Some (%s)" % toy(c["openp"])}[c["opening"]]
    insts = "[(7%%N, [%s])]" % ";".join(toy(p) for p in c["insts"]) if c.get("insts") else "[]"
    st = "{| f_mode := md %d; f_pnone := %s; f_opening := %s; f_insts := %s; f_cap := %d; f_last := None |}" % (
        c["mode"], "true" if c["pnone"] else "false", opening, insts, c["cap"])
    fr = []
    for f in c["frames"]:
        if f["k"] == "chunk":
            o = "IChunk %d%%N %d%%N %d%%N %s%%N" % (f.get("t", 0), f.get("seq", 0), f.get("req", 0), hexN(f.get("data", "")))
        elif f["k"] == "err":
            o = "IErr %d%%N" % f["e"]
        else:
            o = "IPanic"
        fr.append("(%s%%N, %s)" % (hexN(f["b"]), o))
    return "(%s, [%s])" % (st, ";".join(fr))


def run(ctx):
    rp = recvlib.replay_case(ctx)
    n = 12 if ctx.thorough() else 2
    proof_ok, detail = (True, {}) if rp else recvlib.prove(ctx, gens=["recvlocks"])
    obs = recvlib.harness(ctx, ["-n", n, "c13"], timeout=900)
    if obs is None:
        return
    cases = [o for o in obs if "frames" in o]
    prog = [o for o in obs if o.get("name") == "progress"]
    extra = {o["name"]: o for o in obs if "frames" not in o and o.get("name") != "progress"}
    if rp is not None:
        cases = [c for c in cases if c["name"] == rp.get("case", {}).get("name")] or cases
        ctx.level = "other"
        ctx.coverage["explanation"] = "replay run (state and frames re-generated from the seed by name and re-run)"
    fails = []
    for c in cases:
        for f in c["frames"]:
            if f["k"] == "panic":
                fails.append(("panic-" + ("opn" if f["b"].startswith("4f504e") else "msg"), "readChunk panicked: " + f.get("err", ""), dict(c, frames=[f])))
                break
    for p_ in prog:
        if not p_["sentinel"]:
            last = (p_["outs"] or [{}])[-1]
            fails.append(("receive-does-not-return" if last.get("k") == "stuck" else "progress",
                          "%s channel: after %d returns of Receive the next call %s; the sentinel message behind the stream was never delivered" % (
                              p_["kind"], len(p_["outs"] or []) - 1, "did not return (waits on something that is not the network)" if last.get("k") == "stuck" else "ended with " + str(last.get("k"))), {"case": p_}))
            break
    ids, wedge = extra.get("ids"), extra.get("wedge")
    if ids and ids["ids"] >= ids["sent"] // 2:
        fails.append(("chunk-table-request-ids-unbounded",
                      "%d one-byte intermediate chunks for %d fresh request ids (MaxChunkCount %d, MaxMessageSize %d): the chunk table holds %d ids / %d chunks pinning %d bytes of receive buffers" % (
                          ids["sent"], ids["sent"], ids["mc"], ids["ms"], ids["ids"], ids["chunks"], ids["cap_sum"]), {"case": ids}))
    perid = extra.get("perid")
    if perid and (perid["max_held"] > perid["mc"] or perid["too_many"] < 1):
        fails.append(("per-request-id-cap", "%d intermediate chunks for one request id with MaxChunkCount %d: up to %d chunks were held, %d 'too many chunks' errors" % (
            perid["sent"], perid["mc"], perid["max_held"], perid["too_many"]), {"case": perid}))
    if wedge and not (wedge["first_delivered"] and wedge["second_delivered"] and not wedge["rcv_locked"]):
        fails.append(("rcvlocker-wedge",
                      "an unsolicited OpenSecureChannelResponse whose request id matches a pending request left the dispatcher waiting on rcvLocker: the next response was not delivered until the lock was released by hand", {"case": wedge}))
    corr_ok, mism, idx = True, [], []
    if rp is None:
        okc, idx, clog = ctx.eval_cases(imports(cases[0]["cert"], cases[0].get("eccert", "")), CTYPE, [term(c) for c in cases], AGREE, shard=40)
        if not okc:
            corr_ok = False
            detail["cases"] = clog[-1500:]
        elif idx:
            corr_ok = False
            mism = [cases[i] for i in idx[:5]]
            detail["model_vs_impl_mismatches"] = [c["name"] for c in mism]
    kinds = {}
    for c in cases:
        for f in c["frames"]:
            k = "%s/%s" % (f["k"], f.get("e", ""))
            kinds[k] = kinds.get(k, 0) + 1
    small = dict(cases[0], cert="(%d bytes)" % (len(cases[0]["cert"]) // 2))
    ctx.coverage.update({
        "evaluations": sum(len(c["frames"]) for c in cases),
        "distinct_nontrivial": len({f["b"] for c in cases for f in c["frames"] if f["k"] != "uacp"}),
        "rule": "client and server SecureChannels x mode None/Sign/SignAndEncrypt x opening instance nil / without algorithm / with toy algorithm x 0-2 stored instances (toy algorithms, signature lengths 20/32/300) x ReceiveBufSize 12..65535, %d channels per combination, 14 frames each: MSG/OPN/CLO chunks valid for the state, wrong channel ids, OPN under policy None / real policies with a valid, garbage or missing certificate / unknown URIs, hostile length fields, truncations, bit flips, garbage; VerifChannel.ReadChunk on each frame, result (chunk fields / error class / panic) compared with Model.RecvFrame.read_frame threaded through the same frames inside Coq; plus a flood of intermediate chunks for 2000 fresh request ids and the unsolicited-OpenSecureChannelResponse scenario on a running dispatcher; distinct = distinct frame byte strings" % n,
        "samples": [small, ids, perid, wedge],
        "outcome_classes": kinds,
        "channels": len(cases), "progress_streams": len(prog), "progress_streams_completed": sum(1 for p_ in prog if p_["sentinel"]),
        "traces_validated_against_impl": len(cases),
        "model_impl_mismatches": len(idx),
    })
    new, seen = 0, set()
    for key, why, c in fails + [("model-mismatch", "model and implementation disagree on this frame sequence", {"case": dict(c, cert="")}) for c in mism]:
        if key in seen:
            continue
        seen.add(key)
        rep = c if "case" in c else {"case": dict(c, cert="")}
        if ctx.finding(key, why, dict(rep, how="recvharness c13 with the same seed regenerates the state by name; ./check C13 --replay <this file>")):
            new += 1
    ctx.conclude(proof_ok, corr_ok, new, detail)
