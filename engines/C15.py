"""C15 — asymmetric crypto correct for all lengths; key size limits enforced."""
import json, os
import vf

IMPORTS = """From Coq Require Import ZArith Bool String.
From Coq Require Import List.
From Coq.Strings Require Import Byte.
From Opcua Require Import Model.ChunkBytes Model.CryptoBlocks Model.CryptoAsym Model.ChunkToy Props.C15.
Import ListNotations. Open Scope Z_scope."""

# ctor: (name, lsize, rsize, ok, (block, plain, sig, rsig))
CTOR_T = "string * Z * Z * bool * (Z*Z*Z*Z)"
CTOR_AGREE = """  let '(name, ls, rs, ok, (b, pl, s, r)) := c in
  match p7_lookup name with
  | Some p =>
    match asym_ctor (p7_min_bits p / 8) (p7_max_bits p / 8) (code_minpad name) ls rs with
    | Some (b', pl', s', r') => ok && (b =? b') && (pl =? pl') && (s =? s') && (r =? r')
    | None => negb ok
    end
  | None => false
  end"""
# crypt: (keysize of the encrypting key, plaintext block, plen, clen): the transcribed loop over the toy block primitive
CRYPT_T = "Z * Z * Z * Z"
CRYPT_AGREE = """  let '(ks, pb, plen, clen) := c in
  match rsa_encrypt ks (ks - pb) (toy_rsa_enc1 ks 1) (gen_body plen 1 3) with
  | Ok ct => (zlen ct =? clen) &&
             match rsa_decrypt ks (toy_rsa_dec1 ks 1) ct with Ok p => bytes_eqb p (gen_body plen 1 3) | _ => false end
  | _ => false
  end"""

# Part 7 limits (independent copy for the implementation-side oracle), bytes
LIMITS = {"Basic128Rsa15": (128, 256), "Basic256": (128, 256), "Basic256Sha256": (256, 512),
          "Aes128_Sha256_RsaOaep": (256, 512), "Aes256_Sha256_RsaPss": (256, 512)}


def oracle(o):
    if o["kind"] == "ctor":
        lo, hi = LIMITS[o["policy"]]
        want = all(s == 0 or lo <= s <= hi for s in (o["lsize"], o["rsize"]))
        if o["ok"] != want:
            return "constructor %s a key pair of %d/%d bytes; the profile allows %d..%d" % ("accepted" if o["ok"] else "rejected", o["lsize"], o["rsize"], lo, hi)
    elif o["kind"] == "crypt":
        if not o["ok"]:
            return "Encrypt failed: " + o.get("err", "")
        if not o["round_ok"]:
            return "Decrypt(Encrypt(p)) != p for a %d-byte plaintext" % o["plen"]
        if o["clen"] != -(-o["plen"] // o["plain"]) * o["block"]:
            return "ciphertext length is not ceil(len/plain) key-size blocks"
        if not o["wrongkey_rejected"]:
            return "ciphertext decrypts under a different key"
    else:
        if not o["ok"]:
            return "Signature failed: " + o.get("err", "")
        if not o["verify_ok"]:
            return "valid signature rejected"
        if o["siglen"] != o["sig"]:
            return "signature length differs from SignatureLength()"
        if not o["tamper_sig_rejected"] or not o["tamper_msg_rejected"]:
            return "tampered signature or message accepted"
        if not o["swapped_rejected"]:
            return "signature verifies under the wrong key"
    return None


def run(ctx):
    n = 40 if ctx.thorough() else 4
    proof_ok, detail = True, {}
    ok, out = ctx.regen(["arith", "policy", "policymixed", "chunkpreds"])
    if not ok:
        proof_ok = False
        detail["translator"] = out[-2000:]
        ctx.log("translator failed: " + out[-500:])
    r = ctx.props()
    if not r["ok"]:
        proof_ok = False
        detail["coq"] = r["failed_at"] or r["log"][-1500:]
    if ctx.thorough() and proof_ok:
        ok2, log = ctx.coqchk()
        if not ok2:
            proof_ok = False
            detail["coqchk"] = log[-1500:]
    h, log = ctx.go_build("chunkharness")
    if h is None:
        ctx.broken_tie("harness does not build against /repo", log[-2000:])
        return
    keys = os.path.join("/verif/work", "keys")     # real RSA keys are generated once and cached (also for scratch copies)
    rc, out = vf.sh([h, "-seed", str(ctx.seed), "-n", str(n), "-keys", keys, "c15"], timeout=2400, env=vf.GOENV)
    obs = [json.loads(l) for l in out.splitlines() if l.startswith("{")]
    if rc != 0 or not obs:
        ctx.broken_tie("harness crashed", out[-2000:])
        return
    fails = [(why, o) for o in obs for why in [oracle(o)] if why]

    ctors = [o for o in obs if o["kind"] == "ctor"]
    crypts = [o for o in obs if o["kind"] == "crypt" and o["ok"]]
    cl = ['("%s"%%string, %d, %d, %s, (%d,%d,%d,%d))' % (o["policy"], o["lsize"], o["rsize"], "true" if o["ok"] else "false",
          o["block"], o["plain"], o["sig"], o["rsig"]) for o in ctors]
    seen, kl, kobs = set(), [], []
    for o in crypts:
        k = (o["block"], o["plain"], o["plen"], o["clen"])
        if k in seen:
            continue
        seen.add(k)
        kl.append("(%d, %d, %d, %d)" % k)
        kobs.append(o)
    corr_ok, mism = True, []
    if r["ok"]:
        ok1, idx1, log1 = ctx.eval_cases(IMPORTS, CTOR_T, cl, CTOR_AGREE, name="Ctor")
        ok2, idx2, log2 = ctx.eval_cases(IMPORTS, CRYPT_T, kl, CRYPT_AGREE, shard=40, name="Crypt")
        if not (ok1 and ok2):
            corr_ok = False
            detail["cases"] = (log1 + log2)[-2000:]
        mism = [ctors[i] for i in idx1] + [kobs[i] for i in idx2]
        if mism:
            corr_ok = False
            detail["model_vs_impl_mismatches"] = mism[:6]
    else:
        corr_ok = False
    ctx.coverage.update({
        "evaluations": len(obs),
        "distinct_nontrivial": len({json.dumps({k: v for k, v in o.items()}, sort_keys=True) for o in obs}),
        "rule": "real RSA keys of 1024/2048/3072/4096 bits (cached in work/keys): Asymmetric() for all pairs of sizes incl. nil keys, all five policies; "
                "Encrypt/Decrypt between two parties for plaintext lengths {0, 1, pb-1, pb, pb+1, 2pb-1, 2pb, 2pb+1, 3pb, 3pb+1, random}; wrong-key decryption; "
                "signatures: valid, bit-flipped signature, modified message, wrong public key. Exhaustive part (every byte size 96..640, all policies; 13x13 mixed sizes) "
                "is in the theorems C15_limits / C15_mixed over the regenerated tables",
        "samples": [obs[0]] + [o for o in obs if o["kind"] == "crypt"][:2] + [o for o in obs if o["kind"] == "sig"][:1],
        "kinds": {k: sum(1 for o in obs if o["kind"] == k) for k in ("ctor", "crypt", "sig")},
        "exhaustive_table_rows": 6 * 545 + 1014,
        "traces_validated_against_impl": len(cl) + len(kl),
        "model_impl_mismatches": len(mism),
    })
    new, seen = 0, set()
    for why, o in fails:
        key = "%s/%s/%s" % (o["policy"], o["kind"], why[:40].replace(" ", "_"))
        if key in seen:
            continue
        seen.add(key)
        if ctx.finding(key, why, {"observation": o, "how": "chunkharness -seed %d -n %d c15 (keys in work/keys)" % (ctx.seed, n)}):
            new += 1
    ctx.conclude(proof_ok, corr_ok, new, detail)
