"""C22 — a session is established only after the server proves its identity."""
import collections, json, os
import vf

MODE = {1: "SecNone", 2: "SecSign", 3: "SecSignEncrypt"}
# how the scripted server built CreateSessionResponse (certificate, signature) -> the toy encoding of Props/C22.v
# ([k] = RSA certificate with key k, [0] = ECDSA certificate, [] = not a certificate; signature of d under k = k :: d)
# the Algorithm label of the SignatureData is not consulted by the client: a correctly made signature is valid whatever
# the label says, a wrong one is invalid whatever the label says
VALID = {"valid", "othercert_valid", "alg_empty_valid", "alg_unknown_valid", "alg_foreign_valid"}
CERT = {"eccert": "[0]", "garbagecert": "[]", "nilcert": "[]", "othercert_valid": "[8]"}
SIG = {"valid": "[7;1;2;3]", "othercert_valid": "[8;1;2;3]", "corrupt": "[7;1;2;4]", "empty": "[]", "zero": "[0;0;0;0]",
       "truncated": "[7;1;2]", "wrongkey": "[8;1;2;3]", "wrongnonce": "[7;1;2;0]", "wrongcert_data": "[7;7;3]",
       "eccert": "[7;1;2;3]", "garbagecert": "[7;1;2;3]", "nilcert": "[7;1;2;3]",
       "alg_empty_valid": "[7;1;2;3]", "alg_unknown_valid": "[7;1;2;3]", "alg_foreign_valid": "[7;1;2;3]",
       "alg_empty_garbage": "[9;9]", "alg_unknown_garbage": "[9;9]", "alg_foreign_garbage": "[9;9]",
       "alg_empty_nosig": "[]", "alg_unknown_nosig": "[]", "nil_sigdata": "[]",
       "alg_empty_wrongkey": "[8;1;2;3]", "alg_foreign_wrongkey": "[8;1;2;3]"}
CODE = {"value": 0, "error": 1, "panic": 2}

IMPORTS = """From Coq Require Import List String Bool Arith.
From Opcua Require Import Model.ClientGuards Model.ClientOps Model.ClientSession Gen.ClientSites Props.C22.
Import List. Import ListNotations. Open Scope list_scope. Open Scope nat_scope.
Definition with_kind (k : rkind) (e : env t_bytes) : env t_bytes :=
  {| e_mode := e_mode _ e; e_client_cert := e_client_cert _ e; e_nonce := e_nonce _ e; e_create_kind := k; e_resp_cert := e_resp_cert _ e;
     e_resp_sig := e_resp_sig _ e; e_activate_kind := e_activate_kind _ e; e_namespaces_ok := e_namespaces_ok _ e |}.
Definition proj (r : result) : nat * nat * bool * bool :=
  (match r_res r with Connected => 0 | ConnError => 1 | ConnPanic => 2 end,
   match r_state r with StClosed => 0 | StConnected => 1 | StConnecting => 2 | StDisconnected => 3 | StReconnecting => 4 end,
   r_activate_sent r, r_session r)."""


def b(x):
    return "true" if x else "false"


def obs_tuple(o):
    st, sess = None, None
    for s in o.get("obs") or []:
        if s.startswith("state="):
            st = int(s[6:])
        if s.startswith("session="):
            sess = s[8:] == "true"
    return st, sess


def run(ctx):
    n = 900 if ctx.thorough() else 150
    proof_ok, detail = True, {}
    ok, out = ctx.regen(["clientsites"])
    if not ok:
        proof_ok = False
        detail["translator"] = out[-2000:]
        ctx.log("translator failed: " + out[-800:])
    r = ctx.props() if ok else None
    if r is not None and not r["ok"]:
        proof_ok = False
        detail["coq"] = r["failed_at"] or r["log"][-1500:]
    if ctx.thorough() and proof_ok:
        ok2, log = ctx.coqchk()
        if not ok2:
            proof_ok = False
            detail["coqchk"] = log[-1500:]

    h, log = ctx.go_build("clientharness")
    if h is None:
        ctx.broken_tie("harness does not build against /repo", log[-2000:])
        return
    keys = os.path.join(vf.WORK, "keys")
    obs = []
    replays = []
    corpus = os.path.join(vf.VERIF, "corpus", "C22", "prefix_panics.json")
    if ctx.replay:
        replays = [ctx.replay]
    elif os.path.exists(corpus):
        for i, e in enumerate(json.load(open(corpus))):
            f = os.path.join(ctx.work, "corpus-%d.json" % i)
            json.dump({"case": e["case"]}, open(f, "w"))
            replays.append(f)
    for f in replays:
        rc, out = vf.sh([h, "c22", "-keys", keys, "-replay", f], timeout=180, env=vf.GOENV)
        obs += [json.loads(l) for l in out.splitlines() if l.startswith("{")]
    if not ctx.replay:
        rc, out = vf.sh([h, "c22", "-keys", keys, "-seed", str(ctx.seed), "-n", str(n)], timeout=1500, env=vf.GOENV)
        gen = [json.loads(l) for l in out.splitlines() if l.startswith("{")]
        if rc != 0 or not gen:
            ctx.broken_tie("harness crashed", out[-2000:])
            return
        obs += gen

    # oracle: the property, stated on the implementation's observations
    new, seen = 0, set()

    def report(key, what, o):
        nonlocal new
        if key in seen:
            return
        seen.add(key)
        c = dict(o["case"])
        c.pop("url", None)
        c.get("s", {}).pop("keys", None)
        if ctx.finding(key, what, {"case": c, "observed": {k: o.get(k) for k in ("outcome", "panic", "where", "err", "obs", "activates")},
                                   "how": "work/bin/clientharness c22 -replay <this file>: scripted server over a real secured channel answers CreateSession with this signature variant"}):
            new += 1

    for o in obs:
        sig, mode, pol = o["case"]["s"]["sig"], o["case"]["p"]["mode"], o["case"]["s"]["policy"]
        st, sess = obs_tuple(o)
        if o["outcome"] == "panic":
            report("panic/%s/%s" % (sig, (o.get("where") or "?")), "Connect panicked: %s at %s" % (o.get("panic"), o.get("where")), o)
        elif o["outcome"] not in ("value", "error"):
            report("%s/%s" % (o["outcome"], sig), "Connect did not return: " + (o.get("err") or "")[:200], o)
        elif o["case"]["p"].get("sr", 0) != 0:
            # a CreateSessionResponse with any non-zero ServiceResult fails the request: no session, whatever the signature
            if o["outcome"] == "value":
                report("accepted-nonzero-service-result/%s/sr%d" % (sig, o["case"]["p"]["sr"]), "Connect succeeded although CreateSession was answered with a non-zero ServiceResult (signature variant %s)" % sig, o)
            elif st != 0 or sess or o.get("activates", 0) > 0:
                report("half-open/%s" % sig, "Connect failed but state=%s session=%s activates=%s" % (st, sess, o.get("activates")), o)
        elif mode != 1 and sig not in VALID:
            if o["outcome"] == "value":
                report("accepted/%s/%s/%d%s" % (sig, pol, mode, "/chain" if o["case"]["p"].get("chain") else ""), "Connect succeeded although the server's session signature does not verify", o)
            elif st != 0 or sess or o.get("activates", 0) > 0:
                report("half-open/%s" % sig, "Connect failed but state=%s session=%s activates=%s" % (st, sess, o.get("activates")), o)
        elif o["outcome"] == "error":
            report("rejected-valid/%s/%s/%d" % (sig, pol, mode), "Connect failed although the signature is valid: " + (o.get("err") or "")[:200], o)

    # correspondence with Props.C22.t_connect (impl_connect at the toy instantiation)
    corr_ok, mism = True, []
    usable = [o for o in obs if o["outcome"] in CODE]
    if ok and (r is None or r["ok"]):
        lines = []
        for o in usable:
            sig, mode = o["case"]["s"]["sig"], o["case"]["p"]["mode"]
            st, sess = obs_tuple(o)
            if o["outcome"] == "panic":
                st, sess = 2, False
            env = "t_env %s %s %s" % (MODE[mode], CERT.get(sig, "[7]"), SIG[sig])
            if o["case"]["p"].get("sr", 0) != 0:
                env = "with_kind KBadResult (%s)" % env
            lines.append("((%d, %d, %s, %s), %s)" % (CODE[o["outcome"]], st if st is not None else 9,
                         b(o.get("activates", 0) > 0), b(sess), env))
        okc, idx, clog = ctx.eval_cases(IMPORTS, "(nat * nat * bool * bool) * env t_bytes", lines,
                                        "  let '((a, s, act, se), e) := c in let '(a', s', act', se') := proj (t_connect e) in\n"
                                        "  (a =? a') && (s =? s') && Bool.eqb act act' && Bool.eqb se se'")
        if not okc:
            corr_ok = False
            detail["cases"] = clog
        elif idx:
            corr_ok = False
            mism = [usable[i] for i in idx]
            detail["model_vs_impl_mismatches"] = mism[:10]
    else:
        corr_ok = False
    if mism and new == 0:
        for o in mism[:3]:
            report("mismatch/%s/%d" % (o["case"]["s"]["sig"], o["case"]["p"]["mode"]),
                   "implementation differs from the model (Props.C22.impl_connect) on this configuration", o)

    accepted_foreign = [o for o in obs if o["case"]["s"]["sig"] == "othercert_valid" and o["case"]["p"]["mode"] != 1 and o["outcome"] == "value"]
    if accepted_foreign:
        ctx.notes.append("observation (not a violation of C22 as stated): a CreateSessionResponse carrying a DIFFERENT certificate than the one the "
                         "channel was opened with, and a signature valid under that other certificate, is accepted (%d cases): the client verifies "
                         "against the certificate in the response and never compares it with the channel's RemoteCertificate." % len(accepted_foreign))
    cfgs = collections.Counter((o["case"]["s"]["policy"], o["case"]["p"]["mode"], o["case"]["s"]["sig"], o["case"]["p"].get("chain", 0), o["case"]["p"].get("sr", 0)) for o in obs)
    ctx.coverage.update({
        "evaluations": len(obs),
        "distinct_nontrivial": len([k for k in cfgs if k[1] != 1]),
        "rule": "quick: a seeded sample of the matrix {5 signed policies} x {Sign, SignAndEncrypt} x {23 signature / certificate / algorithm-label variants} x {client certificate single, chain of two (2 policies)} x {ServiceResult of the CreateSessionResponse: 0, non-zero Good, Uncertain, Bad} that contains every variant and every policy x mode, plus None controls; thorough: the whole matrix (230 + 23) and seeded repeats; distinct = distinct (policy, mode, variant) with a secured mode",
        "samples": [{k: o.get(k) for k in ("case", "outcome", "err", "obs", "activates")} for o in obs[len(replays):len(replays) + 3] + obs[-2:]],
        "outcomes": {"%s/%s/%s" % k: v for k, v in sorted(collections.Counter((o["case"]["s"]["sig"], "secured" if o["case"]["p"]["mode"] != 1 else "none", o["outcome"]) for o in obs).items())},
        "policies": sorted({o["case"]["s"]["policy"] for o in obs}),
        "corpus_cases": len(replays),
        "traces_validated_against_impl": len(usable),
        "model_impl_mismatches": len(mism),
    })
    ctx.assumptions += [
        "which real signatures verify is fixed by construction in the harness (signed with the right/wrong key over the right/wrong data by uapolicy itself); RSA and X.509 are parameters of the model",
        "the Dial (OpenSecureChannel) has succeeded: the channel-level certificate checks are properties C09/C15",
    ]
    ctx.conclude(proof_ok, corr_ok, new, detail)
