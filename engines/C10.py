"""C10 — a replayed secured chunk is never delivered twice (refuted: known finding replay-accepted)."""
import json
import vf, recvlib, C12
from recvlib import hexN

IMPORTS = "From Coq Require Import ZArith.\n" + C12.IMPORTS + """
Definition mkstate (keys : list N) : cstate :=
  fold_left (fun s k => cstep true s (Install 7 (9 + k) k 0%Z 3600000000000%Z)) keys (cinit 0%Z).
Definition sch (k t s r : N) (d : bytes) : schunk := {| sc_chan := 7; sc_key := k; sc_chunk := Build_chunk t s r d |}."""
CTYPE = "list N * list schunk * list iout * N * list bytes"
AGREE = """  let '(keys, h, outs, nrej, origs) := c in
  let st := mkstate keys in
  all2 (out_agree origs) (snd (recv_all 16 1048576 [] (accepted st h))) outs
  && (nlen h - nlen (accepted st h) =? nrej)"""


def term(c):
    outs = [o for o in (c["outs"] or []) if o["k"] not in ("secerr", "badseq")]
    nrej = sum(1 for o in (c["outs"] or []) if o["k"] in ("secerr", "badseq"))
    h = ";".join("sch %d %d %d %d %s" % (x["key"], x["t"], x["seq"], x["req"], hexN(x["data"])) for x in c["history"])
    return "([%s], [%s], [%s], %d, [%s])" % (";".join(str(k) for k in c["keys"]), h, ";".join(C12.iout(o) for o in outs), nrej,
                                             ";".join(hexN(x) for x in c["originals"]))


def expected_without_copies(c):
    """deliveries of a receiver that rejects every inserted copy (and every chunk under foreign keys)"""
    acc, exp = {}, []
    for x in c["history"]:
        if x["copy"] or x["key"] not in c["keys"]:
            continue
        if x["t"] == 67:
            acc[x["req"]] = acc.get(x["req"], "") + x["data"]
        else:
            exp.append((x["req"], acc.pop(x["req"], "") + x["data"]))
    return exp


def oracle(c):
    outs = c["outs"] or []
    if any(o["k"] == "panic" for o in outs):
        return "panic", "receive path panicked"
    got = [(o["req"], o.get("body")) for o in outs if o["k"] not in ("secerr", "badseq")]
    gotd = [(o["req"], o.get("body")) for o in outs if o["k"] == "deliver"]
    exp = expected_without_copies(c)
    if gotd == exp and len(got) == len(exp):
        return None
    if any(x["copy"] and x["key"] in c["keys"] for x in c["history"]):
        return "replay-accepted", "a verbatim copy of an earlier chunk was processed again: the application received %d messages %s, the sender sent %d %s" % (
            len(gotd), [r for r, _ in gotd], len(exp), [r for r, _ in exp])
    return "delivery-differs", "deliveries differ from what the sender sent although no copy was inserted: got %s expected %s" % ([r for r, _ in gotd], [r for r, _ in exp])


def run(ctx):
    rp = recvlib.replay_case(ctx)
    n = 400 if ctx.thorough() else 60
    proof_ok, detail = (True, {}) if rp else recvlib.prove(ctx)
    obs = recvlib.harness(ctx, ["-n", n, "c10"])
    if obs is None:
        return
    if rp is not None:
        obs = [c for c in obs if c["name"] == rp.get("case", {}).get("name")] or obs
        ctx.level = "other"
        ctx.coverage["explanation"] = "replay run (history re-generated from the seed by name and re-run)"
    fails = []
    for c in obs:
        r = oracle(c)
        if r:
            fails.append((r[0] if r[0] != "replay-accepted" else "replay-accepted", r[1], c))
    corr_ok, mism, idx = True, [], []
    if rp is None:
        okc, idx, clog = ctx.eval_cases(IMPORTS, CTYPE, [term(c) for c in obs], AGREE, shard=300)
        if not okc:
            corr_ok = False
            detail["cases"] = clog[-1500:]
        elif idx:
            corr_ok = False
            mism = [obs[i] for i in idx[:5]]
            detail["model_vs_impl_mismatches"] = [c["name"] for c in mism]
    ncopy = sum(1 for c in obs if any(x["copy"] for x in c["history"]))
    ctx.coverage.update({
        "evaluations": len(obs),
        "distinct_nontrivial": len({json.dumps([(x["key"], x["t"], x["seq"], x["req"], x["copy"]) for x in c["history"]]) for c in obs if any(x["copy"] for x in c["history"])}),
        "rule": "%d toy-MAC Sign histories + Basic256Sha256 Sign / SignAndEncrypt and Aes128_Sha256_RsaOaep SignAndEncrypt histories on a real server SecureChannel over TCP: 1-6 single- or two-chunk messages secured with the keys of one of 1-2 installed tokens (or with foreign keys), start numbers 1/100/near the roll-over, 0-3 verbatim copies of earlier chunks inserted at arbitrary later positions; Receive's outputs compared with the model (accepted = chunks some stored instance verifies, then Model.RecvMerge) inside Coq; oracle = deliveries equal those of the history without the copies; distinct = distinct histories containing at least one copy" % n,
        "samples": [obs[0], obs[-1]],
        "histories_with_copies": ncopy,
        "histories_violating_property": sum(1 for k, _, _ in fails if k == "replay-accepted"),
        "traces_validated_against_impl": len(obs),
        "model_impl_mismatches": len(idx),
    })
    new, seen = 0, set()
    allf = fails + [("model-mismatch", "model and implementation disagree on this history", c) for c in mism]
    for key, why, c in allf:
        if key in seen:
            continue
        seen.add(key)
        if ctx.finding(key, why, {"case": c, "how": "recvharness c10 with the same seed regenerates the history by name; ./check C10 --replay <this file>"}):
            new += 1
    # a known finding whose witness no longer fails means the model (which predicts the replay) is out of date
    if rp is None and ctx.is_known("replay-accepted") and "replay-accepted" not in ctx.known_hits and ncopy > 0:
        ctx.notes.append("known finding replay-accepted did not reproduce in this run")
    ctx.conclude(proof_ok, corr_ok, new, detail)
