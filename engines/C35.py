"""C35 — services other than discovery and session setup require an activated session."""
import json
import vf
import server_common as sc

EXEMPT_KINDS = {"createsession", "activate", "closesession"}
EXEMPT_SVC = {"findservers", "findserversonnetwork", "getendpoints", "registerserver", "registerserver2"}
SESSION_ERRORS = {sc.ST["BadSessionIDInvalid"], sc.ST["BadSessionNotActivated"]}


def gated(ev):
    if ev["kind"] in EXEMPT_KINDS:
        return False
    if ev["kind"] == "svc":
        return ev.get("svcname") not in EXEMPT_SVC
    return True


def strip(t):
    return json.dumps({k: t.get(k) for k in ("sessions", "subs", "items", "last_sub", "item_ctr")}, sort_keys=True)


def oracle(h):
    fails = []
    tables = h.init["tables"]
    nodes = json.dumps(h.init.get("nodes"), sort_keys=True)
    # what the clients were TOLD: a token is created by an answered CreateSession, activated by an ActivateSession that
    # was answered Good, and gone after an answered CloseSession (the server's own flags are not trusted here)
    known, active, closed = set(), set(), set()
    for e in h.evs:
        ev, o = e["ev"], e["out"]
        if ev.get("nomodel"):
            if not e.get("stale"):      # e.g. apprelease: the tables can be read again
                tables = e["tables"]
                if e.get("nodes") is not None:
                    nodes = json.dumps(e.get("nodes"), sort_keys=True)
            continue
        stale = bool(e.get("stale"))      # the harness could not read the tables (held by a blocked change notification)
        hooks_active = {sc.tokkey(s["Token"]) for s in (tables.get("sessions") or []) if s["Activated"]} if not stale else set(active)
        if (hooks_active - active) & closed:
            fails.append(("closed-session-still-in-table", "the session table still holds token(s) %s as activated although the client was "
                          "answered Good to CloseSession" % sorted((hooks_active - active) & closed), e))
        elif hooks_active - active:
            fails.append(("activated-without-successful-activation", "the session table marks token(s) %s activated although no ActivateSession "
                          "with that token was answered Good" % sorted(hooks_active - active), e))
        after_nodes = json.dumps(e.get("nodes"), sort_keys=True)
        if gated(ev) and ev["tok"] not in active:
            want = sc.ST["BadSessionNotActivated"] if ev["tok"] in known else sc.ST["BadSessionIDInvalid"]
            if not (o["k"] == "fault" and o["st"] in SESSION_ERRORS):
                fails.append(("served-without-session/" + ev["kind"], "%s request with a token that names no activated session was answered %s" % (
                    ev.get("svcname") or ev["kind"], json.dumps(o)[:160]), e))
            elif o["st"] != want:
                fails.append(("wrong-session-error", "expected 0x%08x, got 0x%08x" % (want, o["st"]), e))
            if not stale and (strip(e["tables"]) != strip(tables) or (e.get("nodes") is not None and after_nodes != nodes)):
                fails.append(("effect-without-session/" + ev["kind"], "%s request without an activated session changed the server's state" % ev["kind"], e))
        if ev["kind"] in ("activate", "closesession") and ev["tok"] not in known and o["k"] != "fault":
            fails.append(("session-service-unknown-token", "%s with an unknown token answered %s" % (ev["kind"], o["k"]), e))
        if ev["kind"] == "createsession" and o["k"] == "createsession":
            known.add(o["tok"])
            active.discard(o["tok"])
            closed.discard(o["tok"])
        if ev["kind"] == "activate" and o["k"] == "activate":
            active.add(ev["tok"])
        if ev["kind"] == "closesession" and o["k"] == "close":
            known.discard(ev["tok"])
            active.discard(ev["tok"])
            closed.add(ev["tok"])
        if not stale:
            tables = e["tables"]
            if e.get("nodes") is not None:
                nodes = after_nodes
    return fails


def run(ctx):
    n = 1500 if ctx.thorough() else 120
    detail = {}
    proof_ok = sc.standard_proof_steps(ctx, ["server"], detail)
    got = sc.collect(ctx, "C35", [("generated", ["hist", "-mode", "c35", "-seed", str(ctx.seed), "-n", str(n)])])
    if got is None:
        return
    hists, crashes = got

    new, seen, fails = 0, set(), []
    for h in hists:
        fails += [(k, w, e, h) for (k, w, e) in oracle(h)]
    for key, why, e, h in fails:
        if key in seen:
            continue
        seen.add(key)
        if ctx.finding(key, why, {"history": h.id, "run": h.label, "event": e["ev"], "outcome": e["out"],
                                  "replay_history": sc.replay_file_obj(h, e["i"]),
                                  "how": "serverharness replay -file <replay_history as a JSON file>"}):
            new += 1
    for c in crashes:
        if ctx.finding("server-died", "the server process died or stopped answering", c):
            new += 1

    corr_ok, bad = sc.correspondence(ctx, hists, detail)
    if crashes:
        corr_ok = False

    classes, refused, served = set(), 0, 0
    for h in hists:
        tables = h.init["tables"]
        for e in h.evs:
            ev = e["ev"]
            if ev.get("nomodel"):
                continue
            known = {sc.tokkey(s["Token"]): s["Activated"] for s in (tables.get("sessions") or [])}
            tokclass = "null" if ev["tok"] == 0 else ("activated" if known.get(ev["tok"]) else ("created" if ev["tok"] in known else "unknown-or-closed"))
            classes.add((ev.get("svcname") or ev["kind"], tokclass, e["out"]["k"]))
            if gated(ev):
                if e["out"]["k"] == "fault" and e["out"]["st"] in SESSION_ERRORS:
                    refused += 1
                else:
                    served += 1
            tables = e["tables"]
    ctx.coverage.update({
        "evaluations": sum(len(h.evs) for h in hists), "distinct_nontrivial": len(classes),
        "rule": "request histories over 2-3 raw secure channels with chosen authentication tokens (null, unknown, numeric ids of nodes, "
                "created but not activated, activated, closed) x every service the server registers; "
                "distinct = distinct (service, token class, outcome kind)",
        "histories": len(hists), "gated_requests_refused": refused, "gated_requests_served": served,
        "samples": [{"event": e["ev"], "outcome": e["out"]} for h in hists[:2] for e in h.evs[3:5]],
        "traces_validated_against_impl": len([h for h in hists if h.final is not None]),
        "model_impl_mismatches": len(bad), "oracle_failures": len(fails),
    })
    ctx.conclude(proof_ok, corr_ok, new, detail)
