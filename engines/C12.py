"""C12 — chunk streams from any conforming peer are reassembled correctly."""
import json, os
import vf, recvlib
from recvlib import hexN

IMPORTS = """From Coq Require Import NArith List Bool.
From Opcua Require Import Model.RecvBase Model.RecvMerge Model.RecvChan.
Import ListNotations. Open Scope N_scope.
Inductive iout := ID (req : N) (b : bytes) | IDecErr (req : N) | IStatus (req n : N) | ITooMany (req n : N) | ITooLarge (req n : N) | IOther.
Definition beq (a b : bytes) : bool := if list_eq_dec N.eq_dec a b then true else false.
Definition out_agree (origs : list bytes) (m : rout) (i : iout) : bool :=
  match m, i with
  | RDeliver r b, ID r' b' => (r =? r') && beq (firstn (length b') b) b'   (* DecodeService ignores trailing bytes *)
  | RDeliver r b, IDecErr r' => (r =? r') && negb (existsb (beq b) origs)
  | RDeliver r b, IStatus r' n => (r =? r') && (n =? 2148204544) && negb (existsb (beq b) origs)
  | RAbort r c, IStatus r' n => (r =? r') && (c =? n)
  | RAbortBad r, IStatus r' n => (r =? r') && (n =? 2147942400)
  | RTooMany r n, ITooMany r' n' => (r =? r') && (n =? n')
  | RTooLarge r n, ITooLarge r' n' => (r =? r') && (n =? n')
  | _, _ => false
  end.
Fixpoint all2 {A B} (f : A -> B -> bool) (l1 : list A) (l2 : list B) : bool :=
  match l1, l2 with [], [] => true | a :: l1', b :: l2' => f a b && all2 f l1' l2' | _, _ => false end.
Definition ch (t s r : N) (d : bytes) := Build_chunk t s r d.
Definition pair_eq (a b : N * N) : bool := (fst a =? fst b) && (snd a =? snd b)."""

CTYPE = "N * N * list chunk * list iout * list (N * N) * list bytes * N"

AGREE = """  let '(mc, ms, cs, outs, tab, origs, nrej) := c in
  let fs := seq_filter cs in
  let '(t, os) := recv_all mc ms [] fs in
  (nlen cs - nlen fs =? nrej) &&
  all2 (out_agree origs) os outs && all2 pair_eq (map (fun kv => (fst kv, nlen (snd kv))) t) tab"""


def iout(o):
    k = o["k"]
    if k == "deliver":
        return "ID %d %s" % (o["req"], hexN(o["body"]))
    if k == "decerr":
        return "IDecErr %d" % o["req"]
    if k == "status":
        return "IStatus %d %d" % (o["req"], o.get("n", 0))
    if k == "toomany":
        return "ITooMany %d %d" % (o["req"], o.get("n", 0))
    if k == "toolarge":
        return "ITooLarge %d %d" % (o["req"], o.get("n", 0))
    return "IOther"


def term(c):
    chunks = ";".join("ch %d %d %d %s" % (x["t"], x["seq"], x["req"], hexN(x["data"])) for x in c["chunks"])
    outs = ";".join(iout(o) for o in (c["outs"] or []) if o["k"] != "badseq")
    nrej = sum(1 for o in (c["outs"] or []) if o["k"] == "badseq")
    tab = ";".join("(%d,%d)" % (a, b) for a, b in (c["table"] or []))
    origs = ";".join(hexN(h) for h in c["originals"])
    return "(%d, %d, [%s], [%s], [%s], [%s], %d)" % (c["mc"], c["ms"], chunks, outs, tab, origs, nrej)


def proj(outs):
    return [(o["k"], o["req"], o.get("body"), o.get("n", 0)) for o in outs]


def oracle(c):
    """The property itself on the implementation: a conforming stream is delivered as the messages it encodes."""
    if not c.get("conform"):
        return None
    if proj(c["outs"] or []) != proj(c.get("expect") or []):
        got = [o for o in (c["outs"] or [])]
        return "conforming chunk stream not reassembled: expected %d messages %s, Receive returned %s" % (
            len(c["expect"]), [(o["k"], o["req"]) for o in c["expect"]], [(o["k"], o["req"], o.get("err", "")) for o in got])
    return None


def key_of(c):
    seqs = [x["seq"] for x in c["chunks"]]
    if 0 in seqs:
        return "sequence-number-0"
    return "reassembly"


def run(ctx):
    rp = recvlib.replay_case(ctx)
    if rp is not None:
        obs = recvlib.harness(ctx, ["-replay", ctx.replay, "c12"])
        if obs is None:
            return
        why = oracle(obs[0])
        ctx.coverage.update({"evaluations": 1, "distinct_nontrivial": 1, "rule": "replay of one recorded case", "samples": obs[:1]})
        ctx.level = "other"
        ctx.coverage["explanation"] = "replay run"
        if why:
            ctx.finding(key_of(obs[0]), why, {"case": obs[0], "how": "recvharness -replay <this file> c12"})
        else:
            ctx.log("replayed case passes")
        return
    n = 2500 if ctx.thorough() else 260
    proof_ok, detail = recvlib.prove(ctx)
    obs = recvlib.harness(ctx, ["-n", n, "c12"])
    if obs is None:
        return
    fails = [(oracle(c), c) for c in obs]
    fails = [(w, c) for w, c in fails if w]
    okc, idx, clog = ctx.eval_cases(IMPORTS, CTYPE, [term(c) for c in obs], AGREE, shard=400)
    corr_ok, mism = True, []
    if not okc:
        corr_ok = False
        detail["cases"] = clog
    elif idx:
        corr_ok = False
        mism = [obs[i] for i in idx[:5]]
        detail["model_vs_impl_mismatches"] = mism
    distinct = {json.dumps(c["chunks"]) for c in obs if len(c["chunks"]) >= 2}
    kinds = {}
    for c in obs:
        for o in (c["outs"] or []):
            kinds[o["k"]] = kinds.get(o["k"], 0) + 1
    ctx.coverage.update({
        "evaluations": len(obs), "distinct_nontrivial": len(distinct),
        "rule": "5 fixed boundary streams + %d reference-sender streams (1-5 messages, up to 3 interleaved by request id, arbitrary piece sizes incl. empty, aborts, start numbers 0 / around 2^32-1025 / 2^32-1 / random, roll-over to 0,1,<1024) + %d hostile streams (repeated numbers, unknown chunk types, over-limit, broken abort bodies) fed to a real client or server SecureChannel over loopback TCP; distinct = distinct chunk lists with at least two chunks" % (n, n // 2),
        "samples": [obs[0], obs[7], obs[-1]],
        "outcome_classes": kinds,
        "conforming_streams": sum(1 for c in obs if c.get("conform")),
        "streams_with_rollover": sum(1 for c in obs if any(a["seq"] > b["seq"] for a, b in zip(c["chunks"], c["chunks"][1:]))),
        "streams_with_number_0": sum(1 for c in obs if any(x["seq"] == 0 for x in c["chunks"])),
        "traces_validated_against_impl": len(obs),
        "model_impl_mismatches": len(idx) if okc else -1,
    })
    new, seen = 0, set()
    for why, c in fails + [("model and implementation disagree on this stream", c) for c in mism]:
        key = key_of(c)
        if key in seen:
            continue
        seen.add(key)
        if ctx.finding(key, why, {"case": c, "how": "recvharness -replay <this file> c12  (or ./check C12 --replay <this file>)"}):
            new += 1
    ctx.conclude(proof_ok, corr_ok, new, detail)
