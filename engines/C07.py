"""C07 — chunking round-trips every message under every policy and mode."""
import json
import vf

MODE = {1: "ModeNone", 2: "ModeSign", 3: "ModeSignEnc"}

IMPORTS = """From Coq Require Import ZArith Bool String.
From Coq Require Import List.
From Coq.Strings Require Import Byte.
From Opcua Require Import Model.Layout Model.ChunkBytes Model.ChunkModel Model.ChunkToy Gen.ArithFromGo.
Import ListNotations. Open Scope Z_scope."""

# (mode, (block, sig, ks, kr), (cs, maxbody), (chan, tok, req, s0), (pre, (l, ga, gb), suf), (maxchunks, maxmsg),
#  send status, chunks [(len, type, size, a, b, hex)], seq_after, recv [(code, req, chan)])
CTYPE = ("sec_mode * (Z*Z*Z*Z) * (Z*Z) * (Z*Z*Z*Z) * (String.string * (Z*Z*Z) * String.string) * (Z*Z*Z*Z) * Z * "
         "list (Z*Z*Z*Z*Z*String.string) * Z * list (Z*Z*Z)")

AGREE = """  let '(m, (block, sig, ks, kr), (cs, maxbody), (chan, tok, req, s0), (pre, (l, ga, gb), suf), (maxchunks, maxmsg, pmc, pmm),
        status, chunks, seq_after, recv) := c in
  let body := unhex pre ++ gen_body l ga gb ++ unhex suf in
  let S := toy_sym_algo block sig ks kr in
  let R := toy_sym_algo block sig kr ks in
  let maxb := if cs >? 0 then go_SetMaximumBodySize cs block block sig sig else maxbody in
  let pnone := match m with ModeNone => true | _ => false end in
  (maxb =? maxbody) &&
  match send_message m S MSG chan tok req maxb s0 pmc pmm body with
  | Ok (ws, sn) =>
    (status =? 0) && (sn =? seq_after) && (zlen ws =? zlen chunks) &&
    forallb (fun wc => let '(w, (len, ty, size, a, b, hx)) := wc in
               (zlen w =? len) && (zb (znth 3 w) =? ty) && (de32 (zdrop 4 w) =? size) &&
               (fst (cksum w) =? a) && (snd (cksum w) =? b) &&
               (match hx with String.EmptyString => true | _ => bytes_eqb (unhex hx) w end)) (combine ws chunks) &&
    let outs := map (fun o => match o with
                              | Deliver r ch b => (if bytes_eqb b body then 0 else 1, r, ch)
                              | Failed r ETooManyChunks => (2, r, 0)
                              | Failed r EMessageTooLarge => (3, r, 0)
                              | Failed r ESecurityChecks => (4, 0, 0)
                              | Failed r ESequenceNumber => (8, 0, 0)
                              | Failed r _ => (5, 0, 0)
                              | Aborted r => (7, r, 0)
                              | Crashed => (6, 0, 0)
                              end) (receive_all (mkRcfg m pnone R chan maxchunks maxmsg) ([], None) ws) in
    (zlen outs =? zlen recv) &&
    forallb (fun oo => let '((c1, r1, h1), (c2, r2, h2)) := oo in (c1 =? c2) && (r1 =? r2) && (h1 =? h2)) (combine outs recv)
  | Err _ => (status =? 1) && (zlen chunks =? 0) && (zlen recv =? 0)
  | Panic => status =? 2
  end"""


def recv_code(r, o):
    if r["ok"]:
        return (0 if r["same"] else 1, r["req"], r["chan"])
    e = r.get("err", "")
    if "too many chunks" in e:
        return (2, r["req"], 0)
    if "message too large" in e:
        return (3, r["req"], 0)
    if "verifying security" in e or "SecurityChecksFailed" in e:
        return (4, 0, 0)
    if "SequenceNumber" in e or "sequence number" in e.lower():
        return (8, 0, 0)
    if e.startswith("panic"):
        return (6, 0, 0)
    if r["req"] == o["req"]:
        return (1, r["req"], r["chan"])     # merged bytes did not decode as a service: "delivered something else"
    return (5, 0, 0)


def coq_case(o, sizes_only):
    """sizes_only: real algorithms — compare lengths, flags, size fields, acceptance against the model run with a
    toy algorithm of the same sizes (checksums/bytes of real ciphertext are not comparable)."""
    status = 2 if o.get("panic") else (1 if o.get("send_err") else 0)
    chunks = []
    for c in o["chunks"] or []:
        ty = ord(c["type"]) if c.get("type") else 0
        if sizes_only:
            chunks.append("(%d,%d,%d,-1,-1,\"\"%%string)" % (c["len"], ty, c["size"]))
        else:
            chunks.append("(%d,%d,%d,%d,%d,\"%s\"%%string)" % (c["len"], ty, c["size"], c["a"], c["b"], c.get("hex", "")))
    recv = ["(%d,%d,%d)" % recv_code(r, o) for r in (o["recv"] or [])]
    ks, kr = (o["ks"], o["kr"]) if not sizes_only else (1, 2)
    return "(%s, (%d,%d,%d,%d), (%d,%d), (%d,%d,%d,%d), (\"%s\"%%string, (%d,%d,%d), \"%s\"%%string), (%d,%d,%d,%d), %d, [%s], %d, [%s])" % (
        MODE[o["mode"]], o["block"], o["sig"], ks, kr, o["cs"], o["maxbody"], o["chan"], o["tok"], o["req"], o["s0"],
        o["pre"], o["l"], o["ga"], o["gb"], o["suf"], o["maxchunks"], o["maxmsg"], o["peerchunks"], o["peermsg"], status, ";".join(chunks), o["seq_after"], ";".join(recv))


AGREE_SIZES = AGREE.replace("(fst (cksum w) =? a) && (snd (cksum w) =? b) &&", "")


def oracle(o):
    """The property's own statement on the implementation's observation. Returns a reason or None."""
    if o.get("panic"):
        return "send path panicked: " + o["panic"][:80]
    nchunks_expected = o["bodylen"] // o["maxbody"] + 1 if o["maxbody"] else 0
    over_peer = (o["peerchunks"] and nchunks_expected > o["peerchunks"]) or (o["peermsg"] and o["bodylen"] > o["peermsg"])
    if o.get("send_err"):
        if over_peer and ("too many chunks" in o["send_err"] or "too large" in o["send_err"]) and not (o["chunks"] or []):
            return None      # refused before the first chunk: allowed, the message exceeds the peer's announced limits
        return "send failed: " + o["send_err"][:80]
    if o.get("timeout"):
        return "peer Receive did not return (message never completed)"
    ch = o["chunks"] or []
    if not ch:
        return "no chunk written"
    for i, c in enumerate(ch):
        if o["cs"] > 0 and c["len"] > o["cs"]:
            return "chunk of %d bytes exceeds chunk size %d" % (c["len"], o["cs"])
        if c["size"] != c["len"]:
            return "MessageSize field differs from chunk length"
        want = "F" if i == len(ch) - 1 else "C"
        if c.get("type") != want:
            return "chunk %d of %d has type %r, expected %r" % (i, len(ch), c.get("type"), want)
    within = (not o["maxmsg"] or o["bodylen"] <= o["maxmsg"]) and (not o["maxchunks"] or len(ch) <= o["maxchunks"])
    if within:
        rs = o["recv"] or []
        if len(rs) != 1 or not rs[0]["ok"] or not rs[0]["same"] or rs[0]["req"] != o["req"] or rs[0]["chan"] != o["chan"]:
            return "peer did not reassemble exactly the sent message"
    return None


def run(ctx):
    n = 40 if ctx.thorough() else 4
    proof_ok = True
    detail = {}
    ok, out = ctx.regen(["arith", "policy", "chunkpreds"])
    if not ok:
        proof_ok = False
        detail["translator"] = out[-2000:]
        ctx.log("translator failed: " + out[-500:])
    r = ctx.props() if ok else None
    if r is not None and not r["ok"]:
        proof_ok = False
        detail["coq"] = r["failed_at"] or r["log"][-1500:]
    if ctx.thorough() and proof_ok:
        ok2, log = ctx.coqchk()
        if not ok2:
            proof_ok = False
            detail["coqchk"] = log[-1500:]

    h, log = ctx.go_build("chunkharness")
    if h is None:
        ctx.broken_tie("harness does not build against /repo", log[-2000:])
        return
    rc, out = vf.sh([h, "-seed", str(ctx.seed), "-n", str(n), "c07"], timeout=2400, env=vf.GOENV)
    obs = [json.loads(l) for l in out.splitlines() if l.startswith("{")]
    if rc != 0 or not obs:
        ctx.broken_tie("harness crashed", out[-2000:])
        return

    fails = [(why, o) for o in obs for why in [oracle(o)] if why]

    corr_ok, mism = True, []
    if ok and (r is None or r["ok"] or True):
        toy = [o for o in obs if o["kind"] == "toy"]
        real = [o for o in obs if o["kind"] == "real"]
        # very large real cases are compared by the oracle only in the quick tier (1 MiB bodies are slow in vm_compute)
        cap = 1 << 21 if ctx.thorough() else 300000
        real_c = [o for o in real if o["bodylen"] <= cap]
        ok1, idx1, log1 = ctx.eval_cases(IMPORTS, CTYPE, [coq_case(o, False) for o in toy], AGREE, shard=60, name="Toy")
        ok2, idx2, log2 = ctx.eval_cases(IMPORTS, CTYPE, [coq_case(o, True) for o in real_c], AGREE_SIZES, shard=24, name="Real")
        if not (ok1 and ok2):
            corr_ok = False
            detail["cases"] = (log1 + log2)[-2000:]
        mism = [toy[i] for i in idx1] + [real_c[i] for i in idx2]
        if mism:
            corr_ok = False
            detail["model_vs_impl_mismatches"] = [{k: v for k, v in m.items() if k != "chunks"} for m in mism[:6]]
        compared = len(toy) + len(real_c)
    else:
        corr_ok = False
        compared = 0

    distinct = {(o["kind"], o["policy"], o["mode"], o["cs"], o["maxbody"], o["bodylen"]) for o in obs}
    nch = {}
    for o in obs:
        k = len(o["chunks"] or [])
        nch[k] = nch.get(k, 0) + 1
    slim = lambda o: {k: (v if k != "chunks" else [{kk: vv for kk, vv in c.items() if kk != "hex"} for c in (v or [])]) for k, v in o.items()}
    ctx.coverage.update({
        "evaluations": len(obs), "distinct_nontrivial": len(distinct),
        "rule": "messages through the real SendMsgWithContext -> loopback TCP (frame-recording proxy) -> real Receive; "
                "(a) toy cipher/MAC with policy sizes, small max body sizes: wire bytes compared byte for byte with the Coq model; "
                "(b) toy at chunk sizes 8192..70000: lengths/checksums; (c) real algorithms of all policies x modes x chunk sizes "
                "{8192..8208, 65535, 65536, random, 2^20} x bodies {k*max-1, k*max, k*max+1, small, random}: lengths, flags, size fields, "
                "sequence counter, delivery; distinct = distinct (kind, policy, mode, chunk size, max body, body length)",
        "samples": [slim(o) for o in (obs[:2] + obs[-2:])],
        "policies": sorted({o["policy"] for o in obs}),
        "chunks_per_message_histogram": {str(k): v for k, v in sorted(nch.items())},
        "exact_multiple_bodies": sum(1 for o in obs if o["maxbody"] and o["bodylen"] % o["maxbody"] == 0),
        "traces_validated_against_impl": compared,
        "model_impl_mismatches": len(mism),
    })

    new = 0
    seen = set()
    for why, o in fails:
        key = "%s/%d/%s" % (o["policy"], o["mode"], why.split(":")[0][:40].replace(" ", "_"))
        if key in seen:
            continue
        seen.add(key)
        if ctx.finding(key, why, {"observation": slim(o), "how": "chunkharness -seed %d -n %d c07: SendMsgWithContext of a FindServersRequest whose body is pre ++ gen_body(l,ga,gb) ++ suf on an instance with the given sizes; peer Receive" % (ctx.seed, n)}):
            new += 1
    ctx.conclude(proof_ok, corr_ok, new, detail)
