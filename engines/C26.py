"""C26 — subscriptions survive reconnects; notifications are acknowledged exactly once."""
import collections, json, os
import vf

ST = ["AckOK", "AckSubInvalid", "AckSeqUnknown", "AckOther"]
IMPORTS = """From Coq Require Import List Bool Arith.
From Opcua Require Import Model.ClientAcks Props.C26.
Import List. Import ListNotations. Open Scope list_scope. Open Scope nat_scope.
Fixpoint acks_eqb (a b : list ack) : bool := match a, b with [] , [] => true | x :: a', y :: b' => ack_eqb x y && acks_eqb a' b' | _, _ => false end.
Fixpoint reqs_eqb (a b : list (list ack)) : bool := match a, b with [], [] => true | x :: a', y :: b' => acks_eqb x y && reqs_eqb a' b' | _, _ => false end.
Definition fate_code (f : fate) : nat := match f with Republished => 0 | Recreated _ => 1 | Lost => 2 | Untouched => 3 end.
Definition chk_acks (h : list publish_resp) (obs : list (list ack)) : bool := reqs_eqb (requests [] h) obs.
Fixpoint nats_eqb (a b : list nat) : bool := match a, b with [], [] => true | x :: a', y :: b' => (x =? y) && nats_eqb a' b' | _, _ => false end.
Definition nth_acks (n : nat) (l : list (list ack)) : list ack := nth n l [].
(* the acknowledgement lists of the requests the server sees in a mixed-outcome reconnect: the very first request, the
   one after the data notification, and the first one after the reconnect (= after the last event) *)
Definition chk_mixed (h : list event) (obs : list (list ack)) : bool :=
  let rq := ev_requests [] h in
  reqs_eqb obs (nth_acks 0 rq :: nth_acks 1 rq :: map (fun _ => last rq []) (tl (tl obs))).
Definition chk_items (p : path) (e : sub_env) (groups reqs : list nat) : bool :=
  nats_eqb (fst (rounds_items (List.length reqs) p e groups)) reqs.
Definition chk_reconnect (p : path) (e : sub_env) (alive recreated resumed : bool) : bool :=
  let '(fs, _) := reconnect_subs p [e] in
  match fs with
  | [(_, f)] => Bool.eqb alive (negb (fate_code f =? 2)) && Bool.eqb recreated (fate_code f =? 1) && Bool.eqb resumed (publishing_resumed p [e])
  | _ => false
  end."""


def b(x):
    return "true" if x else "false"


def acks_term(al):
    return "[" + ";".join("(%d,%d)" % (a[0], a[1]) for a in al) + "]"


def run(ctx):
    n = 98 if ctx.thorough() else 31
    proof_ok, detail = True, {}
    r = ctx.props()
    if not r["ok"]:
        proof_ok = False
        detail["coq"] = r["failed_at"] or r["log"][-1500:]
    if ctx.thorough() and proof_ok:
        ok2, log = ctx.coqchk()
        if not ok2:
            proof_ok = False
            detail["coqchk"] = log[-1500:]
    h, log = ctx.go_build("clientharness")
    if h is None:
        ctx.broken_tie("harness does not build against /repo", log[-2000:])
        return
    if ctx.replay:
        rc, out = vf.sh([h, "c26", "-replay", ctx.replay], timeout=300, env=vf.GOENV)
    else:
        rc, out = vf.sh([h, "c26", "-seed", str(ctx.seed), "-n", str(n)], timeout=1500, env=vf.GOENV)
    obs = [json.loads(l) for l in out.splitlines() if l.startswith("{")]
    if rc != 0 or not obs:
        ctx.broken_tie("harness crashed", out[-2000:])
        return

    new, seen = 0, set()

    def report(key, what, o):
        nonlocal new
        if key in seen:
            return
        seen.add(key)
        c = dict(o["case"])
        c.pop("url", None)
        if ctx.finding(key, what, {"case": c, "observed": {k: o.get(k) for k in ("acks", "states", "subs", "pubs_after", "values", "errors", "republished", "creates", "items_round", "err", "panic")},
                                   "how": "work/bin/clientharness c26 -replay <this file>: scripted server; kind acks = publish history in case.l (5 ints per response), kind reconnect = scripted ActivateSession/Transfer/Republish/CreateSubscription/CreateMonitoredItems outcomes in case.p"}):
            new += 1

    lines_a, obs_a, lines_r, obs_r, lines_m, obs_m = [], [], [], [], [], []
    for o in obs:
        c = o["case"]
        if o.get("acks") is None or (o.get("err") or "").strip():
            report("harness/" + (o.get("panic") or o.get("err") or "?")[:50], "run failed: %s %s" % (o.get("err"), o.get("panic")), o)
            continue
        if c["s"]["kind"] == "acks" and len(o["acks"]) == 0:
            # two subscriptions registered and not one publish request (before the lost-resume fix this happened when
            # the loop goroutine was scheduled after the Subscribe calls)
            report("publish-loop-never-started", "the client holds subscriptions %s but never sent a publish request" % o.get("subs"), o)
            continue
        if c["s"]["kind"] == "acks":
            L, acks = c["l"], o["acks"]
            hs = []
            received, acked = [], collections.Counter()
            for k in range(0, len(L), 5):
                i = k // 5
                sub, data, delta, stbase, stride = L[k:k + 5]
                nobs = len(acks[i]) if i < len(acks) else 0
                nres = max(0, nobs + delta)
                res = [ST[(stbase + j * stride) % 4] for j in range(nres)]
                hs.append("{| pr_sub := %d; pr_known := %s; pr_seq := %d; pr_data := %s; pr_results := [%s] |}" % (sub, b(sub != 77), i + 1, b(data == 1), ";".join(res)))
                # oracle bookkeeping: which acknowledgements did the server answer OK
                if delta == 0 and i < len(acks):
                    for j, a in enumerate(acks[i]):
                        if res[j] == "AckOK":
                            acked[tuple(a)] += 1
                if sub != 77 and data == 1:
                    received.append((sub, i + 1, i))
            lines_a.append("([%s], [%s])" % (";".join(hs), ";".join(acks_term(a) for a in acks)))
            obs_a.append(o)
            # the property itself: a received notification is in the next request; none is acknowledged (OK) twice
            for sub, seq, i in received:
                if i + 1 < len(acks) and [sub, seq] not in acks[i + 1]:
                    report("not-acknowledged/publish", "notification %d/%d received in a publish response is missing from the next PublishRequest" % (sub, seq), o)
            for a, cnt in acked.items():
                if cnt > 1:
                    report("acknowledged-twice", "notification %s was acknowledged (status OK) %d times" % (a, cnt), o)
        elif c["p"].get("mixed") == 1:
            p = c["p"]
            acks = o["acks"]
            ev = ["EPublish {| pr_sub := 1; pr_known := true; pr_seq := 1; pr_data := true; pr_results := [] |}"]
            if p.get("republish_msgs") == 1 and not (p["tinvalid"] & 1):
                ev.append("ERepublish 1 2")
            for sid in range(1, p["nsubs"] + 1):
                if p["tinvalid"] & (1 << (sid - 1)):
                    ev.append("ERecreate %d" % sid)
            lines_m.append("([%s], [%s])" % (";".join(ev), ";".join(acks_term(a) for a in acks)))
            obs_m.append(o)
            connected = bool(o["states"]) and o["states"][-1] == 1
            if not connected or len(acks) < 3:
                report("reconnect-failed", "mixed-outcome reconnect did not complete: states %s, %d publish requests" % (o["states"], len(acks)), o)
                continue
            # the property itself: what the application received and the server has not acknowledged yet is in the
            # first PublishRequest after the reconnect
            want = [[1, 1]] + ([[1, 2]] if o.get("republished", 0) > 0 else [])
            missing = [a for a in want if a not in acks[2]]
            if missing:
                report("queued-acks-lost-in-reconnect", "notifications %s were delivered to the application and queued for acknowledgement before/during the reconnect but are missing from the first PublishRequest after it (%s); subscriptions recreated: tinvalid=%d" % (missing, acks[2], p["tinvalid"]), o)
        else:
            p = c["p"]
            connected = bool(o["states"]) and o["states"][-1] == 1
            alive = len(o["subs"]) > 0
            recreated = alive and o["subs"][0] >= 10
            resumed = o["pubs_after"] > 0
            path = "SessionKept" if p.get("session_lost", 0) == 0 else "(SessionLost %s)" % b(p.get("transfer_failed", 0) == 1)
            env = "{| se_id := 1; se_items := 2; se_transfer_ok := %s; se_republish_ok := %s; se_create_ok := %s; se_items_ok := %s |}" % (
                b(p.get("transfer_ok", 0)), b(p.get("republish_ok", 0)), b(p.get("create_ok", 0)), b(p.get("items_ok", 0)))
            groups = [2, 1, 1][:max(1, p.get("groups", 1))]
            reqs = o.get("items_round") or []
            # a failing CreateMonitoredItems stops at the first group, in map order: not comparable with several groups
            if p.get("items_ok", 0) == 0 and len(groups) > 1:
                reqs = []
            lines_r.append("(%s, %s, (%s, %s, %s), ([%s], [%s]))" % (path, env, b(alive), b(recreated), b(resumed),
                           ";".join(str(x) for x in groups), ";".join(str(x) for x in reqs)))
            obs_r.append(o)
            # the property itself: a reconnect that recreates the subscription asks for ALL of its items, every time
            if p.get("create_ok", 0) == 1 and p.get("items_ok", 0) == 1:
                for k, q in enumerate(o.get("items_round") or []):
                    if q not in (0, sum(groups)):
                        report("items-lost-on-recreate", "reconnect %d recreated the subscription with %d of its %d monitored items (%d TimestampsToReturn groups)" % (k + 1, q, sum(groups), len(groups)), o)
            if not connected:
                report("reconnect-failed", "the client did not report Connected after the scripted reconnect: states %s" % o["states"], o)
                continue
            # history class "recreateSubscription fails part-way" (CreateSubscription or CreateMonitoredItems refused while
            # recreating): monitor() ignores the error (`action = recreateSession; continue` only continues the range loop,
            # then `action = none`), reports Connected and does not count the subscription in activeSubs
            # Republish was answered BadSubscriptionIDInvalid: the server no longer has the subscription, it must be recreated
            republish_tried = p.get("session_lost", 0) == 0 or (p.get("transfer_failed", 0) == 0 and p.get("transfer_ok", 0) == 1)
            if republish_tried and p.get("republish_ok", 0) == 0 and o.get("creates", 0) == 0:
                report("expired-subscription-not-recreated", "Republish answered BadSubscriptionIDInvalid (the server has dropped the subscription) but the client did not recreate it: it holds %s and reports Connected" % o["subs"], o)
            recreate_failed = o.get("creates", 0) > 0 and (p.get("create_ok", 0) == 0 or p.get("items_ok", 0) == 0)
            if recreate_failed and (not alive or not resumed):
                report("failed-recreate-connected", "recreateSubscription failed part-way (create_ok=%s items_ok=%s) and the client reports Connected: subscription %s, publishing resumed=%s" % (
                    p.get("create_ok"), p.get("items_ok"), "gone" if not alive else "registered as %s without its items" % o["subs"], resumed), o)
            elif not alive:
                report("subscription-lost", "the client reports Connected but the subscription that was active is gone although no recreate step failed", o)
            elif not resumed:
                if p.get("session_lost", 0) == 0:
                    report("session-kept-not-resumed", "session kept across the reconnect: nothing is republished, activeSubs = 0, the publish loop paused at the disconnect is never resumed", o)
                else:
                    report("not-resumed", "the client holds subscriptions %s after the reconnect but sends no publish request" % o["subs"], o)
            if o.get("republished", 0) > 0 and o["values"] > 0:
                flat = [tuple(a) for al in o["acks"] for a in al]
                if (1, 1) not in flat and len(o["acks"]) > 0:
                    report("republish-not-acked", "a republished notification (subscription 1, sequence 1) was delivered to the application and is in no later acknowledgement list", o)

    corr_ok, mism = True, []
    if r["ok"]:
        okc, idx, clog = ctx.eval_cases(IMPORTS, "list publish_resp * list (list ack)", lines_a, "  chk_acks (fst c) (snd c)", name="CasesA")
        if not okc:
            corr_ok = False
            detail["cases_acks"] = clog
        mism += [obs_a[i] for i in idx]
        okc, idx, clog = ctx.eval_cases(IMPORTS, "path * sub_env * (bool * bool * bool) * (list nat * list nat)", lines_r,
                                        "  let '(p, e, (a, rc, rs), (gs, reqs)) := c in chk_reconnect p e a rc rs && chk_items p e gs reqs", name="CasesR")
        if not okc:
            corr_ok = False
            detail["cases_reconnect"] = clog
        mism += [obs_r[i] for i in idx]
        okc, idx, clog = ctx.eval_cases(IMPORTS, "list event * list (list ack)", lines_m, "  chk_mixed (fst c) (snd c)", name="CasesM")
        if not okc:
            corr_ok = False
            detail["cases_mixed"] = clog
        mism += [obs_m[i] for i in idx]
        if mism:
            corr_ok = False
            detail["model_vs_impl_mismatches"] = mism[:10]
    else:
        corr_ok = False
    if mism and new == 0:
        for o in mism[:3]:
            report("mismatch/" + o["case"]["s"]["kind"], "the implementation differs from the model (Model.ClientAcks) on this history / scenario", o)

    ctx.coverage.update({
        "evaluations": len(obs),
        "distinct_nontrivial": len({json.dumps([o["case"].get("l"), o["case"].get("p")]) for o in obs}),
        "rule": "two of three cases: publish histories of 2..7 responses over subscriptions {1, 2, unknown 77}, data or keep-alive, per-acknowledgement statuses {OK, SubscriptionIDInvalid, SequenceNumberUnknown, other}, 1/8 with a result count off by one; one of three: reconnect scenarios over {session kept/lost} x {transfer unsupported/ok/invalid} x {republish ok/fails, with or without a retransmitted message} x {CreateSubscription ok/fails} x {CreateMonitoredItems ok/fails} x {1..3 TimestampsToReturn groups of items} x {1, 2 consecutive reconnects}; plus 6 mixed-outcome reconnects over 2..3 subscriptions (subscription 1 with a queued un-acknowledged notification survives, others are recreated; the acknowledgements of every PublishRequest are compared with the model) and the known-finding scenarios; distinct = distinct histories / scenarios",
        "samples": [{k: o.get(k) for k in ("case", "acks", "states", "subs", "pubs_after")} for o in obs[:4] + obs[-2:]],
        "ack_histories": len(lines_a), "reconnect_scenarios": len(lines_r), "mixed_outcome_reconnects": len(lines_m),
        "traces_validated_against_impl": len(lines_a) + len(lines_r) + len(lines_m),
        "model_impl_mismatches": len(mism),
    })
    ctx.assumptions += [
        "the acknowledgement model is hand-transcribed (no translated part): it is compared EXACTLY with the acknowledgement lists of every PublishRequest the scripted server receives",
        "one subscription with 2..4 items in 1..3 TimestampsToReturn groups, one or two consecutive reconnects; republish sends at most one retransmitted message (the client sleeps one second between republish requests)",
    ]
    ctx.conclude(proof_ok, corr_ok, new, detail)
