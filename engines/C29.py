"""C29 — no client can crash or hang the server."""
import json
import vf
import server_common as sc

CANARY_BOUND_MS = 1000.0


def run(ctx):
    n = 1200 if ctx.thorough() else 80
    nf = 20000 if ctx.thorough() else 600
    detail = {}
    proof_ok = sc.standard_proof_steps(ctx, ["server"], detail)

    # (1) hostile request histories in-process: outcome-level correspondence with the model (which says: never Panic)
    got = sc.collect(ctx, "C29", [("generated", ["hist", "-mode", "c29", "-seed", str(ctx.seed), "-n", str(n)]),
                                  ("no-endpoints", ["hist", "-mode", "c29", "-nosec", "-seed", str(ctx.seed + 1), "-n", str(max(4, n // 10))])])
    if got is None:
        return
    hists, crashes = got
    new = 0
    for c in crashes:
        if '"t":"aborted"' in c.get("tail", ""):
            continue        # reported below as an unanswered request, with the history as replay
        key = "server-died/" + ((c.get("request") or {}).get("kind") or "unknown")
        if ctx.finding(key, "the server process died while handling a request (the harness runs client and server in one process)", c):
            new += 1
    unanswered = []
    index_reported = False
    for h in hists:
        for e in h.evs:
            if e["out"]["k"] in ("timeout", "error", "dead"):
                unanswered.append((h, e))
            if not e["tables"].get("consistent", True) and not index_reported:
                index_reported = True
                if ctx.finding("item-index-inconsistent", "after a %s request the monitored item indexes (by node / by subscription) list items "
                               "that are not in the id table any more: later changes of the node are sent to a subscription that is gone" % e["ev"]["kind"],
                               {"history": h.id, "event": e["ev"], "outcome": e["out"], "replay_history": sc.replay_file_obj(h, e["i"])}):
                    new += 1
    seen = set()
    for h, e in unanswered:
        key = "unanswered/" + e["ev"]["kind"]
        if key in seen:
            continue
        seen.add(key)
        if ctx.finding(key, "a %s request was not answered: %s" % (e["ev"]["kind"], e["out"].get("err", e["out"]["k"])),
                       {"history": h.id, "event": e["ev"], "outcome": e["out"], "replay_history": sc.replay_file_obj(h, e["i"])}):
            new += 1
    corr_ok, bad = sc.correspondence(ctx, hists, detail)
    if crashes:
        corr_ok = False

    # (2) fuzzing client + canary against a server in a child process: death = Panic, canary latency bound = Hang
    fuzz_cases, fuzz_kinds, max_lat, fuzz_done = 0, {}, 0.0, False
    res, err = sc.run_harness(ctx, ["fuzz", "-seed", str(ctx.seed), "-n", str(nf)], timeout=3000)
    if res is None:
        ctx.broken_tie("harness does not build against /repo", err[-2000:])
        return
    for ln in res[1].splitlines():
        if not ln.startswith("{"):
            continue
        try:
            o = json.loads(ln)
        except Exception:
            continue
        if o.get("t") == "fuzz":
            fuzz_cases += 1
            fuzz_kinds[o["kind"]] = fuzz_kinds.get(o["kind"], 0) + 1
            max_lat = max(max_lat, o.get("canary_ms", 0.0))
            if not o.get("alive", True) or o.get("err"):
                what = "the server process died" if not o.get("alive", True) else "the canary client was not answered"
                if ctx.finding("fuzz/" + ("died" if not o.get("alive", True) else "canary") + "/" + o["kind"],
                               "%s after a fuzzed %s" % (what, o["kind"]),
                               {"case": o, "how": "serverharness fuzz -seed %d -n %d (case %d)" % (ctx.seed, nf, o["i"])}):
                    new += 1
            elif o.get("canary_ms", 0) > CANARY_BOUND_MS:
                if ctx.finding("fuzz/slow/" + o["kind"], "canary latency %.0f ms after a fuzzed %s" % (o["canary_ms"], o["kind"]),
                               {"case": o, "how": "serverharness fuzz -seed %d -n %d (case %d)" % (ctx.seed, nf, o["i"])}):
                    new += 1
        elif o.get("t") == "fuzzdone":
            fuzz_done = True
    if not fuzz_done and new == 0:
        if ctx.finding("fuzz/incomplete", "the fuzz run did not complete", {"tail": res[1][-1500:]}):
            new += 1

    # (3) clients that do not read their answers vs the canary: every canary request must be answered within
    #     (write deadline x stalled clients) + slack, in both scenarios (plain flood; stalled client with a subscription
    #     on the node the canary keeps changing)
    blocks = []
    res, err = sc.run_harness(ctx, ["block"], timeout=600)
    for ln in (res[1].splitlines() if res else []):
        if ln.startswith("{"):
            try:
                o = json.loads(ln)
                if o.get("t") == "block":
                    blocks.append(o)
            except Exception:
                pass
    if len(blocks) < 2 or any(b.get("err") for b in blocks):
        detail["block"] = blocks or "no output"
        if ctx.finding("block/incomplete", "the non-reading-client scenarios did not complete", {"observations": blocks, "tail": (res[1][-800:] if res else "")}):
            new += 1
    for b in blocks:
        if b.get("err"):
            continue
        if b["canary_blocked"]:
            if ctx.finding("dispatcher-blocked-by-nonreading-client",
                           "scenario %s: a client that sent %d requests without reading the answers delayed the canary beyond the bound "
                           "(worst %.0f ms, bound %.0f ms = write deadline %.0f ms x %d stalled client + slack; %s)" % (
                               b["scenario"], b["requests_sent"], b["worst_ms"], b["bound_ms"], b["deadline_ms"], b["stalled_clients"],
                               b.get("canary_error", "answered late")),
                           {"observation": b, "how": "serverharness block"}):
                new += 1
        elif not b.get("alive", True):
            if ctx.finding("block/died", "the server died under a non-reading client", {"observation": b}):
                new += 1

    kinds = set()
    for h in hists:
        for e in h.evs:
            kinds.add((e["ev"].get("svcname") or e["ev"]["kind"], e["out"]["k"], e["out"].get("st", 0)))
    ctx.coverage.update({
        "evaluations": sum(len(h.evs) for h in hists) + fuzz_cases, "distinct_nontrivial": len(kinds) + len(fuzz_kinds),
        "rule": "(1) hostile request histories (NaN / zero / negative / huge publishing intervals, unknown and foreign ids, empty arrays, missing and "
                "closed sessions, a server without endpoints) compared outcome by outcome with the model; (2) fuzzing client (generated field "
                "values for every service, wrong tokens, malformed and truncated frames) + canary against a server in a child process: process "
                "death = Panic, canary latency > %d ms = Hang; (3) non-reading clients (plain, and owning a subscription on a node that keeps changing) vs "
                "canary: every canary request answered within write deadline x stalled clients + slack. "
                "distinct = distinct (service, outcome kind, status) + distinct fuzzed request kinds" % CANARY_BOUND_MS,
        "histories": len(hists), "fuzz_cases": fuzz_cases, "fuzz_kinds": fuzz_kinds, "max_canary_ms": max_lat,
        "nonreading_client": blocks,
        "samples": [{"event": e["ev"], "outcome": e["out"]} for h in hists[:2] for e in h.evs[4:6]],
        "traces_validated_against_impl": len([h for h in hists if h.final is not None]),
        "model_impl_mismatches": len(bad),
    })
    ctx.notes.append("handler computation time is a run-time observation (canary), not a theorem; the theorems are about panics and "
                     "the bound number-of-stalled-clients x write deadline on what a reading client can be made to wait")
    ctx.conclude(proof_ok, corr_ok, new, detail)
