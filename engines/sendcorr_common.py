"""Shared by C18/C19: turn schedharness histories into Coq terms for Model.SendCorr."""

IMPORTS = ("From Coq Require Import ZArith List Bool.\n"
           "From Opcua Require Import Gen.ArithFromGo Gen.SendSide Model.SendCorr.\n"
           "Import ListNotations. Open Scope Z_scope.")
CTYPE = "Z * list hev * list (nat * (Z * Z * Z)) * list Z * list Z * bool * Z"
AGREE = ("  let '(start, l, outs, probe, hs, rl, dc) := c in\n"
         "  history_agrees VNow start l outs probe hs rl dc")


def z(n):
    n = int(n)
    return "(%d)" % n if n < 0 else "%d" % n


def msg(i, ty, err, fo):
    return "(Msg %s %s %s %s)" % (z(i), "None" if int(ty) < 0 else "(Some %s)" % z(ty),
                                  "true" if int(err) else "false",
                                  "None" if int(fo) < 0 else "(Some %d%%nat)" % int(fo))


def kind(k):
    return "KOpen" if int(k) == 1 else "KReq"


def ev(e):
    n = e[0]
    if n == "call":
        return "HCall %d%%nat %s %s" % (e[1], kind(e[2]), z(e[3]))
    if n == "frame":
        return "HFrame %s" % msg(e[1], e[2], e[3], e[4])
    if n == "alloc":
        return "HE (EAlloc %d%%nat %s %s)" % (e[1], kind(e[2]), z(e[3]))
    if n == "reg":
        return "HE (ERegister %d%%nat)" % e[1]
    if n == "write":
        return "HE (EWrite %d%%nat %s)" % (e[1], "true" if e[2] else "false")
    if n in ("take", "timer", "ctx", "disc"):
        return "HE (%s %d%%nat)" % ({"take": "ETake", "timer": "ETimer", "ctx": "ECtx", "disc": "EDisc"}[n], e[1])
    if n == "net":
        return "HE (ENet %s)" % msg(e[1], e[2], e[3], e[4])
    if n == "chunkc":
        return "HE (EChunkC %s)" % z(e[1])
    if n in ("eof", "pop", "lock", "deliver", "resume"):
        return "HE %s" % {"eof": "EEOF", "pop": "EPop", "lock": "ELock", "deliver": "EDeliver", "resume": "EResume"}[n]
    raise ValueError("unknown event %r" % (e,))


def case_term(c):
    evs = "[" + "; ".join(ev(e) for e in c["events"]) + "]"
    outs = "[" + "; ".join("(%d%%nat, (%s, %s, %s))" % (o["t"], z(o["code"]), z(o["id"]), z(o["uid"])) for o in c["outcomes"]) + "]"
    probe = "[" + "; ".join(z(x) for x in c["probe"]) + "]"
    hs = "[" + "; ".join(z(x) for x in c["handlers"]) + "]"
    return "(%s, %s, %s, %s, %s, %s, %s)" % (z(c["start"]), evs, outs, probe, hs,
                                              "true" if c.get("rcv_locked") else "false", z(c.get("disp", -1)))


def oracle_c18(c):
    """The property itself on the implementation's observations. Returns list of (key, why)."""
    fails = []
    seen = {}
    for o in c["outcomes"]:
        if o["code"] == 0:
            if o["handle"] != o["id"]:
                fails.append(("foreign-response", "call %d (request id %d) returned success with a response echoing handle %d" % (o["t"], o["id"], o["handle"])))
            if o["for"] >= 0 and o["for"] != o["t"]:
                fails.append(("foreign-response", "call %d returned success with the response to call %d" % (o["t"], o["for"])))
            if o["got"] != o["want"]:
                fails.append(("wrong-type-accepted", "call %d wanted type %d, got %d and returned success" % (o["t"], o["want"], o["got"])))
        if o["code"] in (0, 1, 2) and o["uid"] >= 0:
            if o["uid"] in seen:
                fails.append(("response-consumed-twice", "response frame %d consumed by calls %d and %d" % (o["uid"], seen[o["uid"]], o["t"])))
            seen[o["uid"]] = o["t"]
    col = c.get("collision")
    if col:
        by_t = {o["t"]: o for o in c["outcomes"]}
        if col.get("new_request_reached_server"):
            fails.append(("request-sent-under-pending-id", "request id %d was still pending for call %d when call %d was given the same id; its request went out under that id" % (
                col["pending_id"], col["pending_tid"], col["new_tid"])))
        elif by_t[col["new_tid"]]["code"] == 0:
            fails.append(("request-sent-under-pending-id", "call %d succeeded under the id %d of the pending call %d" % (col["new_tid"], col["pending_id"], col["pending_tid"])))
    return fails
