(* C08 — secured chunks conform to the OPC UA Part 6 layout.
   spec       : Model.Part6Spec (spec_send / spec_receive), written from the specification text, independent of the model
   model      : Model.ChunkModel sign_encrypt / verify_decrypt (same definitions as C07; tied by chunkharness c07/c08)
   parameters : Gen.PolicyParams (symmetric sizes; asymmetric sizes for every key size 96..640 bytes), every run
   crypto     : any sender/receiver pair satisfying `link`; toy instances for both shapes; block-wise RSA satisfies the
                encryption part of `link` by C15. *)
From Coq Require Import ZArith Bool Lia String.
From Coq Require Import List.
From Coq.Strings Require Import Byte.
From Opcua Require Import Model.Layout Model.ChunkBytes Model.ChunkModel Model.ChunkToy Model.Part6Spec
  Proofs.LayoutProofs Proofs.ChunkBytesProofs Proofs.ChunkProofs Proofs.Part6Proofs Proofs.ChunkToyProofs
  Gen.PolicyParams.
Import ListNotations.
Open Scope Z_scope.

(* OUT, every shape (symmetric MSG/CLO: asym = false, any mode; asymmetric OPN: asym = true, Sign or SignAndEncrypt):
   a conforming receiver verifies, decrypts and reads back exactly the content the model secured *)
Theorem C08_out :
  forall S R m asym x w, link S R -> shape_ok m asym S -> wf_content x ->
  model_secure m asym S x = Ok w -> zlen w < 4294967296 ->
  spec_receive (spec_of m asym S R) (hl_of x) w = Some x.
Proof. intros S R m asym x w L Hs. apply (model_to_spec S R L m asym Hs). Qed.

(* IN, every shape and ANY admissible padding length (not only the minimal one the model itself uses):
   the model accepts what a conforming sender produces, and recovers its content *)
Theorem C08_in :
  forall S R m asym x n pnone, link S R -> shape_ok m asym S -> wf_content x ->
  admissible (spec_of m asym S R) n x ->
  exists w, spec_send (spec_of m asym S R) n x = Some w /\ model_receive m pnone asym R (hl_of x) w = Ok x.
Proof. intros S R m asym x n pnone L Hs Hw Ha. apply (spec_to_model S R L m asym Hs x n pnone Hw Ha). exact (fun _ => I). Qed.

(* the shape conditions hold for the sizes of every registered policy: symmetric algorithms never use
   ExtraPaddingSize; asymmetric ones use it exactly when the (remote) key is longer than 2048 bits *)
Definition sym_shape (p : sym_params) : bool :=
  (sp_rsig p <=? 256) && (0 <? sp_plain p) && (0 <=? sp_sig p) && (sp_plain p <=? 256).
Definition asym_shape (r : asym_row) : bool :=
  negb (ar_ok r) ||
  ((ar_rsig r =? ar_block r) && (0 <? ar_plain r) && (0 <=? ar_sig r) &&
   (ar_plain r <=? (if ar_rsig r >? 256 then 65536 else 256))) || String.eqb (ar_name r) "None".

Theorem C08_shapes : forallb sym_shape sym_policies = true /\ forallb asym_shape asym_rows = true.
Proof. vm_compute. split; reflexivity. Qed.

Lemma sym_shape_ok S p m : In p sym_policies ->
  a_plain S = sp_plain p -> a_sig S = sp_sig p -> a_rsig S = sp_rsig p -> shape_ok m false S.
Proof.
  intros Hin Hp Hs Hr. destruct C08_shapes as [Hsym _].
  pose proof (proj1 (forallb_forall _ _) Hsym p Hin) as H. unfold sym_shape in H.
  rewrite !andb_true_iff in H. destruct H as (((H1 & H2) & H3) & H4).
  apply Z.leb_le in H1, H3, H4. apply Z.ltb_lt in H2.
  unfold shape_ok. rewrite Hp, Hs, Hr. split; [reflexivity|]. split; [|split; lia].
  cbn [andb]. rewrite Z.gtb_ltb. apply Z.ltb_ge. exact H1.
Qed.

(* both hypotheses sets are satisfiable: the toy pairs used by the harness, symmetric (Basic256Sha256 sizes) and
   asymmetric (2048-bit local, 4096-bit remote key: ExtraPaddingSize in use; OAEP-SHA1 overhead) *)
Example C08_sym_instance :
  link (toy_sym_algo 16 32 7 9) (toy_sym_algo 16 32 9 7) /\ shape_ok ModeSignEnc false (toy_sym_algo 16 32 7 9).
Proof. split; [apply toy_sym_link; lia|]. unfold shape_ok. cbn. repeat split; try lia; discriminate. Qed.

Example C08_asym_instance :
  link (toy_asym_algo 256 512 42 3 4) (toy_asym_algo 512 256 42 4 3) /\ shape_ok ModeSign true (toy_asym_algo 256 512 42 3 4).
Proof. split; [apply toy_asym_link; lia|]. unfold shape_ok. cbn. repeat split; try lia; discriminate. Qed.

(* a non-minimal padding (one whole extra block) is admissible and accepted, computed inside Coq *)
Example C08_nonminimal_padding :
  let S := toy_sym_algo 16 32 7 9 in let R := toy_sym_algo 16 32 9 7 in
  let x := mkContent (MSG ++ ["F"%byte]) (le32 7 ++ le32 9) 11 12 (gen_body 30 1 1) in
  match spec_send (spec_of ModeSignEnc false S R) (9 + 16) x with
  | Some w => model_receive ModeSignEnc false false R 16 w = Ok x /\ zlen w = 16 + 96
  | None => False
  end.
Proof. vm_compute. split; reflexivity. Qed.

Print Assumptions C08_out.
Print Assumptions C08_in.
Print Assumptions C08_shapes.
