(* C34 — concurrent reads and writes of node values are linearizable (one register per node).
   checker : Model.Lin.check_lin / check_lin_keys — sorts the operations by a hint and CHECKS real-time order and
             register semantics on the result; sound for every hint (theorems below).  It is run (vm_compute) on the
             histories recorded from several real clients hammering the real server.
   model   : Model.Lin.sstep — the server as ONE dispatcher running each handler to completion; every history of
             every schedule is linearizable.  The structural assumption (one dispatcher goroutine, handler and response
             send called synchronously) is read from the AST on every run (Gen.SysTables) and validated by observation
             (single-node histories pass the checker; whole-request reads are never torn). *)
From Coq Require Import ZArith Bool List Permutation.
From Opcua Require Import Model.Lin Proofs.LinProofs Gen.SysTables.
Import ListNotations.
Open Scope Z_scope.

(* the property's statement for one observed history *)
Definition C34_statement (h : history) : Prop :=
  exists l, Permutation l h /\
            ForallOrdPairs (fun a b => ~ (o_res b < o_inv a)) l /\   (* real-time order is kept *)
            legal l = true.                                           (* every read returns the latest write *)

(* soundness of the checker, for every history and every hint *)
Theorem C34_check_lin_sound : forall h, check_lin h = true -> C34_statement h.
Proof. exact check_lin_sound. Qed.

Theorem C34_check_lin_keys_sound : forall h keys, check_lin_keys h keys = true -> C34_statement h.
Proof. exact check_lin_keys_sound. Qed.

(* the single-dispatcher server: for EVERY schedule of client sends, dispatches and receptions (any number of clients,
   multi-node requests included) the produced history is linearizable *)
Theorem C34_dispatcher_linearizable : forall evs, C34_statement (history_of (srun evs)).
Proof. exact dispatcher_histories_linearizable. Qed.

(* the code has the structure the model assumes: one dispatcher goroutine, synchronous handler call and response send *)
Theorem C34_code_has_single_dispatcher : dispatcher_single_atomic = true.
Proof. vm_compute. reflexivity. Qed.

(* whole-request atomicity: when every write sets all nodes of a group to one common value, a read of the group that
   returns different values cannot be explained by any linearization *)
Theorem C34_torn_read_not_linearizable : forall ns h,
  group_history ns h = true -> untorn ns h = false -> ~ C34_statement h.
Proof. exact torn_read_not_linearizable. Qed.

(* the checker accepts and rejects: a linearizable history with overlapping operations, a stale read, a read of a
   value that was never written, a lost update *)
Definition mk (k : kind) (n : N) (v inv res : Z) : op := {| o_kind := k; o_args := [(n, v)]; o_inv := inv; o_res := res |}.
Example C34_checker_accepts :
  check_lin [mk KWrite 1 10 0 5; mk KRead 1 0 1 3; mk KRead 1 10 4 8; mk KWrite 1 20 6 12; mk KRead 1 10 7 9;
             mk KRead 1 20 13 14; mk KWrite 2 7 2 20; mk KRead 2 0 3 19; mk KRead 2 7 4 21] = true.
Proof. vm_compute. reflexivity. Qed.
Example C34_checker_rejects_stale_read :
  check_lin [mk KWrite 1 10 0 5; mk KWrite 1 20 6 8; mk KRead 1 10 9 11] = false.
Proof. vm_compute. reflexivity. Qed.
Example C34_checker_rejects_unwritten_value : check_lin [mk KWrite 1 10 0 5; mk KRead 1 11 6 7] = false.
Proof. vm_compute. reflexivity. Qed.
Example C34_checker_rejects_read_inversion :
  check_lin [mk KWrite 1 10 0 20; mk KRead 1 10 1 3; mk KRead 1 0 4 6] = false.
Proof. vm_compute. reflexivity. Qed.
Example C34_model_run :
  history_of (srun [EInv 1 KWrite [(1%N, 10)]; EInv 2 KRead [(1%N, 0)]; EApply 2; EApply 1; ERes 1; EInv 3 KRead [(1%N, 0)];
                    EApply 3; ERes 3; ERes 2])
  = [mk KRead 1 0 2 9; mk KWrite 1 10 1 5; mk KRead 1 10 6 8].
Proof. vm_compute. reflexivity. Qed.
Example C34_torn_example :
  let h := [ {| o_kind := KWrite; o_args := [(0%N, 5); (1%N, 5)]; o_inv := 0; o_res := 9 |};
             {| o_kind := KRead; o_args := [(0%N, 5); (1%N, 0)]; o_inv := 1; o_res := 8 |} ] in
  group_history [0%N; 1%N] h = true /\ untorn [0%N; 1%N] h = false.
Proof. vm_compute. auto. Qed.

Print Assumptions C34_check_lin_sound.
Print Assumptions C34_check_lin_keys_sound.
Print Assumptions C34_dispatcher_linearizable.
Print Assumptions C34_code_has_single_dispatcher.
Print Assumptions C34_torn_read_not_linearizable.
