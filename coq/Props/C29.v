(* C29 — no client can crash or hang the server.
   model : Model.Server.handle — every handler behind the dispatcher, with the places where the Go code can panic made
           explicit (nil session in the subscription worker, time.NewTicker with a non-positive period, IntID of a nil
           reference type, unbounded getSubRefs recursion, Endpoints()[0]); Model.Server.serve adds the synchronous write
           of the response by the dispatcher.  Hand transcription of the fixed code, tied by the C29 correspondence
           (hostile request histories) and by the fuzzing client + canary against a server in a child process.
   Before the fix a client that stopped reading blocked the dispatcher for everyone, for ever (C29_refuted_before_fix_...);
   since the fix response writes have a deadline D and the statement is proved with the bound: every request is dealt with
   after at most (handler times of the requests before it and its own) + D * (number of clients that have stopped
   reading).  Handler computation time itself (htime) is a parameter: it is observed (canary), not proved. *)
From Coq Require Import NArith ZArith Bool List Lia.
From Opcua Require Import Model.ServerSpace Model.ServerBrowse Model.Server Proofs.ServerBrowseProofs Proofs.ServerProofs
  Gen.ServerGen.
Import ListNotations.
Open Scope N_scope.

Definition bad (o : outcome) : Prop := (exists w, o = OPanic w) \/ o = OOutOfFuel \/ o = OHang.

Lemma empty_space_ok : forall fuel ns, space_ok (S fuel) (Space ns []).
Proof.
  intros fuel ns. split.
  - intros k n r H. unfold get_node in H. cbn [sp_nodes alist_get] in H. discriminate H.
  - intros n. cbn [sub_refs]. unfold lookup_nid, get_node. cbn [sp_nodes alist_get sp_ns]. destruct (fst n <? ns); discriminate.
Qed.

(* the full statement: whatever the clients do (including not reading), every request is handled and answered *)
Definition C29_statement_before_fix : Prop :=
  forall fuel (reading : N -> bool) s e, space_ok fuel (sv_space s) -> ~ bad (snd (serve fuel reading s e)).

Theorem C29_refuted_before_fix_nonreading_client : ~ C29_statement_before_fix.
Proof.
  intros C. apply (C 1%nat (fun _ => false) (init (Space 1 []) 1) (EReq 0 0 (RSvc SvcGetEndpoints true))).
  - apply (empty_space_ok 0 1).
  - right. right. reflexivity.
Qed.

(* the strongest true statement: on a well-formed address space no handler panics or exhausts the stack, whatever the
   request and the state, and the request is answered unless ITS OWN peer does not read *)
Theorem C29_partial_readers : forall fuel (reading : N -> bool) s e,
  space_ok fuel (sv_space s) -> (forall chan tok r, e = EReq chan tok r -> reading chan = true) ->
  ~ bad (snd (serve fuel reading s e)) /\ space_ok fuel (sv_space (fst (serve fuel reading s e))).
Proof.
  intros fuel reading s e OK Hr. unfold serve. destruct (handle fuel s e) as [s' o] eqn:H. cbn [fst snd].
  destruct (handle_no_panic _ _ _ _ _ H OK) as (P1 & P2 & OK'). split; [|exact OK'].
  assert (NH : o <> OHang).
  { destruct e as [chan tok r|id|id]; cbn [handle] in H; [|inv_pair H; discriminate|inv_pair H; discriminate].
    destruct (negb (has_handler r)); [inv_pair H; discriminate|].
    destruct (check_session s (svc_of r) tok); [inv_pair H; discriminate|].
    destruct r; cbn [dispatch] in H; break_in H; inv_pair H; discriminate. }
  assert (D : deliver reading e o = o).
  { destruct e as [chan tok r|id|id]; cbn [deliver]; [|reflexivity|reflexivity].
    rewrite (Hr chan tok r eq_refl). destruct o; reflexivity. }
  rewrite D. intros [[w C]|[C|C]]; [eapply P1; exact C | exact (P2 C) | exact (NH C)].
Qed.

(* ---- since the fix (write deadline D, Model.Server.serve_t) ----
   THE STATEMENT: whatever the clients do - any history, any set of clients that have stopped reading - no request makes
   the server panic, exhaust its stack or hang, and every request (so every request of a client that does read) has been
   dealt with by time  start + (handler times up to and including it) + D * (number of stalled clients). *)
Definition C29_statement : Prop :=
  forall fuel D htime h t now, space_ok fuel (sv_space (ts_srv t)) ->
    Forall (fun ot => ~ bad (fst ot) /\ snd ot <= now + htime_sum htime h + D * N.of_nat (length (ts_stalled t)))
           (run_t fuel D htime t now h).

Lemma serve_t_outcome : forall fuel D htime t e t' o dt, serve_t fuel D htime t e = (t', o, dt) ->
  space_ok fuel (sv_space (ts_srv t)) -> ~ bad o /\ space_ok fuel (sv_space (ts_srv t')).
Proof.
  intros fuel D htime t e t' o dt H OK. unfold serve_t in H. destruct (handle fuel (ts_srv t) e) as [s' o0] eqn:E.
  cbv zeta in H. inversion H; subst; clear H. cbn [ts_srv].
  destruct (handle_no_panic _ _ _ _ _ E OK) as (P1 & P2 & OK'). destruct (handle_never_hangs _ _ _ _ _ E) as [NH _].
  split; [|exact OK'].
  match goal with |- ~ bad (if ?c then _ else _) => destruct c end.
  - intros [[w C]|[C|C]]; discriminate.
  - intros [[w C]|[C|C]]; [eapply P1; exact C | exact (P2 C) | exact (NH C)].
Qed.

Theorem C29_bounded_and_safe : C29_statement.
Proof.
  intros fuel D htime h. induction h as [|e r IH]; intros t now OK; cbn [run_t]; [constructor|].
  pose proof (run_t_bound fuel D htime (e :: r) t now) as B. cbn [run_t] in B.
  destruct (serve_t fuel D htime t e) as [[t' o] dt] eqn:E.
  destruct (serve_t_outcome _ _ _ _ _ _ _ _ E OK) as [NB OK'].
  pose proof (serve_t_time _ _ _ _ _ _ _ _ E) as T.
  inversion B as [|x l Hx Hl]; subst. constructor.
  - split; [exact NB | exact Hx].
  - eapply Forall_impl; [|apply (IH t' (now + dt) OK')]. intros [o' tm] [H1 H2]. split; [exact H1|].
    cbn [snd fst] in *. cbn [htime_sum fold_right]. fold (htime_sum htime r). lia.
Qed.

(* a client that reads is answered with what its handler produced: the deadline outcome is only ever given to a
   client whose own channel is stalled or already closed *)
Theorem C29_reading_client_answered : forall fuel D htime t chan tok r t' o dt,
  serve_t fuel D htime t (EReq chan tok r) = (t', o, dt) ->
  mem chan (ts_stalled t) = false -> mem chan (ts_closed t) = false ->
  o = snd (handle fuel (ts_srv t) (EReq chan tok r)) /\ o <> OWriteTimeout.
Proof.
  intros fuel D htime t chan tok r t' o dt H S C. unfold serve_t in H.
  destruct (handle fuel (ts_srv t) (EReq chan tok r)) as [s' o0] eqn:E. cbv beta iota zeta in H. inversion H; subst; clear H.
  assert (Hhit : forall tch, mem chan (filter (fun c => mem c tch) (ts_stalled t)) = false).
  intros tch.
  { unfold mem in *. apply not_true_is_false. intros X. apply existsb_exists in X. destruct X as (x & Hin & Hx).
    apply N.eqb_eq in Hx. subst x. apply filter_In in Hin. destruct Hin as [Hin _].
    assert (existsb (N.eqb chan) (ts_stalled t) = true) by (apply existsb_exists; exists chan; split; [exact Hin | apply N.eqb_refl]).
    congruence. }
  rewrite Hhit, C. cbn [orb andb snd]. split; [reflexivity|]. exact (proj2 (handle_never_hangs _ _ _ _ _ E)).
Qed.

(* a stalled client costs its deadline once: afterwards its connection is closed *)
Example C29_ex_stalled_once :
  let t0 := TS (init (Space 1 []) 1) [7] [] in
  let h := [EReq 7 0 (RSvc SvcGetEndpoints true); EReq 7 0 (RSvc SvcGetEndpoints true); EReq 1 0 (RSvc SvcGetEndpoints true)] in
  run_t 1 5000 (fun _ => 1) t0 0 h = [(OWriteTimeout, 5001); (OWriteTimeout, 5002); (OOther, 5003)].
Proof. vm_compute. reflexivity. Qed.

(* histories: from a well-formed space, no handler outcome along ANY history is a panic or a stack exhaustion, and the
   space stays well-formed (no request changes references) *)
Theorem C29_no_handler_panics : forall fuel h s, space_ok fuel (sv_space s) ->
  Forall (fun o => (forall w, o <> OPanic w) /\ o <> OOutOfFuel) (outcomes fuel s h).
Proof. intros fuel h s OK. exact (proj1 (run_no_panic fuel h s OK)). Qed.

(* the particular crashes that were reproduced are impossible in the model of the fixed code, for every input *)
Theorem C29_subscription_worker_starts : forall iv tok,
  worker_start (Some tok) (revise iv) = None /\ (1000 <= revise iv <= 86400000000)%Z.
Proof.
  intros iv tok. pose proof (revise_ticker_positive iv) as P. cbn [worker_start].
  destruct (ticker_ns (revise iv) <=? 0)%Z eqn:E; [lia|]. split; [reflexivity|].
  unfold revise, IntervalMin, IntervalMax. destruct iv; try lia.
  destruct (u <? 1000)%Z eqn:E1; [lia|]. destruct (86400000000 <? u)%Z eqn:E2; lia.
Qed.

Theorem C29_constants : (IntervalMin, IntervalMax) = (g_IntervalMin, g_IntervalMax) /\ SvcFindServers = g_SvcFindServers.
Proof. repeat split. Qed.

(* the hypothesis is satisfiable: an empty space, and (see C33_std_wellformed) the standard nodeset with fuel 64 *)
Example C29_ex_space_ok : space_ok 1 (Space 1 []).
Proof. apply (empty_space_ok 0 1). Qed.
Example C29_ex_hostile : (* NaN interval, unknown ids, no session: answered, nothing panics *)
  let s0 := init (Space 1 []) 0 in
  let h := [EReq 0 0 (RCreateSub INaN); EReq 0 0 (RCreateSession 5 true); EReq 0 5 (RActivate true); EReq 0 5 (RCreateSub INaN);
            EReq 0 5 (RCreateSub (IFin (-3))); EReq 0 5 (RDeleteItems [7]); EReq 0 5 (RSetMode [7] 1); EReq 0 5 (RSvc SvcFindServers true)] in
  outcomes 1 s0 h = [OFault StBadSessionIDInvalid; OCreateSession 5; OActivate; OCreateSub 1 1000; OCreateSub 2 1000;
                     ODeleteItems [StBadMonitoredItemIDInvalid]; OSetMode [StBadMonitoredItemIDInvalid]; OFindServers 0].
Proof. vm_compute. reflexivity. Qed.

Print Assumptions C29_refuted_before_fix_nonreading_client.
Print Assumptions C29_partial_readers.
Print Assumptions C29_bounded_and_safe.
Print Assumptions C29_reading_client_answered.
Print Assumptions C29_no_handler_panics.
Print Assumptions C29_subscription_worker_starts.
Print Assumptions C29_constants.
