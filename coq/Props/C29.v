(* C29 — no client can crash or hang the server.
   model : Model.Server.handle — every handler behind the dispatcher, with the places where the Go code can panic made
           explicit (nil session in the subscription worker, time.NewTicker with a non-positive period, IntID of a nil
           reference type, unbounded getSubRefs recursion, Endpoints()[0]); Model.Server.serve adds the synchronous write
           of the response by the dispatcher.  Hand transcription of the fixed code, tied by the C29 correspondence
           (hostile request histories) and by the fuzzing client + canary against a server in a child process.
   REFUTED as stated (a client that stops reading blocks the dispatcher for everyone: known finding); the partial
   theorem excludes exactly the non-reading peers. Latency itself is observed, not proved. *)
From Coq Require Import NArith ZArith Bool List Lia.
From Opcua Require Import Model.ServerSpace Model.ServerBrowse Model.Server Proofs.ServerBrowseProofs Proofs.ServerProofs
  Gen.ServerGen.
Import ListNotations.
Open Scope N_scope.

Definition bad (o : outcome) : Prop := (exists w, o = OPanic w) \/ o = OOutOfFuel \/ o = OHang.

Lemma empty_space_ok : forall fuel ns, space_ok (S fuel) (Space ns []).
Proof.
  intros fuel ns. split.
  - intros k n r H. unfold get_node in H. cbn [sp_nodes alist_get] in H. discriminate H.
  - intros n. cbn [sub_refs]. unfold lookup_nid, get_node. cbn [sp_nodes alist_get sp_ns]. destruct (fst n <? ns); discriminate.
Qed.

(* the full statement: whatever the clients do (including not reading), every request is handled and answered *)
Definition C29_statement : Prop :=
  forall fuel (reading : N -> bool) s e, space_ok fuel (sv_space s) -> ~ bad (snd (serve fuel reading s e)).

Theorem C29_refuted_nonreading_client : ~ C29_statement.
Proof.
  intros C. apply (C 1%nat (fun _ => false) (init (Space 1 []) 1) (EReq 0 0 (RSvc SvcGetEndpoints true))).
  - apply (empty_space_ok 0 1).
  - right. right. reflexivity.
Qed.

(* the strongest true statement: on a well-formed address space no handler panics or exhausts the stack, whatever the
   request and the state, and the request is answered unless ITS OWN peer does not read *)
Theorem C29_partial_readers : forall fuel (reading : N -> bool) s e,
  space_ok fuel (sv_space s) -> (forall chan tok r, e = EReq chan tok r -> reading chan = true) ->
  ~ bad (snd (serve fuel reading s e)) /\ space_ok fuel (sv_space (fst (serve fuel reading s e))).
Proof.
  intros fuel reading s e OK Hr. unfold serve. destruct (handle fuel s e) as [s' o] eqn:H. cbn [fst snd].
  destruct (handle_no_panic _ _ _ _ _ H OK) as (P1 & P2 & OK'). split; [|exact OK'].
  assert (NH : o <> OHang).
  { destruct e as [chan tok r|id|id]; cbn [handle] in H; [|inv_pair H; discriminate|inv_pair H; discriminate].
    destruct (negb (has_handler r)); [inv_pair H; discriminate|].
    destruct (check_session s (svc_of r) tok); [inv_pair H; discriminate|].
    destruct r; cbn [dispatch] in H; break_in H; inv_pair H; discriminate. }
  assert (D : deliver reading e o = o).
  { destruct e as [chan tok r|id|id]; cbn [deliver]; [|reflexivity|reflexivity].
    rewrite (Hr chan tok r eq_refl). destruct o; reflexivity. }
  rewrite D. intros [[w C]|[C|C]]; [eapply P1; exact C | exact (P2 C) | exact (NH C)].
Qed.

(* histories: from a well-formed space, no handler outcome along ANY history is a panic or a stack exhaustion, and the
   space stays well-formed (no request changes references) *)
Theorem C29_no_handler_panics : forall fuel h s, space_ok fuel (sv_space s) ->
  Forall (fun o => (forall w, o <> OPanic w) /\ o <> OOutOfFuel) (outcomes fuel s h).
Proof. intros fuel h s OK. exact (proj1 (run_no_panic fuel h s OK)). Qed.

(* the particular crashes that were reproduced are impossible in the model of the fixed code, for every input *)
Theorem C29_subscription_worker_starts : forall iv tok,
  worker_start (Some tok) (revise iv) = None /\ (1000 <= revise iv <= 86400000000)%Z.
Proof.
  intros iv tok. pose proof (revise_ticker_positive iv) as P. cbn [worker_start].
  destruct (ticker_ns (revise iv) <=? 0)%Z eqn:E; [lia|]. split; [reflexivity|].
  unfold revise, IntervalMin, IntervalMax. destruct iv; try lia.
  destruct (u <? 1000)%Z eqn:E1; [lia|]. destruct (86400000000 <? u)%Z eqn:E2; lia.
Qed.

Theorem C29_constants : (IntervalMin, IntervalMax) = (g_IntervalMin, g_IntervalMax) /\ SvcFindServers = g_SvcFindServers.
Proof. repeat split. Qed.

(* the hypothesis is satisfiable: an empty space, and (see C33_std_wellformed) the standard nodeset with fuel 64 *)
Example C29_ex_space_ok : space_ok 1 (Space 1 []).
Proof. apply (empty_space_ok 0 1). Qed.
Example C29_ex_hostile : (* NaN interval, unknown ids, no session: answered, nothing panics *)
  let s0 := init (Space 1 []) 0 in
  let h := [EReq 0 0 (RCreateSub INaN); EReq 0 0 (RCreateSession 5 true); EReq 0 5 (RActivate true); EReq 0 5 (RCreateSub INaN);
            EReq 0 5 (RCreateSub (IFin (-3))); EReq 0 5 (RDeleteItems [7]); EReq 0 5 (RSetMode [7] 1); EReq 0 5 (RSvc SvcFindServers true)] in
  outcomes 1 s0 h = [OFault StBadSessionIDInvalid; OCreateSession 5; OActivate; OCreateSub 1 1000; OCreateSub 2 1000;
                     ODeleteItems [StBadMonitoredItemIDInvalid]; OSetMode [StBadMonitoredItemIDInvalid]; OFindServers 0].
Proof. vm_compute. reflexivity. Qed.

Print Assumptions C29_refuted_nonreading_client.
Print Assumptions C29_partial_readers.
Print Assumptions C29_no_handler_panics.
Print Assumptions C29_subscription_worker_starts.
Print Assumptions C29_constants.
