(* C26 — subscriptions survive reconnects; each received notification is acknowledged exactly once.
   model : Model.ClientAcks (handleAcks / handleNotification / pendingAcks over publish histories; republish;
           transfer / restore / recreate bookkeeping), hand-transcribed from client_sub.go and client.go; tied to the
           implementation by the scripted-server correspondence (acknowledgement lists of every PublishRequest compared
           EXACTLY with the model; reconnect scenarios with scripted transfer / republish / recreate outcomes).
   Acknowledgement half: FULL (C26_all_delivered_notifications_acked) since the fix that acknowledges republished
   notifications.  Publishing resumes after every reconnect path (C26_publishing_resumed) since the fix for the
   session-kept path.  Still REFUTED (known finding, reproduced on every run): a failed recreateSubscription is
   forgotten and the client reports Connected (C26_refuted_failed_recreate_ignored). *)
From Coq Require Import List Bool Arith.
From Opcua Require Import Model.ClientAcks Proofs.ClientAcksProofs.
Import ListNotations.

(* full statement, acknowledgement half: every notification handed to the application - received with Publish or
   retransmitted with Republish - is placed in the acknowledgement list of a later PublishRequest *)
Definition C26_statement_acks : Prop :=
  forall h a, In a (ev_delivered [] h) -> exists acks, In acks (ev_requests [] h) /\ In a acks.

Theorem C26_all_delivered_notifications_acked : C26_statement_acks.
Proof. intros h a H. apply ev_delivered_placed. exact H. Qed.

(* a reconnect - republishing some subscriptions, recreating others - never drops a queued acknowledgement: whatever
   was pending before a Republish or a recreateSubscription is still pending afterwards *)
Theorem C26_reconnect_keeps_queued_acks :
  forall pending e a, (forall r, e <> EPublish r) -> In a pending -> In a (fst (ev_step pending e)).
Proof. exact ev_step_keeps_pending. Qed.

(* the defect that was fixed (known_findings.txt `fixed:`): republished notifications were never acknowledged *)
Theorem C26_refuted_before_fix_republish_never_acked :
  ~ (forall h a, In a (ev_delivered_gen false [] h) -> exists acks, In acks (ev_requests_gen false [] h) /\ In a acks).
Proof.
  intros H. destruct (H [ERepublish 1 5] (1, 5)) as [acks [H1 H2]]; [left; reflexivity|].
  cbn in H1. destruct H1 as [<-|[<-|[]]]; destruct H2.
Qed.

(* in detail, for notifications that arrive in publish responses (any history, any statuses, any result counts):
   (1) each one is in the acknowledgement list of a later request — in fact the very next one;
   (2) nothing is acknowledged that was not received;
   (3) an acknowledgement the server answered with OK / SubscriptionIDInvalid / SequenceNumberUnknown is not retained,
       one answered with anything else is the only kind that is retried  — so with a server that answers OK, each
       notification is acknowledged exactly once. *)
Theorem C26_publish_notifications_acked_exactly_once :
  (forall h pending a, In a (delivered pending h) -> exists acks, In acks (requests pending h) /\ In a acks)
  /\ (forall pending r, pr_known r = true -> pr_data r = true -> In (pr_sub r, pr_seq r) (fst (publish_step pending r)))
  /\ (forall h pending acks a, In acks (requests pending h) -> In a acks -> In a pending \/ In a (delivered pending h))
  /\ (forall pending res i a st, NoDup pending -> List.length pending = List.length res ->
        nth_error pending i = Some a -> nth_error res i = Some st -> st <> AckOther -> ~ In a (retry_acks pending res))
  /\ (forall pending res a, List.length pending = List.length res -> In a (retry_acks pending res) ->
        exists i, nth_error pending i = Some a /\ nth_error res i = Some AckOther).
Proof.
  repeat split.
  - exact delivered_placed.
  - exact placed_in_next.
  - exact requests_sound.
  - exact final_status_dropped.
  - exact retry_only_other.
Qed.

Example C26_acks_example :
  requests [] [ {| pr_sub := 1; pr_known := true; pr_seq := 1; pr_data := true; pr_results := [] |};
                {| pr_sub := 1; pr_known := true; pr_seq := 2; pr_data := true; pr_results := [AckOK] |};
                {| pr_sub := 1; pr_known := true; pr_seq := 3; pr_data := false; pr_results := [AckOther] |} ]
  = [ []; [(1,1)]; [(1,2)]; [(1,2)] ].
Proof. reflexivity. Qed.

(* full statement, reconnect half: when the reconnect reports Connected, every subscription that was active was
   republished or recreated with all its items *)
Definition C26_statement_reconnect : Prop :=
  forall tf es, snd (restore_all tf es) = true ->
    forall e, In e es -> survived e (fst (restore_one tf e)) = true.

Definition lost_sub : sub_env :=
  {| se_id := 1; se_items := 2; se_transfer_ok := false; se_republish_ok := false; se_create_ok := false; se_items_ok := true |}.

Theorem C26_refuted_failed_recreate_ignored : ~ C26_statement_reconnect.
Proof. intros H. specialize (H false [lost_sub] eq_refl lost_sub (or_introl eq_refl)). vm_compute in H. discriminate. Qed.

(* the same defect when CreateSubscription succeeds and CreateMonitoredItems is refused: the subscription is registered
   again without its items, Connected is reported, it is not counted in activeSubs and publishing is not resumed *)
Definition half_recreated_sub : sub_env :=
  {| se_id := 1; se_items := 2; se_transfer_ok := false; se_republish_ok := true; se_create_ok := true; se_items_ok := false |}.

Theorem C26_refuted_failed_recreate_part_way :
  snd (restore_all false [half_recreated_sub]) = true /\
  survived half_recreated_sub (fst (restore_one false half_recreated_sub)) = false /\
  publishing_resumed (SessionLost false) [half_recreated_sub] = false.
Proof. vm_compute. repeat split; reflexivity. Qed.

(* partial: if every recreate that is attempted can succeed, every subscription survives, whatever the transfer and
   republish outcomes *)
Theorem C26_partial_subscriptions_survive :
  forall tf es, all_recreate_ok es = true -> forall e, In e es -> survived e (fst (restore_one tf e)) = true.
Proof.
  intros tf es Hall e Hin. unfold all_recreate_ok in Hall. rewrite forallb_forall in Hall.
  specialize (Hall _ Hin). apply andb_true_iff in Hall. destruct Hall. apply restore_one_ok; assumption.
Qed.

Example C26_partial_hypothesis_satisfiable :
  all_recreate_ok [ {| se_id := 1; se_items := 2; se_transfer_ok := false; se_republish_ok := false; se_create_ok := true; se_items_ok := true |} ] = true.
Proof. reflexivity. Qed.

(* full statement, third part: after a reconnect in which some subscription was restored (republished, or recreated
   without error), publishing goes on - on every path *)
Definition C26_statement_resumed : Prop :=
  forall p es e, In e es ->
    snd (restore_one (match p with SessionKept => false | SessionLost tf => tf end)
                     (match p with SessionKept => kept_env e | _ => e end)) = true ->
    publishing_resumed p es = true.

Theorem C26_publishing_resumed : C26_statement_resumed.
Proof.
  intros p es e Hin Hok. unfold publishing_resumed. apply Nat.ltb_lt. destruct p as [|tf]; cbn [reconnect_subs snd].
  - apply (active_sum_ge false kept_env es e Hin). apply restored_counts. exact Hok.
  - apply (active_sum_ge tf (fun x => x) es e Hin). apply restored_counts. exact Hok.
Qed.

(* the defect that was fixed: when the server still had the session (restoreSession succeeds) nothing was republished,
   activeSubs was 0 and the publish loop, paused at the disconnect, was never resumed *)
Theorem C26_refuted_before_fix_session_kept_not_resumed :
  ~ (forall p es, es <> [] -> publishing_resumed_before_fix p es = true).
Proof. intros H. specialize (H SessionKept [lost_sub]). cbn in H. assert (E : false = true) by (apply H; discriminate). discriminate. Qed.

(* consecutive reconnects (any number, any path, any transfer / republish outcomes): when every recreate succeeds the
   subscription keeps its whole item table - every TimestampsToReturn group - and each recreating reconnect asks the
   server for all of its items *)
Theorem C26_partial_items_survive_consecutive_reconnects :
  forall k p e groups, se_create_ok e = true -> se_items_ok e = true ->
    snd (rounds_items k p e groups) = groups /\
    forall r, In r (fst (rounds_items k p e groups)) -> r = total_items groups \/ r = 0.
Proof. exact rounds_keep_items. Qed.

Print Assumptions C26_all_delivered_notifications_acked.
Print Assumptions C26_reconnect_keeps_queued_acks.
Print Assumptions C26_refuted_before_fix_republish_never_acked.
Print Assumptions C26_publish_notifications_acked_exactly_once.
Print Assumptions C26_refuted_failed_recreate_ignored.
Print Assumptions C26_refuted_failed_recreate_part_way.
Print Assumptions C26_partial_subscriptions_survive.
Print Assumptions C26_publishing_resumed.
Print Assumptions C26_refuted_before_fix_session_kept_not_resumed.
Print Assumptions C26_partial_items_survive_consecutive_reconnects.
