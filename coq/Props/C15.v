(* C15 — asymmetric crypto is correct for all lengths; key size limits are enforced.
   loops     : Model.CryptoBlocks (transcription of RSAOAEP/PKCS1v15 Encrypt/Decrypt; per-block RSA abstract)
   limits    : Gen.PolicyParams.asym_rows (uapolicy.Asymmetric called for every key size 96..640 bytes),
               Gen.PolicyMixed.mixed_rows (different local/remote sizes and nil keys), regenerated on every run
   spec      : Model.CryptoAsym.part7_asymmetric (Part 7 limits, padding overhead of the encryption scheme). *)
From Coq Require Import ZArith Bool Lia String.
From Coq Require Import List.
From Coq.Strings Require Import Byte.
From Opcua Require Import Model.ChunkBytes Model.CryptoBlocks Model.CryptoAsym Model.ChunkToy
  Proofs.ChunkBytesProofs Proofs.CryptoBlocksProofs Proofs.ChunkToyProofs Gen.PolicyParams Gen.PolicyMixed.
Import ListNotations.
Open Scope Z_scope.

(* 1. Decrypt(Encrypt(p)) = p for EVERY plaintext (length 0, partial blocks, exact multiples, many blocks), for any
      per-block primitive that carries up to pb bytes in a block of ks bytes; the ciphertext has ceil(len/pb) blocks;
      neither loop panics or runs out of fuel *)
Theorem C15_roundtrip :
  forall (enc1 dec1 : bytes -> option bytes) (ks minpad : Z),
  0 < ks - minpad -> 0 < ks ->
  (forall blk, zlen blk <= ks - minpad -> exists c, enc1 blk = Some c /\ zlen c = ks /\ dec1 c = Some blk) ->
  forall p, exists c,
    rsa_encrypt ks minpad enc1 p = Ok c /\
    zlen c = ((zlen p + (ks - minpad) - 1) / (ks - minpad)) * ks /\
    rsa_decrypt ks dec1 c = Ok p.
Proof.
  intros enc1 dec1 ks minpad Hpb Hks Hblock p.
  exact (blockwise_roundtrip enc1 dec1 ks (ks - minpad) Hpb Hks Hblock p).
Qed.

(* the per-block hypothesis is satisfiable (toy RSA block used by the harness for byte-exact comparison) *)
Example C15_block_hypothesis_satisfiable : forall ks k minpad, 2 <= minpad -> 0 < ks - minpad -> ks <= 65536 ->
  forall blk, zlen blk <= ks - minpad ->
  exists c, toy_rsa_enc1 ks k blk = Some c /\ zlen c = ks /\ toy_rsa_dec1 ks k c = Some blk.
Proof. intros ks k minpad Hm Hk Hks blk Hb. apply toy_rsa_block; lia. Qed.

(* 2. the constructor accepts a key pair iff every given key is within [minlen, maxlen] *)
Theorem C15_ctor_iff : forall minlen maxlen minpad lsize rsize,
  0 <= lsize -> 0 <= rsize ->
  (asym_ctor minlen maxlen minpad lsize rsize <> None <->
   (lsize = 0 \/ minlen <= lsize <= maxlen) /\ (rsize = 0 \/ minlen <= rsize <= maxlen)).
Proof.
  intros minlen maxlen minpad lsize rsize Hl Hr. unfold asym_ctor.
  destruct (Z.eqb_spec lsize 0) as [El|El]; destruct (Z.eqb_spec rsize 0) as [Er|Er]; cbn [negb andb];
  destruct (Z.ltb_spec lsize minlen) as [L1|L1]; destruct (Z.gtb_spec lsize maxlen) as [L2|L2];
  destruct (Z.ltb_spec rsize minlen) as [R1|R1]; destruct (Z.gtb_spec rsize maxlen) as [R2|R2]; cbn [orb];
  (split; [intros Hn; try (exfalso; apply Hn; reflexivity); lia | intros HH; try discriminate; exfalso; lia]).
Qed.

(* 3. the code against the Part 7 table: for EVERY key size from 96 to 640 bytes (768..5120 bits) and every policy,
      Asymmetric() accepts iff the size is within the profile's limits, and then block = signature = key size and
      the plaintext block is positive and never exceeds what the padding scheme leaves (so C15_roundtrip applies) *)
Definition row_ok (r : asym_row) : bool :=
  match p7_lookup (ar_name r) with
  | Some p =>
    Bool.eqb (ar_ok r) (in_range p (ar_keysize r)) &&
    (if ar_ok r then (ar_block r =? ar_keysize r) && (ar_sig r =? ar_keysize r) && (ar_rsig r =? ar_keysize r) &&
                     (0 <? ar_plain r) && (ar_plain r <=? ar_keysize r - p7_overhead p) && (ar_nonce r =? p7_nonce p)
     else true)
  | None => String.eqb (ar_name r) "None" && ar_ok r      (* policy None: no keys, no limits *)
  end.

Theorem C15_limits : forallb row_ok asym_rows = true /\ length asym_rows = (6 * 545)%nat.
Proof. vm_compute. split; reflexivity. Qed.

(* 4. mixed and missing keys: the constructor transcription, with the profile's limits, predicts accept/reject and
      all four sizes for different local/remote key sizes (0 = nil key) *)
Definition code_minpad (name : string) : Z :=      (* the constant the policy file subtracts (observed; <= spec overhead + slack) *)
  if String.eqb name "Aes256_Sha256_RsaPss" then 130 else
  match p7_lookup name with Some p => p7_overhead p | None => 0 end.

Definition mixed_ok (r : mixed_row) : bool :=
  match p7_lookup (mr_name r) with
  | Some p =>
    match asym_ctor (p7_min_bits p / 8) (p7_max_bits p / 8) (code_minpad (mr_name r)) (mr_local r) (mr_remote r) with
    | Some (b, pl, s, rs) => mr_ok r && (mr_block r =? b) && (mr_plain r =? pl) && (mr_sig r =? s) && (mr_rsig r =? rs)
    | None => negb (mr_ok r)
    end
  | None => mr_ok r
  end.

Theorem C15_mixed : forallb mixed_ok mixed_rows = true.
Proof. vm_compute. reflexivity. Qed.

(* Remark (not a violation of C15): Aes256_Sha256_RsaPss subtracts 130 bytes per block where RSA-OAEP-SHA256
   needs 66; the plaintext block is smaller than necessary, which costs space but keeps every block decodable. *)
Example C15_oaep_sha256_overhead :
  existsb (fun r => String.eqb (ar_name r) "Aes256_Sha256_RsaPss" && (ar_keysize r =? 256) && (ar_plain r =? 256 - 130)) asym_rows = true.
Proof. vm_compute. reflexivity. Qed.

Print Assumptions C15_roundtrip.
Print Assumptions C15_ctor_iff.
Print Assumptions C15_limits.
Print Assumptions C15_mixed.
