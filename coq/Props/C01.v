(* C01 — the binary codec round-trips every value of every type.
   descriptors / registries : Gen.UaTypes (regenerated from package ua by reflection on every run)
   encoder / decoder        : Model.Codec (hand-written transcription of encode.go, decode.go, buffer.go and the eight
                              hand-written codecs; tied to the code by the codecharness correspondence: model bytes =
                              Go bytes, model decoded tree = Go decoded tree, consumed counts, outcome classes)
   well-formedness / normal form : Model.CodecWfAll (rwf, rnorm; conventions in its header)
   PROVED, FULL (C01_roundtrip): for ANY registry, ANY descriptor of the universe (bool, all integer kinds, float32/64,
   string, DateTime, []byte, slices, pointers, structs, and all eight hand-written codecs: GUID, LocalizedText, NodeID
   in its six encodings, ExpandedNodeID, DataValue and DiagnosticInfo with every mask, Variant null / scalar of every
   builtin type id / nil, empty and n-element arrays / multi-dimensional arrays, ExtensionObject nil / mask 0 / nil body
   / XML body / registered struct body) and ANY well-formed value: Encode succeeds, the encoding has at least the
   static minimal size, and Decode of the encoding followed by ANY rest returns the normal form of the value and leaves
   exactly that rest, whenever the nesting depth of the value (vdepth: Variants / DataValues / DiagnosticInfos /
   ExtensionObjects inside each other) is within the nesting levels the decoder is given; C01_roundtrip_limit: in
   particular for every value of depth <= ua.MaxNestingLevel = 100 under the decoder as the code runs it.  Deeper values
   are encodable but rejected by Decode (StatusBadEncodingLimitsExceeded): C01_too_deep_rejected.
   Instances: C01_generated (all 309 generated struct descriptors, the pointer types handed to ua.Decode, the Variant
   element types), C01_service (type id + body as DecodeService reads them; decode_service is a transcription of
   service.go:35-54; the check runs ua.DecodeService on every generated service message and compares it with that
   composition: type id, registered type, ua.Decode of the body).
   Outside rwf, with theorems stating what happens instead: extension objects whose registered body is an empty
   struct (REFUTED, known finding extobj-empty-struct), zero array dimensions, nil struct pointers. *)
From Coq Require Import NArith ZArith List Bool Lia.
From Coq.Strings Require Import Byte.
From Opcua Require Import Model.CodecTypes Model.Codec Model.CodecEq Model.CodecWf Model.CodecWfAll Proofs.CodecBase Proofs.CodecRT
  Proofs.CodecCustomsA Proofs.CodecRoundtripAll Proofs.CodecTotal Gen.UaTypes.
Import ListNotations.
Open Scope Z_scope.

Definition gen_reg : list (Z * Z * ty) := mk_reg eo_table.
Definition svc_reg : list (Z * Z * ty) := mk_reg svc_table.
(* every descriptor the code encodes from / decodes into *)
Definition all_tys : list ty :=
  all_structs ++ map TPtr all_structs ++ map snd variant_types ++ [xml_body_ty].

(* the round trip of one value: it encodes, the encoding has at least the static minimal size, and decoding the
   encoding followed by ANY rest gives the normalised value and leaves exactly that rest *)
Definition roundtrips (reg : list (Z * Z * ty)) (t : ty) (v : val) : Prop :=
  exists bs, encode reg t v = EOk bs /\ (minsize t <= length bs)%nat /\
    forall fuel rest, (vdepth v <= fuel)%nat -> exists al, decode reg fuel t (bs ++ rest) = Ok (rnorm reg t v) rest al.

(* generated tables agree with the constants and the Variant type table transcribed in the model *)
Theorem C01_registry :
  map (fun r => variant_ty (fst r)) variant_types = map snd variant_types /\
  map fst variant_types = [1;2;3;4;5;6;7;8;9;10;11;12;13;14;15;16;17;18;19;20;21;22;23;24;25] /\
  xml_body_ty = Codec.xml_body_ty /\
  (go_null, go_f32qnan, go_f64qnan, go_MaxVariantArrayLength) = (null32, f32qnan, f64qnan, max_variant_array_length) /\
  (go_MaxVariantArrayDimensions, go_MaxNestingLevel) = (max_variant_array_dimensions, max_nesting_level) /\
  (go_variant_masks, go_datavalue_masks, go_loctext_masks) = ([64; 128], [1; 2; 4; 8; 16; 32], [1; 2]) /\
  (go_diag_masks, go_extobj_masks, go_nodeid_types) = ([1; 2; 4; 8; 16; 32; 64], [0; 1; 2], [0; 1; 2; 3; 4; 5]).
Proof. vm_compute. repeat split; reflexivity. Qed.

(* FULL: any registry, any descriptor, any well-formed value, any number of nesting levels that covers the value *)
Theorem C01_roundtrip : forall reg t v, rwf reg t v = true -> roundtrips reg t v.
Proof.
  intros reg t v Hw. destruct (roundtrip_all reg t v (vdepth v) Hw (le_n _) 0%nat) as [bs [E [L _]]].
  exists bs. split; [exact E|]. split; [exact L|]. intros fuel rest Hf.
  destruct (roundtrip_all reg t v fuel Hw Hf (S (length bs))) as [bs' [E' [_ D]]]. rewrite E in E'. inversion E'; subst bs'.
  exact (D (Nat.lt_succ_diag_r _) rest).
Qed.

(* as the code runs the decoder: with ua.MaxNestingLevel levels *)
Theorem C01_roundtrip_limit : forall reg t v, rwf reg t v = true -> (vdepth v <= max_nesting_level)%nat ->
  exists bs, encode reg t v = EOk bs /\
    forall rest, exists al, decode reg max_nesting_level t (bs ++ rest) = Ok (rnorm reg t v) rest al.
Proof.
  intros reg t v Hw Hd. destruct (C01_roundtrip reg t v Hw) as [bs [E [_ D]]]. exists bs. split; [exact E|].
  intros rest. apply D. exact Hd.
Qed.

(* a value nested deeper than the limit is encodable but Decode rejects it: 101 Variants inside each other *)
Fixpoint variant_chain (k : nat) : val :=
  match k with O => VVariant 1 0 0 [] (Some (VBool true)) | S k' => VVariant 24 0 0 [] (Some (variant_chain k')) end.
Theorem C01_too_deep_rejected :
  rwf [] (TCustom CVariant) (variant_chain 100) = true /\ vdepth (variant_chain 100) = 101%nat /\
  rwf [] (TCustom CVariant) (variant_chain 99) = true /\ vdepth (variant_chain 99) = 100%nat /\
  match encode [] (TCustom CVariant) (variant_chain 100) with
  | EOk bs => res_class (decode [] max_nesting_level (TCustom CVariant) bs) =? 2
  | _ => false
  end = true.
Proof. vm_compute. repeat split; reflexivity. Qed.

(* instantiated at what the code registers today *)
Theorem C01_generated : forall t v, In t all_tys -> rwf gen_reg t v = true -> roundtrips gen_reg t v.
Proof. intros t v _ Hw. apply C01_roundtrip. exact Hw. Qed.

(* ua.DecodeService: the type id, the service registry lookup, then the body into a new struct *)
Definition encode_service (tid : val) (t : ty) (v : val) : eres := eapp (enc_expnodeid tid) (encode gen_reg (TPtr t) v).
Definition decode_service (fuel : nat) : dec (val * val) :=
  tid <- dec_expnodeid ;;
  match lookup_expnodeid svc_reg tid with
  | None => fail EOther
  | Some t => v <- decode gen_reg fuel (TPtr t) ;; ret (tid, v)
  end.
Theorem C01_service : forall tid t v,
  expnodeid_ok tid = true -> lookup_expnodeid svc_reg tid = Some t -> rwf gen_reg (TPtr t) v = true ->
  exists bs, encode_service tid t v = EOk bs /\
    forall fuel rest, (vdepth v <= fuel)%nat ->
      exists al, decode_service fuel (bs ++ rest) = Ok (norm_expnodeid tid, rnorm gen_reg (TPtr t) v) rest al.
Proof.
  intros tid t v Htid Hl Hw.
  destruct (RTb_expnodeid 0 tid Htid) as [b1 [E1 _]]. destruct (C01_roundtrip gen_reg (TPtr t) v Hw) as [b2 [E2 [_ D2]]].
  exists (b1 ++ b2). unfold encode_service. rewrite E1, E2. split; [reflexivity|]. intros fuel rest Hf.
  rewrite <- app_assoc. unfold decode_service.
  destruct (RTb_expnodeid (S (length b1)) tid Htid) as [b1' [E1' [_ D1]]]. rewrite E1 in E1'. inversion E1'; subst b1'.
  eapply decodes_bind; [apply D1; lia|].
  assert (Hl' : lookup_expnodeid svc_reg (norm_expnodeid tid) = Some t).
  { destruct tid; try discriminate. destruct nid as [n|]; [|discriminate].
    cbn [norm_expnodeid lookup_expnodeid] in *. destruct n; try discriminate. exact Hl. }
  rewrite Hl'. eapply decodes_bind; [apply D2; exact Hf|apply decodes_ret].
Qed.

(* every generated descriptor has well-formed values (the zero value with non-nil pointers), and every service is found *)
Fixpoint dflt (t : ty) : val :=
  match t with
  | TBool => VBool false | TInt _ _ => VInt 0 | TFloat _ => VInt 0 | TString => VStr [] | TTime => VTime None
  | TBytes => VBytes None | TSlice _ => VSlice None | TPtr e => VPtr (Some (dflt e)) | TStruct fs => VStruct (map dflt fs)
  | TCustom CVariant => zero_variant | TCustom CDataValue => VDataValue 0 None 0 None 0 None 0
  | TCustom CDiagInfo => VDiag 0 0 0 0 0 [] 0 None | TCustom CLocText => VLocText 0 [] []
  | TCustom CNodeID => zero_nodeid | TCustom CExpNodeID => zero_expnodeid | TCustom CExtObj => zero_extobj
  | TCustom CGUID => VGuid 0 0 0 (repeat x00 8)
  end.
Theorem C01_descriptors_inhabited :
  forallb (fun t => rwf gen_reg t (dflt t)) all_tys = true /\ length all_structs = 309%nat /\
  forallb (fun r => match lookup_expnodeid svc_reg (VExpNodeID (Some (VNodeID 1 (fst (fst (fst r))) (snd (fst (fst r))) None None)) [] 0)
                    with Some t => true | None => false end) svc_table = true.
Proof. vm_compute. repeat split; reflexivity. Qed.

(* hypotheses are satisfiable by real values: a ReadResponse (generated by the harness from the Go type) with a
   DateTime off the 100 ns tick, an extension object with a registered body, a 2x3 SByte matrix in a DataValue with all
   mask bits, a DataValue without a Variant (normalised to the allocated zero Variant), DiagnosticInfos *)
Definition sample_ReadResponse : val :=
  VStruct [VPtr (Some (VStruct [VTime (Some (-9223372036854775808)); VInt 2147483648; VInt 2267030203;
                                VDiag 32 0 0 0 0 [] 406264136 None; VSlice None;
                                VExtObj 1 (Some (VExpNodeID (Some (VNodeID 1 0 873 None None)) [] 0))
                                          (Some (VPtr (Some (VStruct [VInt 149; VInt 270]))))]));
           VSlice (Some [VDataValue 63 (Some (VVariant 194 6 2 [2; 3]
                                          (Some (VSlice (Some [VSlice (Some [VInt 53; VInt 42; VInt (-7)]);
                                                               VSlice (Some [VInt 77; VInt 123; VInt 0])])))))
                                    57 (Some 2662067325045343018) 65 None 182;
                         VDataValue 0 None 0 None 0 None 0;
                         VDataValue 36 None 0 (Some (-5396679310699336342)) 0 None 254]);
           VSlice (Some [VDiag 15 83 (-213496108) 58 (-585222300) [] 0 None; VDiag 16 0 0 0 0 [x61] 0 None])].
Example C01_nonvacuous :
  rwf gen_reg ty_ReadResponse sample_ReadResponse = true /\
  val_eqb (rnorm gen_reg ty_ReadResponse sample_ReadResponse) sample_ReadResponse = false /\
  rnorm gen_reg (TCustom CDataValue) (VDataValue 36 None 0 (Some (-5396679310699336342)) 0 None 254)
    = VDataValue 36 (Some zero_variant) 0 (Some (-5396679310699336400)) 0 None 254.
Proof. vm_compute. repeat split; reflexivity. Qed.

(* executable statement "v encodes and the encoding decodes (consuming everything) to v' ", as a boolean so that
   vm_compute never has to print the registry *)
Definition rt_check (t : ty) (v v' : val) : bool :=
  match encode gen_reg t v with
  | EOk bs => match decode gen_reg (fuel_for bs) t bs with Ok w [] _ => val_eqb w v' | _ => false end
  | _ => false
  end.
Definition rejected_check (t : ty) (v : val) : bool :=
  match encode gen_reg t v with
  | EOk bs => res_class (decode gen_reg (fuel_for bs) t bs) =? 2
  | _ => false
  end.

(* REFUTED on the current code (known finding C01 extobj-empty-struct, DESIGN row 10): an extension object whose
   registered body type is an empty struct encodes with body length 0, which Decode reads as "no body": the value
   that comes back has Value = nil instead of the empty struct *)
Definition first_empty_struct := find (fun r => match snd r with TStruct [] => true | _ => false end) gen_reg.
Definition empty_extobj_value : option val :=
  match first_empty_struct with
  | Some (ns, id, _) =>
    Some (VExtObj 1 (Some (VExpNodeID (Some (VNodeID 2 ns id None None)) [] 0)) (Some (VPtr (Some (VStruct [])))))
  | None => None
  end.
Theorem C01_refuted_empty_extobj :
  match empty_extobj_value with
  | Some v => rwf gen_reg (TCustom CExtObj) v = false /\ rt_check (TCustom CExtObj) v v = false /\
              rt_check (TCustom CExtObj) v (match v with VExtObj m t _ => VExtObj m t None | _ => v end) = true
  | None => False
  end.
Proof. vm_compute. repeat split; reflexivity. Qed.

(* domain decision (DESIGN row 9, pinned by TestArray/dimensions_zero): a matrix with a zero dimension is encodable but
   the decoder rejects it; such values are outside wf *)
Theorem C01_zero_dim_rejected :
  rejected_check (TCustom CVariant)
    (VVariant 198 0 2 [2; 0] (Some (VSlice (Some [VSlice (Some []); VSlice (Some [])])))) = true /\
  rwf gen_reg (TCustom CVariant)
    (VVariant 198 0 2 [2; 0] (Some (VSlice (Some [VSlice (Some []); VSlice (Some [])])))) = false.
Proof. vm_compute. split; reflexivity. Qed.

(* a nil struct pointer encodes to nothing and is therefore not a protocol value *)
Theorem C01_nil_ptr_not_a_value :
  encode [] (TStruct [TPtr (TStruct [TInt 1 false]); TInt 1 false]) (VStruct [VPtr None; VInt 7]) = EOk [x07] /\
  res_class (decode [] 1 (TStruct [TPtr (TStruct [TInt 1 false]); TInt 1 false]) [x07]) = 1 /\
  rwf [] (TStruct [TPtr (TStruct [TInt 1 false]); TInt 1 false]) (VStruct [VPtr None; VInt 7]) = false.
Proof. vm_compute. repeat split; reflexivity. Qed.

(* the fixed ByteString array defect (DESIGN row 8) on the model: [][]byte{{1,2},{3}} now round-trips; so do a 2x3
   matrix and a DataValue holding it *)
Example C01_customs_examples :
  let bsarr := VVariant 143 2 0 [] (Some (VSlice (Some [VBytes (Some [x01; x02]); VBytes (Some [x03])]))) in
  let m23 := VVariant 198 6 2 [2; 3] (Some (VSlice (Some [VSlice (Some [VInt 1; VInt 2; VInt 3]);
                                                         VSlice (Some [VInt 4; VInt 5; VInt (-6)])]))) in
  rt_check (TCustom CVariant) bsarr bsarr = true /\ rt_check (TCustom CVariant) m23 m23 = true /\
  rt_check (TCustom CDataValue) (VDataValue 3 (Some m23) 2147483648 None 0 None 0)
                                (VDataValue 3 (Some m23) 2147483648 None 0 None 0) = true.
Proof. vm_compute. repeat split; reflexivity. Qed.

Print Assumptions C01_registry.
Print Assumptions C01_roundtrip.
Print Assumptions C01_roundtrip_limit.
Print Assumptions C01_too_deep_rejected.
Print Assumptions C01_generated.
Print Assumptions C01_service.
Print Assumptions C01_descriptors_inhabited.
Print Assumptions C01_refuted_empty_extobj.
Print Assumptions C01_zero_dim_rejected.
Print Assumptions C01_nil_ptr_not_a_value.
