(* C01 — the binary codec round-trips every value of every type.
   descriptors / registries : Gen.UaTypes (regenerated from package ua by reflection on every run)
   encoder / decoder        : Model.Codec (hand-written transcription of encode.go, decode.go, buffer.go and the eight
                              hand-written codecs; tied to the code by the codecharness correspondence: model bytes =
                              Go bytes, model decoded tree = Go decoded tree, consumed counts, outcome classes)
   PROVED (C01_partial_generic): the round trip, with rest-independence (consumes exactly the encoding), for every
   descriptor built from the reflection-driven constructors (bool, all integer kinds, float32/64, string, DateTime,
   []byte, slices, pointers, structs) and the hand-written GUID and LocalizedText codecs, for ALL well-formed values.
   NOT PROVED (only validated by correspondence and by the oracle on the implementation): the round trip through
   the hand-written NodeID, ExpandedNodeID, DiagnosticInfo, DataValue, Variant and ExtensionObject codecs. *)
From Coq Require Import NArith ZArith List Bool Lia.
From Coq.Strings Require Import Byte.
From Opcua Require Import Model.CodecTypes Model.Codec Model.CodecEq Model.CodecWf Proofs.CodecBase Proofs.CodecRoundtrip Gen.UaTypes.
Import ListNotations.
Open Scope Z_scope.

Definition gen_reg : list (Z * Z * ty) := mk_reg eo_table.

(* the round trip of one value: it encodes, the encoding has at least the static minimal size, and decoding the
   encoding followed by ANY rest gives the normalised value and leaves exactly that rest *)
Definition roundtrips (reg : list (Z * Z * ty)) (t : ty) (v : val) : Prop :=
  exists bs, encode reg t v = EOk bs /\ (minsize t <= length bs)%nat /\
    forall fuel rest, (1 <= fuel)%nat -> exists al, decode reg fuel t (bs ++ rest) = Ok (norm t v) rest al.

(* generated tables agree with the constants and the Variant type table transcribed in the model *)
Theorem C01_registry :
  map (fun r => variant_ty (fst r)) variant_types = map snd variant_types /\
  map fst variant_types = [1;2;3;4;5;6;7;8;9;10;11;12;13;14;15;16;17;18;19;20;21;22;23;24;25] /\
  xml_body_ty = Codec.xml_body_ty /\
  (go_null, go_f32qnan, go_f64qnan, go_MaxVariantArrayLength) = (null32, f32qnan, f64qnan, max_variant_array_length) /\
  (go_variant_masks, go_datavalue_masks, go_loctext_masks) = ([64; 128], [1; 2; 4; 8; 16; 32], [1; 2]) /\
  (go_diag_masks, go_extobj_masks, go_nodeid_types) = ([1; 2; 4; 8; 16; 32; 64], [0; 1; 2], [0; 1; 2; 3; 4; 5]).
Proof. vm_compute. repeat split; reflexivity. Qed.

(* PARTIAL (generic layer, full quantifier): any registry, any descriptor of the fragment, any well-formed value *)
Theorem C01_partial_generic : forall reg t v, generic_ty t = true -> gwf t v = true -> roundtrips reg t v.
Proof.
  intros reg t v Hg Hw. destruct (roundtrip_generic reg 0 t Hg v Hw) as [bs [E [L _]]].
  exists bs. split; [exact E|]. split; [exact L|]. intros fuel rest Hf.
  destruct fuel as [|f]; [lia|].
  destruct (roundtrip_generic reg f t Hg v Hw) as [bs' [E' [_ D]]]. rewrite E in E'. inversion E'; subst bs'. apply D.
Qed.

(* instantiated at what the code registers today: every generated struct descriptor of the fragment *)
Theorem C01_generated_structs : forall t v, In t (filter generic_ty all_structs) -> gwf t v = true -> roundtrips gen_reg t v.
Proof. intros t v Hin Hw. apply filter_In in Hin. apply C01_partial_generic; tauto. Qed.

(* hypotheses are satisfiable: a registered struct with strings, a byte string, a nil slice, a DateTime off the 100 ns grid
   and a NaN with payload (normalised), found among the generated descriptors *)
Example C01_nonvacuous :
  generic_ty (TStruct [TString; TTime; TFloat 8; TSlice (TInt 4 true); TPtr (TStruct [TCustom CLocText; TCustom CGUID])]) = true /\
  gwf (TStruct [TString; TTime; TFloat 8; TSlice (TInt 4 true); TPtr (TStruct [TCustom CLocText; TCustom CGUID])])
      (VStruct [VStr [x61; x62]; VTime (Some 1234567890123456789); VInt 9221120237041090561;
                VSlice (Some [VInt (-1); VInt 2147483647]);
                VPtr (Some (VStruct [VLocText 3 [x65; x6e] [x68; x69]; VGuid 1 2 3 [x01;x02;x03;x04;x05;x06;x07;x08]]))]) = true /\
  norm (TStruct [TTime; TFloat 8]) (VStruct [VTime (Some 1234567890123456789); VInt 9221120237041090561])
    = VStruct [VTime (Some 1234567890123456700); VInt f64qnan].
Proof. vm_compute. repeat split; reflexivity. Qed.

(* executable statement "v encodes and the encoding decodes (consuming everything) to v' ", as a boolean so that
   vm_compute never has to print the registry *)
Definition rt_check (t : ty) (v v' : val) : bool :=
  match encode gen_reg t v with
  | EOk bs => match decode gen_reg (fuel_for bs) t bs with Ok w [] _ => val_eqb w v' | _ => false end
  | _ => false
  end.
Definition rejected_check (t : ty) (v : val) : bool :=
  match encode gen_reg t v with
  | EOk bs => res_class (decode gen_reg (fuel_for bs) t bs) =? 2
  | _ => false
  end.

(* REFUTED on the current code (known finding C01 extobj-empty-struct, DESIGN row 10): an extension object whose
   registered body type is an empty struct encodes with body length 0, which Decode reads as "no body": the value
   that comes back has Value = nil instead of the empty struct *)
Definition first_empty_struct := find (fun r => match snd r with TStruct [] => true | _ => false end) gen_reg.
Definition empty_extobj_value : option val :=
  match first_empty_struct with
  | Some (ns, id, _) =>
    Some (VExtObj 1 (Some (VExpNodeID (Some (VNodeID 2 ns id None None)) [] 0)) (Some (VPtr (Some (VStruct [])))))
  | None => None
  end.
Theorem C01_refuted_empty_extobj :
  match empty_extobj_value with
  | Some v => rt_check (TCustom CExtObj) v v = false /\
              rt_check (TCustom CExtObj) v (match v with VExtObj m t _ => VExtObj m t None | _ => v end) = true
  | None => False
  end.
Proof. vm_compute. split; reflexivity. Qed.

(* domain decision (DESIGN row 9, pinned by TestArray/dimensions_zero): a matrix with a zero dimension is encodable but
   the decoder rejects it; such values are outside wf *)
Theorem C01_zero_dim_rejected :
  rejected_check (TCustom CVariant)
    (VVariant 198 0 2 [2; 0] (Some (VSlice (Some [VSlice (Some []); VSlice (Some [])])))) = true.
Proof. vm_compute. reflexivity. Qed.

(* a nil struct pointer encodes to nothing and is therefore not a protocol value *)
Theorem C01_nil_ptr_not_a_value :
  encode [] (TStruct [TPtr (TStruct [TInt 1 false]); TInt 1 false]) (VStruct [VPtr None; VInt 7]) = EOk [x07] /\
  res_class (decode [] 1 (TStruct [TPtr (TStruct [TInt 1 false]); TInt 1 false]) [x07]) = 1.
Proof. vm_compute. split; reflexivity. Qed.

(* the fixed ByteString array defect (DESIGN row 8) on the model: [][]byte{{1,2},{3}} now round-trips; so do a 2x3
   matrix and a DataValue holding it *)
Example C01_customs_examples :
  let bsarr := VVariant 143 2 0 [] (Some (VSlice (Some [VBytes (Some [x01; x02]); VBytes (Some [x03])]))) in
  let m23 := VVariant 198 6 2 [2; 3] (Some (VSlice (Some [VSlice (Some [VInt 1; VInt 2; VInt 3]);
                                                         VSlice (Some [VInt 4; VInt 5; VInt (-6)])]))) in
  rt_check (TCustom CVariant) bsarr bsarr = true /\ rt_check (TCustom CVariant) m23 m23 = true /\
  rt_check (TCustom CDataValue) (VDataValue 3 (Some m23) 2147483648 None 0 None 0)
                                (VDataValue 3 (Some m23) 2147483648 None 0 None 0) = true.
Proof. vm_compute. repeat split; reflexivity. Qed.

Print Assumptions C01_registry.
Print Assumptions C01_partial_generic.
Print Assumptions C01_generated_structs.
Print Assumptions C01_refuted_empty_extobj.
Print Assumptions C01_zero_dim_rejected.
Print Assumptions C01_nil_ptr_not_a_value.
