(* C14 — symmetric keys follow Part 6 (P_SHA) and are direction-separated.
   rows       : Gen.SymKeys.symkeys_rows   (AST of the five newXSymmetric functions, regenerated on every run)
   loop       : Model.CryptoKdf.generate_keys (hand-written transcription of crypto_key.go generateKeys; tied by the
                chunkharness c14 correspondence: exported keys vs the Gallina SHA-1/SHA-256/HMAC derivation, byte for byte)
   spec       : Model.CryptoKdf.p_hash / prf (RFC 5246 section 5, Part 6 6.7.5), part7_symmetric (profile table)
   reflection : Model.ChunkModel.verify_decrypt (same model as C07/C08). *)
From Coq Require Import ZArith Bool Lia String.
From Coq Require Import List.
From Coq.Strings Require Import Byte.
From Opcua Require Import Model.Layout Model.ChunkBytes Model.ChunkModel Model.ChunkToy Model.CryptoSha Model.CryptoKdf
  Proofs.ChunkBytesProofs Proofs.CryptoKdfProofs Proofs.CryptoShaProofs Proofs.CryptoReflect Gen.SymKeys.
Import ListNotations.
Open Scope Z_scope.

(* the HMACs the code uses (crypto.SHA1 / crypto.SHA256), in Gallina *)
Definition real_hm (H : hash_id) : bytes -> bytes -> bytes :=
  match H with HSha1 => hmac_sha1 | HSha256 => hmac_sha256 end.
Definition real_hlen (H : hash_id) : Z := match H with HSha1 => 20 | HSha256 => 32 end.

(* 1. generateKeys = the Part 6 PRF slices of RFC 5246's P_hash: every HMAC with a fixed positive output length,
      every secret/seed, every triple of lengths (the loop's fuel does not appear) *)
Theorem C14_generate_keys :
  forall (h : bytes -> bytes) (hl : Z), 0 < hl -> (forall m, zlen (h m) = hl) ->
  forall seed sl el bl, 0 <= sl -> 0 <= el -> 0 <= bl ->
  generate_keys h seed sl el bl = Ok (mkDerived (prf h seed sl 0) (prf h seed el sl) (prf h seed bl (sl + el))).
Proof. intros h hl Hp Hl seed sl el bl. apply (generate_keys_spec h hl Hp Hl). Qed.

(* 2. what the five policy files say (hash, lengths, which nonce is secret/seed, which derived key each
      primitive gets) is exactly the profile table *)
Theorem C14_rows : symkeys_rows = part7_symmetric.
Proof. vm_compute. reflexivity. Qed.

Lemma row_canonical row : In row symkeys_rows ->
  exists name file H sl el bits, row = spec_row name file H sl el bits /\ 0 <= sl /\ 0 <= el.
Proof.
  rewrite C14_rows. intros Hin. unfold part7_symmetric in Hin.
  repeat (destruct Hin as [<-|Hin]; [do 6 eexists; split; [reflexivity | split; discriminate] |]).
  destruct Hin.
Qed.

(* 3. every policy, every pair of nonces, any HMAC family with fixed positive lengths: the keys a side holds are
      the Part 6 table entries (own keys: secret = peer nonce, seed = own nonce; peer keys the other way round) *)
Theorem C14_keys :
  forall row, In row symkeys_rows ->
  forall hm hlen, (forall H, 0 < hlen H) -> (forall H k m, zlen (hm H k m) = hlen H) ->
  forall own peer,
  let H := sk_sign_hash row in let sl := sk_siglen row in let el := sk_enclen row in
  sym_keys_of hm row own peer =
  Ok (mkSymKeys (prf (hm H peer) own el sl) (prf (hm H peer) own 16 (sl + el))
                (prf (hm H own) peer el sl) (prf (hm H own) peer 16 (sl + el))
                (prf (hm H peer) own sl 0) (prf (hm H own) peer sl 0)).
Proof.
  intros row Hin hm hlen Hpos Hlen own peer.
  destruct (row_canonical row Hin) as (name & file & H & sl & el & bits & -> & Hs & He).
  cbn [spec_row sk_sign_hash sk_siglen sk_enclen].
  apply (canonical_keys hm hlen Hpos Hlen); assumption.
Qed.

(* 4. direction separation: client's sending keys are the server's receiving keys and vice versa *)
Theorem C14_directions :
  forall row, In row symkeys_rows ->
  forall hm hlen, (forall H, 0 < hlen H) -> (forall H k m, zlen (hm H k m) = hlen H) ->
  forall cn sn kc ks,
  sym_keys_of hm row cn sn = Ok kc -> sym_keys_of hm row sn cn = Ok ks ->
  k_enc_key kc = k_dec_key ks /\ k_enc_iv kc = k_dec_iv ks /\ k_sign_key kc = k_verify_key ks /\
  k_enc_key ks = k_dec_key kc /\ k_enc_iv ks = k_dec_iv kc /\ k_sign_key ks = k_verify_key kc.
Proof.
  intros row Hin hm hlen Hpos Hlen cn sn kc ks.
  destruct (row_canonical row Hin) as (name & file & H & sl & el & bits & -> & Hs & He).
  apply (canonical_directions hm hlen Hpos Hlen); assumption.
Qed.

(* 5. the concrete HMAC-SHA1 / HMAC-SHA256 satisfy the hypotheses: the theorems above hold of the real derivation *)
Theorem C14_real_hmac : (forall H, 0 < real_hlen H) /\ (forall H k m, zlen (real_hm H k m) = real_hlen H).
Proof.
  split; [intros []; reflexivity|]. intros [] k m; [apply zlen_hmac_sha1 | apply zlen_hmac_sha256].
Qed.

Corollary C14_keys_real :
  forall row, In row symkeys_rows -> forall own peer,
  exists k, sym_keys_of real_hm row own peer = Ok k /\
    k_sign_key k = prf (real_hm (sk_sign_hash row) peer) own (sk_siglen row) 0 /\
    k_verify_key k = prf (real_hm (sk_sign_hash row) own) peer (sk_siglen row) 0 /\
    zlen (k_sign_key k) = sk_siglen row /\ zlen (k_enc_key k) = sk_enclen row /\ zlen (k_enc_iv k) = 16.
Proof.
  intros row Hin own peer. destruct C14_real_hmac as [Hp Hl].
  eexists. split; [apply (C14_keys row Hin real_hm real_hlen Hp Hl)|].
  destruct (row_canonical row Hin) as (name & file & H & sl & el & bits & -> & Hs & He).
  cbn [spec_row sk_sign_hash sk_siglen sk_enclen k_sign_key k_verify_key k_enc_key k_enc_iv].
  repeat split; apply (zlen_prf (real_hm H peer) (real_hlen H) (Hp H) (Hl H peer)); lia.
Qed.

(* 6. reflection: whatever verifyAndDecrypt accepts carries a tag valid under the receiving key (both modes);
      so a side's own Sign-mode chunk handed back to it is rejected as soon as tags made with its sending key
      do not verify under its receiving key *)
Theorem C14_accepted_verifies :
  forall m pnone asym A hl r d,
  (match m with ModeNone => true | _ => false end) && (pnone || negb asym) = false ->
  verify_decrypt m pnone asym A hl r = Ok d ->
  exists b, checked_bytes m asym A hl r = Some b /\
            a_verify A (ztake (zlen b - a_rsig A) b) (zdrop (zlen b - a_rsig A) b) = true.
Proof. exact accepted_verifies. Qed.

Theorem C14_reflected_rejected :
  forall A pnone hl raw w, 0 <= hl -> 0 <= a_rsig A ->
  (forall msg s, a_sign A msg = Some s -> zlen s = a_rsig A) ->
  (forall msg s, a_sign A msg = Some s -> a_verify A msg s = false) ->
  sign_encrypt ModeSign false A hl raw = Ok w ->
  verify_decrypt ModeSign pnone false A hl w = Err ESecurityChecks.
Proof. exact reflected_rejected. Qed.

(* non-vacuity: a concrete reflected chunk (toy MAC, different keys per direction) is rejected by its sender and
   accepted by the peer, in both secured modes *)
Example C14_reflection_example :
  let C := toy_sym_algo 16 32 7 9 in let Sv := toy_sym_algo 16 32 9 7 in
  let raw := raw_chunk MSG "F" 0 1 2 3 4 (gen_body 50 1 1) in
  forall m, m = ModeSign \/ m = ModeSignEnc ->
  match sign_encrypt m false C 16 raw with
  | Ok w => verify_decrypt m false false C 16 w = Err ESecurityChecks /\
            verify_decrypt m false false Sv 16 w = Ok (zdrop 16 raw)
  | _ => False
  end.
Proof. intros C Sv raw m [->| ->]; vm_compute; split; reflexivity. Qed.

(* a derivation computed entirely inside Coq (Basic256Sha256, 32-byte nonces) *)
Example C14_concrete :
  match sym_keys_of real_hm sk_Basic256Rsa256 (gen_body 32 1 1) (gen_body 32 7 3) with
  | Ok k => firstn 8 (map zb (k_sign_key k)) = [218; 23; 138; 213; 148; 150; 247; 81]
  | _ => False
  end.
Proof. vm_compute. reflexivity. Qed.

Print Assumptions C14_generate_keys.
Print Assumptions C14_rows.
Print Assumptions C14_keys.
Print Assumptions C14_directions.
Print Assumptions C14_real_hmac.
Print Assumptions C14_keys_real.
Print Assumptions C14_accepted_verifies.
Print Assumptions C14_reflected_rejected.
