(* C37 — client and server interoperate under every supported security configuration.
   tables  : Gen.PolicyParams (uapolicy.Symmetric/Asymmetric/SecurityLevel called on every run),
             Gen.InteropTables (both channel ends run against each other; Part 6 key derivation compared;
             session nonce constants parsed from the AST)
   steps   : Model.Interop (hand transcription of initEndpoints / SecurityFromEndpoint and the composition);
             tied by the C37 harness: the same matrix is run with the stock server and the stock client and every
             outcome and every advertised endpoint list is compared with connect_ok / run_endpoints inside Coq.
   The configuration set is FINITE; it is computed from the generated tables and enumerated completely. *)
From Coq Require Import ZArith Bool List String Lia.
From Opcua Require Import Model.Interop Model.InteropGen Proofs.InteropProofs Gen.PolicyParams Gen.InteropTables.
Import ListNotations.
Open Scope string_scope.
Open Scope Z_scope.

Definition C37_configs : list config := all_configs gen_tables.

(* what it means to be in the set: a registered policy, a mode the policy has a security level for, a CLIENT key and a
   SERVER key of 1024/2048/3072/4096 bits (chosen independently) that the policy's asymmetric constructor accepts on
   both ends (no keys for mode None), and a token type (anonymous / user name) the selected endpoint advertises *)
Theorem C37_configs_spec : forall c, In c C37_configs <-> std_config gen_tables c \/ none_cell gen_tables c.
Proof. intro c. exact (in_all_configs gen_tables c). Qed.
(* std_config: the client selects the endpoint of the pair under test (the server enables None/None + that pair);
   none_cell: the client, without a certificate, selects the None/None endpoint of a server that also enables a secured
   pair and holds a key within that policy's limits - the endpoint still advertises the pair's user-name token policy,
   whose password is encrypted for the certificate of the CreateSessionResponse *)

(* the finite bound: 193 configurations = 52 None/None-endpoint cells (secured pair x server key size x token) + 141 (2 old policies x 2 modes x 2x2 client/server key sizes x 2 tokens, 3 SHA-256
   policies x 2 modes x 3x3 key sizes x 2 tokens, None x anonymous; a server enabling only None does not advertise a
   user-name token) *)
Theorem C37_bound : List.length C37_configs = 193%nat.
Proof. vm_compute. reflexivity. Qed.

(* the key sizes the constructors accept are exactly the Part 7 limits of each profile, the channel nonce each
   constructor produces has the profile's SecureChannelNonceLength *)
Theorem C37_limits_match_part7 :
  forallb (fun pol => forallb (fun p => Bool.eqb (asym_accept (t_rows gen_tables) pol (fst p) (snd p))
                                                 (spec_key_ok pol (fst p) && spec_key_ok pol (snd p)))
                               (list_prod key_sizes key_sizes))
          (filter (fun p => negb (String.eqb p "None")) supported_policies) = true.
Proof. vm_compute. reflexivity. Qed.

(* THE THEOREM: every configuration of the set connects (endpoint advertised with a non-zero level, both asymmetric
   constructors accept the keys, nonce lengths agree with the profile, symmetric keys are direction-consistent and follow
   Part 6, session signatures verify, the user token's encryption policy is resolvable with these keys) *)
Theorem C37_all : forallb (connect_ok gen_tables) C37_configs = true.
Proof. vm_compute. reflexivity. Qed.

Theorem C37_every_config : forall c, In c C37_configs -> connect_ok gen_tables c = true.
Proof. exact (proj1 (forallb_forall _ _) C37_all). Qed.

(* restated without reference to the enumeration *)
Theorem C37_statement : forall pol mode ckb skb t,
  In pol supported_policies -> In mode [1; 2; 3] -> 0 < level_of security_levels pol mode ->
  In (ckb, skb) (key_pairs gen_tables pol mode) ->
  token_advertised gen_tables {| c_pol := pol; c_mode := mode; c_kb := ckb; c_skb := skb; c_tok := t; c_extra := [] |} = true ->
  connect_ok gen_tables {| c_pol := pol; c_mode := mode; c_kb := ckb; c_skb := skb; c_tok := t; c_extra := [] |} = true.
Proof.
  intros pol mode ckb skb t Hp Hm Hl Hk Ha. apply C37_every_config. apply C37_configs_spec. left.
  unfold std_config. cbn [c_pol c_mode c_kb c_skb c_tok c_extra]. auto 10.
Qed.

(* the None/None endpoint of a server that also enables a secured pair: both advertised token types work *)
Theorem C37_statement_none_endpoint : forall xpol xm skb t,
  In xpol supported_policies -> String.eqb xpol "None" = false -> In xm [1; 2; 3] -> 0 < level_of security_levels xpol xm ->
  In skb key_sizes -> asym_accept (t_rows gen_tables) xpol 0 skb = true ->
  let c := {| c_pol := "None"; c_mode := 1; c_kb := 0; c_skb := skb; c_tok := t; c_extra := [{| sc_pol := xpol; sc_mode := xm |}] |} in
  token_advertised gen_tables c = true -> connect_ok gen_tables c = true.
Proof.
  intros xpol xm skb t Hp Hn Hm Hl Hs Hacc c Ha. apply C37_every_config. apply C37_configs_spec. right.
  exists xpol, xm. unfold c. cbn [c_pol c_mode c_kb c_skb c_tok c_extra]. auto 14.
Qed.

(* the OpenSecureChannel chunk survives every combination of sender and receiver key size (real signAndEncrypt and
   verifyAndDecrypt, run by the translator with a toy cipher of RSA's block and signature sizes) *)
Theorem C37_opn_chunk_all_key_size_pairs :
  forallb (fun p => chunk_rt gen_tables (fst p) (snd p)) (list_prod key_sizes key_sizes) = true.
Proof. vm_compute. reflexivity. Qed.

(* facts that hold for EVERY server configuration (any list of enabled pairs), not just the matrix *)
Theorem C37_enabled_pair_is_advertised : forall pairs pol mode,
  In {| sc_pol := pol; sc_mode := mode |} pairs ->
  exists ep, select_endpoint (endpoints_on gen_tables pairs) pol mode = Some ep.
Proof. intros pairs pol mode H. unfold endpoints_on. apply select_endpoint_enabled. exact H. Qed.

Theorem C37_anonymous_always_resolvable : forall pairs ep, In ep (endpoints_on gen_tables pairs) ->
  exists u, security_from_endpoint ep TAnon = Some u.
Proof. intros pairs ep H. apply (anon_resolvable (t_levels gen_tables) pairs ep); [left; reflexivity|exact H]. Qed.

(* the hypotheses of C37_statement are satisfiable, and connect_ok is not constantly true: a key outside a profile's
   limits, a policy without level in a mode, and the mixed-server edge of DESIGN C37 (a server that enables
   Basic128Rsa15 first and holds a 4096-bit key lists username_basic128rsa15 first; SecurityFromEndpoint takes it and
   the password cannot be encrypted, on the Basic256Sha256 endpoint too) are all rejected by the model *)
Example C37_nonvacuous :
  In (512, 256) (key_pairs gen_tables "Basic256Sha256" 3) /\ In (128, 256) (key_pairs gen_tables "Basic128Rsa15" 2) /\
  token_advertised gen_tables {| c_pol := "Basic256Sha256"; c_mode := 3; c_kb := 512; c_skb := 256; c_tok := TUser; c_extra := [] |} = true /\
  connect_ok gen_tables {| c_pol := "Basic256Sha256"; c_mode := 3; c_kb := 128; c_skb := 256; c_tok := TAnon; c_extra := [] |} = false /\
  connect_ok gen_tables {| c_pol := "Basic128Rsa15"; c_mode := 2; c_kb := 256; c_skb := 512; c_tok := TAnon; c_extra := [] |} = false /\
  connect_ok gen_tables {| c_pol := "Basic256"; c_mode := 1; c_kb := 256; c_skb := 256; c_tok := TAnon; c_extra := [] |} = false.
Proof. vm_compute. repeat split; auto 20. Qed.

Example C37_mixed_server_edge :
  let pairs := [ {| sc_pol := "None"; sc_mode := 1 |}; {| sc_pol := "Basic128Rsa15"; sc_mode := 2 |};
                 {| sc_pol := "Basic256Sha256"; sc_mode := 2 |} ] in
  connect_ok_on gen_tables pairs {| c_pol := "Basic256Sha256"; c_mode := 2; c_kb := 512; c_skb := 512; c_tok := TUser; c_extra := [] |} = false /\
  connect_ok_on gen_tables pairs {| c_pol := "Basic256Sha256"; c_mode := 2; c_kb := 512; c_skb := 512; c_tok := TAnon; c_extra := [] |} = true /\
  connect_ok_on gen_tables pairs {| c_pol := "Basic256Sha256"; c_mode := 2; c_kb := 256; c_skb := 256; c_tok := TUser; c_extra := [] |} = true.
Proof. vm_compute. auto. Qed.

Print Assumptions C37_configs_spec.
Print Assumptions C37_bound.
Print Assumptions C37_limits_match_part7.
Print Assumptions C37_all.
Print Assumptions C37_every_config.
Print Assumptions C37_statement.
Print Assumptions C37_statement_none_endpoint.
Print Assumptions C37_opn_chunk_all_key_size_pairs.
Print Assumptions C37_enabled_pair_is_advertised.
Print Assumptions C37_anonymous_always_resolvable.
