(* C25 — connection state follows the documented lifecycle under faults.
   model : Model.ClientMonitor (client.go monitor(): the reconnect action machine none / createSecureChannel /
           restoreSession / recreateSession / transferSubscriptions / restoreSubscriptions / abortReconnect, Connect,
           Close) against an environment that decides every Dial / ActivateSession / CreateSession / UpdateNamespaces;
           hand-transcribed, tied to the implementation by the scripted fault-injection correspondence (reported state
           sequence and the sequence of calls the server sees compared EXACTLY with the model trace).
   documented relation (connstate.go + the comments in monitor()): Closed->Connecting->Connected,
           Connected->Disconnected->Reconnecting->(Reconnecting)*->Connected, anything->Closed. *)
From Coq Require Import List Bool Arith.
From Opcua Require Import Model.ClientSession Model.ClientMonitor Proofs.ClientMonitorProofs Gen.ClientMonitorStates.
Import ListNotations.
Open Scope list_scope.
Open Scope nat_scope.

Definition C25_statement_transitions : Prop :=
  forall auto e fuel ev, path_ok (m_states (reconnect auto e fuel ev)) = true.

Definition env0 : env := {| dials := []; activates := []; creates := []; namespaces := [] |}.

(* the states each reconnect action reports in the source (Gen.ClientMonitorStates.action_states, read off the
   `switch action` of monitor() on every run) are exactly the ones the model emits *)
Theorem C25_model_reports_what_the_code_reports : action_states = expected_action_states true.
Proof. reflexivity. Qed.

(* FULL: every error class, any environment, any number of actions, auto-reconnect on or off: only documented
   transitions are reported *)
Theorem C25_transitions_documented : C25_statement_transitions.
Proof. intros auto e fuel ev. apply reconnect_transitions_documented. Qed.

(* the defect that was fixed (known_findings.txt `fixed:`): when transferSubscriptions did not report Reconnecting, a
   BadSubscriptionIDInvalid error gave Connected -> Disconnected -> Connected *)
Theorem C25_refuted_before_fix :
  ~ (forall auto e fuel ev, path_ok (m_states (reconnect_gen false auto e fuel ev)) = true).
Proof. intros H. specialize (H true ESubscriptionInvalid 8 env0). vm_compute in H. discriminate. Qed.

Definition recoverable (e : err_class) : bool :=
  match e with ERefused | ENoSubscription => false | _ => true end.

Definition back_connected (s : mstate) : bool :=
  negb (m_done s) && match m_action s with RNone => true | _ => false end &&
  match last_state s with StConnected => true | _ => false end.

(* when every call succeeds the client is Connected again within 5 actions *)
Theorem C25_reconnects_when_all_succeed :
  forall e, recoverable e = true -> back_connected (reconnect true e 5 env0) = true.
Proof. intros e H. destruct e; try discriminate; vm_compute; reflexivity. Qed.

(* eventually-all-succeeding environments, enumerated completely up to two scripted outcomes per call kind
   (7^4 = 2401 environments x 6 error classes): Connected again within 24 actions *)
Definition bools2 : list (list bool) := [[]; [true]; [false]; [true;true]; [true;false]; [false;true]; [false;false]].
Definition envs2 : list env :=
  flat_map (fun d => flat_map (fun a => flat_map (fun c => map (fun n =>
    {| dials := d; activates := a; creates := c; namespaces := n |}) bools2) bools2) bools2) bools2.
Definition errs : list err_class := [EEOF; EChannelInvalid; ESessionInvalid; ESubscriptionInvalid; ECertInvalid; EOther].

Theorem C25_reconnects_eventually_bounded :
  forall e ev, In e errs -> In ev envs2 -> back_connected (reconnect true e 24 ev) = true.
Proof.
  assert (H : forallb (fun e => forallb (fun ev => back_connected (reconnect true e 24 ev)) envs2) errs = true)
    by (vm_compute; reflexivity).
  intros e ev He Hev. rewrite forallb_forall in H. specialize (H e He). rewrite forallb_forall in H. apply H. exact Hev.
Qed.

(* auto-reconnect off, or connection refused: Disconnected, then Closed, and not a single call *)
Theorem C25_no_reconnect_closes :
  forall e ev fuel, e <> ENoSubscription ->
    let s := reconnect false e fuel ev in m_done s = true /\ last_state s = StClosed /\ m_calls s = [].
Proof. intros e ev fuel He. destruct e; try congruence; destruct fuel; cbn; repeat split; reflexivity. Qed.

(* Close: Closed is reported, the monitor is done and no further action (hence no Dial) is ever taken *)
Theorem C25_after_close :
  forall s fuel, let s' := on_close s in
    m_done s' = true /\ last_state s' = StClosed /\ m_calls s' = m_calls s /\ run_actions fuel s' = s'.
Proof.
  intros s fuel. unfold on_close. destruct (m_done s) eqn:Hd; cbn.
  - repeat split; try assumption.
    + unfold last_state. cbn. apply last_snoc.
    + destruct fuel; cbn; [reflexivity | rewrite Hd; reflexivity].
  - repeat split.
    + unfold last_state. cbn. change (m_states s ++ [StClosed; StClosed]) with (m_states s ++ [StClosed] ++ [StClosed]).
      rewrite app_assoc. apply last_snoc.
    + destruct fuel; reflexivity.
Qed.

Print Assumptions C25_model_reports_what_the_code_reports.
Print Assumptions C25_transitions_documented.
Print Assumptions C25_refuted_before_fix.
Print Assumptions C25_reconnects_when_all_succeed.
Print Assumptions C25_reconnects_eventually_bounded.
Print Assumptions C25_no_reconnect_closes.
Print Assumptions C25_after_close.
