(* C23 — client options affect only the client they are applied to.
   source facts : Gen.ConfigOptions (the exported Option constructors of config.go with their parameter types, whether
                  DefaultDialer() shares or copies uacp.DefaultClientACK, the default configurations) — regenerated on every run
   model        : Model.ConfigHeap (explicit heap: package-level Acknowledge cell + one region per client; every option is the
                  store it performs) — hand-written, tied by correspondence on programs of NewClient calls
   A program is a list of NewClient calls, each with a list of options. *)
From Coq Require Import List Bool NArith ZArith String.
From Coq.Strings Require Import Byte.
From Opcua Require Import Model.PureBytes Model.EndpointSelect Model.ConfigHeap Proofs.ConfigHeapProofs Gen.EndpointTables Gen.ConfigOptions.
Import ListNotations.

Definition pristine : gstate := {| g_client_ack := pristine_client_ack |}.

Definition go_new_client (shares : bool) :=
  new_client security_policy_uris security_policy_uri_prefix security_policy_uri_none shares default_sechan default_session default_dial_timeout.
Definition go_run (shares : bool) :=
  run security_policy_uris security_policy_uri_prefix security_policy_uri_none shares default_sechan default_session default_dial_timeout.

(* the constructors the model gives a meaning to, with the parameter types it assumes *)
Definition modelled_options : list (string * list string) := [
  ("ApplicationName", ["string"]); ("ApplicationURI", ["string"]); ("AuthAnonymous", []); ("AuthCertificate", ["[]byte"]);
  ("AuthIssuedToken", ["[]byte"]); ("AuthPolicyID", ["string"]); ("AuthPrivateKey", ["*rsa.PrivateKey"]);
  ("AuthUsername", ["string"; "string"]); ("AutoReconnect", ["bool"]); ("Certificate", ["[]byte"]); ("CertificateFile", ["string"]);
  ("DialTimeout", ["time.Duration"]); ("Dialer", ["*uacp.Dialer"]); ("Lifetime", ["time.Duration"]); ("Locales", ["...string"]);
  ("MaxChunkCount", ["uint32"]); ("MaxMessageSize", ["uint32"]); ("PrivateKey", ["*rsa.PrivateKey"]); ("PrivateKeyFile", ["string"]);
  ("ProductURI", ["string"]); ("RandomRequestID", []); ("ReceiveBufferSize", ["uint32"]); ("ReconnectInterval", ["time.Duration"]);
  ("RemoteCertificate", ["[]byte"]); ("RemoteCertificateFile", ["string"]); ("RequestTimeout", ["time.Duration"]);
  ("SecurityFromEndpoint", ["*ua.EndpointDescription"; "ua.UserTokenType"]); ("SecurityMode", ["ua.MessageSecurityMode"]);
  ("SecurityModeString", ["string"]); ("SecurityPolicy", ["string"]); ("SendBufferSize", ["uint32"]); ("SessionName", ["string"]);
  ("SessionTimeout", ["time.Duration"]); ("StateChangedCh", ["chan<- ConnState"]); ("StateChangedFunc", ["func(ConnState)"])
]%string.

Definition sig_eqb (a b : string * list string) : bool :=
  String.eqb (fst a) (fst b) && (Nat.eqb (List.length (snd a)) (List.length (snd b))) && forallb (fun p => String.eqb (fst p) (snd p)) (combine (snd a) (snd b)).

(* every Option constructor config.go exports today is one the model covers, with the same signature (and vice versa) *)
Theorem C23_options_covered :
  forallb (fun o => existsb (sig_eqb o) modelled_options) option_constructors = true /\
  forallb (fun o => existsb (sig_eqb o) option_constructors) modelled_options = true.
Proof. vm_compute. split; reflexivity. Qed.

(* DefaultDialer() copies the package default (read off the AST on every run) *)
Theorem C23_default_dialer_copies : default_dialer_shares_ack = false.
Proof. reflexivity. Qed.

(* Full statement, for the code as it is: for every program whose options do not hand the package-level pointer itself
   to opcua.Dialer, (1) the package defaults are untouched at the end, (2) every construction has exactly the outcome it has
   when it is the only one ever made, and (3) the effective configuration of every created client, read in the final state,
   is the one it has when read in the pristine state. *)
Definition C23_statement (shares : bool) : Prop :=
  forall progs, forallb (forallb opt_ok) progs = true ->
    let '(g_final, outs) := go_run shares pristine progs in
    g_final = pristine /\
    outs = map (fun os => snd (go_new_client shares pristine os)) progs /\
    forall c, In (Created c) outs -> effective g_final c = effective pristine c /\ (forall g, effective g c = effective pristine c).

Theorem C23_isolated : C23_statement default_dialer_shares_ack.
Proof.
  unfold C23_statement. intros progs Hok. unfold go_run.
  rewrite (run_isolated _ _ _ _ _ _ _ C23_default_dialer_copies progs pristine Hok).
  split; [reflexivity|]. split; [reflexivity|].
  intros c Hin. apply in_map_iff in Hin. destruct Hin as (os & Hos & Hin).
  assert (Hokos : forallb opt_ok os = true) by (rewrite forallb_forall in Hok; apply Hok; exact Hin).
  pose proof (new_client_inv _ _ _ _ _ _ _ C23_default_dialer_copies os pristine c Hokos Hos) as Hng.
  split; [reflexivity|]. intro g. apply effective_indep. exact Hng.
Qed.

(* the defect this property had (DESIGN section 7 row 19): with a DefaultDialer that shares the package pointer the
   statement is false — MaxMessageSize(1234) on one client changes the default and the next client *)
Theorem C23_refuted_if_default_shared : ~ C23_statement true.
Proof.
  intro H. specialize (H [[OMaxMessageSize 1234]; []] eq_refl). vm_compute in H. destruct H as [H _]. discriminate H.
Qed.

(* the hypothesis is needed and the heap is not decorative: a caller who passes uacp.DefaultClientACK itself gets sharing *)
Example C23_explicit_default_pointer_is_shared :
  let u := Some {| u_net := Some 3000000000%Z; u_ack := UGlobal |} in
  fst (go_run default_dialer_shares_ack pristine [[ODialer u; OMaxMessageSize 1234]]) <> pristine.
Proof. vm_compute. intro H. discriminate H. Qed.

(* non-vacuity: a program satisfying the hypothesis with three clients, buffer options, a caller-built dialer, an option
   error and a nil-dialer panic; all three kinds of outcome occur *)
Definition ex_prog : list (list opt) :=
  [[OMaxMessageSize 1234; OReceiveBufferSize 9999; OLifetime (-1000000)%Z];
   [ODialer (Some {| u_net := None; u_ack := UFresh {| a_version := 0; a_rbuf := 8192; a_sbuf := 8192; a_maxmsg := 0; a_maxchunk := 0 |} |}); OSendBufferSize 7];
   [OCertificate None CertBad]; [ODialer None; ODialTimeout 5%Z]; []].
Example C23_nonvacuous :
  forallb (forallb opt_ok) ex_prog = true /\
  map (fun o => match o with Created _ => 0%nat | Failed => 1%nat | Panic => 2%nat end) (snd (go_run default_dialer_shares_ack pristine ex_prog)) = [0; 0; 1; 2; 0]%nat /\
  (exists c, nth_error (snd (go_run default_dialer_shares_ack pristine ex_prog)) 0 = Some (Created c) /\
             option_map (option_map a_maxmsg) (e_ack (effective pristine c)) = Some (Some 1234%N) /\ sc_lifetime (c_sechan c) = 4294967295%N) /\
  (exists c, nth_error (snd (go_run default_dialer_shares_ack pristine ex_prog)) 4 = Some (Created c) /\
             option_map (option_map a_maxmsg) (e_ack (effective pristine c)) = Some (Some 0%N)).
Proof. vm_compute. repeat split; try reflexivity; eexists; repeat split; reflexivity. Qed.

Print Assumptions C23_options_covered.
Print Assumptions C23_default_dialer_copies.
Print Assumptions C23_isolated.
Print Assumptions C23_refuted_if_default_shared.
