(* C06 — negotiated transport limits are honoured in both directions.
   negotiation : Model.UacpHandshake, proved equal (all inputs) to Gen.UacpFromGo.go_Handshake_* / go_srvhandshake_*,
                 which the translator reads off uacp/conn.go on every run (C06_tied_to_source)
   send limits : Gen.UacpFromGo.go_send_refused (uasc checkPeerLimits), go_recv_rejected (uasc Receive)
   chunk size  : Gen.ArithFromGo.go_SetMaximumBodySize + Model.Layout.secured_len, via the C38 theorems
   wire        : tied by the C06 correspondence run (real client/server pairs over a frame-recording proxy)
   History: on the tree before /repo commit b35544e the statement was false (client adopted the Acknowledge
   wholesale, server ignored the Hello, nothing was enforced on send); see known_findings.txt `fixed:`. *)
From Coq Require Import ZArith Bool List Lia.
From Coq Require Import ZifyBool.
From Opcua Require Import Model.Layout Gen.ArithFromGo Gen.PolicyParams Gen.UacpFromGo.
From Opcua Require Import Model.UacpHandshake Proofs.UacpHandshakeProofs Props.C38.
Import ListNotations.
Open Scope Z_scope.

Definition lim4 (t : Z * Z * Z * Z) : limits := let '(a, b, c, d) := t in mkLim a b c d.
Definition side_of (t : Z * Z * Z * Z) (p : Z * Z) : side := mkSide (lim4 t) (fst p) (snd p).
Definition any (l : list bool) : bool := existsb (fun b => b) l.
(* apply a generated 9-argument function to (local configuration, version, values carried by the peer's message) *)
Definition app9 {A} (g : Z -> Z -> Z -> Z -> Z -> Z -> Z -> Z -> Z -> A) (l : limits) (v : Z) (r : limits) : A :=
  g (l_recv l) (l_send l) (l_maxmsg l) (l_maxchunks l) v (l_recv r) (l_send r) (l_maxmsg r) (l_maxchunks r).

(* ---- tie to the source ------------------------------------------------------------------------------------ *)
Theorem C06_tied_to_source :
  (min_buf = go_MinBufSize /\ default_maxmsg = go_DefaultMaxMessageSize /\ default_maxchunks = go_DefaultMaxChunkCount) /\
  (forall cl, client_hello cl = lim4 (go_Handshake_hello (l_recv cl) (l_send cl) (l_maxmsg cl) (l_maxchunks cl))) /\
  (forall cl v ack,
     client_after_ack cl v ack =
     if any (app9 go_Handshake_reject cl v ack) then None
     else Some (side_of (app9 go_Handshake_ack cl v ack) (app9 go_Handshake_peer cl v ack))) /\
  (forall sv hel,
     server_after_hello sv hel =
     if any (app9 go_srvhandshake_reject sv 0 hel) then None
     else Some (side_of (app9 go_srvhandshake_ack sv 0 hel) (app9 go_srvhandshake_peer sv 0 hel),
                lim4 (app9 go_srvhandshake_sent sv 0 hel))) /\
  (forall sd n L, send_refused sd n L = any (go_send_refused n L (s_peer_maxchunks sd) (s_peer_maxmsg sd))) /\
  (forall rv k L, recv_rejected rv k L = any (go_recv_rejected k L (l_maxchunks (s_lim rv)) (l_maxmsg (s_lim rv)))) /\
  (forall L mb, 0 <= L < 2147483648 -> 0 < mb < 4294967296 -> fst (go_nrChunks L mb) = nr_chunks L mb) /\
  (forall size sendbuf, any (go_Send_size_checks size sendbuf) = (size >? sendbuf)).
Proof.
  split; [repeat split|]. split; [intros [a b c d]; reflexivity|].
  split.
  { intros [a b c d] v [e f g h]. unfold client_after_ack, any, app9, go_Handshake_reject, go_Handshake_ack, go_Handshake_peer, side_of, lim4,
      min_buf, default_maxmsg, default_maxchunks.
    cbn [l_recv l_send l_maxmsg l_maxchunks existsb fst snd].
    destruct (v =? 0); cbn [negb orb]; [|reflexivity].
    destruct ((e <? 8192) || (f <? 8192)); cbn [orb]; [reflexivity|].
    destruct (c =? 0), (d =? 0); reflexivity. }
  split.
  { intros [a b c d] [e f g h]. unfold server_after_hello, any, app9, go_srvhandshake_reject, go_srvhandshake_ack, go_srvhandshake_peer,
      go_srvhandshake_sent, side_of, lim4, min_buf.
    cbn [l_recv l_send l_maxmsg l_maxchunks existsb fst snd].
    destruct ((e <? 8192) || (f <? 8192)); reflexivity. }
  split.
  { intros sd n L. unfold send_refused, any, go_send_refused. cbn [existsb]. rewrite orb_false_r. reflexivity. }
  split.
  { intros rv k L. unfold recv_rejected, any, go_recv_rejected. cbn [existsb]. rewrite orb_false_r. reflexivity. }
  split.
  { intros L mb HL Hm. unfold go_nrChunks, nr_chunks. replace (mb =? 0) with false by lia. cbn [fst].
    rewrite (Z.mod_small L) by lia. rewrite Z.quot_div_nonneg by lia.
    assert (0 <= L / mb <= L).
    { split; [apply Z.div_pos; lia|]. apply Z.div_le_upper_bound; [lia|]. nia. }
    apply Z.mod_small. lia. }
  { intros size sendbuf. unfold any, go_Send_size_checks. cbn [existsb]. rewrite orb_false_r. reflexivity. }
Qed.

(* the configuration the stock server and the default client use lies inside the quantified range *)
Theorem C06_defaults_in_range : valid_cfgb (lim4 go_DefaultClientACK) = true /\ valid_cfgb (lim4 go_DefaultServerACK) = true.
Proof. vm_compute. auto. Qed.

(* ---- the property, at full strength ------------------------------------------------------------------------
   All client and server configurations with buffers in [8192, 2^20] and any MaxMessageSize / MaxChunkCount
   (0 = no limit), all symmetric policies the code registers, all modes, all message sizes. *)
Definition C06_statement : Prop :=
  forall cl sv, valid_cfg cl -> valid_cfg sv ->
  exists hel ack cli srv,
    negotiate cl sv = Some (hel, ack, cli, srv) /\
    (* (a) no side sends a chunk larger than the receive buffer the other side announced *)
    (forall p m body, In p sym_policies -> 0 <= body <= go_max (l_send (s_lim cli)) p -> sec_len m p body <= l_recv ack) /\
    (forall p m body, In p sym_policies -> 0 <= body <= go_max (l_send (s_lim srv)) p -> sec_len m p body <= l_recv hel) /\
    (* (b) each side accepts every chunk up to the size the other side may send, and at least what it announced *)
    (forall w, w <= l_send (s_lim cli) -> frame_accepted srv w = true) /\
    (forall w, w <= l_send (s_lim srv) -> frame_accepted cli w = true) /\
    l_recv (s_lim srv) = l_recv ack /\ l_recv (s_lim cli) = l_recv hel /\
    (* (c) a message exceeding the maximum message size or chunk count the peer announced is refused by the
           sender with an error and nothing is put on the wire *)
    (forall mb L, (l_maxmsg ack > 0 /\ L > l_maxmsg ack) \/ (l_maxchunks ack > 0 /\ nr_chunks L mb > l_maxchunks ack) ->
                  send cli mb L = None) /\
    (forall mb L, (l_maxmsg hel > 0 /\ L > l_maxmsg hel) \/ (l_maxchunks hel > 0 /\ nr_chunks L mb > l_maxchunks hel) ->
                  send srv mb L = None).

Theorem C06_full : C06_statement.
Proof.
  intros cl sv Hcl Hsv.
  pose proof (negotiate_valid cl sv Hcl Hsv) as Hneg.
  eexists _, _, _, _. split; [exact Hneg|].
  destruct (neg_send_le_advertised _ _ _ _ _ _ Hcl Hsv Hneg) as (Hc & Hca & Hs & Hsa).
  destruct (neg_recv_ge_peer_send _ _ _ _ _ _ Hcl Hsv Hneg) as (Hr1 & Hr2 & Hr3 & Hr4).
  destruct (neg_peer_limits _ _ _ _ _ _ Hcl Hsv Hneg) as (Hp1 & Hp2 & Hp3 & Hp4).
  split.
  { intros p m body Hin Hb. eapply Z.le_trans; [apply (C38_fits p _ m body Hin); [|exact Hb]; lia|exact Hca]. }
  split.
  { intros p m body Hin Hb. eapply Z.le_trans; [apply (C38_fits p _ m body Hin); [|exact Hb]; lia|exact Hsa]. }
  split; [intros w Hw; unfold frame_accepted; lia|].
  split; [intros w Hw; unfold frame_accepted; lia|].
  split; [exact Hr1|]. split; [exact Hr2|].
  split.
  - intros mb L H. apply send_over_limit. rewrite Hp1, Hp2. exact H.
  - intros mb L H. apply send_over_limit. rewrite Hp3, Hp4. exact H.
Qed.

(* ---- beyond the three clauses: what is not refused is delivered --------------------------------------------- *)

(* client -> server: a request the client does not refuse is accepted by the server: every chunk fits the server's
   receive buffer, and the chunk-count / message-size checks of the server's Receive pass. Any policy and mode. *)
Theorem C06_request_delivered : forall cl sv hel ack cli srv p m L bodies,
  valid_cfg cl -> valid_cfg sv -> negotiate cl sv = Some (hel, ack, cli, srv) ->
  In p sym_policies -> 0 <= L -> 0 < go_max (l_send (s_lim cli)) p ->
  send cli (go_max (l_send (s_lim cli)) p) L = Some bodies ->
  delivered srv (map (sec_len m p) bodies) L = true.
Proof.
  intros cl sv hel ack cli srv p m L bodies Hcl Hsv Hneg Hin HL Hmb Hsend.
  destruct (neg_send_le_advertised _ _ _ _ _ _ Hcl Hsv Hneg) as (Hc & Hca & _).
  destruct (neg_recv_ge_peer_send _ _ _ _ _ _ Hcl Hsv Hneg) as (_ & _ & Hr3 & _).
  destruct (neg_peer_limits _ _ _ _ _ _ Hcl Hsv Hneg) as (Hp1 & Hp2 & _).
  destruct (neg_server_limits _ _ _ _ _ _ Hcl Hsv Hneg) as (Hl1 & Hl2).
  apply send_within_limit in Hsend. destruct Hsend as (-> & Hm & Hk).
  apply delivered_intro.
  - apply Forall_forall. intros w Hw. apply in_map_iff in Hw. destruct Hw as (b & <- & Hb).
    pose proof (chunk_bodies_bounds L _ HL Hmb) as HB. rewrite Forall_forall in HB. specialize (HB b Hb).
    eapply Z.le_trans; [apply (C38_fits p _ m b Hin); [|exact HB]; lia|exact Hr3].
  - rewrite map_length, length_chunk_bodies by assumption. rewrite Hl2, <- Hp2. intros H. specialize (Hk H). lia.
  - rewrite Hl1, <- Hp1. exact Hm.
Qed.

(* server -> client: the same, when the client announced its own message limits (non-zero).  A client that announces
   "no limit" (0, the default) applies the server's limits (or the defaults) to what it receives -- "use what the
   server wants" in uacp.DefaultClientACK -- so the server, which was told "no limit", cannot know them. *)
Theorem C06_response_delivered : forall cl sv hel ack cli srv p m L bodies,
  valid_cfg cl -> valid_cfg sv -> negotiate cl sv = Some (hel, ack, cli, srv) ->
  l_maxmsg cl <> 0 -> l_maxchunks cl <> 0 ->
  In p sym_policies -> 0 <= L -> 0 < go_max (l_send (s_lim srv)) p ->
  send srv (go_max (l_send (s_lim srv)) p) L = Some bodies ->
  delivered cli (map (sec_len m p) bodies) L = true.
Proof.
  intros cl sv hel ack cli srv p m L bodies Hcl Hsv Hneg Hn1 Hn2 Hin HL Hmb Hsend.
  destruct (neg_send_le_advertised _ _ _ _ _ _ Hcl Hsv Hneg) as (_ & _ & Hs & Hsa).
  destruct (neg_recv_ge_peer_send _ _ _ _ _ _ Hcl Hsv Hneg) as (_ & _ & _ & Hr4).
  destruct (neg_peer_limits _ _ _ _ _ _ Hcl Hsv Hneg) as (_ & _ & Hp3 & Hp4).
  destruct (neg_client_limits _ _ _ _ _ _ Hcl Hsv Hneg) as (Hl1 & Hl2).
  destruct (neg_inv _ _ _ _ _ _ Hcl Hsv Hneg) as (Hhel & _).
  rewrite Hhel in Hl1, Hl2. specialize (Hl1 Hn1). specialize (Hl2 Hn2). rewrite Hhel in Hp3, Hp4.
  apply send_within_limit in Hsend. destruct Hsend as (-> & Hm & Hk).
  apply delivered_intro.
  - apply Forall_forall. intros w Hw. apply in_map_iff in Hw. destruct Hw as (b & <- & Hb).
    pose proof (chunk_bodies_bounds L _ HL Hmb) as HB. rewrite Forall_forall in HB. specialize (HB b Hb).
    eapply Z.le_trans; [apply (C38_fits p _ m b Hin); [|exact HB]; lia|exact Hr4].
  - rewrite map_length, length_chunk_bodies by assumption. rewrite Hl2, <- Hp4. intros H. specialize (Hk H). lia.
  - rewrite Hl1, <- Hp3. exact Hm.
Qed.

(* ---- non-vacuity and the remark above, on concrete configurations ------------------------------------------- *)
Definition ex_cl : limits := mkLim 8192 65535 20000 2.       (* small receive buffer, own message limits *)
Definition ex_sv : limits := mkLim 16384 1048576 0 3.        (* large send buffer, no message size limit, 3 chunks *)

Example C06_nonvacuous :
  valid_cfgb ex_cl = true /\ valid_cfgb ex_sv = true /\
  negotiate ex_cl ex_sv =
    Some (ex_cl, mkLim 16384 8192 0 3,
          mkSide (mkLim 8192 16384 20000 2) 0 3, mkSide (mkLim 16384 8192 0 3) 20000 2) /\
  (* the server splits a 16333-byte response into two chunks of at most 8192 bytes; 16334 bytes need three: refused *)
  option_map (map (sec_len ModeNone sym_None)) (send (mkSide (mkLim 16384 8192 0 3) 20000 2) (go_max 8192 sym_None) 16333)
    = Some [8191; 8190] /\
  send (mkSide (mkLim 16384 8192 0 3) 20000 2) (go_max 8192 sym_None) 16334 = None /\
  send (mkSide (mkLim 16384 8192 0 3) 20000 2) (go_max 8192 sym_None) 20001 = None.
Proof. vm_compute. repeat split; reflexivity. Qed.

(* default client (announces no message limits) against a server limited to 20000-byte requests: a 65509-byte
   response is not refused by the server, fits every buffer, and is still rejected by the client *)
Example C06_remark_client_without_limits :
  match negotiate (lim4 go_DefaultClientACK) (mkLim 65535 65535 20000 1) with
  | Some (hel, ack, cli, srv) =>
      match send srv (go_max (l_send (s_lim srv)) sym_None) 65509 with
      | Some bodies =>
          forallb (frame_accepted cli) (map (sec_len ModeNone sym_None) bodies) &&
          negb (delivered cli (map (sec_len ModeNone sym_None) bodies) 65509)
      | None => false
      end
  | None => false
  end = true.
Proof. vm_compute. reflexivity. Qed.

Print Assumptions C06_tied_to_source.
Print Assumptions C06_defaults_in_range.
Print Assumptions C06_full.
Print Assumptions C06_request_delivered.
Print Assumptions C06_response_delivered.
