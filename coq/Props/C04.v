(* C04 — NodeID textual form round-trips and equality matches identity.
   model : Model.NodeIdText (render = NodeID.String, parse = ua.ParseNodeID, parse_expanded = ua.ParseExpandedNodeID, equal = Equal,
           registry keyed by the text form) — hand-written transcription, tied to /repo by correspondence (nodeidharness).
   `render`, `guid_string`, `new_guid_nodeid` are the code after the three C04 fixes in /repo; `render_gen true`, `guid_string_old` and the
   NGuid _ None state are the code before. *)
From Coq Require Import List Bool NArith ZArith.
From Coq.Strings Require Import Byte.
From Opcua Require Import Model.PureBytes Proofs.PureBytesProofs Model.NodeIdText Proofs.NodeIdTextProofs.
Import ListNotations.
Open Scope N_scope.

(* ---- the three codecs the text form is made of, for ALL inputs ---- *)
Theorem C04_atoi_decimal : forall n, n < 9223372036854775808 -> atoi (dec n) = Some (Z.of_N n).
Proof. exact atoi_dec. Qed.
Theorem C04_parseuint_decimal : forall n, n < 18446744073709551616 -> parse_uint64 (dec n) = Some n.
Proof. exact parse_uint64_dec. Qed.
Theorem C04_hex_roundtrip : forall l : bytes, unhex (hex_bytes l) = Some l.
Proof. exact unhex_hex. Qed.
Theorem C04_base64_roundtrip : forall l : bytes, b64_decode (b64_encode l) = Some l.
Proof. exact b64_roundtrip. Qed.
Theorem C04_guid_roundtrip : forall g, wf_guid g = true -> guid_string g = Ok (guid_text g) /\ new_guid (guid_text g) = Some (norm_guid g).
Proof. intros g H. split; [reflexivity | apply new_guid_text; exact H]. Qed.

(* ---- the property ---- *)
(* every NodeID value reachable through the public API: any of the six encodings with field values in the range of the Go types
   (a GUID may have a Data4 of any length, e.g. decoded from a truncated buffer), and NewGUIDNodeID(ns, s) for ANY string s *)
Definition constructible (n : nodeid) : Prop := wf_id n = true \/ exists ns s, ns < 65536 /\ n = new_guid_nodeid ns s.

(* full statement: every constructible id renders, the rendering parses, and the result is Equal to the original *)
Definition C04_statement : Prop :=
  forall n, constructible n -> exists s n', render n = Ok s /\ parse s = Ok n' /\ equal n' n = Ok true.

(* more precisely: the parser returns the smallest numeric encoding / the GUID with an 8-byte Data4 (canon), which is Equal to
   the original and denotes the same node.  Identifiers: any bytes, ';', '=', prefix look-alikes, empty. *)
Theorem C04_roundtrip_canon : forall n, wf_id n = true ->
  exists s, render n = Ok s /\ parse s = Ok (canon n) /\ equal (canon n) n = Ok true /\ node_of (canon n) = node_of n.
Proof.
  intros n H. destruct (parse_render_wf n H) as (s & Rs & Ps). exists s. split; [exact Rs|]. split; [exact Ps|].
  pose proof (wf_canon n H) as Hc.
  destruct (equal_iff_same_node (canon n) n Hc H) as (r & Er & Hr). split; [|apply node_of_canon; exact H].
  rewrite Er. f_equal. apply Hr. apply node_of_canon. exact H.
Qed.

Theorem C04_full : C04_statement.
Proof.
  intros n Hc. assert (H : wf_id n = true).
  { destruct Hc as [H|(ns & s & Hns & ->)]; [exact H | apply new_guid_nodeid_wf; exact Hns]. }
  destruct (C04_roundtrip_canon n H) as (s & Rs & Ps & Eq & _). exists s, (canon n). repeat split; assumption.
Qed.

(* String() never panics on any such id (it used to, see below) *)
Theorem C04_string_total : forall n, constructible n -> exists s, render n = Ok s.
Proof. intros n Hc. destruct (C04_full n Hc) as (s & _ & Rs & _). exists s. exact Rs. Qed.

(* the three defects repaired in /repo, as statements about the code before the fixes *)
Theorem C04_refuted_before_fix_guid_short_data4 : guid_string_old (G 1 2 3 [x01]) = Panic.
Proof. reflexivity. Qed.

(* before: NewGUIDNodeID(0, "zz") kept NewGUID's nil; that state renders "g=", which does not parse *)
Theorem C04_refuted_before_fix_guid_unparsable_string :
  new_guid [x7a; x7a] = None /\ render (NGuid 0 None) = Ok [x67; x3d] /\ parse [x67; x3d] = Err EInvalidGuid.
Proof. vm_compute. repeat split; reflexivity. Qed.

(* before: with the short form used unconditionally, a namespace-0 string id containing ';' does not parse back *)
Theorem C04_refuted_before_fix_semicolon :
  wf_id (NString 0 [x61; x3b; x62]) = true /\ render_gen true (NString 0 [x61; x3b; x62]) = Ok [x73; x3d; x61; x3b; x62] /\
  parse [x73; x3d; x61; x3b; x62] = Err EInvalidNodeID.
Proof. vm_compute. repeat split; reflexivity. Qed.

(* Equal is exactly "same namespace and identifier", the three numeric encodings of a number being the same node; never panics *)
Theorem C04_equal_iff : forall a b, wf_id a = true -> wf_id b = true ->
  exists r, equal a b = Ok r /\ (r = true <-> node_of a = node_of b).
Proof. exact equal_iff_same_node. Qed.

(* the ExpandedNodeID flags (NamespaceURI 0x80, ServerIndex 0x40) that the ExpandedNodeID API leaves in the NodeID's mask
   change neither the text form nor Equal: an id taken out of an ExpandedNodeID is Equal to the plainly constructed one *)
Theorem C04_equal_ignores_expanded_flags : forall a b fa fb, N.land fa 15 = 0 -> N.land fb 15 = 0 ->
  raw_render (set_flags fa a) = raw_render a /\ raw_equal (set_flags fa a) (set_flags fb b) = raw_equal a b.
Proof. intros a b fa fb Ha Hb. unfold raw_render, raw_equal. rewrite !view_set_flags by assumption. split; reflexivity. Qed.

Example C04_flags_nonvacuous :
  N.land 128 15 = 0 /\ N.land 64 15 = 0 /\ N.land 192 15 = 0 /\
  raw_equal (set_flags 128 (R 3 2 0 [x78] None)) (R 3 2 0 [x78] None) = Ok true /\
  raw_equal (set_flags 192 (R 5 2 0 [x78] None)) (set_flags 64 (R 5 2 0 [x78] None)) = Ok true.
Proof. vm_compute. repeat split; reflexivity. Qed.

(* "nsu=<uri>;<id>" resolves to the FIRST index of <uri> in the namespace table and continues with the identifier parser *)
Theorem C04_nsu : forall tbl u i idpart, find_uri tbl u 0 = Some i -> no_semi u ->
  nth_error tbl i = Some u /\ (forall j, (j < i)%nat -> nth_error tbl j <> Some u) /\
  parse_expanded (s_nsu ++ u ++ c_semi :: idpart) (Some tbl) = parse_ident (N.of_nat i mod 65536) u idpart.
Proof.
  intros tbl u i idpart Hf Hu. destruct (find_uri_spec _ _ _ _ Hf) as (_ & H2 & H3). rewrite Nat.sub_0_r in H2, H3.
  split; [exact H2|]. split; [exact H3|]. apply parse_expanded_nsu; assumption.
Qed.

(* ... e.g. a string identifier with arbitrary content keeps the URI and the flag *)
Theorem C04_nsu_string : forall tbl u i s, find_uri tbl u 0 = Some i -> no_semi u -> u <> [] ->
  parse_expanded (s_nsu ++ u ++ c_semi :: s_s ++ s) (Some tbl) =
    Ok {| en_id := NString (N.of_nat i mod 65536) s; en_uriflag := true; en_nsu := u; en_idx := 0 |}.
Proof.
  intros tbl u i s Hf Hu Hne. rewrite (parse_expanded_nsu _ _ _ _ Hf Hu), parse_ident_s. unfold new_expanded. destruct u; [congruence | reflexivity].
Qed.

(* registry keys: distinct nodes never share a key, and a registered id is found again (Lookup re-parses the key: no panic) *)
Theorem C04_registry_key_injective : forall a b sa, wf_id a = true -> wf_id b = true ->
  render a = Ok sa -> render b = Ok sa -> node_of a = node_of b.
Proof.
  intros a b sa Ha Hb Ra Rb. destruct (equal_iff_same_node a b Ha Hb) as (r & Er & Hr).
  unfold equal, equal_gen in Er. fold render in Er. rewrite Ra, Rb, beqb_refl in Er. inversion Er; subst. apply Hr. reflexivity.
Qed.
Theorem C04_registry_roundtrip : forall id t, wf_id id = true ->
  exists r, reg_register false reg_empty id t = RegOk r /\ reg_new false r id = Ok (Some t) /\ reg_lookup r t = Ok (Some (canon id)).
Proof. exact registry_roundtrip. Qed.

(* hypotheses are satisfiable: ids of all six encodings, incl. the 65535 quirk and a string full of separators *)
Example C04_nonvacuous :
  forallb wf_id [NTwoByte 0 255; NFourByte 255 65535; NNumeric 65535 4294967295; NString 0 [x6e;x73;x3d;x31;x3b;x69;x3d;x32];
                 NGuid 7 (Some (G 1588331804 49939 17367 [xb7;x90;x24;xaa;x2c;x3c;xfd;x37])); NGuid 0 (Some (G 1 2 3 [x01])); new_guid_nodeid 3 [x7a;x7a]; NOpaque 0 []; NOpaque 9 [x00;xff;x3b]] = true /\
  canon (NFourByte 255 65535) = NNumeric 255 65535 /\ canon (NNumeric 0 7) = NTwoByte 0 7 /\
  find_uri [[x61]; [x62]; [x62]] [x62] 0 = Some 1%nat.
Proof. vm_compute. repeat split; reflexivity. Qed.

Print Assumptions C04_atoi_decimal.
Print Assumptions C04_parseuint_decimal.
Print Assumptions C04_hex_roundtrip.
Print Assumptions C04_base64_roundtrip.
Print Assumptions C04_guid_roundtrip.
Print Assumptions C04_roundtrip_canon.
Print Assumptions C04_full.
Print Assumptions C04_string_total.
Print Assumptions C04_refuted_before_fix_guid_short_data4.
Print Assumptions C04_refuted_before_fix_guid_unparsable_string.
Print Assumptions C04_refuted_before_fix_semicolon.
Print Assumptions C04_equal_iff.
Print Assumptions C04_equal_ignores_expanded_flags.
Print Assumptions C04_nsu.
Print Assumptions C04_nsu_string.
Print Assumptions C04_registry_key_injective.
Print Assumptions C04_registry_roundtrip.
