(* C12 — chunk streams from any conforming peer are reassembled correctly.
   model    : Model.RecvMerge.recv_step / merge   (hand-written transcription of the buffering in SecureChannel.Receive
              and of mergeChunks, uasc/secure_channel.go; tied by the C12 correspondence run over a real channel)
   spec     : Model.RecvMerge.spec_step           (per request id: the data of all chunks since the last final/abort chunk)
   sender   : Model.RecvMerge.ref_stream, seq_next (Part 6, 6.7.2.4 numbering incl. roll-over to any value below 1024) *)
From Coq Require Import NArith List Bool Lia.
From Opcua Require Import Model.RecvBase Model.RecvMerge Model.RecvChan Proofs.RecvBaseProofs Proofs.RecvMergeProofs Proofs.RecvChanProofs.
Import ListNotations.
Open Scope N_scope.

(* readChunk's sequence check (Model.RecvChan.seq_filter: numbers must increase, roll-over allowed) and then the buffering *)
Definition receive_all (mc ms : N) (cs : list chunk) : list rout := snd (recv_all mc ms [] (seq_filter cs)).
Definition encoded_by (mc ms : N) (cs : list chunk) : list rout := snd (spec_all mc ms [] cs).

(* Any stream — any interleaving by request id, any piece sizes, aborts, any limits, over-limit messages included —
   in which no pending message sees the same sequence number twice in a row is reassembled into exactly what it encodes. *)
Theorem C12_reassembly : forall mc ms cs,
  fresh (seq_filter cs) = true -> receive_all mc ms cs = encoded_by mc ms (seq_filter cs).
Proof. intros. apply (recv_all_spec mc ms (seq_filter cs) [] [] []); [apply Inv_empty | assumption]. Qed.

(* Pairwise distinct numbers on the wire are enough (interleaved senders included) ... *)
Theorem C12_distinct_numbers : forall mc ms cs,
  NoDup (map ck_seq (seq_filter cs)) -> receive_all mc ms cs = encoded_by mc ms (seq_filter cs).
Proof.
  intros. apply C12_reassembly. apply fresh_nodup; [|assumption]. intros r s H'. discriminate.
Qed.

(* A numbering that follows the rule of Part 6 passes the sequence check untouched: nothing a conforming peer sends is dropped. *)
Theorem C12_conforming_passes_check : forall cs, chain (map ck_seq cs) -> seq_filter cs = cs.
Proof. exact seq_filter_chain. Qed.

(* ... and every numbering that follows the rule of Part 6 (start anywhere, roll over to any value below 1024, 0 included)
   has pairwise distinct numbers as long as fewer than 2^32 - 2047 chunks are looked at. *)
Theorem C12_conforming_numbering : forall mc ms cs,
  chain (map ck_seq cs) -> nlen cs <= 4294965249 -> receive_all mc ms cs = encoded_by mc ms cs.
Proof.
  intros mc ms cs Hc Hl. rewrite <- (seq_filter_chain cs Hc) at 2. apply C12_distinct_numbers.
  rewrite (seq_filter_chain cs Hc). apply chain_nodup; [exact Hc|].
  unfold nlen in *. now rewrite map_length.
Qed.

(* The reference sender: messages cut into arbitrary pieces (any sizes, empty pieces included), some of them aborted,
   numbered by any conforming numbering.  Everything within the negotiated limits is delivered, in order, unchanged. *)
Theorem C12_ref_sender : forall mc ms msgs,
  Forall (smsg_ok mc ms) msgs ->
  chain (map ck_seq (ref_stream msgs)) -> nlen (ref_stream msgs) <= 4294965249 ->
  receive_all mc ms (ref_stream msgs) = map smsg_out msgs.
Proof.
  intros mc ms msgs Hok Hc Hl.
  rewrite C12_conforming_numbering by assumption. apply spec_ref_stream; assumption.
Qed.

(* The defect that was repaired (fixed: see known_findings.txt): with the duplicate filter armed with 0 from the start,
   a message whose first chunk is numbered 0 lost that chunk. *)
Definition prefix_filter_statement : Prop :=
  forall cs, NoDup (map ck_seq cs) -> merge_prefix cs = concat (map ck_data cs).
Theorem C12_prefix_filter_refuted : ~ prefix_filter_statement.
Proof.
  intro H. specialize (H [Build_chunk CT_C 0 1 [65;65;65]; Build_chunk CT_F 1 1 [66;66;66]]).
  assert (Hn : NoDup [0; 1]) by (repeat constructor; cbn; intuition discriminate).
  specialize (H Hn). vm_compute in H. discriminate.
Qed.

(* Hypotheses are satisfiable: two interleaved messages and an aborted one, numbering rolling over from 2^32-1025 to 0. *)
Definition ex_stream : list chunk :=
  [ Build_chunk CT_C 4294966270 7 [1;2]; Build_chunk CT_C 4294966271 8 [9]; Build_chunk CT_C 0 7 [3];
    Build_chunk CT_C 1 9 [5;5]; Build_chunk CT_F 2 8 [10;11]; Build_chunk CT_A 3 9 [1;0;0;128;0;0;0;0]; Build_chunk CT_F 4 7 [4] ].
Example C12_nonvacuous :
  chain (map ck_seq ex_stream) /\ fresh ex_stream = true /\
  receive_all 4 100 ex_stream = [RDeliver 8 [9;10;11]; RAbort 9 2147483649; RDeliver 7 [1;2;3;4]].
Proof. split; [|split; vm_compute; reflexivity]. cbn. unfold seq_next. lia. Qed.

Example C12_ref_sender_nonvacuous :
  let msgs := [SMsg 5 [(4294966271, [1;2;3]); (0, []); (1, [4])] 2 [5;6]; SAborted 6 [(3, [7])] 4 2147483649 [120]] in
  Forall (smsg_ok 4 100) msgs /\ chain (map ck_seq (ref_stream msgs)) /\
  receive_all 4 100 (ref_stream msgs) = [RDeliver 5 [1;2;3;4;5;6]; RAbort 6 2147483649].
Proof.
  cbn zeta. split; [|split].
  - repeat constructor; cbn; lia.
  - cbn. unfold seq_next. lia.
  - vm_compute. reflexivity.
Qed.

Print Assumptions C12_reassembly.
Print Assumptions C12_distinct_numbers.
Print Assumptions C12_conforming_passes_check.
Print Assumptions C12_conforming_numbering.
Print Assumptions C12_ref_sender.
Print Assumptions C12_prefix_filter_refuted.
