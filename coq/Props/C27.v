(* C27 — subscription API calls and the publish loop never deadlock.
   model  : Model.ClientSub (publish loop, API callers, monitor's signalling, pausech/resumech, subMux) as an interleaving
            semantics; params : Gen.ClientSubParams.sub_params, read off client.go / client_sub.go on every run
            (channel capacities; whether each signalling site can block).
   The full statement has two halves: (a) no call blocks forever / no deadlock, (b) the publish loop does not stop
   while there are subscriptions.  (a) is PROVED for every program, script and schedule (after the `fix:` that made
   the signals non-blocking; the blocking variant is refuted below as documentation of the fixed defect).
   (b) is REFUTED: a pause and a resume signal that are both pending are taken in arbitrary order by the loop's
   `select`, so the resume can be consumed first and the loop then parks with an active subscription (known finding). *)
From Coq Require Import List Bool Arith.
From Opcua Require Import Model.ClientSub Proofs.ClientSubProofs Gen.ClientSubParams.
Import ListNotations.
Open Scope list_scope.
Open Scope nat_scope.

Definition C27_statement : Prop :=
  forall prog scr s, reachable sub_params (init scr prog) s ->
    deadlocked sub_params s = false /\ loop_starved sub_params s = false.

Lemma run_reachable_from P s0 : forall sched s1 s, reachable P s0 s1 -> run P s1 sched = Some s -> reachable P s0 s.
Proof.
  induction sched as [|a rest IH]; intros s1 s Hr Hs; cbn in Hs.
  - inversion Hs; subst. exact Hr.
  - destruct (step P s1 a) as [s2|] eqn:E; [|discriminate]. eapply IH; [eapply reach_step; eassumption | exact Hs].
Qed.

Lemma run_reachable P s0 sched s : run P s0 sched = Some s -> reachable P s0 s.
Proof. intros Hs. eapply run_reachable_from; [apply reach_init | exact Hs]. Qed.

(* the side condition on the generated parameters *)
Theorem C27_signals_do_not_block : nonblocking sub_params = true.
Proof. vm_compute. reflexivity. Qed.

(* the model's atomic read-locked sections are justified: no function calls, while it holds subMux, a function of the
   client that acquires subMux again (extracted from client.go, client_sub.go, subscription.go on every run) *)
Theorem C27_lock_sections_flat : nested_submux_acquisitions = [].
Proof. reflexivity. Qed.

(* (a), full quantifier: any number of Subscribe / Forget(Cancel) / recreate / pause / resume threads, any publish
   script, any interleaving. Every unfinished call can take a step, or waits for subMux whose holder can take a step;
   the loop's own pause signal never blocks; when the loop wants subMux it is free or its holder can step; hence no
   deadlock. *)
Theorem C27_partial_no_call_blocks_forever :
  forall prog scr s, reachable sub_params (init scr prog) s ->
    (forall i p, nth_error (threads s) i = Some p -> p <> Done ->
       can_step_api sub_params s i = true \/ exists j, mux s = Some j /\ j <> i /\ can_step_api sub_params s j = true)
    /\ (loop s = LWantPause -> step_loop sub_params s SelfPause <> None)
    /\ (loop s = LWantLock -> step_loop sub_params s Handle <> None \/ exists j, mux s = Some j /\ can_step_api sub_params s j = true)
    /\ deadlocked sub_params s = false.
Proof.
  intros prog scr s Hr.
  assert (Hinv : inv s) by (eapply inv_reachable; [apply inv_init | exact Hr]).
  pose proof C27_signals_do_not_block as Hnb.
  destruct (loop_not_stuck sub_params s Hnb Hinv) as [H1 H2].
  repeat split; try assumption.
  - apply no_call_blocks; assumption.
  - apply not_deadlocked; assumption.
Qed.

(* (b) refuted: Subscribe 1; while its publish request is outstanding Forget 1 (pause pending) and Subscribe 2 (resume
   pending); the answer arrives; the loop takes the resume first ("ignore since not paused"), then the pause. *)
Definition lost_resume_prog := [OpSubscribe 1; OpForget 1; OpSubscribe 2].
Definition lost_resume_sched : list action :=
  [ALoop TakePause; AApi 0; AApi 0; ALoop TakeResume; ALoop Default;
   AApi 1; AApi 1; AApi 1; AApi 2; AApi 2; ALoop Answer; ALoop Handle; ALoop TakeResume; ALoop TakePause].

Theorem C27_refuted_lost_resume : ~ C27_statement.
Proof.
  intros H.
  destruct (run sub_params (init [POk] lost_resume_prog) lost_resume_sched) as [s|] eqn:E; [|vm_compute in E; discriminate].
  destruct (H lost_resume_prog [POk] s (run_reachable _ _ _ _ E)) as [_ Hs].
  vm_compute in E. inversion E; subst. vm_compute in Hs. discriminate.
Qed.

(* the defect that was fixed (DESIGN row 20): with blocking signals, three Forgets of the only subscription while the
   publish answer is outstanding deadlock the third Forget (holding subMux) and the loop *)
Definition blocking_params : params :=
  {| cap_pause := 2; cap_resume := 2; pause_blocks := true; resume_blocks := true; subscribe_blocks := true |}.
Definition triple_cancel_prog := [OpSubscribe 1; OpForget 1; OpForget 1; OpForget 1].
Definition triple_cancel_sched : list action :=
  [ALoop TakePause; AApi 0; AApi 0; ALoop TakeResume; ALoop Default;
   AApi 1; AApi 1; AApi 1; AApi 2; AApi 2; AApi 2; AApi 3; ALoop Answer].

Theorem C27_unfixed_code_deadlocks :
  exists s, reachable blocking_params (init [POk] triple_cancel_prog) s /\ deadlocked blocking_params s = true.
Proof.
  destruct (run blocking_params (init [POk] triple_cancel_prog) triple_cancel_sched) as [s|] eqn:E; [|vm_compute in E; discriminate].
  exists s. split; [eapply run_reachable; exact E|]. vm_compute in E. inversion E; subst. vm_compute. reflexivity.
Qed.

(* the same program on the code as it is today ends with every call returned, on every schedule *)
Example C27_triple_cancel_terminals :
  forallb (fun t => forallb (fun b => b) (t_done t)) (terminals sub_params 20000 (init [POk] triple_cancel_prog)) = true.
Proof. vm_compute. reflexivity. Qed.

Print Assumptions C27_signals_do_not_block.
Print Assumptions C27_lock_sections_flat.
Print Assumptions C27_partial_no_call_blocks_forever.
Print Assumptions C27_refuted_lost_resume.
Print Assumptions C27_unfixed_code_deadlocks.
