(* C27 — subscription API calls and the publish loop never deadlock.
   model  : Model.ClientSub (publish loop, API callers, monitor's signalling, pausech/resumech, subMux) as an interleaving
            semantics; params : Gen.ClientSubParams.sub_params, read off client.go / client_sub.go on every run
            (channel capacities; whether each signalling site can block).
   The full statement has two halves: (a) no call blocks forever / no deadlock, (b) the publish loop does not stop
   while there are subscriptions.  Both are PROVED for the code as it is today, for any number of threads and every
   schedule: (a) since the `fix:` that made the signals non-blocking, (b) since the `fix:` that lets a consumed resume
   signal win over pause signals and sends Subscribe's resume signal after the registration.  The two defects are
   documented by C27_unfixed_code_deadlocks and C27_refuted_before_fix_lost_resume. *)
From Coq Require Import List Bool Arith.
From Opcua Require Import Model.ClientSub Proofs.ClientSubProofs Gen.ClientSubParams.
Import ListNotations.
Open Scope list_scope.
Open Scope nat_scope.

(* (a) for every program (API calls and the monitor's signalling), (b) for programs of Subscribe / ForgetSubscription
   (Cancel) calls and publish scripts without publish errors: a publish error and the monitor's pause park the loop on
   purpose until the reconnect resumes it *)
Definition C27_statement : Prop :=
  (forall prog scr s, reachable sub_params (init sub_params scr prog) s -> deadlocked sub_params s = false) /\
  (forall prog scr s, forallb api_op prog = true -> error_free scr = true ->
     reachable sub_params (init sub_params scr prog) s -> loop_starved sub_params s = false).

Lemma run_reachable_from P s0 : forall sched s1 s, reachable P s0 s1 -> run P s1 sched = Some s -> reachable P s0 s.
Proof.
  induction sched as [|a rest IH]; intros s1 s Hr Hs; cbn in Hs.
  - inversion Hs; subst. exact Hr.
  - destruct (step P s1 a) as [s2|] eqn:E; [|discriminate]. eapply IH; [eapply reach_step; eassumption | exact Hs].
Qed.

Lemma run_reachable P s0 sched s : run P s0 sched = Some s -> reachable P s0 s.
Proof. intros Hs. eapply run_reachable_from; [apply reach_init | exact Hs]. Qed.

(* the side condition on the generated parameters *)
Theorem C27_signals_do_not_block : nonblocking sub_params = true.
Proof. vm_compute. reflexivity. Qed.

(* the model's atomic read-locked sections are justified: no function calls, while it holds subMux, a function of the
   client that acquires subMux again (extracted from client.go, client_sub.go, subscription.go on every run) *)
Theorem C27_lock_sections_flat : nested_submux_acquisitions = [].
Proof. reflexivity. Qed.

(* ... and the loop does not hold subMux while it hands a notification to the application (the model's LNotifying):
   no call of notifySubscription / Subscription.notify is made with subMux held *)
Theorem C27_notifies_outside_lock : notifies_under_submux = [].
Proof. reflexivity. Qed.

(* (a), full quantifier: any number of Subscribe / Forget(Cancel) / recreate / pause / resume threads and of consumer
   goroutines that call the API before they receive from Notifs, any publish
   script, any interleaving. Every unfinished call can take a step, or waits for subMux whose holder can take a step;
   the loop's own pause signal never blocks; when the loop wants subMux it is free or its holder can step; hence no
   deadlock. *)
Theorem C27_no_call_blocks_forever :
  forall prog scr s, reachable sub_params (init sub_params scr prog) s ->
    (forall i p, nth_error (threads s) i = Some p -> p <> Done -> p <> ConsumeRecv ->
       can_step_api sub_params s i = true \/ exists j, mux s = Some j /\ j <> i /\ can_step_api sub_params s j = true)
    /\ (loop s = LWantPause -> step_loop sub_params s SelfPause <> None)
    /\ (loop s = LWantLock \/ (exists id, loop s = LWantLockData id) ->
          step_loop sub_params s Handle <> None \/ exists j, mux s = Some j /\ can_step_api sub_params s j = true)
    /\ deadlocked sub_params s = false.
Proof.
  intros prog scr s Hr.
  assert (Hinv : inv s) by (eapply inv_reachable; [apply inv_init | exact Hr]).
  pose proof C27_signals_do_not_block as Hnb.
  destruct (loop_not_stuck sub_params s Hnb Hinv) as [H1 H2].
  repeat split; try assumption.
  - apply no_call_blocks; assumption.
  - apply not_deadlocked; assumption.
Qed.

(* the protocol side conditions on the generated parameters: non-blocking signals, Subscribe signals after registering,
   a consumed resume wins, resumech has room for a signal *)
Theorem C27_protocol_as_proved : fixed_protocol sub_params = true.
Proof. vm_compute. reflexivity. Qed.

(* (b), full quantifier over the API programs: when every Subscribe / ForgetSubscription call has returned and the
   client holds a subscription, the publish loop is not parked *)
Theorem C27_no_lost_resume :
  forall prog scr s, forallb api_op prog = true -> error_free scr = true ->
    reachable sub_params (init sub_params scr prog) s -> loop_starved sub_params s = false.
Proof. intros prog scr s Hp Hs Hr. eapply no_lost_resume; [exact C27_protocol_as_proved | exact Hp | exact Hs | exact Hr]. Qed.

Theorem C27_no_deadlock_no_lost_resume : C27_statement.
Proof.
  split.
  - intros prog scr s Hr. apply not_deadlocked; [exact C27_signals_do_not_block|]. eapply inv_reachable; [apply inv_init | exact Hr].
  - exact C27_no_lost_resume.
Qed.

Example C27_hypotheses_satisfiable :
  forallb api_op [OpSubscribe 1; OpForget 1; OpSubscribe 2] = true /\ error_free [POk; PTimeout] = true.
Proof. split; reflexivity. Qed.

(* the defect that was fixed: Subscribe 1; while its publish request is outstanding Forget 1 (pause pending) and
   Subscribe 2 (resume pending); the answer arrives; the loop takes the resume first ("ignore since not paused"), then
   the pause, and parks with subscription 2 registered *)
Definition old_signalling : params :=
  {| cap_pause := 2; cap_resume := 2; pause_blocks := false; resume_blocks := false; subscribe_blocks := false;
     subscribe_signals_after := false; resume_wins := false |}.
Definition lost_resume_prog := [OpSubscribe 1; OpForget 1; OpSubscribe 2].
Definition lost_resume_sched : list action :=
  [ALoop TakePause; AApi 0; AApi 0; ALoop TakeResume; ALoop Default;
   AApi 1; AApi 1; AApi 1; AApi 2; AApi 2; ALoop Answer; ALoop Handle; ALoop TakeResume; ALoop TakePause].

Theorem C27_refuted_before_fix_lost_resume :
  exists s, reachable old_signalling (init old_signalling [POk] lost_resume_prog) s /\ loop_starved old_signalling s = true.
Proof.
  destruct (run old_signalling (init old_signalling [POk] lost_resume_prog) lost_resume_sched) as [s|] eqn:E; [|vm_compute in E; discriminate].
  exists s. split; [eapply run_reachable; exact E|]. vm_compute in E. inversion E; subst. vm_compute. reflexivity.
Qed.

(* the defect that was fixed (DESIGN row 20): with blocking signals, three Forgets of the only subscription while the
   publish answer is outstanding deadlock the third Forget (holding subMux) and the loop *)
Definition blocking_params : params :=
  {| cap_pause := 2; cap_resume := 2; pause_blocks := true; resume_blocks := true; subscribe_blocks := true;
     subscribe_signals_after := false; resume_wins := false |}.
Definition triple_cancel_prog := [OpSubscribe 1; OpForget 1; OpForget 1; OpForget 1].
Definition triple_cancel_sched : list action :=
  [ALoop TakePause; AApi 0; AApi 0; ALoop TakeResume; ALoop Default;
   AApi 1; AApi 1; AApi 1; AApi 2; AApi 2; AApi 2; AApi 3; ALoop Answer].

Theorem C27_unfixed_code_deadlocks :
  exists s, reachable blocking_params (init blocking_params [POk] triple_cancel_prog) s /\ deadlocked blocking_params s = true.
Proof.
  destruct (run blocking_params (init blocking_params [POk] triple_cancel_prog) triple_cancel_sched) as [s|] eqn:E; [|vm_compute in E; discriminate].
  exists s. split; [eapply run_reachable; exact E|]. vm_compute in E. inversion E; subst. vm_compute. reflexivity.
Qed.

(* the same program on the code as it is today ends with every call returned, on every schedule *)
Example C27_triple_cancel_terminals :
  forallb (fun t => forallb (fun b => b) (t_done t)) (terminals sub_params 20000 (init sub_params [POk] triple_cancel_prog)) = true.
Proof. vm_compute. reflexivity. Qed.

Print Assumptions C27_signals_do_not_block.
Print Assumptions C27_lock_sections_flat.
Print Assumptions C27_notifies_outside_lock.
Print Assumptions C27_no_call_blocks_forever.
Print Assumptions C27_protocol_as_proved.
Print Assumptions C27_no_lost_resume.
Print Assumptions C27_no_deadlock_no_lost_resume.
Print Assumptions C27_refuted_before_fix_lost_resume.
Print Assumptions C27_unfixed_code_deadlocks.
