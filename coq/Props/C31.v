(* C31 — node access levels are enforced for value reads and writes.
   model      : Model.ServerSpace (Node.Access, NodeNameSpace.Attribute / SetAttribute, the Read / Write loops),
                Model.Server (the dispatcher and the change notification a successful write triggers)
                — hand transcription, tied by the C31 correspondence (real client, generated attribute combinations)
   constants  : Gen.ServerGen (attribute ids, access level flags, status codes taken from package ua on every run) *)
From Coq Require Import NArith ZArith Bool List Lia.
From Opcua Require Import Model.ServerSpace Model.ServerBrowse Model.Server
  Proofs.ServerSpaceProofs Proofs.ServerProofs Gen.ServerGen.
Import ListNotations.
Open Scope N_scope.

(* the numbers the model uses are the numbers the code uses *)
Theorem C31_constants :
  (AttrNodeID, AttrNodeClass, AttrEventNotifier, AttrValue, AttrDataType, AttrAccessLevel, AttrUserAccessLevel) =
  (g_AttrNodeID, g_AttrNodeClass, g_AttrEventNotifier, g_AttrValue, g_AttrDataType, g_AttrAccessLevel, g_AttrUserAccessLevel) /\
  (FlagCurrentRead, FlagCurrentWrite) = (g_FlagCurrentRead, g_FlagCurrentWrite) /\
  (StOK, StBad, StBadNodeIDUnknown, StBadAttributeIDInvalid, StBadUserAccessDenied) =
  (g_StOK, g_StBad, g_StBadNodeIDUnknown, g_StBadAttributeIDInvalid, g_StBadUserAccessDenied).
Proof. repeat split. Qed.

Definition denied : dval := DV VNil StBadUserAccessDenied.

(* "lacks f": AccessLevel or UserAccessLevel is present and is not a uint8 with bit f set
   (a missing Variant, a nil value and every other type count as lacking the bit). *)

(* READ, any attribute of the node, any state: the answer is BadUserAccessDenied without a value, state untouched *)
Theorem C31_read_denied : forall sp k n attr, get_node sp k = Some n -> lacks n FlagCurrentRead = true ->
  ns_attribute sp k attr = (sp, denied).
Proof. intros. eapply read_denied; eassumption. Qed.

(* ... through the dispatcher, for every element of every Read request *)
Theorem C31_read_request : forall fuel s chan tok l s' ds, handle fuel s (EReq chan tok (RRead l)) = (s', ORead ds) ->
  forall i ns k attr n, nth_error l i = Some ((ns, k), attr) -> ns <? sp_ns (sv_space s) = true ->
  get_node (sv_space s) k = Some n -> lacks n FlagCurrentRead = true ->
  nth_error ds i = Some denied.
Proof.
  intros fuel s chan tok l s' ds H i ns k attr n Hi Hns Hg Hl.
  eapply read_all_denied; [eapply handle_read_inv; exact H | exact Hi | exact Hns | exact Hg | exact Hl].
Qed.

(* a value is only ever returned for a node whose two levels (where present) both grant CurrentRead *)
Theorem C31_value_needs_read : forall sp k n sp' d, get_node sp k = Some n -> ns_attribute sp k AttrValue = (sp', d) ->
  d <> denied -> lacks n FlagCurrentRead = false.
Proof.
  intros sp k n sp' d Hg H Hd. destruct (lacks n FlagCurrentRead) eqn:L; [|reflexivity].
  rewrite (read_denied _ _ _ _ Hg L) in H. inversion H; subst. exfalso. apply Hd. reflexivity.
Qed.

(* WRITE, any attribute, any state: refused, state unchanged *)
Theorem C31_write_denied : forall sp k n attr v, get_node sp k = Some n -> lacks n FlagCurrentWrite = true ->
  ns_set_attribute sp k attr v = (sp, StBadUserAccessDenied).
Proof. intros. eapply write_denied; eassumption. Qed.

(* ... through the dispatcher: every element of a Write request aimed at such a node is refused, and after the whole
   request (other elements, change notifications) the node still has its value, references and access attributes *)
Theorem C31_write_request : forall fuel s chan tok l s' sts k n,
  handle fuel s (EReq chan tok (RWrite l)) = (s', OWrite sts) ->
  get_node (sv_space s) k = Some n -> lacks n FlagCurrentWrite = true ->
  (forall i ns attr v, nth_error l i = Some ((ns, k), attr, v) -> ns <? sp_ns (sv_space s) = true ->
                       nth_error sts i = Some StBadUserAccessDenied) /\
  exists n', get_node (sv_space s') k = Some n' /\ node_value n' = node_value n /\
             lacks n' FlagCurrentWrite = true /\ same_but_class n n'.
Proof.
  intros fuel s chan tok l s' sts k n H Hg Hl. apply handle_write_inv in H.
  assert (Hf : frozen_as (sv_space s) k n) by (exists n; split; [exact Hg | apply same_but_class_refl]).
  split.
  - intros i ns attr v Hi Hns. eapply srv_write_all_refused; eassumption.
  - destruct (srv_write_all_frozen _ _ _ _ _ _ _ H Hl Hf) as (n' & G & S).
    exists n'. split; [exact G|]. split; [now apply same_but_class_value|]. split; [|exact S].
    now rewrite (same_but_class_lacks _ _ _ S).
Qed.

(* HISTORIES: whatever sequence of requests from whatever sessions and channels (and goroutine events) follows,
   a node that lacks CurrentWrite keeps its value; it also keeps lacking CurrentWrite, since its level attributes
   can only be written through the same check.  No bound on the history. *)
Theorem C31_history_value_unchanged : forall fuel h s k n,
  get_node (sv_space s) k = Some n -> lacks n FlagCurrentWrite = true ->
  exists n', get_node (sv_space (run fuel s h)) k = Some n' /\ node_value n' = node_value n /\
             n_refs n' = n_refs n /\ lacks n' FlagCurrentWrite = true /\
             lacks n' FlagCurrentRead = lacks n FlagCurrentRead.
Proof.
  intros fuel h s k n Hg Hl.
  assert (Hf : frozen_as (sv_space s) k n) by (exists n; split; [exact Hg | apply same_but_class_refl]).
  destruct (run_frozen fuel h s k n Hl Hf) as (n' & G & S).
  exists n'. split; [exact G|]. split; [now apply same_but_class_value|].
  split; [apply S|]. split; [now rewrite (same_but_class_lacks _ _ _ S) | apply (same_but_class_lacks _ _ _ S)].
Qed.

(* and so every later value read of a node lacking both bits is denied, along any history *)
Theorem C31_history_read_denied : forall fuel h s k n attr,
  get_node (sv_space s) k = Some n -> lacks n FlagCurrentWrite = true -> lacks n FlagCurrentRead = true ->
  let sp := sv_space (run fuel s h) in ns_attribute sp k attr = (sp, denied).
Proof.
  intros fuel h s k n attr Hg Hw Hr sp.
  destruct (C31_history_value_unchanged fuel h s k n Hg Hw) as (n' & G & _ & _ & _ & R).
  eapply read_denied; [exact G | congruence].
Qed.

(* NOTIFICATIONS: "never returns the value" includes the data change notifications of monitored items.  What
   ChangeNotification hands to the subscriptions for a node lacking CurrentRead is BadUserAccessDenied without a value, for
   every monitored item and attribute, after a write (the node may well grant CurrentWrite) as for the initial notification *)
Theorem C31_notification_denied : forall items sp ns k n,
  ns <? sp_ns sp = true -> get_node sp k = Some n -> lacks n FlagCurrentRead = true ->
  forall e, In e (snd (notify_vals items sp (ns, k))) -> snd e = denied.
Proof.
  intros items sp ns k n Hns Hg Hl e He.
  eapply notify_vals_denied; [exact Hns | exists n; split; [exact Hg | apply same_but_class_refl] | exact Hl | exact He].
Qed.

(* ... and the state the notifications leave is the one the Write handler continues with (Model.Server.notify) *)
Theorem C31_notification_is_the_handlers : forall items sp n, fst (notify_vals items sp n) = notify items sp n.
Proof. exact notify_vals_space. Qed.

Example C31_ex_write_only : (* CurrentWrite without CurrentRead: the write is accepted, the subscriber is not told the value *)
  let sp := Space 1 [(7, Node [(AttrAccessLevel, DV (VU8 2) 0)] [] (Some (Some (DV (VU32 5) 0))))] in
  let items := [(1, Item 1 (Some 9) (0, 7) AttrValue 0)] in
  snd (write_one sp ((0, 7), AttrValue, DV (VU32 6) 0)) = StOK /\
  snd (notify_vals items (fst (write_one sp ((0, 7), AttrValue, DV (VU32 6) 0))) (0, 7)) = [(1, denied)].
Proof. vm_compute. split; reflexivity. Qed.

(* the hypotheses are satisfiable by the interesting shapes: a read-only level, a wrong type, a missing Variant *)
Example C31_ex_readonly : lacks (Node [(AttrAccessLevel, DV (VU8 1) 0)] [] (Some (Some (DV (VU32 5) 0)))) FlagCurrentWrite = true
  /\ lacks (Node [(AttrAccessLevel, DV (VU8 1) 0)] [] None) FlagCurrentRead = false.
Proof. split; reflexivity. Qed.
Example C31_ex_wrong_type : lacks (Node [(AttrUserAccessLevel, DV (VU32 3) 0)] [] None) FlagCurrentRead = true
  /\ lacks (Node [(AttrAccessLevel, DV (VU8 3) 0); (AttrUserAccessLevel, DV VNil 0)] [] None) FlagCurrentWrite = true.
Proof. split; reflexivity. Qed.
Example C31_ex_granted : exists sp d, ns_attribute sp 7 AttrValue = (sp, d) /\ d = DV (VU32 5) 0 /\
  ns_set_attribute sp 7 AttrValue (DV (VU32 6) 0) <> (sp, StBadUserAccessDenied).
Proof.
  exists (Space 1 [(7, Node [(AttrAccessLevel, DV (VU8 3) 0)] [] (Some (Some (DV (VU32 5) 0))))]). eexists.
  split; [reflexivity|]. split; [reflexivity | discriminate].
Qed.

Print Assumptions C31_constants.
Print Assumptions C31_read_denied.
Print Assumptions C31_read_request.
Print Assumptions C31_value_needs_read.
Print Assumptions C31_write_denied.
Print Assumptions C31_write_request.
Print Assumptions C31_history_value_unchanged.
Print Assumptions C31_history_read_denied.
Print Assumptions C31_notification_denied.
Print Assumptions C31_notification_is_the_handlers.
