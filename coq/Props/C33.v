(* C33 — Browse returns exactly the matching references.
   model   : Model.ServerBrowse (ViewService.Browse, suitableRef, suitableRefType, getSubRefs, NodeNameSpace.Browse,
             Node.DataType) — hand transcription, tied by the C33 correspondence (real Browse results over the real
             standard nodeset plus generated nodes, recomputed with vm_compute)
   nodeset : Gen.ServerStdSpace.g_std_space — namespace 0 exactly as server.New builds it, dumped on every run *)
From Coq Require Import NArith ZArith Bool List Lia Permutation ZifyN ZifyNat ZifyBool.
From Opcua Require Import Model.ServerSpace Model.ServerBrowse Proofs.ServerSpaceProofs Proofs.ServerBrowseProofs
  Gen.ServerGen Gen.ServerStdSpace.
Import ListNotations.
Open Scope N_scope.

Theorem C33_constants :
  (HasSubtype, HasTypeDefinition) = (g_HasSubtype, g_HasTypeDefinition) /\ (0, 1, 2) = (g_DirForward, g_DirInverse, g_DirBoth) /\
  (StGood, StBad, StBadNodeIDUnknown) = (g_StOK, g_StBad, g_StBadNodeIDUnknown).
Proof. repeat split. Qed.

(* getSubRefs computes the transitive subtype closure (whenever the recursion ends) *)
Theorem C33_subtype_closure : forall fuel sp a l, sub_refs fuel sp a = Some l ->
  forall k, In k l <-> exists b, sub_plus sp a b /\ snd b = k.
Proof. exact sub_refs_spec. Qed.

(* the filter of Browse is the specification's: direction, reference type (the type itself, or - only with
   IncludeSubtypes - a proper subtype of it; i=0 = any type), node class mask *)
Theorem C33_filter_is_spec : forall fuel sp bd r, sub_refs fuel sp (bd_reftype bd) <> None ->
  (selb fuel sp bd r = true <-> returnable r = true /\ spec_match sp bd r).
Proof. exact selb_spec. Qed.

(* Browse of a node of ANY address space whose HasSubtype recursion from the requested type ends within the stack
   (every acyclic space, for a large enough fuel) and whose references carry a type:
   status Good and exactly the selected references, each once, the forward HasTypeDefinition ones first. *)
Theorem C33_browse_exact : forall fuel sp bd n,
  fst (bd_node bd) <? sp_ns sp = true -> get_node sp (snd (bd_node bd)) = Some n ->
  (forall r, In r (n_refs n) -> r_type r <> None) -> sub_refs fuel sp (bd_reftype bd) <> None ->
  exists l, browse_one fuel sp bd = Ok (StGood, l) /\
    Permutation l (map (rdesc_of sp) (filter (selb fuel sp bd) (n_refs n))) /\
    (forall r, In r (filter (selb fuel sp bd) (n_refs n)) <-> In r (n_refs n) /\ returnable r = true /\ spec_match sp bd r).
Proof.
  intros fuel sp bd n Hns Hg Ht Hf. unfold browse_one. rewrite Hns, Hg. cbn [negb].
  rewrite browse_loop_exact by assumption. eexists. split; [reflexivity|]. split.
  - rewrite app_nil_l, map_app, map_rev, !map_map. cbn [snd mk].
    rewrite <- map_rev, <- map_app. apply Permutation_map. apply filter_split_perm.
  - intros r. rewrite filter_In. rewrite (selb_spec fuel sp bd r Hf). tauto.
Qed.

(* unknown node / namespace: the status says so and nothing is returned *)
Theorem C33_browse_unknown : forall fuel sp bd,
  (fst (bd_node bd) <? sp_ns sp = false -> browse_one fuel sp bd = Ok (StBad, [])) /\
  (fst (bd_node bd) <? sp_ns sp = true -> get_node sp (snd (bd_node bd)) = None -> browse_one fuel sp bd = Ok (StBadNodeIDUnknown, [])).
Proof.
  intros fuel sp bd. unfold browse_one. split.
  - intros ->. reflexivity.
  - intros -> ->. reflexivity.
Qed.

(* ---- the standard nodeset as the server builds it ---- *)
Definition is_some {A} (o : option A) : bool := match o with Some _ => true | None => false end.

(* every reference has a type, and from every node the HasSubtype recursion ends within depth 64 (so HasSubtype is
   acyclic in the nodeset): decided by computation over all g_std_node_count nodes *)
Theorem C33_std_wellformed :
  refs_typedb g_std_space = true /\
  forallb (fun kn => is_some (sub_refs 64 g_std_space (0, fst kn))) g_std_nodes = true.
Proof. split; vm_compute; reflexivity. Qed.

Lemma alist_get_in : forall A k (v : A) l, alist_get k l = Some v -> In (k, v) l.
Proof.
  induction l as [|[k' v'] t IH]; cbn [alist_get]; [discriminate|].
  destruct (k' =? k) eqn:E; intros H.
  - inversion H; subst. apply N.eqb_eq in E. subst. now left.
  - right. now apply IH.
Qed.

Lemma std_fuel : forall n, sub_refs 64 g_std_space n <> None.
Proof.
  intros [ns k]. destruct (lookup_nid g_std_space (ns, k)) as [nd|] eqn:L.
  - unfold lookup_nid in L. cbn [fst snd] in L. destruct (ns <? sp_ns g_std_space) eqn:Hns; [|discriminate].
    assert (ns = 0). { unfold g_std_space in Hns. cbn [sp_ns] in Hns. clear - Hns. destruct ns as [|[p|p|]]; [reflexivity | discriminate Hns | discriminate Hns | discriminate Hns]. } subst ns.
    apply alist_get_in in L. destruct C33_std_wellformed as [_ H]. rewrite forallb_forall in H.
    specialize (H _ L). cbn [fst] in H. destruct (sub_refs 64 g_std_space (0, k)); [discriminate | discriminate].
  - change 64%nat with (S 63). cbn [sub_refs]. rewrite L. discriminate.
Qed.

(* Browse of every node of the standard nodeset, every description *)
Theorem C33_std_browse : forall bd n, fst (bd_node bd) = 0 -> get_node g_std_space (snd (bd_node bd)) = Some n ->
  exists l, browse_one 64 g_std_space bd = Ok (StGood, l) /\
    Permutation l (map (rdesc_of g_std_space) (filter (selb 64 g_std_space bd) (n_refs n))) /\
    (forall r, In r (filter (selb 64 g_std_space bd) (n_refs n)) <->
               In r (n_refs n) /\ returnable r = true /\ spec_match g_std_space bd r).
Proof.
  intros bd n Hns Hg. apply C33_browse_exact; [rewrite Hns; reflexivity | exact Hg | | apply std_fuel].
  intros r Hin. eapply (refs_typedb_sound _ (proj1 C33_std_wellformed)); eassumption.
Qed.

(* ---- added namespaces of the other kind: MapNamespace (references made up from the keys of a Go map) ----
   Browse of its Root / Objects node returns exactly the made-up references that match the description, for every
   description whose reference type recursion ends (fix: before, the description was ignored) *)
Theorem C33_map_namespace_browse : forall fuel sp ns objects keys node_int bd,
  sub_refs fuel sp (bd_reftype bd) <> None ->
  exists l, map_browse fuel sp ns objects keys node_int bd = Ok (StGood, map map_rdesc l) /\
    (forall r, In r l <-> In r (map_refs ns objects keys node_int) /\ spec_match sp bd r) /\
    exists f, l = filter f (map_refs ns objects keys node_int).
Proof.
  intros fuel sp ns objects keys node_int bd Hf. unfold map_browse. rewrite (map_loop_exact fuel sp bd _ Hf).
  eexists. split; [reflexivity|]. split; [|eexists; reflexivity].
  intros r. rewrite filter_In. pose proof (suitable_ref_total fuel sp bd r Hf) as Hn.
  destruct (suitable_ref fuel sp bd r) as [b|] eqn:E; [|contradiction].
  pose proof (suitable_ref_spec _ _ _ _ _ E) as HS. destruct b.
  - split; intros [H1 H2]; (split; [exact H1|]); [now apply HS | reflexivity].
  - split; intros [H1 H2]; [discriminate|]. apply HS in H2. discriminate.
Qed.

Example C33_ex_map : (* Objects of a map namespace with two keys: forward HasComponent yes, inverse no, Organizes no *)
  let sp := Space 3 [] in
  map_browse 1 sp 2 9000 [9001; 9002] 85 (BD (2, 9000) 0 (0, 47) false 0) =
    Ok (StGood, [RD 47 true 9001 2 (Some 9001); RD 47 true 9002 2 (Some 9002)]) /\
  map_browse 1 sp 2 9000 [9001; 9002] 85 (BD (2, 9000) 1 (0, 0) true 0) = Ok (StGood, []) /\
  map_browse 1 sp 2 9000 [9001; 9002] 85 (BD (2, 9000) 0 (0, 35) false 0) = Ok (StGood, []).
Proof. vm_compute. repeat split. Qed.

(* the statement is about something: the Server object's hierarchical children, and IncludeSubtypes=false is honoured *)
Example C33_ex_objects : exists l, browse_one 64 g_std_space (BD (0, 85) 0 (0, 33) true 0) = Ok (StGood, l) /\ l <> [].
Proof. vm_compute. eexists. split; [reflexivity | discriminate]. Qed.
Example C33_ex_no_subtypes : browse_one 64 g_std_space (BD (0, 85) 0 (0, 33) false 0) = Ok (StGood, []).
Proof. vm_compute. reflexivity. Qed.

Print Assumptions C33_constants.
Print Assumptions C33_subtype_closure.
Print Assumptions C33_filter_is_spec.
Print Assumptions C33_browse_exact.
Print Assumptions C33_browse_unknown.
Print Assumptions C33_std_wellformed.
Print Assumptions C33_std_browse.
Print Assumptions C33_map_namespace_browse.
