(* C22 — a session is established only after the server proves its identity.
   model : Model.ClientSession.connect (client.go Connect/CreateSession/ActivateSession + uasc VerifySessionSignature),
           for EVERY verification function and certificate parser (Section variables, no hypotheses);
   source facts taken from the regenerated table Gen.ClientSites: the error branches after VerifySessionSignature /
           NewSessionSignature return the error (AST of client.go), and the RSA public-key assertions are comma-ok.
   Correspondence: scripted server over real secured channels (5 policies x Sign/SignAndEncrypt + None) with valid,
           corrupted, empty, zero, truncated, wrong-key, wrong-nonce, wrong-data signatures and ECDSA / garbage /
           missing / foreign certificates; client in a child process. *)
From Coq Require Import List String Bool Arith.
From Opcua Require Import Model.ClientGuards Model.ClientOps Model.ClientSession Proofs.ClientSessionProofs Gen.ClientSites.
Import ListNotations.
Open Scope string_scope.

Definition GV : guard := site_guard sites "SecureChannel.VerifySessionSignature" "remoteX509Cert.PublicKey.(*rsa.PublicKey)".
Definition GS : guard := site_guard sites "SecureChannel.NewSessionSignature" "remoteX509Cert.PublicKey.(*rsa.PublicKey)".

(* what the code does today *)
Definition impl_connect bytes key append verify parse (e : env bytes) : result :=
  connect bytes key append verify parse
    create_session_returns_verify_error activate_session_returns_signature_error GV GS e.

Section C22.
  Variable bytes key : Type.
  Variable append : bytes -> bytes -> bytes.
  Variable verify : key -> bytes -> bytes -> bool.
  Variable parse : bytes -> cert_class key.
  Notation conn := (impl_connect bytes key append verify parse).
  Notation valid := (sig_valid bytes key append verify parse).

  (* Connect reports success only if the channel is unsecured or the server's signature over
     clientCertificate ++ clientNonce verifies with the key of the certificate it presented *)
  Theorem C22_connected_implies_signature_valid :
    forall e, r_res (conn e) = Connected -> e_mode _ e = SecNone \/ valid e.
  Proof. intros e H. eapply connected_implies_valid; [exact H | reflexivity]. Qed.

  (* in Sign and SignAndEncrypt, any signature that does not verify (corrupted, empty, other key, other data, a
     certificate that does not parse or is not RSA): Connect returns an error, the client is Closed, no
     ActivateSession was sent, no session is set — whatever else the server answers *)
  Theorem C22_invalid_signature_rejected :
    forall e, e_mode _ e <> SecNone -> ~ valid e ->
      conn e = {| r_res := ConnError; r_state := StClosed; r_activate_sent := false; r_session := false |}.
  Proof. intros e Hm Hn. apply invalid_rejected; [vm_compute; reflexivity | exact Hm | exact Hn]. Qed.

  Theorem C22_never_panics : forall e, r_res (conn e) <> ConnPanic.
  Proof.
    intros e. unfold impl_connect.
    replace GV with GCommaOk by (vm_compute; reflexivity). replace GS with GCommaOk by (vm_compute; reflexivity).
    apply connect_no_panic.
  Qed.

  (* the defect that was fixed (DESIGN row 18, known_findings.txt `fixed:`): with `return nil` in the error branch
     of CreateSession, every expected-kind response with a signature that does not verify crashes Connect *)
  Theorem C22_unfixed_code_panics :
    forall e, e_create_kind _ e = KExpected -> e_mode _ e <> SecNone -> ~ valid e ->
      r_res (connect bytes key append verify parse false true GCommaOk GCommaOk e) = ConnPanic.
  Proof.
    intros e Hk Hm Hn. apply unfixed_panics; [exact Hk|].
    pose proof (verify_invalid_not_ok bytes key append verify parse GCommaOk e Hm Hn) as H1.
    pose proof (verify_no_panic bytes key append verify parse GCommaOk e eq_refl) as H2.
    destruct (verify_session_signature bytes key append verify parse GCommaOk e); congruence.
  Qed.
End C22.

(* A toy instantiation (also used by the correspondence run): bytes = list nat, a certificate is [k] with k >= 1 its
   RSA key, [0] an ECDSA certificate, [] garbage; the signature of d under k is k :: d. *)
Open Scope nat_scope.
Definition t_bytes := list nat.
Definition t_verify (k : nat) (d s : t_bytes) : bool :=
  match s with [] => false | k' :: d' => (k =? k') && (if list_eq_dec Nat.eq_dec d d' then true else false) end.
Definition t_parse (c : t_bytes) : cert_class nat :=
  match c with [] => CertGarbage nat | 0 :: _ => CertNotRSA nat | k :: _ => CertRSA nat k end.
Definition t_connect := impl_connect t_bytes nat (@app nat) t_verify t_parse.
Definition t_env (m : sec_mode) (cert sig : t_bytes) : env t_bytes :=
  {| e_mode := m; e_client_cert := [1;2]; e_nonce := [3]; e_create_kind := KExpected; e_resp_cert := cert; e_resp_sig := sig;
     e_activate_kind := KExpected; e_namespaces_ok := true |}.

Example C22_valid_connects : r_res (t_connect (t_env SecSign [7] [7;1;2;3])) = Connected
  /\ sig_valid t_bytes nat (@app nat) t_verify t_parse (t_env SecSign [7] [7;1;2;3]).
Proof. split; [vm_compute; reflexivity|]. exists 7. split; vm_compute; reflexivity. Qed.

Example C22_wrong_key_rejected : t_connect (t_env SecSignEncrypt [7] [8;1;2;3]) = failed
  /\ ~ sig_valid t_bytes nat (@app nat) t_verify t_parse (t_env SecSignEncrypt [7] [8;1;2;3]).
Proof.
  split; [vm_compute; reflexivity|]. intros [pk [Hp Hv]]. vm_compute in Hp. injection Hp as <-. vm_compute in Hv. discriminate.
Qed.

Print Assumptions C22_connected_implies_signature_valid.
Print Assumptions C22_invalid_signature_rejected.
Print Assumptions C22_never_panics.
Print Assumptions C22_unfixed_code_panics.
