(* C09 — tampered, truncated or forged secured chunks are rejected.
   model : Model.RecvCrypto.verify_chunk = MessageChunk.Decode + channelInstance.verifyAndDecrypt, byte level, every Go
           slice/index an explicit Panic outcome; cryptography abstract (quantified functions), toy instantiation in the
           Examples and in the correspondence run (recvharness c09 plugs the same toy functions into a real instance). *)
From Coq Require Import NArith ZArith List Bool Lia.
From Opcua Require Import Model.RecvBase Model.RecvCrypto Model.RecvMerge Model.RecvChan Model.RecvFrame
  Proofs.RecvBaseProofs Proofs.RecvCryptoProofs Proofs.RecvChanProofs Proofs.RecvFrameProofs.
Import ListNotations.
Open Scope Z_scope.

(* Any bytes, any mode (None, Sign, SignAndEncrypt; symmetric and asymmetric chunks), any algorithm functions,
   any signature lengths: decoding the headers and verifying never panics. *)
Theorem C09_no_panic : forall dec verify rsl lsl mode policy_none r p,
  0 <= rsl -> verify_chunk dec verify rsl lsl mode policy_none true r <> Panic p.
Proof.
  intros dec verify rsl lsl mode pn r p Hrsl. unfold verify_chunk.
  destruct (chunk_decode r) as [h|] eqn:E; [|discriminate].
  apply chunk_decode_len in E. apply vd_no_panic; [exact Hrsl|]. pose proof (zlen_nonneg (h_data h)). lia.
Qed.

(* Verify-before-use: on a secured channel whatever is handed on was cut out of a buffer b = mtv ++ sig whose tag sig
   (of the channel's signature length) verifies over ALL the rest mtv under the channel's algorithm; b is the received chunk
   itself (Sign) or its header followed by the decryption of everything after the header (SignAndEncrypt, OPN). *)
Theorem C09_authentic : forall dec verify rsl lsl mode policy_none r d,
  0 <= rsl -> mode <> SNone ->
  verify_chunk dec verify rsl lsl mode policy_none true r = Ok d ->
  exists h b mtv sig pad,
    chunk_decode r = Some h /\
    (if encrypted mode (h_asym h)
     then exists ct p, slice r (h_len h) (zlen r) = Ok ct /\ dec ct = Some p /\ b = firstn (Z.to_nat (h_len h)) r ++ p
     else b = r) /\
    b = mtv ++ sig /\ zlen sig = rsl /\ verify mtv sig = true /\
    0 <= pad /\ h_len h + pad <= zlen mtv /\ slice mtv (h_len h) (zlen mtv - pad) = Ok d.
Proof.
  intros dec verify rsl lsl mode pn r d Hrsl Hmode. unfold verify_chunk.
  destruct (chunk_decode r) as [h|] eqn:E; [|discriminate]. intros H.
  destruct (vd_authentic dec verify rsl lsl mode pn Hrsl (h_asym h) (h_len h) (h_data h) r d (or_introl Hmode) H)
    as (b & mtv & sig & pad & H1). exists h, b, mtv, sig, pad. split; [reflexivity|exact H1].
Qed.

(* Reduction: if only tags produced by the peer verify (and they are deterministic) and decryption is a partial inverse of
   encryption, a delivered chunk IS, byte for byte, a chunk the peer produced: m ++ mac m, encrypted after the header. *)
Theorem C09_only_peer_chunks : forall dec enc verify mac (signed : bytes -> Prop) rsl lsl mode policy_none r d,
  0 <= rsl -> mode <> SNone ->
  (forall m s, zlen s = rsl -> verify m s = true -> signed m /\ s = mac m) ->
  (forall c p, dec c = Some p -> c = enc p) ->
  verify_chunk dec verify rsl lsl mode policy_none true r = Ok d ->
  exists h m, chunk_decode r = Some h /\ signed m /\ r = secure enc mac (encrypted mode (h_asym h)) (h_len h) m.
Proof.
  intros dec enc verify mac signed rsl lsl mode pn r d Hrsl Hmode Hunf Hdec. unfold verify_chunk.
  destruct (chunk_decode r) as [h|] eqn:E; [|discriminate]. intros H.
  pose proof (chunk_decode_len _ _ E) as [Hl1 Hl2]. pose proof (zlen_nonneg (h_data h)).
  destruct (vd_only_peer_chunks dec enc verify mac signed rsl lsl mode pn (h_asym h) (h_len h) (h_data h) r d
              Hrsl ltac:(lia) (or_introl Hmode) Hunf Hdec H) as (m & Hm1 & Hm2).
  exists h, m. auto.
Qed.

(* ... hence every other byte string — modified, truncated, extended, secured with other keys — ends in an error. *)
Theorem C09_tampered_rejected : forall dec enc verify mac (signed : bytes -> Prop) rsl lsl mode policy_none r,
  0 <= rsl -> mode <> SNone ->
  (forall m s, zlen s = rsl -> verify m s = true -> signed m /\ s = mac m) ->
  (forall c p, dec c = Some p -> c = enc p) ->
  (forall h m, chunk_decode r = Some h -> signed m -> r <> secure enc mac (encrypted mode (h_asym h)) (h_len h) m) ->
  exists e, verify_chunk dec verify rsl lsl mode policy_none true r = Err e.
Proof.
  intros dec enc verify mac signed rsl lsl mode pn r Hrsl Hmode Hunf Hdec Hnot.
  destruct (verify_chunk dec verify rsl lsl mode pn true r) as [d|e|p] eqn:E.
  - exfalso. destruct (C09_only_peer_chunks dec enc verify mac signed rsl lsl mode pn r d Hrsl Hmode Hunf Hdec E)
      as (h & m & H1 & H2 & H3). exact (Hnot h m H1 H2 H3).
  - eauto.
  - exfalso. exact (C09_no_panic dec verify rsl lsl mode pn r p Hrsl E).
Qed.


(* Channel level (readChunk, Model.RecvFrame): the policy URI the channel works with is overwritten from the still
   unauthenticated header of every incoming OPN chunk, BEFORE anything is verified.  On a channel whose mode is Sign or
   SignAndEncrypt this cannot switch verification off: over any stream of frames, in any state, whatever readChunk hands on
   carries a tag that verifies over all the rest under an algorithm of the channel (a stored token instance, the opening
   instance, or the asymmetric algorithm built from the sender certificate) — forged OPN chunks naming policy #None, plaintext
   MSG chunks, chunks for other tokens are all rejected. *)
Fixpoint frames_state (un : bytes -> bool) (cc : bytes -> N) (af : bytes -> bytes -> option algo) (st : fstate) (bs : list bytes) : fstate :=
  match bs with [] => st | b :: r => frames_state un cc af (fst (read_frame un cc af true st b)) r end.

Theorem C09_channel_never_raw : forall un cc af st before b c,
  f_mode st <> SNone ->
  let st' := frames_state un cc af st before in
  snd (read_frame un cc af true st' b) = Ok c ->
  exists h al mtv sig, chunk_decode b = Some h /\ candidate af st' b al /\
    zlen sig = a_rsl al /\ a_verify al mtv sig = true /\
    (mtv ++ sig = b \/ exists p, a_dec al (skipn (Z.to_nat (h_len h)) b) = Some p /\ mtv ++ sig = firstn (Z.to_nat (h_len h)) b ++ p).
Proof.
  intros un cc af st before. revert st. induction before as [|f r IH]; intros st b c Hm; cbn [frames_state].
  - intros H. destruct (read_frame_secured un cc af st b c Hm H) as (h & al & pn & d & H1 & H2 & H3).
    unfold verified_by in H3.
    assert (Hrsl : 0 <= a_rsl al \/ a_rsl al < 0) by lia. destruct Hrsl as [Hrsl|Hneg].
    + destruct (vd_authentic (a_dec al) (a_verify al) (a_rsl al) (a_lsl al) (f_mode st) pn Hrsl (h_asym h) (h_len h) (h_data h) b d
                  (or_introl Hm) H3) as (bb & mtv & sig & pad & Hb & Hsplit & Hsl & Hv & _).
      exists h, al, mtv, sig. repeat split; try assumption.
      destruct (encrypted (f_mode st) (h_asym h)).
      * destruct Hb as (ct & p & Hct & Hdec & Hbb). right. exists p. split; [|now rewrite <- Hsplit].
        apply slice_inv in Hct. destruct Hct as (Hc1 & _ & _ & _ & ->).
        rewrite firstn_all2 in Hdec; [exact Hdec|]. rewrite skipn_length. unfold zlen. lia.
      * left. now rewrite <- Hsplit.
    + exfalso. revert H3. unfold verify_decrypt.
      replace ((match f_mode st with SNone => true | _ => false end) && (pn || negb (h_asym h))) with false
        by (destruct (f_mode st); [contradiction|reflexivity|reflexivity]).
      pose proof (chunk_decode_len _ _ H1) as [Hl1 Hl2]. pose proof (zlen_nonneg (h_data h)).
      destruct (vd_front (a_dec al) (encrypted (f_mode st) (h_asym h)) (h_len h) b) as [x|e|p]; cbn [bind]; try discriminate.
      unfold vd_tail. cbn [andb]. destruct (Z.ltb_spec (zlen x) (h_len h + a_rsl al)); [discriminate|].
      destruct (slice x (zlen x - a_rsl al) (zlen x)) as [sg| |] eqn:Es; cbn [bind]; try discriminate.
      apply slice_inv in Es. lia.
  - apply IH. now rewrite read_frame_mode.
Qed.

(* Instance table (Model.RecvChan): an OpenSecureChannel exchange that FAILS — e.g. the key derivation refuses a null or empty
   peer nonce — publishes nothing: whatever was accepted afterwards was accepted before.  In particular the asymmetric
   algorithm keyed to the certificate carried in the OPN chunk itself never becomes a way to get MSG chunks accepted. *)
Theorem C09_failed_open_publishes_nothing : forall s c t k chan key,
  accepts (cstep true s (OpenFailed c t k)) chan key = true -> accepts s chan key = true.
Proof.
  intros s c t k chan key H. apply accepts_spec in H. destruct H as (i & Hin & Hk).
  apply accepts_spec. exists i. split; [|exact Hk]. cbn [cstep] in Hin. now apply sweep_sub in Hin.
Qed.

(* The defect that was repaired (fixed: see known_findings.txt): without the length guards a 20-byte MSG chunk on a Sign
   channel with 32-byte signatures panics (slice bounds out of range [-12:]). *)
Definition no_panic_without_guards : Prop := forall dec verify rsl lsl mode policy_none r p,
  0 <= rsl -> verify_chunk dec verify rsl lsl mode policy_none false r <> Panic p.
Definition short_chunk : bytes := [77;83;71;70; 20;0;0;0; 1;0;0;0; 2;0;0;0; 9;9;9;9]%N.
Theorem C09_prefix_refuted : ~ no_panic_without_guards.
Proof.
  intro H. apply (H (fun _ => None) (fun _ _ => false) 32 32 SSign false short_chunk P_SLICE); [lia|]. vm_compute. reflexivity.
Qed.

(* Hypotheses are satisfiable: the toy algorithm (xor cipher with block check, 32-byte folding MAC). *)
Example C09_toy_hypotheses :
  (forall m s, zlen s = 32 -> toy_verify 77 m s = true -> True /\ s = toy_mac 77 32 m) /\
  (forall c p, toy_dec 16 165 c = Some p -> c = toy_xor 165 p).
Proof.
  split.
  - intros m s Hl Hv. split; [exact I|]. apply toy_verify_mac; assumption.
  - apply toy_dec_inverse.
Qed.

(* a chunk secured with the toy algorithm is accepted, and the same chunk with one byte flipped is rejected *)
Definition toy_plain : bytes := [77;83;71;70; 64;0;0;0; 1;0;0;0; 2;0;0;0; 5;0;0;0; 6;0;0;0; 1;2;3;4;5;6;7;8]%N.
Definition toy_chunk : bytes := secure (toy_xor 165) (toy_mac 77 32) false 16 toy_plain.
Example C09_nonvacuous :
  verify_chunk (toy_dec 16 165) (toy_verify 77) 32 32 SSign false true toy_chunk = Ok [5;0;0;0; 6;0;0;0; 1;2;3;4;5;6;7;8]%N /\
  verify_chunk (toy_dec 16 165) (toy_verify 77) 32 32 SSign false true (firstn 30 toy_chunk ++ [9%N] ++ skipn 31 toy_chunk) = Err E_SEC /\
  verify_chunk (toy_dec 16 165) (toy_verify 77) 32 32 SSign false true short_chunk = Err E_SEC.
Proof. vm_compute. repeat split. Qed.

Print Assumptions C09_no_panic.
Print Assumptions C09_authentic.
Print Assumptions C09_only_peer_chunks.
Print Assumptions C09_tampered_rejected.
Print Assumptions C09_channel_never_raw.
Print Assumptions C09_failed_open_publishes_nothing.
Print Assumptions C09_prefix_refuted.
