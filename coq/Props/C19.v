(* C19 — request timeouts are bounded and never wedge the channel.
   model : Model.SendCorr (the four-way select of sendRequestWithTimeout, popHandler, the dispatcher and its receive
           gate rcvLocker; open() = a caller of kind KOpen that unlocks the gate when it returns).
   `step false` is the code as it is (after the fix "release the response handler when sending the request fails");
   `step true` is the code before that fix.
   What is a theorem here is the LOGIC (every branch releases the slot, nothing a caller does blocks the dispatcher,
   every branch of the select is enabled without cooperation).  The wall-clock bound timeout + timeoutLeniency is a
   runtime fact and is measured by the harness. *)
From Coq Require Import ZArith List Bool Lia String.
From Opcua Require Import Gen.ArithFromGo Gen.SendSide Model.SendCorr Proofs.SendCorrProofs.
Import ListNotations.
Open Scope Z_scope.

(* after a call has returned -- response, timer, ctx, disconnect, duplicate id, send error -- under every interleaving
   with the dispatcher and every peer behaviour, its request id is not in the handler table any more *)
Theorem C19_slot_released : forall seed s t k w id r,
  reachable false seed s -> cs s t = CDone k w id r -> forall i, handlers s i <> Some t.
Proof. intros; eapply slot_released; eassumption. Qed.

(* what the fix repaired: before it, a failed send left the handler registered for ever *)
Definition C19_slot_released_before_fix : Prop := forall seed s t k w id r,
  reachable true seed s -> cs s t = CDone k w id r -> forall i, handlers s i <> Some t.

Theorem C19_refuted_slot_leak_before_fix : ~ C19_slot_released_before_fix.
Proof.
  intro H.
  assert (R : reachable true 0 (finish (set_cs (set_handlers (set_alloc (set_cs (set_next_req (init 0) 1)
               (updN (cs (init 0)) 0%nat (CHasId KReq 676 1))) 1%nat (updN (g_serial (init 0)) 0%nat 1%nat))
               (updZ (handlers (init 0)) 1 (Some 0%nat))) (updN (updN (cs (init 0)) 0%nat (CHasId KReq 676 1)) 0%nat (CRegd KReq 676 1)))
               0%nat KReq 676 1 RSendErr)).
  { exists [EAlloc 0%nat KReq 676; ERegister 0%nat; EWrite 0%nat false]. reflexivity. }
  apply (H _ _ 0%nat KReq 676 1 RSendErr R eq_refl 1). reflexivity.
Qed.

(* bounded: the select can always be left through the timer or the ctx branch, in one step that needs no other
   thread, and that step releases the slot *)
Theorem C19_timer_enabled : forall s t k w id,
  cs s t = CWait k w id ->
  exists s', step false s (ETimer t) = Some s' /\ cs s' t = CDone k w id RTimeout /\ handlers s' id = None.
Proof. intros; eapply timer_enabled; eassumption. Qed.

Theorem C19_ctx_enabled : forall s t k w id,
  cs s t = CWait k w id ->
  exists s', step false s (ECtx t) = Some s' /\ cs s' t = CDone k w id RCtx /\ handlers s' id = None.
Proof. intros; eapply ctx_enabled; eassumption. Qed.

(* later responses are still delivered: in ANY reachable state (whatever timed out before) with the dispatcher idle,
   a response for a waiting caller reaches exactly that caller *)
Theorem C19_later_responses_delivered : forall seed s t w id m,
  reachable false seed s -> d s = DIdle -> cs s t = CWait KReq w id -> handlers s id = Some t -> m_id m = id ->
  exists s', run false [ENet m; EPop; ELock; EDeliver; ETake t] s = Some s' /\
             exists r, cs s' t = CDone KReq w id r /\ res_msg r = Some (net_n s, m).
Proof. intros; eapply delivery_from_idle; eassumption. Qed.

(* the dispatcher itself is never blocked by callers: its next step is always enabled, except at the receive gate
   while that gate is locked *)
Theorem C19_dispatcher_progress : forall s,
  d s <> DExited -> (d s = DWaitRcv /\ rcv_locked s = true) \/
  exists e s', step false s e = Some s' /\ match e with ENet _ | EEOF | EPop | ELock | EDeliver | EResume => True | _ => False end.
Proof. intros; eapply dispatcher_progress; eassumption. Qed.

(* ---- the receive gate (OPN / rcvLocker hand-off) ---- *)

(* full statement: whenever the gate is locked, some open() call is still in progress (it unlocks the gate when it
   returns, and C19_timer_enabled says it can always return) *)
Definition C19_gate_statement : Prop := forall seed s,
  reachable false seed s -> rcv_locked s = true -> exists t, active_opener (cs s t) = true.

Definition wedged (s : st) : Prop :=
  rcv_locked s = true /\ (forall t, active_opener (cs s t) = false) /\ (d s = DLocked 0 (Msg 1 (Some opn_response_type_id) false (Some 0%nat)) 0%nat \/ d s = DWaitRcv).

(* REFUTED (honest peer): the renewal's OpenSecureChannelResponse arrives exactly as the renewal request times out.
   The dispatcher has taken the handler (EPop), open() leaves through the timer branch and runs its deferred
   rcvLocker.unlock(), THEN the dispatcher locks the gate; nobody is left to unlock it: every later response stays
   undelivered until Close. *)
Definition race_trace : list ev :=
  [EAlloc 0%nat KOpen opn_response_type_id; ERegister 0%nat; EWrite 0%nat true;
   ENet (Msg 1 (Some opn_response_type_id) false (Some 0%nat)); EPop; ETimer 0%nat; ELock; EDeliver].

Theorem C19_refuted_gate_race : exists s, reachableP honest false 0 s /\ wedged s /\ d s = DWaitRcv.
Proof.
  eexists. split; [exists race_trace; vm_compute; reflexivity|].
  split; [|reflexivity]. split; [reflexivity|]. split; [|right; reflexivity].
  intros [|t]; reflexivity.
Qed.

(* REFUTED (faulty peer): an OpenSecureChannelResponse carrying the request id of an ordinary request *)
Definition unsolicited_trace : list ev :=
  [EAlloc 0%nat KReq 676; ERegister 0%nat; EWrite 0%nat true;
   ENet (Msg 1 (Some opn_response_type_id) false None); EPop; ELock; EDeliver; ETake 0%nat].

Theorem C19_refuted_gate_unsolicited : exists s, reachable false 0 s /\ rcv_locked s = true /\ d s = DWaitRcv /\
  (forall t, active_opener (cs s t) = false) /\ outcome s 0%nat = (2, 1, 0).
Proof.
  eexists. split; [exists unsolicited_trace; vm_compute; reflexivity|].
  split; [reflexivity|]. split; [reflexivity|]. split; [|reflexivity]. intros [|t]; reflexivity.
Qed.

Theorem C19_refuted_gate : ~ C19_gate_statement.
Proof.
  intro H. destruct C19_refuted_gate_race as (s & R & (L & A & _) & _).
  destruct (H 0 s (reachableP_reachable _ _ _ _ R) L) as [t X]. rewrite A in X. discriminate.
Qed.

(* PARTIAL: on the runs that use the gate as intended (gate_ok: an OpenSecureChannelResponse only ever matches a
   handler registered by open(), and open() does not give up in the window between the dispatcher taking its handler
   and delivering) the full statement holds *)
Theorem C19_partial_gate : forall seed s,
  reachableP gate_ok false seed s -> rcv_locked s = true -> exists t, active_opener (cs s t) = true.
Proof. intros; eapply gate_locked_only_while_opening; eassumption. Qed.

(* gate_ok is satisfiable by a real renewal: open() gets its response while a request is pending, the gate is locked
   during the hand-off and released when open() returns; the pending request is answered afterwards *)
Example C19_partial_gate_nonvacuous : exists s,
  reachableP gate_ok false 0 s /\ rcv_locked s = false /\ disp_code s = 0 /\
  map (outcome s) [0%nat; 1%nat] = [(0, 1, 1); (0, 2, 0)].
Proof.
  eexists. split.
  - exists [EAlloc 0%nat KReq 676; ERegister 0%nat; EWrite 0%nat true;
            EAlloc 1%nat KOpen opn_response_type_id; ERegister 1%nat; EWrite 1%nat true;
            ENet (Msg 2 (Some opn_response_type_id) false (Some 1%nat)); EPop; ELock; EDeliver; ETake 1%nat; EResume;
            ENet (Msg 1 (Some 676) false (Some 0%nat)); EPop; ELock; EDeliver; EResume; ETake 0%nat].
    vm_compute. reflexivity.
  - vm_compute. repeat split; reflexivity.
Qed.

(* ties to the source *)
Theorem C19_tie_source_shape :
  timeout_leniency_ns = 250000000 /\
  src_select_branches = [("<-ctx.Done()", true); ("<-s.disconnected", true); ("msg := <-ch", false); ("<-timer.C", true)]%string /\
  src_sync_sendRequestWithTimeout = ["s.sendAsyncWithTimeout(ctx, req, reqID, instance, authToken, respRequired, timeout)";
     "s.pendingReq.Done()"; "s.popHandler(reqID)"; "s.popHandler(reqID)"; "s.popHandler(reqID)"]%string /\
  src_sync_dispatcher = ["s.Receive(ctx)"; "s.popHandler(msg.RequestID)"; "s.rcvLocker.lock()"; "s.rcvLocker.waitIfLock()"]%string /\
  In "s.popHandler(reqID)"%string src_sync_sendAsyncWithTimeout.
Proof. repeat split; try reflexivity. vm_compute. tauto. Qed.

Print Assumptions C19_slot_released.
Print Assumptions C19_refuted_slot_leak_before_fix.
Print Assumptions C19_timer_enabled.
Print Assumptions C19_ctx_enabled.
Print Assumptions C19_later_responses_delivered.
Print Assumptions C19_dispatcher_progress.
Print Assumptions C19_refuted_gate_race.
Print Assumptions C19_refuted_gate_unsolicited.
Print Assumptions C19_refuted_gate.
Print Assumptions C19_partial_gate.
Print Assumptions C19_tie_source_shape.
