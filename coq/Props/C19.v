(* C19 — request timeouts are bounded and never wedge the channel.
   model : Model.SendCorr (the four-way select of sendRequestWithTimeout, popHandler, the dispatcher and its receive
           gate rcvLocker; open() = a caller of kind KOpen that unlocks the gate when it returns).
   `step VNow` is the code as it is; `step VGateOld` the code before fix 6070e19 (dispatcher/open() hand-off);
   `step VLeaky` the code before fix 584974e (release the response handler when sending the request fails).
   What is a theorem here is the LOGIC (every branch releases the slot, nothing a caller does blocks the dispatcher,
   every branch of the select is enabled without cooperation).  The wall-clock bound timeout + timeoutLeniency is a
   runtime fact and is measured by the harness. *)
From Coq Require Import ZArith List Bool Lia String.
From Opcua Require Import Gen.ArithFromGo Gen.SendSide Model.SendCorr Proofs.SendCorrProofs.
Import ListNotations.
Open Scope Z_scope.

(* after a call has returned -- response, timer, ctx, disconnect, duplicate id, send error -- under every interleaving
   with the dispatcher and every peer behaviour, its request id is not in the handler table any more *)
Theorem C19_slot_released : forall seed s t k w id r,
  reachable VNow seed s -> cs s t = CDone k w id r -> forall i, handlers s i <> Some t.
Proof. intros; eapply slot_released; eassumption. Qed.

(* what the fix repaired: before it, a failed send left the handler registered for ever *)
Definition C19_slot_released_before_fix : Prop := forall seed s t k w id r,
  reachable VLeaky seed s -> cs s t = CDone k w id r -> forall i, handlers s i <> Some t.

Theorem C19_refuted_slot_leak_before_fix : ~ C19_slot_released_before_fix.
Proof.
  intro H.
  assert (R : reachable VLeaky 0 (finish (set_cs (set_handlers (set_alloc (set_cs (set_next_req (init 0) 1)
               (updN (cs (init 0)) 0%nat (CHasId KReq 676 1))) 1%nat (updN (g_serial (init 0)) 0%nat 1%nat))
               (updZ (handlers (init 0)) 1 (Some 0%nat))) (updN (updN (cs (init 0)) 0%nat (CHasId KReq 676 1)) 0%nat (CRegd KReq 676 1)))
               0%nat KReq 676 1 RSendErr)).
  { exists [EAlloc 0%nat KReq 676; ERegister 0%nat; EWrite 0%nat false]. reflexivity. }
  apply (H _ _ 0%nat KReq 676 1 RSendErr R eq_refl 1). reflexivity.
Qed.

(* bounded: the select can always be left through the timer or the ctx branch, in one step that needs no other
   thread, and that step releases the slot *)
Theorem C19_timer_enabled : forall s t k w id,
  cs s t = CWait k w id ->
  exists s', step VNow s (ETimer t) = Some s' /\ cs s' t = CDone k w id RTimeout /\ handlers s' id = None.
Proof. intros; eapply timer_enabled; eassumption. Qed.

Theorem C19_ctx_enabled : forall s t k w id,
  cs s t = CWait k w id ->
  exists s', step VNow s (ECtx t) = Some s' /\ cs s' t = CDone k w id RCtx /\ handlers s' id = None.
Proof. intros; eapply ctx_enabled; eassumption. Qed.

(* later responses are still delivered: in ANY reachable state (whatever timed out before) with the dispatcher idle,
   a response for a waiting caller reaches exactly that caller *)
Theorem C19_later_responses_delivered : forall seed s t w id m,
  reachable VNow seed s -> d s = DIdle -> cs s t = CWait KReq w id -> handlers s id = Some t -> m_id m = id ->
  exists s', run VNow [ENet m; EPop; ELock; EDeliver; ETake t] s = Some s' /\
             exists r, cs s' t = CDone KReq w id r /\ res_msg r = Some (net_n s, m).
Proof. intros; eapply delivery_from_idle; eassumption. Qed.

(* ... also when the late response to an abandoned request (timed out, cancelled, or sent without a handler: nobody is
   registered under its id) arrives in several chunks: the intermediate chunks and the final one are read and dropped
   without holding the dispatcher up *)
Theorem C19_later_responses_delivered_after_late_multichunk : forall seed s t w id m late,
  reachable VNow seed s -> d s = DIdle -> cs s t = CWait KReq w id -> handlers s id = Some t -> m_id m = id ->
  handlers s (m_id late) = None ->
  exists s', run VNow ([EChunkC (m_id late); EChunkC (m_id late); ENet late; EPop] ++ [ENet m; EPop; ELock; EDeliver; ETake t]) s = Some s' /\
             exists r, cs s' t = CDone KReq w id r /\ res_msg r = Some (S (net_n s), m).
Proof. intros; eapply delivery_after_late_multichunk; eassumption. Qed.

Theorem C19_intermediate_chunks_never_block : forall s id, d s = DIdle -> step VNow s (EChunkC id) = Some s.
Proof. intros s id H. cbn. rewrite H. reflexivity. Qed.

(* the dispatcher itself is never blocked by callers: its next step is always enabled, except at the receive gate
   while that gate is locked *)
Theorem C19_dispatcher_progress : forall s,
  d s <> DExited -> (d s = DWaitRcv /\ rcv_locked s = true) \/
  exists e s', step VNow s e = Some s' /\ match e with ENet _ | EEOF | EPop | ELock | EDeliver | EResume => True | _ => False end.
Proof. intros; eapply dispatcher_progress; eassumption. Qed.

(* ---- the receive gate (OPN / rcvLocker hand-off) ---- *)

(* FULL (code as it is, fix 6070e19): in every reachable state -- every interleaving of any number of callers and
   open() calls with the dispatcher, every peer behaviour incl. unsolicited and mistyped OpenSecureChannelResponses --
   the gate is locked only while an open() call is in progress.  That call unlocks the gate when it returns, and it
   can always return (C19_timer_enabled); so the dispatcher is never left waiting at the gate *)
Theorem C19_gate : forall seed s,
  reachable VNow seed s -> rcv_locked s = true -> exists t, open_by s = Some t /\ active_opener (cs s t) = true.
Proof. intros; eapply gate_locked_only_while_opening; eassumption. Qed.

Theorem C19_gate_open_when_not_opening : forall seed s,
  reachable VNow seed s -> (forall t, active_opener (cs s t) = false) -> rcv_locked s = false.
Proof. intros; eapply gate_open_when_not_opening; eassumption. Qed.

(* the two orderings that wedged the dispatcher before the fix now end with the gate open, the dispatcher idle and a
   later request answered *)
Definition race_trace : list ev :=
  [EAlloc 0%nat KOpen opn_response_type_id; ERegister 0%nat; EWrite 0%nat true;
   ENet (Msg 1 (Some opn_response_type_id) false (Some 0%nat)); EPop; ETimer 0%nat; ELock; EDeliver].

Definition unsolicited_trace : list ev :=
  [EAlloc 0%nat KReq 676; ERegister 0%nat; EWrite 0%nat true;
   ENet (Msg 1 (Some opn_response_type_id) false None); EPop; ELock; EDeliver; ETake 0%nat].

Definition later_request : list ev :=
  [EResume; EAlloc 1%nat KReq 676; ERegister 1%nat; EWrite 1%nat true;
   ENet (Msg 2 (Some 676) false (Some 1%nat)); EPop; ELock; EDeliver; EResume; ETake 1%nat].

Example C19_gate_witnesses_now_complete :
  (exists s, run VNow (race_trace ++ later_request) (init 0) = Some s /\ rcv_locked s = false /\ disp_code s = 0 /\
             map (outcome s) [0%nat; 1%nat] = [(3, 1, -1); (0, 2, 1)]) /\
  (exists s, run VNow (unsolicited_trace ++ later_request) (init 0) = Some s /\ rcv_locked s = false /\ disp_code s = 0 /\
             map (outcome s) [0%nat; 1%nat] = [(2, 1, 0); (0, 2, 1)]).
Proof. split; eexists; (split; [vm_compute; reflexivity|]); repeat split; vm_compute; reflexivity. Qed.

(* what the fix repaired (VGateOld = the code before it) *)
Definition C19_gate_statement_before_fix : Prop := forall seed s,
  reachable VGateOld seed s -> rcv_locked s = true -> exists t, active_opener (cs s t) = true.

(* honest peer: the renewal's OpenSecureChannelResponse arrives exactly as the renewal request times out.  The
   dispatcher has taken the handler (EPop), open() leaves through the timer branch and runs its deferred
   rcvLocker.unlock(), THEN the dispatcher locks the gate; nobody is left to unlock it *)
Theorem C19_refuted_before_fix_gate_race : exists s, reachableP honest VGateOld 0 s /\
  rcv_locked s = true /\ d s = DWaitRcv /\ (forall t, active_opener (cs s t) = false).
Proof.
  eexists. split; [exists race_trace; vm_compute; reflexivity|].
  split; [reflexivity|]. split; [reflexivity|]. intros [|t]; reflexivity.
Qed.

(* faulty peer: an OpenSecureChannelResponse carrying the request id of an ordinary request *)
Theorem C19_refuted_before_fix_gate_unsolicited : exists s, reachable VGateOld 0 s /\ rcv_locked s = true /\ d s = DWaitRcv /\
  (forall t, active_opener (cs s t) = false) /\ outcome s 0%nat = (2, 1, 0).
Proof.
  eexists. split; [exists unsolicited_trace; vm_compute; reflexivity|].
  split; [reflexivity|]. split; [reflexivity|]. split; [|reflexivity]. intros [|t]; reflexivity.
Qed.

Theorem C19_refuted_before_fix_gate : ~ C19_gate_statement_before_fix.
Proof.
  intro H. destruct C19_refuted_before_fix_gate_race as (s & R & L & _ & A).
  destruct (H 0 s (reachableP_reachable _ _ _ _ R) L) as [t X]. rewrite A in X. discriminate.
Qed.

(* a real renewal under the fixed code: open() gets its response while a request is pending, the gate is locked during
   the hand-off and released when open() returns; the pending request is answered afterwards *)
Example C19_gate_nonvacuous : exists s1 s,
  reachable VNow 0 s1 /\ rcv_locked s1 = true /\ disp_code s1 = 4 /\
  reachable VNow 0 s /\ rcv_locked s = false /\ disp_code s = 0 /\
  map (outcome s) [0%nat; 1%nat] = [(0, 1, 1); (0, 2, 0)].
Proof.
  eexists. eexists. split.
  - exists [EAlloc 0%nat KReq 676; ERegister 0%nat; EWrite 0%nat true;
            EAlloc 1%nat KOpen opn_response_type_id; ERegister 1%nat; EWrite 1%nat true;
            ENet (Msg 2 (Some opn_response_type_id) false (Some 1%nat)); EPop; ELock; EDeliver].
    vm_compute. reflexivity.
  - split; [reflexivity|]. split; [reflexivity|]. split.
    + exists [EAlloc 0%nat KReq 676; ERegister 0%nat; EWrite 0%nat true;
              EAlloc 1%nat KOpen opn_response_type_id; ERegister 1%nat; EWrite 1%nat true;
              ENet (Msg 2 (Some opn_response_type_id) false (Some 1%nat)); EPop; ELock; EDeliver; ETake 1%nat; EResume;
              ENet (Msg 1 (Some 676) false (Some 0%nat)); EPop; ELock; EDeliver; EResume; ETake 0%nat].
      vm_compute. reflexivity.
    + repeat split; vm_compute; reflexivity.
Qed.

(* ties to the source *)
Theorem C19_tie_source_shape :
  timeout_leniency_ns = 250000000 /\
  src_select_branches = [("<-ctx.Done()", true); ("<-s.disconnected", true); ("msg := <-ch", false); ("<-timer.C", true)]%string /\
  src_sync_sendRequestWithTimeout = ["s.sendAsyncWithTimeout(ctx, req, reqID, instance, authToken, respRequired, timeout)";
     "s.pendingReq.Done()"; "s.popHandler(reqID)"; "s.popHandler(reqID)"; "s.popHandler(reqID)"]%string /\
  src_sync_dispatcher = ["s.Receive(ctx)"; "s.popHandler(msg.RequestID)";
     "s.rcvLocker.lockIf(func() bool { return msg.RequestID != 0 && atomic.LoadUint32(&s.openingReqID) == msg.RequestID })";
     "s.rcvLocker.waitIfLock()"]%string /\
  In "s.popHandler(reqID)"%string src_sync_sendAsyncWithTimeout /\
  src_sync_lockIf = ["c.lockMu.Lock()"; "cond()"; "c.lockMu.Unlock()"]%string /\
  firstn 6 src_sync_open = ["s.rcvLocker.unlock()"; "s.openingMu.Lock()"; "s.openingMu.Unlock()"; "s.nextRequestID()";
     "atomic.StoreUint32(&s.openingReqID, reqID)"; "atomic.StoreUint32(&s.openingReqID, 0)"]%string.
Proof. repeat split; try reflexivity. vm_compute. tauto. Qed.

Print Assumptions C19_slot_released.
Print Assumptions C19_refuted_slot_leak_before_fix.
Print Assumptions C19_timer_enabled.
Print Assumptions C19_ctx_enabled.
Print Assumptions C19_later_responses_delivered.
Print Assumptions C19_later_responses_delivered_after_late_multichunk.
Print Assumptions C19_intermediate_chunks_never_block.
Print Assumptions C19_dispatcher_progress.
Print Assumptions C19_gate.
Print Assumptions C19_gate_open_when_not_opening.
Print Assumptions C19_refuted_before_fix_gate_race.
Print Assumptions C19_refuted_before_fix_gate_unsolicited.
Print Assumptions C19_refuted_before_fix_gate.
Print Assumptions C19_tie_source_shape.
