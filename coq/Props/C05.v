(* C05 — UACP framing delivers exactly the frames sent under any segmentation.
   model  : Model.UacpFraming (hand-written transcription of uacp.Conn.Receive, io.ReadFull, Header.Decode,
            Error.Decode; tied by the C05 correspondence run over real loopback TCP connections)
   proofs : Proofs.UacpFramingProofs
   A stream is a list of segments (the pieces in which the bytes reach successive Read calls); after the last
   segment the peer has closed.  Waiting for bytes the peer has not sent yet is inherent to a stream transport
   and is not modelled as an outcome: every statement below is about what Receive answers once the bytes are
   there, or once the peer has closed. *)
From Coq Require Import NArith List Bool Lia.
From Coq.Strings Require Import Byte.
From Coq Require Import ZArith ZifyN ZifyBool.
From Opcua Require Import Model.UacpFraming Proofs.UacpFramingProofs Gen.UacpFromGo.
Import ListNotations.
Open Scope N_scope.

(* ---- tie to the source (Gen.UacpFromGo is regenerated from uacp/conn.go on every run) -------------------
   The header length, the length of the receive buffer, the two size checks IN THE CODE'S ORDER and the slice
   expressions on the receive buffer, as the translator reads them off the AST of Conn.Receive, are exactly
   the ones Model.UacpFraming.receive is written with:  rbuf <? size  (too large) before  size <? hdrlen
   (too small); b[:8], b[8:size], b[:size] on a buffer of rbuf bytes. *)
Theorem C05_tied_to_source :
  go_hdrlen = Z.of_N hdrlen /\
  (forall size rbuf : N, go_Receive_make (Z.of_N size) (Z.of_N rbuf) go_hdrlen = Z.of_N rbuf) /\
  (forall size rbuf : N,
     go_Receive_size_checks (Z.of_N size) (Z.of_N rbuf) go_hdrlen = [rbuf <? size; size <? hdrlen]) /\
  (forall size rbuf : N,
     go_Receive_slices (Z.of_N size) (Z.of_N rbuf) go_hdrlen =
     [(0, 8); (0, 8); (8, Z.of_N size); (8, Z.of_N size); (0, Z.of_N size)]%Z).
Proof.
  split; [reflexivity|]. split; [reflexivity|]. split; [|reflexivity].
  intros size rbuf. unfold go_Receive_size_checks, go_hdrlen, hdrlen.
  f_equal; [|f_equal]; lia.
Qed.

(* io.ReadFull over any segmentation = firstn / skipn of the concatenation *)
Theorem C05_read_full_any_segmentation : forall (s : stream) (n : nat),
  (n <= length (concat s))%nat ->
  fst (read_full s n []) = Ok (firstn n (concat s)) /\ concat (snd (read_full s n [])) = skipn n (concat s).
Proof. exact read_full_concat. Qed.

(* the results of any number of Receive calls (and the bytes left over) depend only on the byte string,
   not on its segmentation; any receive buffer size *)
Theorem C05_segmentation_independent : forall k rbuf (s1 s2 : stream),
  concat s1 = concat s2 ->
  fst (receive_all k rbuf s1) = fst (receive_all k rbuf s2) /\
  concat (snd (receive_all k rbuf s1)) = concat (snd (receive_all k rbuf s2)).
Proof. exact receive_all_segmentation_independent. Qed.

(* MAIN: receive buffer >= 8, any sequence of well-sized frames (8 <= size = declared size <= rbuf), ANY
   segmentation of their concatenation: the receiver yields exactly those frames, in order, byte for byte
   (an ERR frame is yielded as its decoded error), nothing is left over, and the next call reports io.EOF. *)
Theorem C05_frames : forall rbuf (fs : list bytes) (segs : stream) (k : nat),
  8 <= rbuf -> Forall (wf_frame rbuf) fs -> concat segs = concat fs ->
  fst (receive_all (length fs) rbuf segs) = map deliver fs /\
  concat (snd (receive_all (length fs) rbuf segs)) = [] /\
  fst (receive_all (length fs + S k) rbuf segs) = map deliver fs ++ [Err EEOF].
Proof.
  intros rbuf fs segs k Hr Hwf Hc.
  destruct (frames_exactly rbuf fs segs Hr Hwf Hc) as [A B].
  destruct (frames_then_eof rbuf fs segs k Hr Hwf Hc) as [C _]. auto.
Qed.

(* ... and when none of the frames has message type "ERR", `deliver` is the identity *)
Theorem C05_frames_plain : forall rbuf (fs : list bytes) (segs : stream),
  8 <= rbuf -> Forall (wf_frame rbuf) fs -> forallb no_err_type fs = true -> concat segs = concat fs ->
  fst (receive_all (length fs) rbuf segs) = map Ok fs.
Proof.
  intros rbuf fs segs Hr Hwf Hne Hc. rewrite <- (deliver_plain fs Hne).
  apply (frames_exactly rbuf fs segs Hr Hwf Hc).
Qed.

(* a header whose declared size is below 8 or above the receive buffer, after any number of good frames and
   followed by anything, under any segmentation: the good frames, then the error; nothing else is delivered,
   nothing more is read (the tail is left untouched), no panic *)
Theorem C05_malformed : forall rbuf (fs : list bytes) (h tail : bytes) (segs : stream) (k : nat),
  8 <= rbuf -> Forall (wf_frame rbuf) fs -> length h = 8%nat -> (hdr_size h < 8 \/ rbuf < hdr_size h) ->
  concat segs = concat fs ++ h ++ tail ->
  fst (receive_all (length fs + S k) rbuf segs) =
    map deliver fs ++ [Err (if rbuf <? hdr_size h then ETooLarge else ETooSmall)] /\
  concat (snd (receive_all (length fs + S k) rbuf segs)) = tail.
Proof. exact frames_then_bad_header. Qed.

(* the peer closes inside a frame: the good frames, then io.EOF / io.ErrUnexpectedEOF; never a partial frame *)
Theorem C05_truncated : forall rbuf (fs : list bytes) (f p : bytes) (segs : stream) (k : nat),
  8 <= rbuf -> Forall (wf_frame rbuf) fs -> wf_frame rbuf f ->
  (length p < length f)%nat -> p = firstn (length p) f ->
  concat segs = concat fs ++ p ->
  exists e, (e = EEOF \/ e = EUnexpectedEOF) /\
  fst (receive_all (length fs + S k) rbuf segs) = map deliver fs ++ [Err e].
Proof. exact frames_then_truncated. Qed.

(* ANY byte stream whatsoever, receive buffer >= 8: Receive never panics *)
Theorem C05_never_panics : forall rbuf k (s : stream) p,
  8 <= rbuf -> ~ In (Panic p) (fst (receive_all k rbuf s)).
Proof. intros; apply receive_all_no_panic; assumption. Qed.

(* ANY byte stream whatsoever: everything that is delivered is `deliver` of whole, well-sized frames that stand
   at the head of the byte stream, in order; at most one more outcome follows and it ends the conversation *)
Theorem C05_only_whole_frames : forall rbuf k (s : stream),
  8 <= rbuf ->
  exists fs junk tl,
    Forall (wf_frame rbuf) fs /\ concat s = concat fs ++ junk /\
    fst (receive_all k rbuf s) = map deliver fs ++ tl /\
    (tl = [] \/ exists r, tl = [r] /\ continues r = false).
Proof. intros; apply receive_all_sound; assumption. Qed.

(* an ERR frame carrying (code, reason) is well-sized and is yielded as exactly that status and reason *)
Theorem C05_err_frame : forall rbuf chunk code (reason extra : bytes),
  code < 4294967296 -> N.of_nat (length reason) < 4294967295 -> rbuf < 4294967296 ->
  16 + N.of_nat (length reason + length extra) <= rbuf ->
  wf_frame rbuf (err_frame chunk code reason extra) /\
  deliver (err_frame chunk code reason extra) = Err (EStatus code reason).
Proof.
  intros rbuf chunk code reason extra Hc Hl Hr Hs. split.
  - unfold err_frame. apply mk_frame_wf; [|exact Hr].
    rewrite !app_length, !length_enc32. lia.
  - apply deliver_err_frame; assumption.
Qed.

(* the hypothesis 8 <= rbuf is necessary: with a smaller buffer the very first slice expression panics.  Since
   /repo commit b35544e a peer can no longer cause this (the client keeps its own receive buffer size; HEL/ACK
   buffer sizes below 8192 are rejected, see C06); only a local configuration ReceiveBufSize < 8 reaches it. *)
Theorem C05_small_buffer_panics : forall rbuf (s : stream),
  rbuf < 8 -> fst (receive rbuf s) = Panic PSliceBounds.
Proof. exact receive_small_buffer. Qed.

(* Header.Decode cannot fail inside Receive: the EHeaderDecode branch is dead *)
Theorem C05_header_decode_total : forall hdr : bytes, length hdr = 8%nat -> decode_header hdr <> None.
Proof. exact header_decode_total. Qed.

(* ---- the hypotheses are satisfiable: three frames (one of them an ERR frame), segmented byte-at-a-time ---- *)
Definition ex_f1 : bytes := mk_frame [x4d; x53; x47] x46 [x01; x02; x03].           (* MSGF, 11 bytes *)
Definition ex_f2 : bytes := err_frame x46 2147614720 [x68; x69] [].                 (* ERRF 0x80020000 "hi" *)
Definition ex_f3 : bytes := mk_frame [x43; x4c; x4f] x46 [].                        (* CLOF, 8 bytes = minimum *)
Definition ex_bytes : bytes := concat [ex_f1; ex_f2; ex_f3].
Definition ex_segs : stream := map (fun b => [b]) ex_bytes.

Example C05_nonvacuous :
  forallb (wf_frameb 18) [ex_f1; ex_f2; ex_f3] = true /\ concat ex_segs = ex_bytes /\
  fst (receive_all 4 18 ex_segs) = [Ok ex_f1; Err (EStatus 2147614720 [x68; x69]); Ok ex_f3; Err EEOF].
Proof. vm_compute. auto. Qed.

(* a bad header (declared size 7, resp. 19 with rbuf 18) in the middle *)
Example C05_malformed_nonvacuous :
  fst (receive_all 5 18 (segment [3; 9] (ex_f1 ++ [x4d; x53; x47; x46; x07; x00; x00; x00] ++ ex_f3))) = [Ok ex_f1; Err ETooSmall] /\
  fst (receive_all 5 18 (segment [20] (ex_f1 ++ [x4d; x53; x47; x46; x13; x00; x00; x00] ++ ex_f3))) = [Ok ex_f1; Err ETooLarge].
Proof. vm_compute. auto. Qed.

Print Assumptions C05_tied_to_source.
Print Assumptions C05_read_full_any_segmentation.
Print Assumptions C05_segmentation_independent.
Print Assumptions C05_frames.
Print Assumptions C05_frames_plain.
Print Assumptions C05_malformed.
Print Assumptions C05_truncated.
Print Assumptions C05_never_panics.
Print Assumptions C05_only_whole_frames.
Print Assumptions C05_err_frame.
Print Assumptions C05_small_buffer_panics.
Print Assumptions C05_header_decode_total.
