(* C38 — a maximal chunk body always fits the negotiated chunk size.
   max body  : Gen.ArithFromGo.go_SetMaximumBodySize   (translated from uasc/secure_channel_instance.go on every run)
   parameters: Gen.PolicyParams.sym_policies           (obtained by calling uapolicy.Symmetric on every run)
   layout    : Model.Layout.secured_len                (hand-written; tied by the C38 sweep of the real signAndEncrypt) *)
From Coq Require Import ZArith Bool List Lia.
From Opcua Require Import Model.Layout Proofs.LayoutProofs Gen.ArithFromGo Gen.PolicyParams.
Import ListNotations.
Open Scope Z_scope.

Definition p_ok (p : sym_params) : bool := params_ok (sp_block p) (sp_plain p) (sp_sig p) (sp_rsig p).

Definition go_max (cs : Z) (p : sym_params) : Z :=
  go_SetMaximumBodySize cs (sp_block p) (sp_plain p) (sp_sig p) (sp_rsig p).

Definition sec_len (m : sec_mode) (p : sym_params) (body : Z) : Z :=
  secured_len m (sp_block p) (sp_plain p) (sp_sig p) (sp_rsig p) sym_hdr (seq_hdr + body).

(* every policy the code registers satisfies the side conditions of the generic lemmas *)
Theorem C38_params : forallb p_ok sym_policies = true.
Proof. vm_compute. reflexivity. Qed.

(* all chunk sizes >= 8192 (up to the uint32 range of the wire field), every registered symmetric policy,
   every mode, every body size up to the maximum: the secured chunk fits *)
Theorem C38_fits : forall p cs m body, In p sym_policies -> 8192 <= cs < 4294967296 ->
  0 <= body <= go_max cs p -> sec_len m p body <= cs.
Proof.
  intros p cs m body Hin Hcs Hb.
  assert (Hp : p_ok p = true) by (apply (proj1 (forallb_forall _ _) C38_params); exact Hin).
  unfold go_max in Hb. rewrite go_max_body_eq in Hb by (try exact Hp; lia).
  apply secured_fits_all; try assumption; lia.
Qed.

(* the maximum is a real body size (no uint32 wrap) *)
Theorem C38_max_nonneg : forall p cs, In p sym_policies -> 8192 <= cs < 4294967296 -> 0 <= go_max cs p < cs.
Proof.
  intros p cs Hin Hcs.
  assert (Hp : p_ok p = true) by (apply (proj1 (forallb_forall _ _) C38_params); exact Hin).
  unfold go_max. rewrite go_max_body_eq by (try exact Hp; lia).
  split; [apply max_body_nonneg | apply max_body_lt_cs]; try assumption; lia.
Qed.

(* plaintext of a maximal body is a whole number of cipher blocks, with zero padding bytes *)
Theorem C38_block_aligned : forall p cs, In p sym_policies -> 8192 <= cs < 4294967296 ->
  Z.rem (plaintext_len (sp_plain p) (sp_sig p) (sp_rsig p) (seq_hdr + go_max cs p)) (sp_plain p) = 0
  /\ padding_len (sp_plain p) (sp_sig p) (sp_rsig p) (seq_hdr + go_max cs p) = 0.
Proof.
  intros p cs Hin Hcs.
  assert (Hp : p_ok p = true) by (apply (proj1 (forallb_forall _ _) C38_params); exact Hin).
  unfold go_max. rewrite go_max_body_eq by (try exact Hp; lia).
  destruct (plaintext_max cs _ _ _ _ Hp ltac:(lia)) as [E1 E2]. unfold seq_hdr. split; [|exact E2].
  rewrite E1. apply params_ok_spec in Hp. rewrite Z.mul_comm. apply Z.rem_mul. lia.
Qed.

(* in SignAndEncrypt one more body byte no longer fits *)
Theorem C38_tight : forall p cs, In p sym_policies -> 8192 <= cs < 4294967296 ->
  sec_len ModeSignEnc p (go_max cs p + 1) > cs.
Proof.
  intros p cs Hin Hcs.
  assert (Hp : p_ok p = true) by (apply (proj1 (forallb_forall _ _) C38_params); exact Hin).
  unfold go_max, sec_len, seq_hdr, sym_hdr. rewrite go_max_body_eq by (try exact Hp; lia).
  rewrite Z.add_assoc. apply one_more_does_not_fit; [exact Hp | lia].
Qed.

(* hypotheses are satisfiable: Basic256Sha256-like parameters at the default chunk size *)
Example C38_nonvacuous : exists p, In p sym_policies /\ sp_block p = 16 /\ go_max 65535 p > 60000.
Proof. eexists. split; [right; left; reflexivity|]. vm_compute. split; [reflexivity|reflexivity]. Qed.

Print Assumptions C38_params.
Print Assumptions C38_fits.
Print Assumptions C38_max_nonneg.
Print Assumptions C38_block_aligned.
Print Assumptions C38_tight.
