(* C02 — decoding arbitrary bytes: no panic, no hang, bounded memory.
   descriptors / registry : Gen.UaTypes (regenerated from package ua by reflection on every run)
   decoder                : Model.Codec.decode (hand-written transcription of decode.go, buffer.go and the eight
                            hand-written Decode methods; tied by the codecharness correspondence)
   fuel                   = the nesting levels left for Variant / DataValue / DiagnosticInfo / ExtensionObject values inside
                            each other: ua.MaxNestingLevel (100) at the top; at level 0 a nested decoder fails with
                            StatusBadEncodingLimitsExceeded.  The model never produces OutOfFuel any more.
   PROVED, FULL (C02_full : C02_statement), for every generated descriptor and EVERY input:
     - no Panic, no OutOfFuel (C02_safe for any registry / descriptor / number of levels);
     - recursion depth <= ua.MaxNestingLevel: by construction of the decoder, C02_depth (what is returned is nested at most
       that deep) and C02_nesting_rejected (a chain one longer is an error after 101 steps);
     - memory: alloc <= 478066 * len + 310685 bytes (C02_memory).  The factor is
       1 + RM + (MaxNestingLevel + 1) * (RM + 2 CM + 1101) with RM = 1648 the largest number of element-slot bytes that the
       registered types allocate per input byte at one level (decodeSlice allocates n slots for n <= remaining bytes) and
       CM = 984 their pointer targets: about three times what the code really does in the worst case (one chain of 100
       extension object bodies each opening its nested arrays): it is linear, it is not small.
   The three former refutations (known findings nesting-depth, nesting-amplification, variant-dimension-count, fixed in /repo by
   ua.MaxNestingLevel, "array length <= remaining bytes" and ua.MaxVariantArrayDimensions) are kept as regressions on the
   model (C02_fixed_findings), replayed on the implementation by the hostile stream; they are regressions and not
   'before the fix' refutations because the unbounded decoder no longer exists in the model. *)
From Coq Require Import NArith ZArith List Bool Lia.
From Coq.Strings Require Import Byte.
From Opcua Require Import Model.CodecTypes Model.Codec Model.CodecEq Proofs.CodecTotal Proofs.CodecCost Proofs.CodecCostCustoms
  Proofs.CodecCostMain Model.CodecWf Model.CodecWfAll Proofs.CodecSplit Proofs.CodecCustomsC Proofs.CodecDecWf Proofs.CodecDecDepth Gen.UaTypes.
Import ListNotations.
Open Scope Z_scope.

Definition gen_reg : list (Z * Z * ty) := mk_reg eo_table.
(* every descriptor the code can decode into: the registered structs, everything reachable, the eight customs *)
Definition all_tys : list ty :=
  all_structs ++ map TPtr all_structs ++ map snd variant_types ++ [xml_body_ty].

(* the memory budget of the property, "a constant factor of the input length plus a fixed bound", with the constants that are
   proved below *)
Definition mem_A : N := 478066.
Definition mem_B : N := 310685.

Definition no_crash {A} (r : res A) : Prop := (forall al, r <> Panic al) /\ r <> OutOfFuel.

(* the property at full strength: every descriptor the code decodes into, every input, the decoder as the code runs it *)
Definition C02_statement : Prop :=
  forall t bs, In t all_tys ->
    no_crash (decode gen_reg max_nesting_level t bs) /\
    (res_alloc (decode gen_reg max_nesting_level t bs) <= mem_A * N.of_nat (length bs) + mem_B)%N.

(* side conditions of the generic theorems hold for what the code registers today (re-checked on every run) *)
Theorem C02_registry :
  reg_ok gen_reg = true /\ forallb ptr_ok all_tys = true /\ forallb slices_ok all_tys = true /\
  map (fun r => variant_ty (fst r)) variant_types = map snd variant_types /\
  go_MaxVariantArrayLength = max_variant_array_length /\ go_null = null32 /\
  go_MaxVariantArrayDimensions = max_variant_array_dimensions /\ go_MaxNestingLevel = max_nesting_level.
Proof. vm_compute. repeat split; reflexivity. Qed.

(* FULL, panic-freedom and termination: any registry satisfying reg_ok, any descriptor without pointer-to-pointer, any
   number of nesting levels, any input: no Panic, no OutOfFuel, and the unread rest is no longer than the input *)
Theorem C02_safe : forall reg t bs f, reg_ok reg = true -> ptr_ok t = true -> fine bs (decode reg f t bs).
Proof.
  intros reg t bs f Hreg Ht. exact (decode_safe reg Hreg f t (length bs) Ht bs (le_n _)).
Qed.

Theorem C02_total : forall t bs, In t all_tys -> no_crash (decode gen_reg max_nesting_level t bs).
Proof.
  intros t bs Hin.
  assert (Ht : ptr_ok t = true).
  { destruct C02_registry as [_ [H _]]. rewrite forallb_forall in H. apply H. exact Hin. }
  pose proof (C02_safe gen_reg t bs max_nesting_level (proj1 C02_registry) Ht) as Hf.
  unfold no_crash. destruct (decode gen_reg max_nesting_level t bs); cbn in Hf; split; try intros al'; try discriminate; contradiction.
Qed.

(* recursion depth: a value the decoder returns is nested at most ua.MaxNestingLevel deep (inputs up to MaxInt32 bytes) ... *)
Theorem C02_depth : forall reg f t bs v rest al, blen bs <= max_int32 -> decode reg f t bs = Ok v rest al -> (vdepth v <= f)%nat.
Proof. intros reg f t bs v rest al Hs E. exact (proj1 (decode_depth reg f t bs v rest al Hs E)). Qed.

(* ... and a chain of Variants one longer than the levels left is rejected with an error (before the fix: recursion as deep
   as the input is long, Go's fatal stack overflow; known finding nesting-depth) *)
Theorem C02_nesting_rejected : forall reg f bs, res_is_err (decode reg f (TCustom CVariant) (repeat x18 f ++ bs)) = true.
Proof. intros reg f bs. apply deep_variant. Qed.

(* ---- the dimension product (variant.go: "the product is computed in 64 bit and checked after every step") ----
   The model multiplies like Go: int64, wrapping modulo 2^64 (Codec.mul64).  The guard after every step is what keeps
   the wrap unreachable: an accepted dimension vector has its TRUE product equal to the array length.  Without the
   guard (seeded change C02-a) vectors such as 16 x 2^30 x 2^30 = 0 (mod 2^64) would pass the final comparison and
   split() would build 2^64 nested slices: the hostile stream replays them. *)
Theorem C02_dims_guard : forall ds c, forallb dim_ok ds = true -> dims_product ds 1 = Some c ->
  c = Z.of_nat (nprod (map Z.to_nat ds)).
Proof. intros ds c H E. exact (proj1 (dims_product_nprod ds c H E)). Qed.

Theorem C02_dims_wrap_rejected :
  mul64 (mul64 16 1073741824) 1073741824 = 0 /\
  res_class (decode gen_reg 5 (TCustom CVariant) ([xc6] ++ le 4 0 ++ le 4 3 ++ le 4 16 ++ le 4 1073741824 ++ le 4 1073741824)) = 2 /\
  res_class (decode gen_reg 5 (TCustom CVariant)
               ([xc6] ++ le 4 (-1) ++ le 4 7 ++ le 4 3 ++ le 4 5 ++ le 4 17 ++ le 4 257 ++ le 4 641 ++ le 4 65537 ++ le 4 6700417)) = 2 /\
  res_class (decode gen_reg 5 (TCustom CVariant)
               ([xc6] ++ le 4 1 ++ le 4 7 ++ le 4 3 ++ le 4 11806113 ++ le 4 409891 ++ le 4 7623851)) = 2.
Proof. vm_compute. repeat split; reflexivity. Qed.

(* split() is only ever reached with the TRUE product of the dimensions equal to the number of decoded elements, which is at
   most MaxVariantArrayLength: the reshaping builds exactly that many leaves (no hang), and its allocation is covered by
   C02_partial_memory *)
Theorem C02_split_only_exact : forall reg fuel bs m alen dl dims p rest al,
  reg_desc_ok reg = true -> blen bs <= max_int32 ->
  decode reg fuel (TCustom CVariant) bs = Ok (VVariant m alen dl dims (Some p)) rest al ->
  bit m 7 = true -> 0 < dl ->
  Z.of_nat (nprod (map Z.to_nat dims)) = alen /\ alen <= max_variant_array_length /\ forallb dim_ok dims = true.
Proof.
  intros reg fuel bs m alen dl dims p rest al Hreg Hs E B7 Hdl.
  destruct (decode_wf reg Hreg fuel (TCustom CVariant) eq_refl bs _ rest al Hs E) as [[Hw _] _].
  rewrite rwf0_variant in Hw. apply andb_true_iff in Hw. destruct Hw as [_ Hw].
  destruct (m mod 64 =? 0); [apply andb_true_iff in Hw; destruct Hw as [_ Hn]; discriminate|].
  apply andb_true_iff in Hw. destruct Hw as [Hh _].
  destruct (hdr_array_facts m alen dl dims p B7 Hh) as [_ [Ha [_ [_ [Hge [_ [Hprod _]]]]]]].
  destruct (dims_product_nprod dims alen Hge (Hprod Hdl)) as [Hc _]. split; [symmetry; exact Hc|]. split; [lia|exact Hge].
Qed.

(* ---- memory: the positive part ---- *)
(* static measures of the generated descriptors (re-checked on every run): bytes allocated per byte consumed (element
   slots of slices), pointer targets, slack; bounds over the descriptors that can be entered one level down *)
Definition cost_RM : N := 1648.
Definition cost_CM : N := 984.
Definition cost_SM : N := 944.
Theorem C02_cost_registry :
  forallb (fun r => entry_ok cost_RM cost_CM cost_SM (TPtr (snd r))) gen_reg = true /\
  entry_ok cost_RM cost_CM cost_SM xml_body_ty = true /\
  forallb (fun t => tyok t && (srate t <=? cost_RM)%N && (scst t + sslk t <=? cost_CM + cost_SM)%N) all_tys = true /\
  (scst (TPtr qualified_name_ty) <=? cost_CM)%N = true.
Proof. vm_compute. repeat split; reflexivity. Qed.

(* FULL (memory): every descriptor the code decodes into, every input *)
Theorem C02_memory : forall t bs, In t all_tys ->
  (res_alloc (decode gen_reg max_nesting_level t bs) <= mem_A * N.of_nat (length bs) + mem_B)%N.
Proof.
  intros t bs Hin. destruct C02_cost_registry as [Hreg [Hxml [Hall Hq]]].
  rewrite forallb_forall in Hall. specialize (Hall t Hin).
  apply andb_true_iff in Hall. destruct Hall as [Hall H3]. apply andb_true_iff in Hall. destruct Hall as [H1 H2].
  apply N.leb_le in H2, H3, Hq.
  pose proof (alloc_bound (N.of_nat (length bs)) gen_reg cost_RM cost_CM cost_SM Hreg (variant_entry _ _ _ Hq) Hxml
                max_nesting_level t bs H1 (N.le_refl _)) as H.
  unfold DA, DE, cost_RM, cost_CM, cost_SM, mem_A, mem_B in *. unfold ln in H.
  change (N.of_nat (S max_nesting_level)) with 101%N in H.
  set (len := N.of_nat (length bs)) in *. set (S := srate t) in *.
  assert (Hm : (S * len <= 1648 * len)%N) by (apply N.mul_le_mono_r; exact H2).
  nia.
Qed.

Theorem C02_full : C02_statement.
Proof. intros t bs Hin. split; [apply C02_total; exact Hin|apply C02_memory; exact Hin]. Qed.

(* the former refutations, now regressions (the same witnesses):
   (1) nesting depth: 2.5 million nested Variants used to need as many Go stack frames: rejected at level 101 with 5.7 KB;
   (2) nesting amplification: 50 nested arrays each announcing 65535 elements used to allocate 47 MB from 250 bytes: the first
       announcement exceeds the remaining bytes, nothing is allocated;
   (3) dimension count: 6000 dimensions used to cost memory quadratic in their number: more than 32 are rejected *)
Definition amplification_witness : bytes := concat (repeat [x98; xff; xff; x00; x00] 50).
Definition dims_witness (k : nat) : bytes :=
  [xc6] ++ le 4 1 ++ le 4 9 ++ le 4 (Z.of_nat k) ++ concat (repeat (le 4 1) k).
Theorem C02_fixed_findings :
  (let r := decode gen_reg max_nesting_level (TCustom CVariant) (repeat x18 5000) in (res_class r =? 2) && (res_alloc r <? 6000)%N) = true /\
  (let r := decode gen_reg max_nesting_level (TCustom CVariant) amplification_witness in (res_class r =? 1) && (res_alloc r <? 100)%N) = true /\
  (let r := decode gen_reg max_nesting_level (TCustom CVariant) (dims_witness 6000) in (res_class r =? 2) && (res_alloc r <? 200)%N) = true /\
  (let r := decode gen_reg max_nesting_level (TCustom CVariant) (dims_witness 32) in (res_class r =? 0) && (res_alloc r <? 10000)%N) = true.
Proof. vm_compute. repeat split; reflexivity. Qed.

(* real inputs: a ReadRequest with a hostile array prefix is
   rejected with an error (after the fix of decodeSlice), allocating nothing for the announced 0x03ffffff elements *)
Example C02_row3_rejected :
  let bs := [x00;x00] ++ repeat x00 8 ++ le 4 0 ++ le 4 0 ++ le 4 null32 ++ le 4 0 ++ [x00;x00;x00]
            ++ repeat x00 8 ++ le 4 0 ++ le 4 67108863 in
  match decode gen_reg (fuel_for bs) ty_ReadRequest bs with
  | Err EEOF al => (al <? 1024)%N = true
  | _ => False
  end.
Proof. vm_compute. reflexivity. Qed.

Example C02_row1_rejected :
  res_class (decode gen_reg 10 (TCustom CVariant) [x86; xfe; xff; xff; xff]) = 2.
Proof. vm_compute. reflexivity. Qed.

Example C02_row2_rejected :
  res_class (decode gen_reg 10 (TCustom CVariant)
               ([xc6] ++ le 4 0 ++ le 4 3 ++ le 4 65536 ++ le 4 65536 ++ le 4 5)) = 2.
Proof. vm_compute. reflexivity. Qed.

Print Assumptions C02_registry.
Print Assumptions C02_safe.
Print Assumptions C02_total.
Print Assumptions C02_depth.
Print Assumptions C02_nesting_rejected.
Print Assumptions C02_dims_guard.
Print Assumptions C02_dims_wrap_rejected.
Print Assumptions C02_split_only_exact.
Print Assumptions C02_cost_registry.
Print Assumptions C02_memory.
Print Assumptions C02_full.
Print Assumptions C02_fixed_findings.
