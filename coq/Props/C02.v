(* C02 — decoding arbitrary bytes: no panic, no hang, bounded memory.
   descriptors / registry : Gen.UaTypes (regenerated from package ua by reflection on every run)
   decoder                : Model.Codec.decode (hand-written transcription of decode.go, buffer.go and the eight
                            hand-written Decode methods; tied by the codecharness correspondence)
   fuel                   = nesting depth of Variant / DataValue / DiagnosticInfo / ExtensionObject bodies
                            = depth of the Go recursion; OutOfFuel models Go's fatal stack overflow.
   PROVED: panic-freedom and termination below the nesting budget, for every registry / descriptor / input
   (C02_partial_depth, C02_total, C02_depth); the memory part of the statement is REFUTED three ways (nesting depth,
   nesting amplification, dimension count) and PROVED in the form the three findings leave possible
   (C02_partial_memory): with nesting budget d the allocation is at most
       (d + 1) * ((3854 + 7 * len) * len + 5770137)   bytes for an input of len bytes
   i.e. linear in the input per nesting level, plus the quadratic cost of reshaping multi-dimensional arrays
   (known finding variant-dimension-count) and 5.8 MB of slack per level (65535 element slots of a Variant array are
   allocated before the first element is read: known finding nesting-amplification).  The cost model's constants are
   validated against the Go allocator from below by the check (TotalAlloc of every hostile decode). *)
From Coq Require Import NArith ZArith List Bool Lia.
From Coq.Strings Require Import Byte.
From Opcua Require Import Model.CodecTypes Model.Codec Model.CodecEq Proofs.CodecTotal Proofs.CodecCost Proofs.CodecCostCustoms
  Proofs.CodecCostMain Proofs.CodecFuel Model.CodecWf Model.CodecWfAll Proofs.CodecSplit Proofs.CodecCustomsC Proofs.CodecDecWf Gen.UaTypes.
Import ListNotations.
Open Scope Z_scope.

Definition gen_reg : list (Z * Z * ty) := mk_reg eo_table.
(* every descriptor the code can decode into: the registered structs, everything reachable, the eight customs *)
Definition all_tys : list ty :=
  all_structs ++ map TPtr all_structs ++ map snd variant_types ++ [xml_body_ty].

(* Go's recursion budget in decoder frames (1 GB maximum stack / about 400 bytes per nesting level), and the memory
   budget of the property: "a small constant factor of the input length plus a fixed bound" *)
Definition go_depth_budget : nat := 2500000.
Definition mem_A : N := 1024.
Definition mem_B : N := 16777216.

Definition no_crash {A} (r : res A) : Prop := (forall al, r <> Panic al) /\ r <> OutOfFuel.

(* the property at full strength *)
Definition C02_statement : Prop :=
  forall t bs, ptr_ok t = true ->
    no_crash (decode gen_reg go_depth_budget t bs) /\
    (res_alloc (decode gen_reg go_depth_budget t bs) <= mem_A * N.of_nat (length bs) + mem_B)%N.

(* side conditions of the generic theorems hold for what the code registers today (re-checked on every run) *)
Theorem C02_registry :
  reg_ok gen_reg = true /\ forallb ptr_ok all_tys = true /\ forallb slices_ok all_tys = true /\
  map (fun r => variant_ty (fst r)) variant_types = map snd variant_types /\
  go_MaxVariantArrayLength = max_variant_array_length /\ go_null = null32.
Proof. vm_compute. repeat split; reflexivity. Qed.

(* FULL for panic-freedom and termination below the nesting budget: any registry satisfying reg_ok, any descriptor
   without pointer-to-pointer, any byte string shorter than the budget d: no Panic, no OutOfFuel, and the unread rest is
   no longer than the input *)
Theorem C02_partial_depth : forall reg t bs d, reg_ok reg = true -> ptr_ok t = true -> (length bs < d)%nat ->
  fine bs (decode reg d t bs).
Proof.
  intros reg t bs d Hreg Ht Hd. exact (decode_safe reg Hreg d t (length bs) Ht Hd bs (le_n _)).
Qed.

(* the same, in the shape of the design: with fuel_for bs nothing bad happens, for all inputs, at Gen's registry *)
Theorem C02_total : forall t bs, In t all_tys ->
  exists r, decode gen_reg (fuel_for bs) t bs = r /\ no_crash r.
Proof.
  intros t bs Hin. eexists. split; [reflexivity|].
  assert (Ht : ptr_ok t = true).
  { destruct C02_registry as [_ [H _]]. rewrite forallb_forall in H. apply H. exact Hin. }
  pose proof (C02_partial_depth gen_reg t bs (fuel_for bs) (proj1 C02_registry) Ht ltac:(unfold fuel_for; lia)) as Hf.
  unfold no_crash. destruct (decode gen_reg (fuel_for bs) t bs); cbn in Hf; split; try intros al'; try discriminate; contradiction.
Qed.

(* recursion depth is at most the input length: an input of n bytes needs at most n+1 nesting levels *)
Theorem C02_depth : forall t bs, ptr_ok t = true -> decode gen_reg (S (length bs)) t bs <> OutOfFuel.
Proof.
  intros t bs Ht E.
  pose proof (C02_partial_depth gen_reg t bs (S (length bs)) (proj1 C02_registry) Ht ltac:(lia)) as Hf.
  rewrite E in Hf. exact Hf.
Qed.

(* ---- the dimension product (variant.go: "the product is computed in 64 bit and checked after every step") ----
   The model multiplies like Go: int64, wrapping modulo 2^64 (Codec.mul64).  The guard after every step is what keeps
   the wrap unreachable: an accepted dimension vector has its TRUE product equal to the array length.  Without the
   guard (seeded change C02-a) vectors such as 16 x 2^30 x 2^30 = 0 (mod 2^64) would pass the final comparison and
   split() would build 2^64 nested slices: the hostile stream replays them. *)
Theorem C02_dims_guard : forall ds c, forallb dim_ok ds = true -> dims_product ds 1 = Some c ->
  c = Z.of_nat (nprod (map Z.to_nat ds)).
Proof. intros ds c H E. exact (proj1 (dims_product_nprod ds c H E)). Qed.

Theorem C02_dims_wrap_rejected :
  mul64 (mul64 16 1073741824) 1073741824 = 0 /\
  res_class (decode gen_reg 5 (TCustom CVariant) ([xc6] ++ le 4 0 ++ le 4 3 ++ le 4 16 ++ le 4 1073741824 ++ le 4 1073741824)) = 2 /\
  res_class (decode gen_reg 5 (TCustom CVariant)
               ([xc6] ++ le 4 (-1) ++ le 4 7 ++ le 4 3 ++ le 4 5 ++ le 4 17 ++ le 4 257 ++ le 4 641 ++ le 4 65537 ++ le 4 6700417)) = 2 /\
  res_class (decode gen_reg 5 (TCustom CVariant)
               ([xc6] ++ le 4 1 ++ le 4 7 ++ le 4 3 ++ le 4 11806113 ++ le 4 409891 ++ le 4 7623851)) = 2.
Proof. vm_compute. repeat split; reflexivity. Qed.

(* split() is only ever reached with the TRUE product of the dimensions equal to the number of decoded elements, which is at
   most MaxVariantArrayLength: the reshaping builds exactly that many leaves (no hang), and its allocation is covered by
   C02_partial_memory *)
Theorem C02_split_only_exact : forall reg fuel bs m alen dl dims p rest al,
  reg_desc_ok reg = true -> blen bs <= max_int32 ->
  decode reg fuel (TCustom CVariant) bs = Ok (VVariant m alen dl dims (Some p)) rest al ->
  bit m 7 = true -> 0 < dl ->
  Z.of_nat (nprod (map Z.to_nat dims)) = alen /\ alen <= max_variant_array_length /\ forallb dim_ok dims = true.
Proof.
  intros reg fuel bs m alen dl dims p rest al Hreg Hs E B7 Hdl.
  destruct (decode_wf reg Hreg fuel (TCustom CVariant) eq_refl bs _ rest al Hs E) as [[Hw _] _].
  rewrite rwf0_variant in Hw. apply andb_true_iff in Hw. destruct Hw as [_ Hw].
  destruct (m mod 64 =? 0); [apply andb_true_iff in Hw; destruct Hw as [_ Hn]; discriminate|].
  apply andb_true_iff in Hw. destruct Hw as [Hh _].
  destruct (hdr_array_facts m alen dl dims p B7 Hh) as [_ [Ha [_ [_ [Hge [_ [Hprod _]]]]]]].
  destruct (dims_product_nprod dims alen Hge (Hprod Hdl)) as [Hc _]. split; [symmetry; exact Hc|]. split; [lia|exact Hge].
Qed.

(* ---- memory: the positive part ---- *)
(* static measures of the generated descriptors (re-checked on every run): bytes allocated per byte consumed (element
   slots of slices), pointer targets, slack; bounds over the descriptors that can be entered one level down *)
Definition cost_RM : N := 1648.
Definition cost_CM : N := 984.
Definition cost_SM : N := 944.
Theorem C02_cost_registry :
  forallb (fun r => entry_ok cost_RM cost_CM cost_SM (TPtr (snd r))) gen_reg = true /\
  entry_ok cost_RM cost_CM cost_SM xml_body_ty = true /\
  forallb (fun t => tyok t && (srate t <=? cost_RM)%N && (scst t + sslk t <=? cost_CM + cost_SM)%N) all_tys = true /\
  (scst (TPtr qualified_name_ty) <=? cost_CM)%N = true.
Proof. vm_compute. repeat split; reflexivity. Qed.

(* PARTIAL (memory): any descriptor the code decodes into, any input, any nesting budget d (deeper inputs: OutOfFuel) *)
Theorem C02_partial_memory : forall d t bs, In t all_tys ->
  let len := N.of_nat (length bs) in
  (res_alloc (decode gen_reg d t bs) <= (N.of_nat d + 1) * ((3854 + 7 * len) * len + 5770137))%N.
Proof.
  intros d t bs Hin len. destruct C02_cost_registry as [Hreg [Hxml [Hall Hq]]].
  rewrite forallb_forall in Hall. specialize (Hall t Hin).
  apply andb_true_iff in Hall. destruct Hall as [Hall H3]. apply andb_true_iff in Hall. destruct Hall as [H1 H2].
  apply N.leb_le in H2, H3, Hq.
  pose proof (alloc_bound len gen_reg cost_RM cost_CM cost_SM Hreg (variant_entry _ _ _ Hq) Hxml d t bs H1 (N.le_refl _)) as H.
  unfold DA, DE, KV, cost_RM, cost_CM, cost_SM in *. fold len in H. unfold ln in H. fold len in H.
  set (D := N.of_nat d) in *. set (S := srate t) in *.
  assert (Hm : (S * len <= 1648 * len)%N) by (apply N.mul_le_mono_r; exact H2).
  nia.
Qed.

(* the budget is only a budget: an input whose nesting stays below d (the decode with budget d does not run out) is decoded
   identically with every larger budget -- value, rest and allocation; so the bound with d holds for Go's recursion *)
Theorem C02_fuel_monotone : forall reg d D t bs, (d <= D)%nat -> decode reg d t bs <> OutOfFuel ->
  decode reg D t bs = decode reg d t bs.
Proof.
  intros reg d D t bs Hd H. replace D with (d + (D - d))%nat by lia. apply decode_fuel_mono. exact H.
Qed.

Theorem C02_partial_memory_depth : forall d D t bs, In t all_tys -> (d <= D)%nat -> decode gen_reg d t bs <> OutOfFuel ->
  let len := N.of_nat (length bs) in
  (res_alloc (decode gen_reg D t bs) <= (N.of_nat d + 1) * ((3854 + 7 * len) * len + 5770137))%N.
Proof.
  intros d D t bs Hin Hd H len. rewrite (C02_fuel_monotone gen_reg d D t bs Hd H). apply C02_partial_memory. exact Hin.
Qed.

(* what the bound means in numbers, with the limit of 100 levels that the TODOs in variant.go ask for and a 64 KiB message:
   3.1e12 bytes with the dimension term (7 * len per byte and level: finding variant-dimension-count), 2.6e10 without it, of
   which 101 * 5.8 MB are the per-level slack (finding nesting-amplification): the bound is a statement about the SHAPE of the
   growth (linear per level + quadratic reshaping), not a usable resource limit -- that needs the limits the findings ask for *)
Example C02_memory_numbers :
  ((100 + 1) * ((3854 + 7 * 65536) * 65536 + 5770137) = 3062634812253 /\
   (100 + 1) * (3854 * 65536 + 5770137) = 26092933981)%N.
Proof. vm_compute. split; reflexivity. Qed.

(* REFUTED (1): nesting is not limited by the code (variant.go: "todo(fs): limit recursion depth to 100"), only by the
   input length: go_depth_budget bytes 0x18 (a Variant holding a Variant holding ...) exhaust the budget.
   Known finding C02 nesting-depth; replayed on the implementation by the check (the child dies of stack overflow). *)
Theorem C02_refuted_depth : ~ C02_statement.
Proof.
  intros H. destruct (H (TCustom CVariant) (repeat x18 go_depth_budget) eq_refl) as [[_ Hf] _].
  apply Hf. apply deep_variant.
Qed.

(* REFUTED (2): memory is not linear in the input: 50 nested arrays (250 bytes) each announcing 65535 elements make the
   decoder allocate 65535 element slots per level before reading anything.  Known finding C02 nesting-amplification. *)
Definition amplification_witness : bytes := concat (repeat [x98; xff; xff; x00; x00] 50).
Theorem C02_refuted_amplification :
  (res_alloc (decode gen_reg (fuel_for amplification_witness) (TCustom CVariant) amplification_witness)
   > mem_A * N.of_nat (length amplification_witness) + mem_B)%N.
Proof. vm_compute. reflexivity. Qed.

(* REFUTED (3): the number of array dimensions is only bounded by the input; split() builds one slice type per
   dimension whose name grows with the depth: quadratic memory.  Known finding C02 variant-dimension-count. *)
Definition dims_witness (k : nat) : bytes :=
  [xc6] ++ le 4 1 ++ le 4 9 ++ le 4 (Z.of_nat k) ++ concat (repeat (le 4 1) k).
Theorem C02_refuted_dimensions :
  (res_alloc (decode gen_reg (fuel_for (dims_witness 6000)) (TCustom CVariant) (dims_witness 6000))
   > mem_A * N.of_nat (length (dims_witness 6000)) + mem_B)%N.
Proof. vm_compute. reflexivity. Qed.

(* the hypotheses of C02_partial_depth are satisfiable by real inputs: a ReadRequest with a hostile array prefix is
   rejected with an error (after the fix of decodeSlice), allocating nothing for the announced 0x03ffffff elements *)
Example C02_row3_rejected :
  let bs := [x00;x00] ++ repeat x00 8 ++ le 4 0 ++ le 4 0 ++ le 4 null32 ++ le 4 0 ++ [x00;x00;x00]
            ++ repeat x00 8 ++ le 4 0 ++ le 4 67108863 in
  match decode gen_reg (fuel_for bs) ty_ReadRequest bs with
  | Err EEOF al => (al <? 1024)%N = true
  | _ => False
  end.
Proof. vm_compute. reflexivity. Qed.

Example C02_row1_rejected :
  res_class (decode gen_reg 10 (TCustom CVariant) [x86; xfe; xff; xff; xff]) = 2.
Proof. vm_compute. reflexivity. Qed.

Example C02_row2_rejected :
  res_class (decode gen_reg 10 (TCustom CVariant)
               ([xc6] ++ le 4 0 ++ le 4 3 ++ le 4 65536 ++ le 4 65536 ++ le 4 5)) = 2.
Proof. vm_compute. reflexivity. Qed.

Print Assumptions C02_registry.
Print Assumptions C02_partial_depth.
Print Assumptions C02_total.
Print Assumptions C02_depth.
Print Assumptions C02_dims_guard.
Print Assumptions C02_dims_wrap_rejected.
Print Assumptions C02_split_only_exact.
Print Assumptions C02_cost_registry.
Print Assumptions C02_partial_memory.
Print Assumptions C02_fuel_monotone.
Print Assumptions C02_partial_memory_depth.
Print Assumptions C02_refuted_depth.
Print Assumptions C02_refuted_amplification.
Print Assumptions C02_refuted_dimensions.
