(* C03 — decode . encode . decode is stable: whatever decodes successfully can be encoded again (no error, no panic)
   and decodes to the same value.
   Model / tie: as for C01 and C02 (Model.Codec, Gen.UaTypes, codecharness correspondence incl. the re-encoded bytes);
   rwf / rnorm / noempty / desc_ok: Model.CodecWfAll.
   PROVED:
   (a) the full statement is REFUTED by an extension object of a registered EMPTY struct type with a non-empty body
       (C03_refuted_empty_extobj, known finding extobj-empty-struct: Value = &T{} re-encodes with body length 0, which
       decodes to Value = nil);
   (b) C03_partial_stable: for ANY registry satisfying reg_desc_ok / reg_min_ok and ANY descriptor satisfying desc_ok
       (C03_registry: the generated ones do), any number of nesting levels (the second decode runs under the same limit: what the decoder returns is nested at most that deep, decode_depth), any input of at most MaxInt32 bytes (longer strings
       cannot be re-encoded): a successfully decoded value v which carries no empty-struct extension object body
       (noempty v: the complement of the refuted class) encodes again without error or panic, the re-encoding is not
       longer than the bytes the decoder consumed, and the re-encoding followed by ANY bytes decodes to v and leaves
       those bytes.  Through all eight hand-written codecs, all descriptors, non-canonical masks, unknown extension
       object ids, multi-dimensional arrays, every DateTime (int64 ticks).
       Ingredients: C03_decoded_wf (decoded values are rwf0 and their own normal form), C03_decoded_rwf (without empty
       bodies they satisfy the full rwf; re-encoding not longer than the input), C01's roundtrip_all;
   (c) the repaired defects on the model (C03_fixed_rows): rows 4, 5 and the DateTime wrap of Buffer.ReadTime/WriteTime
       (fixed in /repo b66eff8: DateTime outside 1677..2262, e.g. 9999-12-31, used to decode to an unrelated time). *)
From Coq Require Import NArith ZArith List Bool Lia.
From Coq.Strings Require Import Byte.
From Opcua Require Import Model.CodecTypes Model.Codec Model.CodecEq Model.CodecWf Model.CodecWfAll Proofs.CodecBase Proofs.CodecRT
  Proofs.CodecRoundtripAll Proofs.CodecDecWf Proofs.CodecDecLen Proofs.CodecDecDepth Proofs.CodecTotal Gen.UaTypes.
Import ListNotations.
Open Scope Z_scope.

Definition gen_reg : list (Z * Z * ty) := mk_reg eo_table.

(* the property at full strength, on the model *)
Definition C03_statement : Prop :=
  forall t bs v rest al, ptr_ok t = true ->
    decode gen_reg (fuel_for bs) t bs = Ok v rest al ->
    exists bs' al', encode gen_reg t v = EOk bs' /\ decode gen_reg (fuel_for bs') t bs' = Ok v [] al'.

(* executable form of one instance: 0 = stable, 1 = re-encoding fails, 2 = second decode differs, 3 = first decode fails *)
Definition stable_check (t : ty) (bs : bytes) : Z :=
  match decode gen_reg (fuel_for bs) t bs with
  | Ok v _ _ =>
    match encode gen_reg t v with
    | EOk bs' => match decode gen_reg (fuel_for bs') t bs' with
                 | Ok v' [] _ => if val_eqb v' v then 0 else 2
                 | _ => 2
                 end
    | _ => 1
    end
  | _ => 3
  end.

Definition datetime_witness : bytes := [xff; xff; xff; xff; xff; xff; xff; xff].

(* REFUTED (known finding C03 extobj-empty-struct): type id 121 ... is registered with an empty struct; with a one-byte
   body the decoder returns Value = &T{} (run_sub drops the unread byte), Encode writes body length 0, and that decodes
   to Value = nil *)
Definition empty_struct_entry := find (fun r => match snd r with TStruct [] => true | _ => false end) gen_reg.
Definition empty_extobj_witness : bytes :=
  match empty_struct_entry with
  | Some (ns, id, _) => [x01; x00] ++ le 2 id ++ [x01] ++ le 4 1 ++ [x00]
  | None => []
  end.
Theorem C03_empty_extobj_unstable : stable_check (TCustom CExtObj) empty_extobj_witness = 2.
Proof. vm_compute. reflexivity. Qed.
Theorem C03_refuted_empty_extobj : ~ C03_statement.
Proof.
  intros H.
  destruct (decode gen_reg (fuel_for empty_extobj_witness) (TCustom CExtObj) empty_extobj_witness) as [v rest al| | |] eqn:Ed.
  2-4: (vm_compute in Ed; discriminate).
  destruct (H (TCustom CExtObj) empty_extobj_witness v rest al eq_refl Ed) as [bs' [al' [E D]]].
  vm_compute in Ed. inversion Ed; subst v rest al. clear Ed.
  vm_compute in E. inversion E; subst bs'. clear E.
  vm_compute in D. discriminate.
Qed.

Definition all_tys : list ty :=
  all_structs ++ map TPtr all_structs ++ map snd variant_types ++ [xml_body_ty].

(* side conditions of (b), (c) at what the code registers today *)
Theorem C03_registry : reg_desc_ok gen_reg = true /\ reg_min_ok gen_reg = true /\ forallb desc_ok all_tys = true.
Proof. vm_compute. repeat split; reflexivity. Qed.

(* FULL (on inputs up to MaxInt32 bytes): what the decoder returns is well-formed (rwf0) and its own normal form *)
Theorem C03_decoded_wf : forall reg fuel t bs v rest al,
  reg_desc_ok reg = true -> desc_ok t = true -> blen bs <= max_int32 ->
  decode reg fuel t bs = Ok v rest al ->
  rwf0 reg t v = true /\ rnorm reg t v = v.
Proof.
  intros reg fuel t bs v rest al Hreg Ht Hs E. exact (proj1 (decode_wf reg Hreg fuel t Ht bs v rest al Hs E)).
Qed.

(* without empty-struct bodies the decoded value satisfies the full rwf, and its encoding is not longer than what was read *)
Theorem C03_decoded_rwf : forall reg fuel t bs v rest al,
  reg_desc_ok reg = true -> reg_min_ok reg = true -> desc_ok t = true -> blen bs <= max_int32 ->
  decode reg fuel t bs = Ok v rest al ->
  (noempty v = true -> rwf reg t v = true) /\
  (forall bs', encode reg t v = EOk bs' -> (length bs' <= length bs - length rest)%nat).
Proof.
  intros reg fuel t bs v rest al Hreg Hmin Ht Hs E.
  destruct (decode_len reg Hreg Hmin fuel t Ht bs v rest al Hs E) as [_ [He Hr]]. split; [exact Hr|].
  intros bs' E'. rewrite E' in He. exact He.
Qed.

(* PARTIAL (hypothesis = complement of the refuted class; input at most MaxInt32 bytes) *)
Theorem C03_partial_stable : forall reg fuel t bs v rest al,
  reg_desc_ok reg = true -> reg_min_ok reg = true -> desc_ok t = true -> blen bs <= max_int32 ->
  decode reg fuel t bs = Ok v rest al ->
  noempty v = true ->
  exists bs', encode reg t v = EOk bs' /\ (length bs' <= length bs - length rest)%nat /\
    forall fuel' rest', (fuel <= fuel')%nat -> exists al', decode reg fuel' t (bs' ++ rest') = Ok v rest' al'.
Proof.
  intros reg fuel t bs v rest al Hreg Hmin Ht Hs E Hne.
  destruct (C03_decoded_wf reg fuel t bs v rest al Hreg Ht Hs E) as [_ Hn].
  destruct (C03_decoded_rwf reg fuel t bs v rest al Hreg Hmin Ht Hs E) as [Hw Hlen]. specialize (Hw Hne).
  pose proof (proj1 (decode_depth reg fuel t bs v rest al Hs E)) as Hd. unfold Dp in Hd.
  destruct (roundtrip_all reg t v fuel Hw Hd 0%nat) as [bs' [E' _]]. exists bs'. split; [exact E'|]. split; [apply Hlen; exact E'|].
  intros fuel' rest' Hf. destruct (roundtrip_all reg t v fuel' Hw ltac:(lia) (S (length bs'))) as [bs2 [E2 [_ D]]].
  rewrite E' in E2. inversion E2; subst bs2. rewrite Hn in D. exact (D (Nat.lt_succ_diag_r _) rest').
Qed.

(* in the shape of the statement, at the generated registry and descriptors *)
Theorem C03_partial_generated : forall t bs v rest al, In t all_tys -> blen bs <= max_int32 ->
  decode gen_reg (fuel_for bs) t bs = Ok v rest al -> noempty v = true ->
  exists bs' al', encode gen_reg t v = EOk bs' /\ decode gen_reg (fuel_for bs') t bs' = Ok v [] al'.
Proof.
  intros t bs v rest al Hin Hs E Hne. destruct C03_registry as [Hreg [Hmin Hall]].
  assert (Ht : desc_ok t = true) by (rewrite forallb_forall in Hall; apply Hall; exact Hin).
  destruct (C03_partial_stable gen_reg _ t bs v rest al Hreg Hmin Ht Hs E Hne) as [bs' [E' [_ D]]].
  destruct (D (fuel_for bs') [] ltac:(unfold fuel_for; lia)) as [al' D']. rewrite app_nil_r in D'.
  exists bs', al'. split; assumption.
Qed.

(* the hypotheses are satisfiable by real inputs: a Variant with the dimensions bit but not the array bit (mask 0x46,
   non-canonical), an extension object of unknown type with a body, a DiagnosticInfo chain *)
Example C03_nonvacuous :
  let chk := fun t bs => match decode gen_reg (fuel_for bs) t bs with
                         | Ok v _ _ => noempty v && desc_ok t
                         | _ => false end in
  chk (TCustom CVariant) [x46; x07; x00; x00; x00; x01; x02] = true /\
  chk (TCustom CExtObj) [x01; x00; x39; x30; x01; x03; x00; x00; x00; x09; x09; x09] = true /\
  chk (TCustom CDiagInfo) [x41; x05; x00; x00; x00; x00] = true /\
  chk (TCustom CExtObj) empty_extobj_witness = false /\ chk TTime datetime_witness = true.
Proof. vm_compute. repeat split; reflexivity. Qed.

(* the repaired defects on the model: DateTime outside the int64-nanosecond range (all ones = 1 tick before 1601, 1 tick, 9999-12-31); unknown-type extension object with a body (row 4), extension object with binary
   mask and empty body, Variant mask 0x46 (row 5; also with following bytes left alone), non-canonical masks *)
Theorem C03_fixed_rows :
  stable_check TTime datetime_witness = 0 /\
  stable_check (TCustom CVariant) (x0d :: datetime_witness) = 0 /\
  stable_check (TCustom CVariant) [x0d; x01; x00; x00; x00; x00; x00; x00; x00] = 0 /\
  stable_check TTime [x80; xa9; x27; xd1; x5e; x5a; xc8; x24] = 0 /\
  stable_check (TCustom CExtObj) [x01; x00; x39; x30; x01; x03; x00; x00; x00; x09; x09; x09] = 0 /\
  stable_check (TCustom CExtObj) [x01; x00; x39; x30; x01; x00; x00; x00; x00] = 0 /\
  stable_check (TCustom CExtObj) [x01; x00; x39; x30; x03; x01; x00; x00; x00; x09] = 0 /\
  stable_check (TCustom CVariant) [x46; x07; x00; x00; x00] = 0 /\
  stable_check (TCustom CVariant) [x46; x07; x00; x00; x00; x01; x02; x03; x04] = 0 /\
  stable_check (TCustom CVariant) ([xc6] ++ le 4 (-1) ++ le 4 0) = 0 /\
  stable_check (TCustom CDataValue) [xc0] = 0 /\
  stable_check (TCustom CDiagInfo) [x80] = 0.
Proof. vm_compute. repeat split; reflexivity. Qed.

Print Assumptions C03_empty_extobj_unstable.
Print Assumptions C03_refuted_empty_extobj.
Print Assumptions C03_registry.
Print Assumptions C03_decoded_wf.
Print Assumptions C03_decoded_rwf.
Print Assumptions C03_partial_stable.
Print Assumptions C03_partial_generated.
Print Assumptions C03_fixed_rows.
