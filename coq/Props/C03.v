(* C03 — decode . encode . decode is stable: whatever decodes successfully can be encoded again (no error, no panic)
   and decodes to the same value.
   Model / tie: as for C01 and C02 (Model.Codec, Gen.UaTypes, codecharness correspondence incl. the re-encoded bytes).
   PROVED: (a) refutation of the full statement by a DateTime outside the int64-nanosecond range (known finding);
           (b) C03_partial_fixpoint: in the reflection-driven fragment (+ GUID, LocalizedText) every well-formed value
               that is its own normal form is re-encodable and decodes to itself, with any following bytes untouched;
               decoded values of that fragment are such values unless a DateTime wrapped (validated by correspondence,
               the lemma "decode only produces wf normal values" is NOT proved);
           (c) the two repaired defects (rows 4, 5) on the model.
   NOT PROVED: stability through NodeID, ExpandedNodeID, DiagnosticInfo, DataValue, Variant, ExtensionObject. *)
From Coq Require Import NArith ZArith List Bool Lia.
From Coq.Strings Require Import Byte.
From Opcua Require Import Model.CodecTypes Model.Codec Model.CodecEq Model.CodecWf Proofs.CodecBase Proofs.CodecRoundtrip Proofs.CodecTotal Gen.UaTypes.
Import ListNotations.
Open Scope Z_scope.

Definition gen_reg : list (Z * Z * ty) := mk_reg eo_table.

(* the property at full strength, on the model *)
Definition C03_statement : Prop :=
  forall t bs v rest al, ptr_ok t = true ->
    decode gen_reg (fuel_for bs) t bs = Ok v rest al ->
    exists bs' al', encode gen_reg t v = EOk bs' /\ decode gen_reg (fuel_for bs') t bs' = Ok v [] al'.

(* executable form of one instance: 0 = stable, 1 = re-encoding fails, 2 = second decode differs, 3 = first decode fails *)
Definition stable_check (t : ty) (bs : bytes) : Z :=
  match decode gen_reg (fuel_for bs) t bs with
  | Ok v _ _ =>
    match encode gen_reg t v with
    | EOk bs' => match decode gen_reg (fuel_for bs') t bs' with
                 | Ok v' [] _ => if val_eqb v' v then 0 else 2
                 | _ => 2
                 end
    | _ => 1
    end
  | _ => 3
  end.

(* REFUTED (known finding C03 datetime-out-of-range): Buffer.ReadTime multiplies the 100 ns tick count by 100 in uint64;
   outside 1677..2262 the product wraps, the wrapped nanosecond value is not a multiple of 100 and WriteTime truncates it,
   so the second decode differs from the first *)
Definition datetime_witness : bytes := [xff; xff; xff; xff; xff; xff; xff; xff].
Theorem C03_refuted_datetime : ~ C03_statement.
Proof.
  intros H.
  destruct (decode gen_reg (fuel_for datetime_witness) TTime datetime_witness) as [v rest al| | |] eqn:Ed.
  2-4: (vm_compute in Ed; discriminate).
  destruct (H TTime datetime_witness v rest al eq_refl Ed) as [bs' [al' [E D]]].
  vm_compute in Ed. inversion Ed; subst v rest al. clear Ed.
  vm_compute in E. inversion E; subst bs'. clear E.
  vm_compute in D. discriminate.
Qed.

Theorem C03_datetime_unstable : stable_check (TCustom CVariant) (x0d :: datetime_witness) = 2 /\
                                stable_check (TCustom CVariant) [x0d; x01; x00; x00; x00; x00; x00; x00; x00] = 2.
Proof. vm_compute. split; reflexivity. Qed.

(* PARTIAL: fixed points of the normalisation in the proved fragment are stable, whatever follows them *)
Theorem C03_partial_fixpoint : forall reg t v, generic_ty t = true -> gwf t v = true -> norm t v = v ->
  exists bs, encode reg t v = EOk bs /\
    forall fuel rest, (1 <= fuel)%nat -> exists al, decode reg fuel t (bs ++ rest) = Ok v rest al.
Proof.
  intros reg t v Hg Hw Hn. destruct (roundtrip_generic reg 0 t Hg v Hw) as [bs [E _]].
  exists bs. split; [exact E|]. intros fuel rest Hf. destruct fuel as [|f]; [lia|].
  destruct (roundtrip_generic reg f t Hg v Hw) as [bs' [E' [_ D]]]. rewrite E in E'. inversion E'; subst bs'.
  rewrite Hn in D. apply D.
Qed.

(* normalisation is idempotent on the primitive values: what a decode of an encoding returns is a fixed point *)
Example C03_fixpoints_exist :
  norm (TStruct [TTime; TFloat 4; TString]) (VStruct [VTime (Some 1700000000000000000); VInt f32qnan; VStr []])
  = VStruct [VTime (Some 1700000000000000000); VInt f32qnan; VStr []] /\
  gwf (TStruct [TTime; TFloat 4; TString]) (VStruct [VTime (Some 1700000000000000000); VInt f32qnan; VStr []]) = true.
Proof. vm_compute. split; reflexivity. Qed.

(* the repaired defects on the model: unknown-type extension object with a body (row 4), extension object with binary
   mask and empty body, Variant mask 0x46 (row 5; also with following bytes left alone), non-canonical masks *)
Theorem C03_fixed_rows :
  stable_check (TCustom CExtObj) [x01; x00; x39; x30; x01; x03; x00; x00; x00; x09; x09; x09] = 0 /\
  stable_check (TCustom CExtObj) [x01; x00; x39; x30; x01; x00; x00; x00; x00] = 0 /\
  stable_check (TCustom CExtObj) [x01; x00; x39; x30; x03; x01; x00; x00; x00; x09] = 0 /\
  stable_check (TCustom CVariant) [x46; x07; x00; x00; x00] = 0 /\
  stable_check (TCustom CVariant) [x46; x07; x00; x00; x00; x01; x02; x03; x04] = 0 /\
  stable_check (TCustom CVariant) ([xc6] ++ le 4 (-1) ++ le 4 0) = 0 /\
  stable_check (TCustom CDataValue) [xc0] = 0 /\
  stable_check (TCustom CDiagInfo) [x80] = 0.
Proof. vm_compute. repeat split; reflexivity. Qed.

Print Assumptions C03_refuted_datetime.
Print Assumptions C03_datetime_unstable.
Print Assumptions C03_partial_fixpoint.
Print Assumptions C03_fixed_rows.
