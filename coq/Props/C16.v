(* C16 — token renewal keeps the channel usable.
   renewal instant : Gen.SendSide.go_renewalDelay, translated from uasc.renewalDelay (Go AST, integer subset) on every
                     run; scheduleRenewal is pinned to `when := renewalDelay(instance.revisedLifetime)`.
   threads         : Model.ChannelSched (the C11 model; every chunk records the token instance that secured it).
   The server handles a renewal on the instance it already has (re-keys it in place, pinned below), so once it has
   answered a renewal it can only verify chunks of the newest token: a request "completes normally" only if its chunks
   are not secured by a superseded instance (not_superseded / tokens_monotone_rev).
   Model.ChannelSchedBeforeFix: the same semantics for the code before fix dd66ad2, kept for the *_before_fix theorems. *)
From Coq Require Import ZArith List Bool Lia String.
From Opcua Require Import Gen.ArithFromGo Gen.SendSide Model.ChannelSched Proofs.ChannelSchedProofs.
From Opcua Require Model.ChannelSchedBeforeFix.
Import ListNotations.
Open Scope Z_scope.

(* ---- when: no earlier than half of the lifetime, and before it expires (FULL, for the code as it is now) ---- *)
Theorem C16_renewal_instant : forall L, 8 <= L -> L <= 2 * go_renewalDelay L /\ go_renewalDelay L < L.
Proof. exact renewal_delay_bounds. Qed.

(* lifetimes travel as whole milliseconds (uint32): exactly 75 % *)
Theorem C16_renewal_instant_ms : forall ms, 1 <= ms -> go_renewalDelay (ms * 1000000) = ms * 750000.
Proof. intros ms H. apply renewal_delay_ms. lia. Qed.

Example C16_renewal_instant_examples :
  go_renewalDelay 1000000000 = 750000000 /\ go_renewalDelay 2500000000 = 1875000000 /\ go_renewalDelay 3600000000000 = 2700000000000.
Proof. vm_compute. repeat split; reflexivity. Qed.

(* which lifetime: the smaller of the requested one and the one the server granted (both uint32 milliseconds),
   in nanoseconds.  go_tokenLifetime is translated from the statements of handleOpenSecureChannelResponse that set
   instance.revisedLifetime (or from a helper tokenLifetime, should the code be restructured) *)
Theorem C16_token_lifetime : forall requested revised, 0 <= requested < 4294967296 -> 0 <= revised < 4294967296 ->
  go_tokenLifetime requested revised = 1000000 * Z.min requested revised.
Proof.
  intros q v Hq Hv. unfold go_tokenLifetime. cbv zeta.
  replace (1000000 * v) with (v * 1000000) by lia. rewrite Z.quot_mul by lia.
  destruct (Z.ltb_spec q v); lia.
Qed.

(* hence the renewal comes before the token the SERVER issued expires, and not before half of the lifetime in use *)
Theorem C16_renewal_before_granted_lifetime_ends : forall requested revised,
  1 <= requested < 4294967296 -> 1 <= revised < 4294967296 ->
  go_renewalDelay (go_tokenLifetime requested revised) < 1000000 * revised /\
  go_tokenLifetime requested revised <= 2 * go_renewalDelay (go_tokenLifetime requested revised).
Proof.
  intros q v Hq Hv. rewrite C16_token_lifetime by lia.
  assert (B : 8 <= 1000000 * Z.min q v) by lia.
  destruct (renewal_delay_bounds _ B) as [H1 H2]. split; [lia|exact H1].
Qed.

(* what the fix repaired: time.Second * time.Duration(lifetime.Seconds() * 0.75), i.e. whole-second truncation
   (exact transcription for lifetimes that are whole milliseconds, where the float computation is exact) *)
Definition renew_at_before_fix (L : Z) : Z := 1000000000 * Z.quot (L * 3) 4000000000.

Definition C16_instant_before_fix : Prop := forall L, 1000000 <= L -> L <= 2 * renew_at_before_fix L /\ renew_at_before_fix L < L.

Theorem C16_refuted_instant_before_fix : ~ C16_instant_before_fix /\
  renew_at_before_fix 1000000000 = 0 /\ renew_at_before_fix 2500000000 = 1000000000.
Proof.
  split; [|vm_compute; split; reflexivity].
  intro H. destruct (H 1000000000 ltac:(lia)) as [X _]. vm_compute in X. apply X. reflexivity.
Qed.

(* ---- once per token: the renewal goroutine is started once per installed token, renews once, does not loop ---- *)
Theorem C16_once_per_token_source :
  src_scheduleRenewal_when = "renewalDelay(instance.revisedLifetime)"%string /\
  src_renewal_started_by = ["s.scheduleRenewal(instance)"]%string /\
  src_renewal_calls = ["s.renew(instance)"]%string /\
  src_scheduleRenewal_loops = 0%nat.
Proof. repeat split; reflexivity. Qed.

(* ---- every request counted in pendingReq is released again on every path (or a renewal would wait for ever with
   the gate locked): pinned to the source.  In SendRequestWithTimeout every return after the Add either follows a
   Done() in its own block or hands over to sendRequestWithTimeout; there Done() is a top-level statement before
   any return; open() adds and hands over at once.  The thread model's EDone/ERenOpn steps rely on exactly this. ---- *)
Theorem C16_pending_count_balanced_source :
  forallb snd src_returns_after_add_SendRequestWithTimeout = true /\
  List.length src_returns_after_add_SendRequestWithTimeout = 2%nat /\
  src_done_before_any_return_sendRequestWithTimeout = true /\
  src_open_add_then_handover = true.
Proof. repeat split; reflexivity. Qed.

(* ---- requests around a renewal ---- *)

(* FULL: under every interleaving of any number of senders and renewals (succeeding or failing) every chunk is
   secured by the instance that was installed at the moment it was written, or by a newer one (the renewal request
   itself): no request is ever sent under a superseded token *)
Theorem C16_no_chunk_under_superseded_token : forall seq0 req0 s,
  reachable seq0 req0 s -> forallb not_superseded (wire_rev s) = true.
Proof. intros; eapply not_superseded_full; eassumption. Qed.

(* ... and as long as no renewal fails the instances along the wire never go back, which is what the server needs:
   it re-keys its one instance in place and can then only verify the newest token *)
Theorem C16_tokens_never_go_back : forall seq0 req0 s,
  reachableP no_fail seq0 req0 s -> tokens_monotone_rev (wire_rev s) = true.
Proof. intros; eapply tokens_monotone_no_fail; eassumption. Qed.

Example C16_tokens_nonvacuous : exists s,
  reachableP no_fail 10 1 s /\ renewals s = 2%nat /\ map c_inst (wire s) = [0; 1; 1; 1; 2; 2]%nat.
Proof.
  eexists. split.
  - exists [ESpawn 0; EGate 0; EActive 0; EId 0; ELockI 0; EChunk 0; EUnlockI 0; EDone 0;
            ERenStart; ERenGate; ERenDrain; ERenLock; ERenCopy; ERenOpn; ERenInstall; ERenUnlock;
            ESpawn 1; EGate 1; EActive 1; EId 1; ELockI 1; EChunk 1; EChunk 1; EUnlockI 1; EDone 1;
            ERenStart; ERenGate; ERenDrain; ERenLock; ERenCopy; ERenOpn; ERenInstall; ERenUnlock;
            ESpawn 0; EGate 2; EActive 2; EId 2; ELockI 2; EChunk 2]%nat. vm_compute. reflexivity.
  - split; vm_compute; reflexivity.
Qed.

(* what fix dd66ad2 repaired (model of the code before it): the sender caught in the renewal window secured its
   chunk with the superseded instance 0 after the renewal request had been written under instance 1 *)
Module Old := Opcua.Model.ChannelSchedBeforeFix.

Definition C16_tokens_statement_before_fix : Prop := forall seq0 req0 s,
  Old.reachable seq0 req0 s -> Old.tokens_monotone_rev (Old.wire_rev s) = true.

Theorem C16_refuted_before_fix_old_token_after_renewal : exists s,
  Old.reachable 1 1 s /\ Old.tokens_monotone_rev (Old.wire_rev s) = false /\ map Old.c_inst (Old.wire s) = [1%nat; 0%nat].
Proof.
  eexists. split.
  - exists [Old.ESpawn 0; Old.EGate 0; Old.EActive 0; Old.ERenStart; Old.ERenGate; Old.ERenDrain; Old.ERenLock; Old.ERenCopy;
            Old.ERenOpn; Old.ERenInstall; Old.ERenUnlock; Old.ECount 0; Old.ELockI 0; Old.EChunk 0]%nat. vm_compute. reflexivity.
  - split; vm_compute; reflexivity.
Qed.

Theorem C16_refuted_before_fix_tokens : ~ C16_tokens_statement_before_fix.
Proof.
  intro H. destruct C16_refuted_before_fix_old_token_after_renewal as (s & R & X & _). rewrite (H 1 1 s R) in X. discriminate.
Qed.

(* the server side of the statement, pinned to the source *)
Theorem C16_tie_server_rekeys_in_place : src_server_rekeys_opening_instance = true /\ src_open_copies_sequence_number = true.
Proof. split; reflexivity. Qed.

Print Assumptions C16_renewal_instant.
Print Assumptions C16_renewal_instant_ms.
Print Assumptions C16_token_lifetime.
Print Assumptions C16_renewal_before_granted_lifetime_ends.
Print Assumptions C16_refuted_instant_before_fix.
Print Assumptions C16_once_per_token_source.
Print Assumptions C16_pending_count_balanced_source.
Print Assumptions C16_no_chunk_under_superseded_token.
Print Assumptions C16_tokens_never_go_back.
Print Assumptions C16_refuted_before_fix_old_token_after_renewal.
Print Assumptions C16_refuted_before_fix_tokens.
Print Assumptions C16_tie_server_rekeys_in_place.
