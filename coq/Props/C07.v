(* C07 — chunking round-trips every message under every policy and mode.
   model      : Model.ChunkModel (hand-written transcription of EncodeChunks, the send loop, signAndEncrypt,
                verifyAndDecrypt, readChunk/Receive/mergeChunks; tied by the chunkharness c07 correspondence)
   formulas   : Gen.ArithFromGo.go_nrChunks / go_nextSequenceNumber / go_SetMaximumBodySize (Go AST, every run)
   parameters : Gen.PolicyParams.sym_policies (obtained by calling uapolicy.Symmetric on every run)
   crypto     : any pair of algorithms satisfying `link` (Proofs.ChunkProofs); the toy pair used by the harness
                satisfies it (C07_link_satisfiable). *)
From Coq Require Import ZArith Bool List Lia.
From Coq.Strings Require Import Byte.
From Opcua Require Import Model.Layout Model.ChunkBytes Model.ChunkModel Model.ChunkToy
  Proofs.LayoutProofs Proofs.ChunkBytesProofs Proofs.ChunkProofs Proofs.ChunkReassembly Proofs.ChunkToyProofs
  Gen.ArithFromGo Gen.PolicyParams.
Import ListNotations.
Open Scope Z_scope.

Definition p_ok7 (p : sym_params) : bool :=
  params_ok7 (sp_block p) (sp_plain p) (sp_sig p) (sp_rsig p).

(* the algorithm record has the sizes of policy p *)
Definition has_sizes (A : algo) (p : sym_params) : Prop :=
  a_block A = sp_block p /\ a_plain A = sp_plain p /\ a_sig A = sp_sig p /\ a_rsig A = sp_rsig p.

Definition go_max (cs : Z) (p : sym_params) : Z :=
  go_SetMaximumBodySize cs (sp_block p) (sp_plain p) (sp_sig p) (sp_rsig p).

Definition u32 (x : Z) : Prop := 0 <= x < 4294967296.

(* a negotiated limit: 0 means "no limit" *)
Definition within (limit x : Z) : Prop := limit = 0 \/ x <= limit.

(* every policy the code registers satisfies the side conditions *)
Theorem C07_params : forallb p_ok7 sym_policies = true.
Proof. vm_compute. reflexivity. Qed.

Lemma p_ok7_in p : In p sym_policies -> p_ok7 p = true.
Proof. apply (proj1 (forallb_forall _ _) C07_params). Qed.

Lemma go_max_facts p cs : In p sym_policies -> 8192 <= cs < 4294967296 ->
  go_max cs p = max_body cs (sp_block p) (sp_plain p) (sp_sig p) (sp_rsig p) /\ 0 < go_max cs p < cs /\
  params_ok (sp_block p) (sp_plain p) (sp_sig p) (sp_rsig p) = true.
Proof.
  intros Hin Hcs. pose proof (p_ok7_in p Hin) as H7. unfold p_ok7, params_ok7 in H7.
  pose proof H7 as H7'. apply andb_true_iff in H7'. destruct H7' as [Hp _].
  unfold go_max. rewrite go_max_body_eq by (try exact Hp; lia).
  split; [reflexivity|]. split; [|exact Hp]. split.
  - apply max_body_pos; [exact H7 | lia].
  - apply max_body_lt_cs; [exact Hp | lia].
Qed.

(* REASSEMBLY.  Every registered policy, every mode, every chunk size >= 8192 (uint32), any two algorithms of
   the policy's sizes linked as sender/receiver, every body within the limits negotiated in HEL/ACK
   (the sender checks the peer's limits before writing, the receiver its own; 0 = no limit), every reachable
   counter value: SendMsg writes chunks from which the peer's Receive delivers exactly the body. The receiver's
   sequence check (numbers received on a channel must increase, roll-over allowed) starts from no chunk seen or from
   the sender's previous number and ends at the sender's new counter, which is again a uint32: the statement is an
   invariant over every message of a channel's life, including the roll-over at 2^32-1024. *)
Theorem C07_reassemble :
  forall p S R m pnone cs chan tok req s0 body maxchunks maxmsg t rlast,
  In p sym_policies -> has_sizes S p -> link S R ->
  8192 <= cs < 4294967296 -> u32 chan -> u32 req ->
  u32 s0 ->
  zlen body < 4294967295 -> within maxmsg (zlen body) -> u32 maxmsg ->
  within maxchunks (zlen body / go_max cs p + 1) -> u32 maxchunks ->
  tbl_get t req = [] -> (rlast = None \/ rlast = Some s0) ->
  exists ws sn t',
    send_message m S MSG chan tok req (go_max cs p) s0 maxchunks maxmsg body = Ok (ws, sn) /\
    receive_run (mkRcfg m pnone R chan maxchunks maxmsg) (t, rlast) ws = ((t', Some sn), [Deliver req chan body]) /\
    u32 sn.
Proof.
  intros p S R m pnone cs chan tok req s0 body maxchunks maxmsg t rlast Hin (Hb & Hpl & Hsg & Hrs) L Hcs Hch Hrq Hs0 Hbl Hbm Hmm Hcnt Hmc Ht Hrl.
  destruct (go_max_facts p cs Hin Hcs) as (Hmax & Hrange & Hp).
  pose proof (params_ok_spec _ _ _ _ Hp) as (Hp1 & Hp2 & Hp3 & Hp4 & Hp5).
  assert (Hcnt' : maxchunks = 0 \/ zlen body / go_max cs p <= maxchunks) by (destruct Hcnt; [left; assumption | right; lia]).
  destruct (send_receive S R m pnone chan tok req (go_max cs p) s0 maxchunks maxmsg body maxchunks maxmsg t rlast L
              ltac:(rewrite Hpl; lia) ltac:(rewrite Hsg; lia) Hch Hrq ltac:(lia) Hs0 Hbl Hmc ltac:(destruct Hmm; lia) Hcnt Hbm Hbm Hmm Hcnt' Hmc Ht Hrl)
    as (ws & sn & t' & Hsend & Hrecv & Hall).
  exists ws, sn, t'. split; [exact Hsend|]. split; [exact Hrecv|].
  (* the final counter *)
  unfold send_message in Hsend. rewrite encode_chunks_ok in Hsend by (try assumption; lia).
  destruct (check_peer_limits maxchunks maxmsg _) in Hsend; [discriminate|].
  pose proof (next_range s0 Hs0) as Hs1.
  destruct (send_loop_ok S R L ltac:(rewrite Hpl; lia) ltac:(rewrite Hsg; lia) m pnone chan tok req Hch Hrq
              (items (go_max cs p) body) true (go_nextSequenceNumber s0) (go_nextSequenceNumber s0))
    as (ws' & Hsend' & _); [intros _; split; [reflexivity | lia] | discriminate |].
  rewrite Hsend' in Hsend. injection Hsend as _ <-.
  pose proof (numbered_final (items (go_max cs p) body) true (go_nextSequenceNumber s0) ltac:(lia)). unfold u32. lia.
Qed.

(* SIZES AND FLAGS.  Every chunk written fits the chunk size, its MessageSize field equals its length,
   all chunks but the last are intermediate ('C'), the last is final ('F'); there are len/max + 1 chunks
   (so a body that is an exact multiple of the maximum ends with an empty final chunk). *)
Theorem C07_sizes :
  forall p S R m cs chan tok req s0 body maxchunks maxmsg ws sn,
  In p sym_policies -> has_sizes S p -> link S R ->
  8192 <= cs < 4294967296 -> u32 chan -> u32 req ->
  u32 s0 ->
  zlen body < 4294967295 -> within maxmsg (zlen body) -> u32 maxmsg ->
  within maxchunks (zlen body / go_max cs p + 1) -> u32 maxchunks ->
  send_message m S MSG chan tok req (go_max cs p) s0 maxchunks maxmsg body = Ok (ws, sn) ->
  exists cws fw, ws = cws ++ [fw] /\
    zlen cws = zlen body / go_max cs p /\
    Forall (fun w => zlen w <= cs /\ de32 (zdrop 4 w) = zlen w /\ znth 3 w = "C"%byte) cws /\
    zlen fw <= cs /\ de32 (zdrop 4 fw) = zlen fw /\ znth 3 fw = "F"%byte.
Proof.
  intros p S R m cs chan tok req s0 body maxchunks maxmsg ws sn Hin (Hb & Hpl & Hsg & Hrs) L Hcs Hch Hrq Hs0 Hbl Hbm Hmm Hcnt Hmc Hsend.
  destruct (go_max_facts p cs Hin Hcs) as (Hmax & Hrange & Hp).
  pose proof (params_ok_spec _ _ _ _ Hp) as (Hp1 & Hp2 & Hp3 & Hp4 & Hp5).
  assert (Hcnt' : maxchunks = 0 \/ zlen body / go_max cs p <= maxchunks) by (destruct Hcnt; [left; assumption | right; lia]).
  destruct (send_receive S R m false chan tok req (go_max cs p) s0 maxchunks maxmsg body maxchunks maxmsg [] None L
              ltac:(rewrite Hpl; lia) ltac:(rewrite Hsg; lia) Hch Hrq ltac:(lia) Hs0 Hbl Hmc ltac:(destruct Hmm; lia) Hcnt Hbm Hbm Hmm Hcnt' Hmc eq_refl (or_introl eq_refl))
    as (ws' & sn' & t' & Hsend' & _ & Hall).
  rewrite Hsend' in Hsend. injection Hsend as <- <-.
  destruct (send_shapes S R m false chan req (go_max cs p) _ body ws' ltac:(lia) Hall)
    as (cws & fw & -> & HC & HFt & HFl & HFs & Hn).
  rewrite Hb, Hpl, Hsg, Hrs in *.
  exists cws, fw. split; [reflexivity|]. split; [exact Hn|].
  assert (Hfit : forall n, 0 <= n <= go_max cs p ->
            secured_len m (sp_block p) (sp_plain p) (sp_sig p) (sp_rsig p) 16 (8 + n) <= cs).
  { intros n Hn'. apply secured_fits_all; [exact Hp | lia | rewrite <- Hmax; exact Hn']. }
  split.
  - eapply Forall_impl; [|exact HC]. intros w (Hty & Hlen & Hsz).
    pose proof (Hfit (go_max cs p) ltac:(lia)) as Hle. rewrite <- Hlen in Hle.
    repeat split; [exact Hle | apply Hsz; lia | exact Hty].
  - pose proof (Z.mod_pos_bound (zlen body) (go_max cs p) ltac:(lia)) as Hr.
    pose proof (Hfit (zlen body mod go_max cs p) ltac:(lia)) as Hle. rewrite <- HFl in Hle.
    repeat split; [exact Hle | apply HFs; lia | exact HFt].
Qed.

(* the hypotheses are satisfiable: the toy pair the harness plugs into real channel instances is a `link`
   with the sizes of Basic256Sha256, and a 20000-byte body at chunk size 8192 travels in three chunks *)
Example C07_link_satisfiable :
  link (toy_sym_algo 16 32 7 9) (toy_sym_algo 16 32 9 7) /\ has_sizes (toy_sym_algo 16 32 7 9) sym_Basic256Sha256.
Proof. split; [apply toy_sym_link; lia | repeat split]. Qed.

Example C07_nonvacuous :
  match send_message ModeSignEnc (toy_sym_algo 16 32 7 9) MSG 7 9 11 (go_max 8192 sym_Basic256Sha256) 5 512 2097152 (gen_body 20000 1 3) with
  | Ok (ws, sn) => map zlen ws = [8192; 8192; 3792] /\ sn = 8 /\
      receive_all (mkRcfg ModeSignEnc false (toy_sym_algo 16 32 9 7) 7 512 2097152) ([], Some 5) ws = [Deliver 11 7 (gen_body 20000 1 3)]
  | _ => False
  end.
Proof. vm_compute. repeat split. Qed.

(* also at the counter value 2^32-1, after which the first chunk is numbered 0 (mergeChunks' duplicate filter
   used to drop such a chunk; repaired by the C12 fix, which this model follows) *)
Example C07_first_chunk_numbered_zero :
  match send_message ModeNone (toy_sym_algo 1 0 0 0) MSG 7 9 11 4 4294967295 0 0 (gen_body 6 1 1) with
  | Ok (ws, sn) => receive_all (mkRcfg ModeNone true (toy_sym_algo 1 0 0 0) 7 512 2097152) ([], Some 4294967295) ws = [Deliver 11 7 (gen_body 6 1 1)] /\ sn = 1
  | _ => False
  end.
Proof. vm_compute. split; reflexivity. Qed.

Print Assumptions C07_params.
Print Assumptions C07_reassemble.
Print Assumptions C07_sizes.
