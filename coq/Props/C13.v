(* C13 — the channel receive path survives any peer byte stream.
   model : Model.RecvFrame.read_frame (readChunk on one UACP frame in any channel state; certificate parsing and
           uapolicy.Asymmetric are an oracle parameter), then Model.RecvMerge.recv_step (the Receive loop's buffering).
   Frames are what uacp.Conn.Receive hands on (C05/C06: at least 8 bytes, at most ReceiveBufSize, buffer capacity
   ReceiveBufSize; the handshake guarantees ReceiveBufSize >= 8192).  Decoding of the merged body (ua.DecodeService) is C02.
   Three statements: no panic (full), progress (by construction: one structurally recursive step per frame),
   bounded memory (refuted: known finding chunk-table-request-ids-unbounded; partial: per request id) and
   never blocks forever (holds since the dispatcher hand-off was repaired). *)
From Coq Require Import NArith ZArith List Bool Lia.
From Opcua Require Import Model.RecvBase Model.RecvCrypto Model.RecvMerge Model.RecvChan Model.RecvFrame
  Proofs.RecvBaseProofs Proofs.RecvCryptoProofs Proofs.RecvMergeProofs Proofs.RecvFrameProofs Gen.RecvLocks.
Import ListNotations.

(* the Receive loop over a stream of frames: every frame is read, a chunk that comes out is buffered / merged *)
Fixpoint run_frames (un : bytes -> bool) (cc : bytes -> N) (af : bytes -> bytes -> option algo) (mc ms : N)
         (st : fstate) (t : ctable) (frames : list bytes) : list (res (option rout)) :=
  match frames with
  | [] => []
  | b :: r =>
      let '(st', o) := read_frame un cc af true st b in
      match o with
      | Ok c => let '(t', out) := recv_step mc ms t c in Ok out :: run_frames un cc af mc ms st' t' r
      | Err e => Err e :: run_frames un cc af mc ms st' t r
      | Panic p => [Panic p]
      end
  end.

(* No panic: any stream of frames, any channel state (client or server; before, during, after the open; any mode; any
   instances with any algorithm functions, also instances without an algorithm), any certificate oracle. *)
Theorem C13_no_panic : forall un cc af mc ms frames st t,
  state_ok af st -> Forall (fun r => forall p, r <> Panic p) (run_frames un cc af mc ms st t frames).
Proof.
  intros un cc af mc ms frames. induction frames as [|b r IH]; intros st t Hok; [constructor|].
  cbn [run_frames]. pose proof (read_frame_no_panic un cc af st b) as Hnp. pose proof (read_frame_state_ok un cc af st b Hok) as Hok'.
  destruct (read_frame un cc af true st b) as [st' o]. cbn [fst snd] in *.
  destruct o as [c|e|p].
  - destruct (recv_step mc ms t c) as [t' out]. constructor; [discriminate|]. now apply IH.
  - constructor; [discriminate|]. now apply IH.
  - exfalso. now apply (Hnp p Hok).
Qed.

(* Progress: every frame produces exactly one step (nothing is re-read, no loop depends on the peer's bytes). *)
Theorem C13_progress : forall un cc af mc ms frames st t,
  state_ok af st -> length (run_frames un cc af mc ms st t frames) = length frames.
Proof.
  intros un cc af mc ms frames. induction frames as [|b r IH]; intros st t Hok; [reflexivity|].
  cbn [run_frames]. pose proof (read_frame_no_panic un cc af st b) as Hnp. pose proof (read_frame_state_ok un cc af st b Hok) as Hok'.
  destruct (read_frame un cc af true st b) as [st' o]. cbn [fst snd] in *.
  destruct o as [c|e|p].
  - destruct (recv_step mc ms t c) as [t' out]. cbn [length]. f_equal. now apply IH.
  - cbn [length]. f_equal. now apply IH.
  - exfalso. now apply (Hnp p Hok).
Qed.

(* The model treats one frame as one atomic, total step.  In the code the buffering part of that step runs under s.chunksMu;
   the step is only atomic-and-terminating if every way out of Receive's loop body releases the mutex.  This is checked on
   the source: Gen.RecvLocks lists every return / continue of SecureChannel.Receive with the lock state it is reached
   in (go/ast path analysis, regenerated on every run). *)
Theorem C13_receive_releases_lock : receive_lock_balanced = true /\ (0 < receive_lock_sites)%Z.
Proof. vm_compute. split; reflexivity. Qed.

Open Scope N_scope.

(* Memory, what holds: with a chunk limit in force no request id ever holds more than MaxChunkCount chunks. *)
Theorem C13_partial_per_request_id : forall mc ms cs,
  0 < mc -> mc < 4294967295 -> forall r, nlen (cget (fst (recv_all mc ms [] cs)) r) <= mc.
Proof.
  intros mc ms cs H1 H2. apply (recv_all_per_id mc ms cs [] H1 H2). intro r. cbn. lia.
Qed.

(* Memory, the statement of the property: the chunks held for incomplete messages are bounded by a function of the
   negotiated limits.  False: the number of request ids is not limited by anything. *)
Definition retained_ids (t : ctable) (ids : list N) : Prop := NoDup ids /\ forall r, In r ids -> cget t r <> [].
Definition C13_memory_statement : Prop :=
  forall mc ms, 0 < mc -> exists bound : nat, forall cs ids, retained_ids (fst (recv_all mc ms [] cs)) ids -> (length ids <= bound)%nat.

Theorem C13_refuted_request_ids_unbounded : ~ C13_memory_statement.
Proof.
  intro H. destruct (H 4 1000 ltac:(lia)) as [bound Hb].
  specialize (Hb (flood (S bound)) (map ck_req (flood (S bound)))).
  assert (Hr : retained_ids (fst (recv_all 4 1000 [] (flood (S bound)))) (map ck_req (flood (S bound)))).
  { split; [apply flood_nodup|]. intros r Hin. apply in_map_iff in Hin. destruct Hin as (c & <- & Hc).
    rewrite (flood_retained 4 1000 (flood (S bound)) ltac:(lia) [] (flood_nodup _)); [discriminate| |exact Hc].
    intros c' Hc'. unfold flood in Hc'. apply in_map_iff in Hc'. destruct Hc' as (i & <- & _). split; reflexivity. }
  specialize (Hb Hr). rewrite map_length in Hb. unfold flood in Hb. rewrite map_length, seq_length in Hb. lia.
Qed.

(* Blocking: after the repair of the dispatcher / open() hand-off (fixed: see known_findings.txt) no delivered message,
   solicited or not, whatever its request id and type, in any dispatcher state, makes the dispatcher wait for ever. *)
Theorem C13_dispatch_never_blocks : forall s m, disp_step true s m <> None.
Proof.
  intros s [req osc]. unfold disp_step. destruct (existsb (N.eqb req) (d_handlers s)); [|discriminate].
  destruct (d_opening s) as [r|]; [destruct (osc && negb (req =? 0) && (r =? req)); discriminate|].
  rewrite andb_false_r. discriminate.
Qed.

(* before the repair an unsolicited OpenSecureChannelResponse whose request id had a handler stopped the channel *)
Definition never_blocks_before_fix : Prop := forall s m, disp_step false s m <> None.
Theorem C13_refuted_rcvlocker_wedge_before_fix : ~ never_blocks_before_fix.
Proof. intro H. apply (H {| d_handlers := [5]; d_opening := None |} (DMsg 5 true)). reflexivity. Qed.

(* The defects that were repaired (fixed: see known_findings.txt): before the guards a short secured chunk (C09) and an
   OPN chunk under policy None on a secured channel whose opening instance has no algorithm yet panicked. *)
Definition frame_no_panic_prefix : Prop := forall un cc af st b p,
  state_ok af st -> snd (read_frame un cc af false st b) <> Panic p.
Definition opn_none : bytes :=
  [79;80;78;70; 44;0;0;0; 7;0;0;0; 0;0;0;0; 255;255;255;255; 255;255;255;255; 1;0;0;0; 1;0;0;0; 0;0;0;0; 0;0;0;0; 0;0;0;0].
Theorem C13_prefix_refuted : ~ frame_no_panic_prefix.
Proof.
  intro H.
  apply (H (fun u => match u with [] => true | _ => false end) (fun _ => 0%N) (fun _ _ => None)
           {| f_mode := SSign; f_pnone := false; f_opening := Some None; f_insts := []; f_cap := 65535; f_last := None |} opn_none P_NIL).
  - split; [cbn; lia|]. split; [intros c l a []|]. split; [intros oa [= <-]; exact I | discriminate].
  - vm_compute. reflexivity.
Qed.

Definition ex_state : fstate :=
  {| f_mode := SSign; f_pnone := false; f_opening := Some None;
     f_insts := [(7, [Some {| a_dec := toy_dec 16 165; a_verify := toy_verify 77; a_rsl := 32; a_lsl := 32 |}])]; f_cap := 8192; f_last := None |}.
Definition ex_short : bytes := [77;83;71;70; 20;0;0;0; 7;0;0;0; 2;0;0;0; 9;9;9;9].
Example C13_nonvacuous :
  state_ok (fun _ _ => None) ex_state /\
  run_frames (fun u => match u with [] => true | _ => false end) (fun _ => 0%N) (fun _ _ => None) 4 1000 ex_state []
     [opn_none; ex_short; [77;83;71;70;8;0;0;0]] = [Err E_SEC; Err E_SEC; Err E_DECODE].
Proof.
  split; [|vm_compute; reflexivity].
  split; [cbn; lia|]. split; [|split; [intros oa [= <-]; exact I | discriminate]].
  intros c l a [[= <- <-]|[]] [<-|[]]. cbn. lia.
Qed.

Print Assumptions C13_no_panic.
Print Assumptions C13_progress.
Print Assumptions C13_receive_releases_lock.
Print Assumptions C13_partial_per_request_id.
Print Assumptions C13_refuted_request_ids_unbounded.
Print Assumptions C13_dispatch_never_blocks.
Print Assumptions C13_refuted_rcvlocker_wedge_before_fix.
Print Assumptions C13_prefix_refuted.
