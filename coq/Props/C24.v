(* C24 — endpoint selection returns a best matching endpoint.
   tables : Gen.EndpointTables (ua.SecurityPolicyURIs, prefix, MessageSecurityModeInvalid; regenerated on every run)
   model  : Model.EndpointSelect.select_sorted = opcua.SelectEndpoint after its in-place sort (hand-written,
            tied by correspondence: the harness reads the sorted slice after the call)
   The sort is unstable, so every theorem quantifies over ALL descending-sorted permutations s of the input. *)
From Coq Require Import List Bool NArith Permutation.
From Coq.Strings Require Import Byte.
From Opcua Require Import Model.PureBytes Model.EndpointSelect Proofs.EndpointSelectProofs Gen.EndpointTables.
Import ListNotations.
Open Scope N_scope.

Definition go_format := format_policy security_policy_uris security_policy_uri_prefix.
Definition go_select := select_sorted security_policy_uris security_policy_uri_prefix mode_invalid.
(* "matches the requested criteria": policy omitted or equal (after short-name normalisation), mode omitted or equal *)
Definition go_matches := matches security_policy_uris security_policy_uri_prefix mode_invalid.

(* every short name and every URI of the code's table normalise to the URI; no entry is empty *)
Theorem C24_table : table_ok security_policy_uris security_policy_uri_prefix = true.
Proof. vm_compute. reflexivity. Qed.

Lemma table_nonempty_values : forallb (fun kv : bytes * bytes => negb (is_empty (snd kv))) security_policy_uris = true.
Proof. vm_compute. reflexivity. Qed.

Lemma go_matches_uri : forall policy mode e, go_matches policy mode e = matches_uri mode_invalid (go_format policy) mode e.
Proof. intros. apply matches_is_matches_uri. apply format_policy_empty_iff. exact table_nonempty_values. Qed.

(* Full statement: any list without nil pointers, any query, any slice s the sort may have left behind *)
Theorem C24_best : forall eps s policy mode,
  no_nil eps -> Permutation eps s -> sorted_desc s = true ->
  match go_select s policy mode with
  | SelOk i o => exists e, o = Some e /\ nth_error s i = Some (Some e) /\ In (Some e) eps /\ go_matches policy mode e = true /\
                 (forall e', In (Some e') eps -> go_matches policy mode e' = true -> ep_level e' <= ep_level e)
  | SelErr ErrNoEndpoints => eps = []
  | SelErr ErrNoMatch => eps <> [] /\ forall e', In (Some e') eps -> go_matches policy mode e' = false
  | SelPanic => False
  end.
Proof.
  intros eps s policy mode Hnn HP Hs.
  pose proof (select_sorted_best security_policy_uris security_policy_uri_prefix mode_invalid eps s policy mode Hnn HP Hs) as H.
  unfold go_select. destruct (select_sorted _ _ _ s policy mode) as [i o|[]|]; cbn [best_spec] in H.
  - destruct H as (e & He & Hn & Hin & Hm & Hmax). exists e. rewrite go_matches_uri. repeat split; try assumption.
    intros e' Hin' Hm'. rewrite go_matches_uri in Hm'. apply Hmax; assumption.
  - exact H.
  - destruct H as [H1 H2]. split; [exact H1|]. intros e' Hin. rewrite go_matches_uri. apply H2. exact Hin.
  - exact H.
Qed.

Theorem C24_error_iff_no_match : forall eps s policy mode,
  no_nil eps -> Permutation eps s -> sorted_desc s = true ->
  ((exists x, go_select s policy mode = SelErr x) <-> (forall e', In (Some e') eps -> go_matches policy mode e' = false)).
Proof.
  intros eps s policy mode Hnn HP Hs. unfold go_select.
  rewrite (select_sorted_error_iff security_policy_uris security_policy_uri_prefix mode_invalid eps s policy mode Hnn HP Hs).
  split; intros H e' Hin; [rewrite go_matches_uri | rewrite <- go_matches_uri]; apply H; exact Hin.
Qed.

(* whatever the unstable sort does, the security level of the answer is determined by the input *)
Theorem C24_level_independent_of_sort : forall eps s1 s2 policy mode i1 e1 i2 e2,
  no_nil eps -> Permutation eps s1 -> sorted_desc s1 = true -> Permutation eps s2 -> sorted_desc s2 = true ->
  go_select s1 policy mode = SelOk i1 (Some e1) -> go_select s2 policy mode = SelOk i2 (Some e2) -> ep_level e1 = ep_level e2.
Proof. exact (select_sorted_level_unique security_policy_uris security_policy_uri_prefix mode_invalid). Qed.

(* a short name and its URI are the same query *)
Theorem C24_short_name_is_uri : forall k v, In (k, v) security_policy_uris -> go_format k = v /\ go_format v = v.
Proof.
  intros k v Hin. pose proof C24_table as H. unfold table_ok in H. rewrite forallb_forall in H. specialize (H _ Hin).
  cbn [fst snd] in H. rewrite !andb_true_iff in H. destruct H as [[_ H1] H2].
  apply Proofs.PureBytesProofs.beqb_eq in H1, H2. split; assumption.
Qed.

(* the hypotheses are satisfiable for every input: a descending-sorted permutation always exists *)
Theorem C24_sorted_permutation_exists : forall eps, exists s, Permutation eps s /\ sorted_desc s = true.
Proof. intro eps. exists (sort_desc eps). split; [apply sort_desc_perm | apply sort_desc_sorted]. Qed.

(* what the correspondence check establishes per case is exactly the hypothesis of C24_best *)
Theorem C24_check_sound : forall (eps : list (option endpoint)) idx s,
  is_perm_of idx (seq 0 (length eps)) = true -> pick eps idx = Some s -> Permutation eps s.
Proof. exact (perm_check_sound (option endpoint)). Qed.

Definition ex_none := [x68;x74;x74;x70;x3a;x2f;x2f;x6f;x70;x63;x66;x6f;x75;x6e;x64;x61;x74;x69;x6f;x6e;x2e;x6f;x72;x67;x2f;x55;x41;x2f;x53;x65;x63;x75;x72;x69;x74;x79;x50;x6f;x6c;x69;x63;x79;x23;x4e;x6f;x6e;x65].
Definition ex_eps := [Some {| ep_uri := ex_none; ep_mode := 1; ep_level := 0 |};
                      Some {| ep_uri := ex_none ++ [x58]; ep_mode := 3; ep_level := 7 |};
                      Some {| ep_uri := ex_none ++ [x58]; ep_mode := 2; ep_level := 7 |}].
(* non-vacuity: three endpoints, two of them tied at the top level; short name "None" selects the None endpoint,
   "don't care" selects a level-7 endpoint, an unknown mode gives ErrNoMatch *)
Example C24_nonvacuous :
  no_nil ex_eps /\ sorted_desc (sort_desc ex_eps) = true /\
  go_select (sort_desc ex_eps) [x4e;x6f;x6e;x65] mode_invalid = SelOk 2 (nth 0 ex_eps None) /\
  go_select (sort_desc ex_eps) [] mode_invalid = SelOk 0 (nth 2 ex_eps None) /\
  go_select (sort_desc ex_eps) [] 9 = SelErr ErrNoMatch.
Proof. split; [repeat constructor; discriminate|]. vm_compute. repeat split; reflexivity. Qed.

Print Assumptions C24_table.
Print Assumptions C24_best.
Print Assumptions C24_error_iff_no_match.
Print Assumptions C24_level_independent_of_sort.
Print Assumptions C24_short_name_is_uri.
Print Assumptions C24_sorted_permutation_exists.
Print Assumptions C24_check_sound.
