(* C18 — each request receives its own response, whatever the concurrency and ordering.
   model      : Model.SendCorr (hand-written transcription of sendRequestWithTimeout / sendAsyncWithTimeout /
                dispatcher / popHandler; tied by the schedharness correspondence: scripted server, concurrent real callers)
   request id : Gen.ArithFromGo.go_nextRequestID (translated from the Go AST on every run)
   shape pins : Gen.SendSide.src_* (re-read from uasc/secure_channel.go with go/ast on every run)
   `reachable VNow seed s`: s is reached from a fresh channel (counter = seed) by ANY finite interleaving of ANY number
   of callers and the dispatcher with ANY sequence of messages from the peer (ENet m, m arbitrary, at any time). *)
From Coq Require Import ZArith List Bool Lia String.
From Opcua Require Import Gen.ArithFromGo Gen.SendSide Model.SendCorr Proofs.SendCorrProofs.
Import ListNotations.
Open Scope Z_scope.

(* a call that returns success holds a response whose request id is the call's own, that carries no error and whose
   type is the one the caller's handler accepts (so a response of another type is never a success) *)
Theorem C18_own_response : forall seed s t k w id u m,
  reachable VNow seed s -> cs s t = CDone k w id (ROk u m) ->
  m_id m = id /\ m_err m = false /\ m_ty m = Some w.
Proof. intros; eapply own_response; eassumption. Qed.

(* also error returns that consumed a message consumed one addressed to the call *)
Theorem C18_consumed_is_own : forall seed s t k w id r u m,
  reachable VNow seed s -> cs s t = CDone k w id r -> res_msg r = Some (u, m) -> m_id m = id.
Proof. intros; eapply consumed_is_own; eassumption. Qed.

(* no received message (u = its arrival index, unique per frame, so a duplicated frame counts twice) is handed to two
   callers, and once consumed it is neither in any caller's channel nor held by the dispatcher *)
Theorem C18_consumed_once : forall seed s t1 t2 k1 w1 id1 r1 k2 w2 id2 r2 u m1 m2,
  reachable VNow seed s ->
  cs s t1 = CDone k1 w1 id1 r1 -> res_msg r1 = Some (u, m1) ->
  cs s t2 = CDone k2 w2 id2 r2 -> res_msg r2 = Some (u, m2) -> t1 = t2.
Proof. intros; eapply consumed_once; eassumption. Qed.

Theorem C18_consumed_not_pending : forall seed s t k w id r u m t' m',
  reachable VNow seed s -> cs s t = CDone k w id r -> res_msg r = Some (u, m) ->
  slot s t' <> Some (u, m') /\ disp_msg (d s) <> Some (u, m').
Proof. intros; eapply consumed_not_pending; eassumption. Qed.

(* the buffered channel of size one never overflows: the dispatcher never drops a response it has a handler for *)
Theorem C18_never_overflows : forall seed s, reachable VNow seed s -> overflow s = false.
Proof. intros; eapply never_overflows; eassumption. Qed.

(* wrong type => error *)
Theorem C18_wrong_type_is_error : forall s t k w id u m s',
  cs s t = CWait k w id -> slot s t = Some (u, m) -> m_ty m <> Some w ->
  step VNow s (ETake t) = Some s' ->
  exists r, cs s' t = CDone k w id r /\ (r = RErrStatus u m \/ r = RErrHandler u m).
Proof. intros; eapply wrong_type_is_error; eassumption. Qed.

(* the Go counter, in closed form: ids run through 1 .. 2^32-1 and skip 0 *)
Theorem C18_request_id_formula : forall x, 0 <= x <= 4294967295 ->
  go_nextRequestID x = x mod 4294967295 + 1 /\ 1 <= go_nextRequestID x <= 4294967295.
Proof. intros x H. split; [apply next_id_closed | apply next_id_range]; exact H. Qed.

(* the request id counter only ever advances by the translated step: no step of the channel hands an id back, so an id
   that has been given to a call is not given to another one before the counter has gone round *)
Theorem C18_id_counter_only_advances : forall s e s', step VNow s e = Some s' ->
  next_req s' = next_req s \/ next_req s' = go_nextRequestID (next_req s).
Proof. intros; eapply step_next_req; eassumption. Qed.

(* PROVISO (id wrap): while at most 2^32 - 1 request ids have been handed out on the channel, no two calls have the
   same id ... *)
Theorem C18_ids_distinct_until_wrap : forall seed s t1 t2 i,
  reachable VNow seed s -> 0 <= seed <= 4294967295 -> Z.of_nat (g_nalloc s) <= 4294967295 ->
  id_of (cs s t1) = Some i -> id_of (cs s t2) = Some i -> t1 = t2.
Proof. intros; eapply ids_distinct; eassumption. Qed.

(* ... and then, if the peer answers requests with their own ids (`honest`: it may still reorder, drop, duplicate,
   fault, send wrong types and unsolicited messages), a successful call holds the answer to ITS OWN request.
   Beyond a full wrap of the 32-bit counter a response delayed for 2^32 - 1 requests is indistinguishable on the
   wire from the answer to the newer request with the same id: that is the protocol's own limit. *)
Theorem C18_own_answer : forall seed s t k w id u m t',
  reachableP honest VNow seed s -> 0 <= seed <= 4294967295 -> Z.of_nat (g_nalloc s) <= 4294967295 ->
  cs s t = CDone k w id (ROk u m) -> m_for m = Some t' -> t' = t.
Proof. intros; eapply own_answer; eassumption. Qed.

(* hypotheses are satisfiable: three callers just below the wrap of the counter (ids 4294967295, 1, 2), answered in
   reverse order by an honest peer; a duplicate of the first answer and an unsolicited message are dropped *)
Definition ex_trace : list ev :=
  [EAlloc 0%nat KReq 676; EAlloc 1%nat KReq 676; ERegister 1%nat; EAlloc 2%nat KReq 676; ERegister 0%nat; EWrite 1%nat true; ERegister 2%nat;
   EWrite 0%nat true; EWrite 2%nat true;
   ENet (Msg 2 (Some 676) false (Some 2%nat)); EPop; ELock; EDeliver; EResume;
   ENet (Msg 1 (Some 676) false (Some 1%nat)); EPop; ETake 2%nat; ELock; EDeliver; EResume;
   ENet (Msg 2 (Some 676) false (Some 2%nat)); EPop;
   ENet (Msg 77 (Some 676) false None); EPop;
   ENet (Msg 4294967295 (Some 676) false (Some 0%nat)); EPop; ELock; EDeliver; ETake 1%nat; ETake 0%nat; EResume].

Example C18_nonvacuous : exists s,
  reachableP honest VNow 4294967294 s /\ Z.of_nat (g_nalloc s) <= 4294967295 /\
  map (outcome s) [0%nat; 1%nat; 2%nat] = [(0, 4294967295, 4); (0, 1, 1); (0, 2, 0)].
Proof. eexists. split; [exists ex_trace; vm_compute; reflexivity|]. vm_compute. split; [discriminate|reflexivity]. Qed.

(* the shape of the code the model transcribes, re-read from the source on every run *)
Theorem C18_tie_source_shape :
  src_sync_dispatcher = ["s.Receive(ctx)"; "s.popHandler(msg.RequestID)";
     "s.rcvLocker.lockIf(func() bool { return msg.RequestID != 0 && atomic.LoadUint32(&s.openingReqID) == msg.RequestID })";
     "s.rcvLocker.waitIfLock()"]%string /\
  src_select_branches = [("<-ctx.Done()", true); ("<-s.disconnected", true); ("msg := <-ch", false); ("<-timer.C", true)]%string /\
  src_sync_SendRequestWithTimeout = ["s.reqLocker.waitIfLockThen(func() { verifhook.Point(""sc.req.gateOpen""); s.pendingReq.Add(1) })"; "s.pendingReq.Add(1)";
     "s.getActiveChannelInstance()"; "s.pendingReq.Done()";
     "s.sendRequestWithTimeout(ctx, req, s.nextRequestID(), active, authToken, timeout, h)"; "s.nextRequestID()"]%string.
Proof. repeat split; reflexivity. Qed.

Print Assumptions C18_own_response.
Print Assumptions C18_consumed_is_own.
Print Assumptions C18_consumed_once.
Print Assumptions C18_consumed_not_pending.
Print Assumptions C18_never_overflows.
Print Assumptions C18_wrong_type_is_error.
Print Assumptions C18_request_id_formula.
Print Assumptions C18_id_counter_only_advances.
Print Assumptions C18_ids_distinct_until_wrap.
Print Assumptions C18_own_answer.
Print Assumptions C18_tie_source_shape.
