(* C35 — services other than discovery and session setup require an activated session.
   model : Model.Server.handle (handleService with checkSession / sessionRequired, the session services)
           — hand transcription, tied by the C35 correspondence (raw channels with chosen authentication tokens)
   gate  : Gen.ServerGen.g_exempt_services — sessionRequired(id) evaluated by the code for all 65536 service ids;
           g_handlers — the handler table the server registers *)
From Coq Require Import NArith ZArith Bool List Lia.
From Opcua Require Import Model.ServerSpace Model.ServerBrowse Model.Server Proofs.ServerProofs Gen.ServerGen.
Import ListNotations.
Open Scope N_scope.

(* the model's gate is the code's gate: the same eight service ids are exempt, out of all 65536 *)
Theorem C35_gate_tied :
  forallb (fun svc => negb (session_required svc)) g_exempt_services = true /\
  forallb (fun svc => existsb (N.eqb svc) g_exempt_services) exempt_services = true /\
  length g_exempt_services = length exempt_services.
Proof. repeat split. Qed.

(* ... and they are exactly: discovery (FindServers, FindServersOnNetwork, GetEndpoints, RegisterServer, RegisterServer2)
   and session set-up / tear-down (CreateSession, ActivateSession, CloseSession) *)
Theorem C35_exempt_are_discovery_and_session_setup :
  g_exempt_services = [g_SvcFindServers; g_SvcGetEndpoints; g_SvcRegisterServer; g_SvcCreateSession; g_SvcActivateSession;
                       g_SvcCloseSession; g_SvcFindServersOnNetwork; g_SvcRegisterServer2].
Proof. reflexivity. Qed.

(* every other service with a handler is gated; the model's service ids are the code's *)
Theorem C35_all_other_handlers_gated :
  forallb (fun svc => session_required svc || existsb (N.eqb svc) g_exempt_services) g_handlers = true /\
  (SvcRead, SvcWrite, SvcBrowse, SvcCreateSubscription, SvcDeleteSubscriptions, SvcCreateMonitoredItems,
   SvcDeleteMonitoredItems, SvcSetMonitoringMode, SvcPublish) =
  (g_SvcRead, g_SvcWrite, g_SvcBrowse, g_SvcCreateSubscription, g_SvcDeleteSubscriptions, g_SvcCreateMonitoredItems,
   g_SvcDeleteMonitoredItems, g_SvcSetMonitoringMode, g_SvcPublish) /\
  (StBadSessionIDInvalid, StBadSessionNotActivated, StBadServiceUnsupported) =
  (g_StBadSessionIDInvalid, g_StBadSessionNotActivated, g_StBadServiceUnsupported).
Proof. repeat split. Qed.

(* THE PROPERTY, one request: a request for a service that is neither discovery nor session setup whose token does not
   name an activated session gets a session error and performs no action (state unchanged), whatever the state *)
Theorem C35_refused_without_activated_session : forall fuel s chan tok r,
  session_required (svc_of r) = true -> alist_get tok (sv_sessions s) <> Some true ->
  exists st, handle fuel s (EReq chan tok r) = (s, OFault st) /\
             (st = StBadSessionIDInvalid \/ st = StBadSessionNotActivated \/ st = StBadServiceUnsupported).
Proof.
  intros fuel s chan tok r Hr Hn. destruct (has_handler r) eqn:Hh.
  - destruct (gate_blocks fuel s chan tok r Hh Hr Hn) as (st & H & Hs). exists st. split; [exact H | tauto].
  - exists StBadServiceUnsupported. split; [now apply no_handler_fault | tauto].
Qed.

(* equivalently: served (anything but a fault) or effective (state changed) => the token names an activated session *)
Theorem C35_served_implies_activated : forall fuel s chan tok r s' o,
  session_required (svc_of r) = true -> handle fuel s (EReq chan tok r) = (s', o) ->
  (s' <> s \/ forall st, o <> OFault st) -> alist_get tok (sv_sessions s) = Some true.
Proof.
  intros fuel s chan tok r s' o Hr H Hd.
  destruct (alist_get tok (sv_sessions s)) as [[|]|] eqn:G; [reflexivity | |];
    (destruct (C35_refused_without_activated_session fuel s chan tok r Hr) as (st & H' & _); [rewrite G; discriminate|];
     rewrite H' in H; inversion H; subst; destruct Hd as [Hd|Hd]; [congruence | exfalso; eapply Hd; reflexivity]).
Qed.

(* HISTORIES: the session table is a function of the session-service events of the history alone ... *)
Theorem C35_sessions_follow_history : forall fuel h s,
  sv_sessions (run fuel s h) = fold_left sess_step h (sv_sessions s).
Proof. exact run_sessions. Qed.

(* ... so, from a server without sessions, after ANY history: a token that names an activated session was handed out by
   a CreateSession of this server and activated by a successful ActivateSession carrying it, and a CloseSession ends it *)
Theorem C35_activated_means_created_and_activated : forall fuel h sp eps tok,
  alist_get tok (sv_sessions (run fuel (init sp eps) h)) = Some true ->
  (exists c t ok, In (EReq c t (RCreateSession tok ok)) h) /\ (exists c, In (EReq c tok (RActivate true)) h).
Proof.
  intros fuel h sp eps tok H. rewrite run_sessions in H. cbn [init sv_sessions] in H. split.
  - destruct (sess_created _ _ _ _ H) as [C|C]; [cbn in C; congruence | exact C].
  - destruct (sess_activated _ _ _ H) as [C|C]; [cbn in C; discriminate | exact C].
Qed.

Theorem C35_closed_session_is_gone : forall fuel h s c tok,
  alist_get tok (sv_sessions (run fuel s (h ++ [EReq c tok RCloseSession]))) = None.
Proof.
  intros. rewrite run_sessions, fold_left_app. cbn [fold_left]. apply sess_closed.
Qed.

(* the whole chain on any history: whenever a gated request is served, its token was created, activated and not closed
   since (it is in the table), from an initially empty server *)
Theorem C35_history : forall fuel h sp eps chan tok r s' o,
  session_required (svc_of r) = true ->
  handle fuel (run fuel (init sp eps) h) (EReq chan tok r) = (s', o) ->
  (s' <> run fuel (init sp eps) h \/ forall st, o <> OFault st) ->
  (exists c t ok, In (EReq c t (RCreateSession tok ok)) h) /\ (exists c, In (EReq c tok (RActivate true)) h).
Proof.
  intros fuel h sp eps chan tok r s' o Hr H Hd.
  eapply C35_activated_means_created_and_activated. eapply C35_served_implies_activated; eassumption.
Qed.

(* non-vacuous: with an activated session a Read is served; without, refused *)
Example C35_ex : let s0 := init (Space 1 [(7, Node [] [] (Some (Some (DV (VU32 5) 0))))]) 1 in
  let h := [EReq 0 0 (RCreateSession 99 true); EReq 0 99 (RActivate true)] in
  snd (handle 8 (run 8 s0 h) (EReq 0 99 (RRead [((0, 7), AttrValue)]))) = ORead [DV (VU32 5) 0] /\
  snd (handle 8 (run 8 s0 h) (EReq 1 0 (RRead [((0, 7), AttrValue)]))) = OFault StBadSessionIDInvalid /\
  snd (handle 8 (run 8 s0 [EReq 0 0 (RCreateSession 99 true)]) (EReq 0 99 (RRead [((0, 7), AttrValue)]))) = OFault StBadSessionNotActivated.
Proof. vm_compute. repeat split. Qed.

Print Assumptions C35_gate_tied.
Print Assumptions C35_exempt_are_discovery_and_session_setup.
Print Assumptions C35_all_other_handlers_gated.
Print Assumptions C35_refused_without_activated_session.
Print Assumptions C35_served_implies_activated.
Print Assumptions C35_sessions_follow_history.
Print Assumptions C35_activated_means_created_and_activated.
Print Assumptions C35_closed_session_is_gone.
Print Assumptions C35_history.
