(* C32 — server subscription and monitored item ids are unique and session-scoped.
   model : Model.Server (CreateSubscription / nextSubID, CreateMonitoredItems / NextID, DeleteSubscriptions,
           DeleteMonitoredItems, SetMonitoringMode, the goroutines DeleteSubscription / DeleteMonitoredItem)
           — hand transcription of the fixed code, tied by the C32 correspondence (histories from several sessions,
           outcomes and dumped tables recomputed with vm_compute)
   Both id counters are uint32 and wrap; the theorems hold for every history that creates fewer than 2^32-1
   subscriptions / items in total (hypothesis `total_weight h < 4294967295`): after a wrap the code can hand out a live
   id again (NextID and nextSubID skip zero only). *)
From Coq Require Import NArith ZArith Bool List Lia.
From Opcua Require Import Model.ServerSpace Model.ServerBrowse Model.Server Proofs.ServerProofs Gen.ServerGen.
Import ListNotations.
Open Scope N_scope.

Theorem C32_constants :
  (SvcCreateSubscription, SvcDeleteSubscriptions, SvcCreateMonitoredItems, SvcDeleteMonitoredItems, SvcSetMonitoringMode) =
  (g_SvcCreateSubscription, g_SvcDeleteSubscriptions, g_SvcCreateMonitoredItems, g_SvcDeleteMonitoredItems, g_SvcSetMonitoringMode) /\
  (StBadSubscriptionIDInvalid, StBadMonitoredItemIDInvalid, StBadSessionIDInvalid, StBadUnexpectedError) =
  (g_StBadSubscriptionIDInvalid, g_StBadMonitoredItemIDInvalid, g_StBadSessionIDInvalid, g_StBadUnexpectedError).
Proof. repeat split. Qed.

(* UNIQUE, histories: after any history of requests from any sessions / channels and of goroutine events (deletes that
   run late, workers that exit), the live subscription ids are pairwise distinct and non-zero, and so are the item ids *)
Theorem C32_live_ids_distinct : forall fuel h sp eps, total_weight h < 4294967295 ->
  let s := run fuel (init sp eps) h in
  NoDup (map fst (sv_subs s)) /\ NoDup (map fst (sv_items s)) /\
  (forall e, In e (sv_subs s) -> fst e <> 0) /\ (forall e, In e (sv_items s) -> fst e <> 0).
Proof.
  intros fuel h sp eps W s.
  destruct (run_ids fuel h (init sp eps) (init_ids_inv sp eps)) as ((D1 & B1 & D2 & B2) & _); [cbn [init sv_last_sub sv_item_ctr]; lia | cbn [init sv_last_sub sv_item_ctr]; lia|].
  split; [exact D1|]. split; [exact D2|]. split; intros e He; [destruct (B1 _ He) | destruct (B2 _ He)]; lia.
Qed.

(* UNIQUE, one step: the id handed out by CreateSubscription names no live subscription (nothing is replaced) *)
Theorem C32_new_subscription_id_fresh : forall fuel h sp eps chan tok iv s' id rv,
  total_weight h + 1 < 4294967295 ->
  handle fuel (run fuel (init sp eps) h) (EReq chan tok (RCreateSub iv)) = (s', OCreateSub id rv) ->
  alist_get id (sv_subs (run fuel (init sp eps) h)) = None /\ id <> 0 /\
  alist_get id (sv_subs s') = Some (SSub (Some tok) chan rv).
Proof.
  intros fuel h sp eps chan tok iv s' id rv W H.
  destruct (run_ids fuel h (init sp eps) (init_ids_inv sp eps)) as (I & L1 & _); [cbn [init sv_last_sub sv_item_ctr]; lia | cbn [init sv_last_sub sv_item_ctr]; lia|].
  cbn [init sv_last_sub] in L1.
  destruct (handle_create_sub_fresh _ _ _ _ _ _ _ _ H I) as (F & Z & _ & G & _); [lia|]. now repeat split.
Qed.

(* ... and the ids handed out by CreateMonitoredItems are pairwise distinct and name no live item *)
Theorem C32_new_item_ids_fresh : forall fuel h sp eps chan tok sub l s' ids,
  total_weight h + N.of_nat (length l) < 4294967295 ->
  handle fuel (run fuel (init sp eps) h) (EReq chan tok (RCreateItems sub l)) = (s', OCreateItems ids) ->
  NoDup ids /\ forall id, In id ids -> alist_get id (sv_items (run fuel (init sp eps) h)) = None /\ id <> 0.
Proof.
  intros fuel h sp eps chan tok sub l s' ids W H.
  destruct (run_ids fuel h (init sp eps) (init_ids_inv sp eps)) as (I & _ & L2); [cbn [init sv_last_sub sv_item_ctr]; lia | cbn [init sv_last_sub sv_item_ctr]; lia|].
  cbn [init sv_item_ctr] in L2. eapply handle_create_items_fresh; [exact H | exact I | lia].
Qed.

(* SESSION-SCOPED: whatever a request carrying token `tok` is, every subscription stays as it is (requests never modify
   or remove one directly) and every monitored item that does not belong to `tok`'s session stays as it is *)
Theorem C32_request_leaves_others_alone : forall fuel h sp eps chan tok r s' o,
  total_weight (h ++ [EReq chan tok r]) < 4294967295 ->
  let s := run fuel (init sp eps) h in
  handle fuel s (EReq chan tok r) = (s', o) ->
  (forall id sub, alist_get id (sv_subs s) = Some sub -> alist_get id (sv_subs s') = Some sub) /\
  (forall id it, alist_get id (sv_items s) = Some it -> it_owner it <> Some tok -> alist_get id (sv_items s') = Some it).
Proof.
  intros fuel h sp eps chan tok r s' o W s H. subst s.
  assert (Wt : total_weight (h ++ [EReq chan tok r]) = total_weight h + weight (EReq chan tok r)).
  { clear. induction h as [|e t IH]; cbn [app total_weight fold_right]; [lia|]. fold (total_weight (t ++ [EReq chan tok r])). fold (total_weight t). lia. }
  destruct (run_ids fuel h (init sp eps) (init_ids_inv sp eps)) as (I & L1 & L2); [cbn [init sv_last_sub sv_item_ctr]; lia | cbn [init sv_last_sub sv_item_ctr]; lia|].
  cbn [init sv_last_sub sv_item_ctr] in L1, L2.
  destruct (handle_scoped _ _ _ _ _ _ _ H I) as (A & B); [lia | lia|].
  split; [exact A|]. intros id it Hg Ho. apply B; [exact Hg|].
  unfold owner_is. destruct (it_owner it) as [t|]; [|reflexivity]. destruct (t =? tok) eqn:E; [|reflexivity].
  apply N.eqb_eq in E. subst. congruence.
Qed.

(* deletions are asynchronous: the handler answers Good and starts a goroutine exactly for the ids whose owner is the
   requesting session; for every other id the answer is an error and nothing is started *)
Theorem C32_delete_only_own : forall fuel s chan tok ids s' sts,
  (handle fuel s (EReq chan tok (RDeleteSubs ids)) = (s', ODeleteSubs sts) ->
   s' = s /\ forall i id, nth_error ids i = Some id -> nth_error sts i = Some StOK ->
             exists sub, alist_get id (sv_subs s) = Some sub /\ sub_owner sub = Some tok) /\
  (handle fuel s (EReq chan tok (RDeleteItems ids)) = (s', ODeleteItems sts) ->
   s' = s /\ forall i id, nth_error ids i = Some id -> nth_error sts i = Some StOK ->
             exists it, alist_get id (sv_items s) = Some it /\ it_owner it = Some tok).
Proof.
  intros fuel s chan tok ids s' sts. split; intros H; cbn [handle has_handler negb svc_of] in H.
  - destruct (check_session s SvcDeleteSubscriptions tok); [discriminate|]. cbn [dispatch] in H.
    destruct (alist_get tok (sv_sessions s)); [|discriminate]. inversion H; subst. split; [reflexivity|].
    intros i id Hi Hs. rewrite nth_error_map, Hi in Hs. cbn [option_map] in Hs. inversion Hs. now apply del_sub_status_ok.
  - destruct (check_session s SvcDeleteMonitoredItems tok); [discriminate|]. cbn [dispatch] in H.
    destruct (alist_get tok (sv_sessions s)); [|discriminate]. inversion H; subst. split; [reflexivity|].
    intros i id Hi Hs. rewrite nth_error_map, Hi in Hs. cbn [option_map] in Hs. inversion Hs. now apply del_item_status_ok.
Qed.

(* non-vacuous, and the reproduced defect does not occur in the model of the fixed code:
   create 1, 2; delete 1 (request, then the goroutine); create again -> id 3, not 2 *)
Example C32_ex_no_reuse :
  let s0 := init (Space 1 []) 1 in
  let h := [EReq 0 0 (RCreateSession 9 true); EReq 0 9 (RActivate true); EReq 0 9 (RCreateSub (IFin 100000));
            EReq 0 9 (RCreateSub (IFin 100000)); EReq 0 9 (RDeleteSubs [1]); EDelSub 1] in
  snd (handle 8 (run 8 s0 h) (EReq 0 9 (RCreateSub (IFin 100000)))) = OCreateSub 3 100000 /\
  map fst (sv_subs (run 8 s0 h)) = [2].
Proof. vm_compute. split; reflexivity. Qed.
Example C32_ex_foreign : (* session 8 cannot delete or re-mode what session 9 created *)
  let s0 := init (Space 1 []) 1 in
  let h := [EReq 0 0 (RCreateSession 9 true); EReq 0 9 (RActivate true); EReq 1 0 (RCreateSession 8 true); EReq 1 8 (RActivate true);
            EReq 0 9 (RCreateSub (IFin 100000)); EReq 0 9 (RCreateItems 1 [((0, 5), 13)])] in
  snd (handle 8 (run 8 s0 h) (EReq 1 8 (RDeleteSubs [1]))) = ODeleteSubs [StBadSessionIDInvalid] /\
  snd (handle 8 (run 8 s0 h) (EReq 1 8 (RDeleteItems [1; 7]))) = ODeleteItems [StBadSessionIDInvalid; StBadMonitoredItemIDInvalid] /\
  snd (handle 8 (run 8 s0 h) (EReq 1 8 (RSetMode [1] 2))) = OSetMode [StBadSessionIDInvalid].
Proof. vm_compute. repeat split. Qed.

Print Assumptions C32_constants.
Print Assumptions C32_live_ids_distinct.
Print Assumptions C32_new_subscription_id_fresh.
Print Assumptions C32_new_item_ids_fresh.
Print Assumptions C32_request_leaves_others_alone.
Print Assumptions C32_delete_only_own.
