(* C28 — monitor notifications name the right node and converge to the latest value.
   model  : Model.Monitor (hand transcription of monitor/subscription.go AddMonitorItems/RemoveMonitorItems/pump,
            server ChangeNotification, the subscription run loop's publishQueue); the schedule (interleaving of writes,
            notification goroutines, run-loop steps, deliveries, consumer-side drops) is an arbitrary event list.
   tie    : C28 harness: concurrent writers + NodeMonitor with node additions/removals against the real server; the
            observable consequences (Model.MonitorObs) are evaluated inside Coq on every recorded run. *)
From Coq Require Import NArith ZArith Bool List.
From Opcua Require Import Model.Monitor Model.MonitorObs Proofs.MonitorProofs.
Import ListNotations.
Open Scope N_scope.

(* ---- right node: every schedule, drops allowed ---- *)
Theorem C28_delivered_node_is_registered : forall evs h n v,
  In (h, n, v) (m_deliv (mrun evs)) ->
  In (h, n) (m_reg (mrun evs)) /\ (forall n', In (h, n') (m_reg (mrun evs)) -> n' = n).
Proof. exact delivered_node_is_registered. Qed.

(* ---- convergence ---- *)
(* the property as stated: after quiescence the last message of every monitored handle carries the current value *)
Definition C28_statement : Prop := forall evs,
  quiescent (mrun evs) = true ->
  forall h n, lookup (m_items (mrun evs)) h = Some n ->
  last_delivered (mrun evs) h = Some (n, sget (m_store (mrun evs)) n).

(* it is false when the consumer is slow: the pump drops what does not fit (ErrSlowConsumer) and nothing re-sends it *)
Definition drop_witness : list mevent :=
  [MAdd 1; MInit 101; MCollect; MPublish; MDeliver; MWrite 1 5; MNotify 1; MCollect; MPublish; MDrop].

Theorem C28_refuted_consumer_drop : ~ C28_statement.
Proof.
  intro H. specialize (H drop_witness eq_refl 101 1 eq_refl). vm_compute in H. discriminate.
Qed.

(* the strongest true statement: every schedule in which the consumer never dropped a notification *)
Theorem C28_partial_no_drop : forall evs,
  forallb (fun e => negb (is_drop e)) evs = true -> quiescent (mrun evs) = true ->
  forall h n, lookup (m_items (mrun evs)) h = Some n ->
  last_delivered (mrun evs) h = Some (n, sget (m_store (mrun evs)) n).
Proof. exact converges_without_drop. Qed.

(* the hypotheses are satisfiable by a run with two handles on two nodes, a removal, a re-add of the same node under
   a new handle and coalescing in the publish queue *)
Definition sample_run : list mevent :=
  [MAdd 1; MAdd 2; MInit 101; MInit 102; MWrite 1 5; MNotify 1; MWrite 1 6; MCollect; MCollect; MNotify 1; MCollect;
   MCollect; MPublish; MDeliver; MRemove 101; MWrite 1 7; MNotify 1; MAdd 1; MWrite 2 9; MInit 103; MNotify 2;
   MCollect; MCollect; MPublish; MDeliver].
Example C28_nonvacuous :
  forallb (fun e => negb (is_drop e)) sample_run = true /\ quiescent (mrun sample_run) = true /\
  m_items (mrun sample_run) = [(103, 1); (102, 2)] /\ converged (mrun sample_run) = true /\
  last_delivered (mrun sample_run) 103 = Some (1, 7%Z) /\ last_delivered (mrun sample_run) 102 = Some (2, 9%Z).
Proof. vm_compute. repeat split; reflexivity. Qed.

(* the observation predicates accept a good trace and reject a swapped node, a reordering and a stale end *)
Definition ob (d : list (nat * Z)) : mobs :=
  {| ob_writes := [[11; 12; 13]; [21; 22]]%Z; ob_deliv := d; ob_monitored := [0; 1]%nat; ob_removed := [];
     ob_readded := []; ob_final := [13; 22]%Z |}.
Example C28_obs_examples :
  (let o := ob [(0%nat, 0%Z); (1%nat, 0%Z); (0%nat, 11%Z); (0%nat, 13%Z); (1%nat, 22%Z)] in
   right_node o && monotone o && obs_converged o) = true /\
  right_node (ob [(0%nat, 21%Z)]) = false /\ monotone (ob [(0%nat, 13%Z); (0%nat, 12%Z)]) = false /\
  obs_converged (ob [(0%nat, 12%Z); (1%nat, 22%Z)]) = false.
Proof. vm_compute. auto. Qed.

Print Assumptions C28_delivered_node_is_registered.
Print Assumptions C28_refuted_consumer_drop.
Print Assumptions C28_partial_no_drop.
