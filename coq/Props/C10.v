(* C10 — a replayed secured chunk is never delivered twice.
   model : Model.RecvChan.accept_seq — readChunk hands a chunk on iff some stored instance of its channel id verifies it AND
           its sequence number passes checkSequenceNumber (greater than the last accepted number of the channel, or the
           roll-over of Part 6, 6.7.2.4; the first chunk initialises); only then the remembered number advances.
   [accepted_prefix] is the receive path before the check existed (fixed: see known_findings.txt): C10_refuted_before_fix. *)
From Coq Require Import NArith ZArith List Bool Lia Sorting.Sorted.
From Opcua Require Import Model.RecvBase Model.RecvCrypto Model.RecvMerge Model.RecvChan Model.RecvFrame
  Proofs.RecvBaseProofs Proofs.RecvChanProofs Proofs.RecvFrameProofs.
Import ListNotations.
Open Scope N_scope.

(* EVERY receive history: any chunks in any order, copies inserted anywhere, each occurrence verifying or not (so token
   renewals and expiries between the chunks are covered): the sequence numbers of the chunks handed on strictly increase,
   modulo the roll-over rule. *)
Theorem C10_increasing : forall (h : list (bool * chunk)), increasing (map ck_seq (accept_seq None h)).
Proof. intros h. apply (incr_from_increasing _ None). apply accept_seq_incr. Qed.

(* The same at byte level (Model.RecvFrame.read_frame = readChunk): any stream of frames, any channel state (client or server,
   any mode incl. None, any instances, OPN chunks of renewals included): the numbers of the chunks readChunk hands on
   strictly increase modulo the roll-over rule. *)
Theorem C10_frames_increasing : forall un cc af st frames, increasing (frame_seqs un cc af st frames).
Proof. intros. apply (incr_from_increasing _ (f_last st)). apply frame_seqs_incr. Qed.

(* the same for a channel state with its instance table (the property's statement) *)
Definition C10_statement : Prop :=
  forall (s : cstate) (h : list schunk), increasing (map ck_seq (accepted s h)).
Theorem C10_full : C10_statement.
Proof. intros s h. apply C10_increasing. Qed.

(* No chunk is delivered twice: as long as the numbers stay below the roll-over zone the accepted numbers are strictly
   sorted, hence pairwise distinct — a verbatim copy of an accepted chunk, immediately or later, is never accepted. *)
Theorem C10_no_chunk_twice : forall (h : list (bool * chunk)),
  Forall (fun x => x < 4294966271) (map ck_seq (accept_seq None h)) ->
  StronglySorted N.lt (map ck_seq (accept_seq None h)) /\ NoDup (map ck_seq (accept_seq None h)).
Proof.
  intros h Hb. destruct (incr_from_sorted _ None (accept_seq_incr h None) Hb) as [Hs _].
  assert (Hss : StronglySorted N.lt (map ck_seq (accept_seq None h))).
  { apply Sorted_StronglySorted; [|exact Hs]. intros x y z. apply N.lt_trans. }
  split; [exact Hss|].
  clear Hb Hs. induction Hss as [|a l Hl IH Hall]; constructor; [|exact IH].
  intro Hin. rewrite Forall_forall in Hall. specialize (Hall a Hin). lia.
Qed.

(* nothing is accepted that no stored instance verified *)
Theorem C10_only_verified : forall (s : cstate) (h : list schunk) c,
  In c (accepted s h) -> exists x, In x h /\ sc_chunk x = c /\ accepts s (sc_chan x) (sc_key x) = true.
Proof.
  intros s h c. unfold accepted. generalize (@None N). induction h as [|x r IH]; intros last H; [destruct H|].
  cbn [map accept_seq] in H. destruct (accepts s (sc_chan x) (sc_key x)) eqn:E; cbn [andb] in H.
  - destruct (seq_ok last (ck_seq (sc_chunk x))).
    + destruct H as [<-|H]; [exists x; repeat split; [now left|exact E]|].
      destruct (IH _ H) as (y & H1 & H2). exists y. split; [now right|exact H2].
    + destruct (IH _ H) as (y & H1 & H2). exists y. split; [now right|exact H2].
  - destruct (IH _ H) as (y & H1 & H2). exists y. split; [now right|exact H2].
Qed.

(* The defect that was repaired: before the check, readChunk accepted exactly what verified, so the history [c; c] was
   accepted, and delivered, twice. *)
Definition increasing_before_fix : Prop :=
  forall (s : cstate) (h : list schunk), increasing (map ck_seq (accepted_prefix s h)).
Definition w_state : cstate := cstep true (cinit 0) (Install 7 9 0 0 3600000000000).
Definition w_chunk : schunk := {| sc_chan := 7; sc_key := 0; sc_chunk := Build_chunk CT_F 5 6 [1;2;3] |}.
Theorem C10_refuted_before_fix : ~ increasing_before_fix.
Proof.
  intro H. specialize (H w_state [w_chunk; w_chunk]).
  replace (map ck_seq (accepted_prefix w_state [w_chunk; w_chunk])) with [5; 5] in H by (vm_compute; reflexivity).
  cbn [increasing] in H. unfold seq_after in H. lia.
Qed.

(* now: the copy is rejected, immediately and after later chunks; a roll-over is accepted *)
Example C10_nonvacuous :
  let c6 := {| sc_chan := 7; sc_key := 0; sc_chunk := Build_chunk CT_F 6 7 [4] |} in
  accepted w_state [w_chunk; w_chunk; c6; w_chunk; c6] = [sc_chunk w_chunk; sc_chunk c6] /\
  snd (recv_all 16 1048576 [] (accepted w_state [w_chunk; w_chunk])) = [RDeliver 6 [1;2;3]] /\
  map ck_seq (seq_filter [Build_chunk CT_F 4294966272 1 []; Build_chunk CT_F 0 2 []; Build_chunk CT_F 1 3 []; Build_chunk CT_F 0 2 []])
    = [4294966272; 0; 1].
Proof. vm_compute. split; [reflexivity|split; reflexivity]. Qed.

Print Assumptions C10_increasing.
Print Assumptions C10_frames_increasing.
Print Assumptions C10_full.
Print Assumptions C10_no_chunk_twice.
Print Assumptions C10_only_verified.
Print Assumptions C10_refuted_before_fix.
