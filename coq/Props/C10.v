(* C10 — a replayed secured chunk is never delivered twice.
   model : Model.RecvChan.accepted — readChunk hands on exactly the chunks that some stored instance of the chunk's channel id
           verifies; the sequence number is decoded (SequenceHeader.Decode) and never compared with anything.
   The full statement is FALSE of the code (known finding replay-accepted, see known_findings.txt): C10_refuted_replay.
   C10_partial_no_replay is what does hold. *)
From Coq Require Import NArith ZArith List Bool Lia Sorting.Sorted.
From Opcua Require Import Model.RecvBase Model.RecvMerge Model.RecvChan Proofs.RecvBaseProofs Proofs.RecvChanProofs.
Import ListNotations.
Open Scope N_scope.

(* s' may be accepted after s: larger, or the roll-over of Part 6, 6.7.2.4 *)
Definition seq_after (s s' : N) : Prop := s < s' \/ (4294966271 <= s /\ s' < 1024).
Fixpoint increasing (l : list N) : Prop :=
  match l with a :: ((b :: _) as r) => seq_after a b /\ increasing r | _ => True end.

(* The property: whatever history of chunks reaches a channel (the adversary may insert copies of earlier chunks anywhere),
   the sequence numbers of the chunks the receive path accepts strictly increase. *)
Definition C10_statement : Prop :=
  forall (s : cstate) (h : list schunk), increasing (map ck_seq (accepted s h)).

Definition w_state : cstate := cstep true (cinit 0) (Install 7 9 0 0 3600000000000).
Definition w_chunk : schunk := {| sc_chan := 7; sc_key := 0; sc_chunk := Build_chunk CT_F 5 6 [1;2;3] |}.

Theorem C10_refuted_replay : ~ C10_statement.
Proof.
  intro H. specialize (H w_state [w_chunk; w_chunk]).
  replace (map ck_seq (accepted w_state [w_chunk; w_chunk])) with [5; 5] in H by (vm_compute; reflexivity).
  cbn [increasing] in H. unfold seq_after in H. lia.
Qed.

(* ... and the copy is not just accepted but delivered to the application a second time *)
Example C10_replay_delivered_twice :
  snd (recv_all 16 1048576 [] (accepted w_state [w_chunk; w_chunk])) = [RDeliver 6 [1;2;3]; RDeliver 6 [1;2;3]].
Proof. vm_compute. reflexivity. Qed.

(* What holds: the receive path adds nothing of its own — it accepts a sub-sequence of the history, in order (each occurrence
   at most once), so without inserted copies and re-ordering (numbers of the history strictly increasing) the accepted
   numbers strictly increase, on any channel state. *)
Theorem C10_partial_no_replay : forall (s : cstate) (h : list schunk),
  StronglySorted N.lt (map (fun c => ck_seq (sc_chunk c)) h) ->
  StronglySorted N.lt (map ck_seq (accepted s h)) /\ (length (accepted s h) <= length h)%nat.
Proof.
  intros s h Hs. split.
  - unfold accepted. rewrite map_map. apply map_StronglySorted. apply filter_StronglySorted.
    clear s. induction h as [|a h IH]; [constructor|]. cbn [map] in Hs. inversion Hs as [|x l Hl Hall]; subst.
    constructor; [now apply IH|]. rewrite Forall_forall in *. intros y Hy. apply Hall. apply in_map_iff. exists y. auto.
  - unfold accepted. rewrite map_length. clear Hs. induction h as [|a h IH]; cbn [filter length]; [lia|]. destruct (accepts s (sc_chan a) (sc_key a)); cbn [length]; lia.
Qed.

(* chunks no stored instance verifies are never accepted, replayed or not *)
Theorem C10_partial_only_verified : forall (s : cstate) (h : list schunk) c,
  In c (accepted s h) -> exists x, In x h /\ sc_chunk x = c /\ accepts s (sc_chan x) (sc_key x) = true.
Proof.
  intros s h c H. unfold accepted in H. apply in_map_iff in H. destruct H as (x & H1 & H2).
  apply filter_In in H2. exists x. tauto.
Qed.

Example C10_partial_nonvacuous :
  StronglySorted N.lt (map (fun c => ck_seq (sc_chunk c))
     [w_chunk; {| sc_chan := 7; sc_key := 0; sc_chunk := Build_chunk CT_F 6 7 [4] |}]).
Proof. repeat constructor. Qed.

Print Assumptions C10_refuted_replay.
Print Assumptions C10_partial_no_replay.
Print Assumptions C10_partial_only_verified.
