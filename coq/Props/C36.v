(* C36 — freedom from data races, scoped to the lock discipline of the shared fields listed below.
   generic : Proofs.LocksetProofs.lockset_race_free — interleaving semantics with exclusive/shared locks, any number of
             threads: if every two conflicting access sites of a table share a lock that one side holds exclusively,
             no reachable state has two enabled conflicting accesses.
   table   : Gen.LockSites.lock_sites — every syntactic access to the tracked fields outside constructors, with the
             mutexes held (same base expression) at it, extracted from the Go AST on every run; lock_contracts — every
             call of a *_NeedsSubMuxLock function with whether the caller holds the lock.
   scope   : guarded_fields below; "SecureChannel.instances[]" is the backing array of the per-channel token lists, which
             getInstancesBySecureChannelID hands out to the dispatcher WITHOUT the lock: it is race free only as long as
             nobody writes such an array in place (today: fresh slice on expiry, append beyond the visible length).  NOT covered (see the check's notes): channelInstance.sequenceNumber (one spot in open, see
             C36_sequence_number_unguarded_only_in_open), channelInstance.algo (the receive path reads it lock-free; it
             is ordered by the OpenSecureChannel handshake), SecureChannel.openingInstance / requestID (the client side
             now goes through openingMu / openingInstanceMu / requestIDMu, but the SERVER side of
             handleOpenSecureChannelRequest reads and writes them lock-free; a client channel never runs that function
             and a server channel never runs open(): a role separation a lockset cannot see), and every field not listed. *)
From Coq Require Import Bool String List.
From Opcua Require Import Model.Lockset Proofs.LocksetProofs Gen.LockSites.
Import ListNotations.
Open Scope string_scope.

Definition guarded_fields : list string :=
  [ "SecureChannel.instances"; "SecureChannel.instances[]" (* the token lists themselves: they escape the lock *);
    "SecureChannel.activeInstance"; "SecureChannel.handlers"; "SecureChannel.chunks";
    "Client.subs"; "Client.pendingAcks";
    "Node.val"; "Node.attr" (* guarded by Node.mu since the fix of race/Node.val *);
    "MonitoredItemService.Items"; "MonitoredItemService.Nodes"; "MonitoredItemService.Subs";
    "SubscriptionService.Subs"; "sessionBroker.s"; "channelBroker.s" ].

Definition sites_of (fields : list string) : list site :=
  filter (fun s => existsb (String.eqb (s_loc s)) fields) (map (fun x => fst (fst (fst x))) lock_sites).

Definition guarded_table : list site := sites_of guarded_fields.

(* the extraction still sees every guarded field (a renamed field would silently empty the table otherwise) *)
Theorem C36_every_guarded_field_has_sites :
  forallb (fun f => existsb (fun s => String.eqb (s_loc s) f) guarded_table) guarded_fields = true.
Proof. vm_compute. reflexivity. Qed.

(* side condition, decided on the table extracted from the current source *)
Theorem C36_guarded_table_ok : table_ok guarded_table = true.
Proof. vm_compute. reflexivity. Qed.

(* the caller-holds-lock annotations used by the extraction are respected at every call site *)
Theorem C36_contracts_hold : forallb (fun c => snd c) lock_contracts = true.
Proof. vm_compute. reflexivity. Qed.

(* race freedom on the guarded fields: for ANY number of threads whose accesses to these fields are instances of the
   extracted sites (same field, same kind, at least the recorded locks), under ANY schedule *)
Theorem C36_race_free_on_guarded_fields : forall progs,
  (forall p, In p progs -> follows guarded_table p = true) ->
  forall s, reachable (start progs) s -> ~ racy s.
Proof. intros progs Hf s Hr. exact (lockset_race_free guarded_table progs C36_guarded_table_ok Hf s Hr). Qed.

(* before the fix (server/node.go without Node.mu) the same side condition failed on Node.val: Node.SetAttribute wrote it
   and Node.Value / Node.Attribute read it with no mutex at all; the race detector reproduced it.  Kept as a regression
   witness of what the table looked like. *)
Definition node_val_sites_before_fix : list site :=
  [ {| s_loc := "Node.val"; s_kind := ARead; s_locks := [] |};      (* Node.Value *)
    {| s_loc := "Node.val"; s_kind := ARead; s_locks := [] |};      (* Node.Attribute *)
    {| s_loc := "Node.val"; s_kind := AWrite; s_locks := [] |} ].   (* Node.SetAttribute *)

Theorem C36_refuted_node_val_before_fix : table_ok node_val_sites_before_fix = false.
Proof. vm_compute. reflexivity. Qed.

Theorem C36_node_val_pair_races : forall r1 r2,
  racy (start [Acc "Node.val" AWrite :: r1; Acc "Node.val" ARead :: r2]).
Proof. intros r1 r2. apply (unguarded_pair_races "Node.val" AWrite ARead [] [] r1 r2). reflexivity. Qed.

(* why channelInstance.sequenceNumber is not in the list although the send path's caller-holds-lock contracts
   (nextSequenceNumber, newMessage, newRequestMessage, writeMessageChunks, open) all check: the only accesses without
   the instance lock are in SecureChannel.open, which writes the counter of the OPENING instance (copied from the
   old instance on renewal, handed back after a failed renewal) - an object that is already reachable through
   s.openingInstance; the source marks the spot "TODO: lock?".  Everything else is guarded. *)
Theorem C36_sequence_number_unguarded_only_in_open :
  forallb (fun x => match x with (st, fn, _, _) =>
             negb (String.eqb (s_loc st) "channelInstance.sequenceNumber") ||
             holds_excl (s_locks st) "channelInstance.Mutex" || String.eqb fn "SecureChannel.open" end) lock_sites = true.
Proof. vm_compute. reflexivity. Qed.

(* the hypotheses are satisfiable: two threads taking the locks as the code does follow the table *)
Example C36_nonvacuous :
  follows guarded_table [Acq "SecureChannel.instancesMu" true; Acc "SecureChannel.instances" AWrite;
                         Acc "SecureChannel.activeInstance" AWrite; Rel "SecureChannel.instancesMu"] = true /\
  follows guarded_table [Acq "Client.subMux" false; Acc "Client.subs" ARead; Rel "Client.subMux"] = true /\
  follows guarded_table [Acc "SecureChannel.instances" AWrite] = false.
Proof. vm_compute. auto. Qed.

Print Assumptions C36_every_guarded_field_has_sites.
Print Assumptions C36_guarded_table_ok.
Print Assumptions C36_contracts_hold.
Print Assumptions C36_race_free_on_guarded_fields.
Print Assumptions C36_refuted_node_val_before_fix.
Print Assumptions C36_node_val_pair_races.
Print Assumptions C36_sequence_number_unguarded_only_in_open.
