(* C20 — messages delivered to the application never change afterwards.
   model : Model.RecvHeap — byte regions with identities; per frame uacp.Conn.Receive allocates a fresh region, a secured
           chunk is copied into a second fresh region and decrypted inside that copy, a multi-chunk message is appended into a
           fresh region, a single-chunk message IS a window of its (receive or copy) region; decoded ByteStrings are windows
           of the message region.  The modelling assumption — [alloc] never returns a region that is still referenced, i.e.
           no buffer pool — is what the harness checks on the implementation (identity of successive receive buffers, deep
           snapshots after later traffic). *)
From Coq Require Import NArith List Bool Arith Lia.
From Opcua Require Import Model.RecvBase Model.RecvMerge Model.RecvHeap Proofs.RecvHeapProofs.
Import ListNotations.
Local Open Scope nat_scope.

(* All histories of frames (any sizes, single- and multi-chunk messages, secured or not, interleaved request ids, aborts;
   several channels are several independent runs over one heap, see C20_other_channels): the region a delivered message
   lives in has, after everything that followed, exactly the content it had at delivery — hence so has every window of it
   (the message itself and every decoded ByteString). *)
Theorem C20_delivered_immutable : forall fs s,
  let '(ds, s2) := hrun s fs in
  forall d, In d ds -> forall off len,
    window (nth (fst (fst (fst d))) (cells (hp s2)) []) off len = window (snd d) off len.
Proof.
  intros fs s. pose proof (hrun_stable fs s) as H. destruct (hrun s fs) as [ds s2].
  intros d Hd off len. rewrite Forall_forall in H. specialize (H d Hd). cbv beta in H. f_equal. exact H.
Qed.

(* Traffic on ANOTHER channel (a run with its own pending table over the same heap) does not touch anything that existed
   before: regions are only ever written by the step that allocated them. *)
Theorem C20_other_channels : forall fs (s : hstate) r,
  r < hsize (hp s) -> nth r (cells (hp (snd (hrun s fs)))) [] = nth r (cells (hp s)) [].
Proof.
  intros fs s r Hr. pose proof (hrun_frame fs s) as H. destruct (hrun s fs) as [ds s2]. cbn [snd]. now apply H.
Qed.

(* two messages: a single-chunk one (window into its receive buffer) and a two-chunk secured one; both delivered, both stable *)
Definition ex_frames : list frame :=
  [ {| fr_bytes := repeat 1%N 24 ++ [10;11;12]%N; fr_cap := 40; fr_secured := false; fr_hl := 16; fr_plain := []; fr_strip := 0; fr_type := CT_F; fr_req := 1%N |};
    {| fr_bytes := repeat 2%N 16 ++ repeat 9%N 12; fr_cap := 40; fr_secured := true; fr_hl := 16; fr_plain := repeat 0%N 8 ++ [20;21]%N ++ [7;7]%N; fr_strip := 2; fr_type := CT_C; fr_req := 2%N |};
    {| fr_bytes := repeat 2%N 16 ++ repeat 9%N 12; fr_cap := 40; fr_secured := true; fr_hl := 16; fr_plain := repeat 0%N 8 ++ [22]%N ++ [7;7;7]%N; fr_strip := 3; fr_type := CT_F; fr_req := 2%N |} ].
Example C20_nonvacuous :
  let '(ds, s2) := hrun {| hp := {| cells := [] |}; pend := [] |} ex_frames in
  map (fun d => deref (hp s2) (fst d)) ds = [[10;11;12]%N; [20;21;22]%N] /\ hsize (hp s2) = 6.
Proof. vm_compute. split; reflexivity. Qed.

Print Assumptions C20_delivered_immutable.
Print Assumptions C20_other_channels.
