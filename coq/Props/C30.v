(* C30 — the server only opens channels with security settings it enabled.
   model : Model.ServerSec (OPN acceptance as coded in uasc + channel_broker, initEndpoints) — hand transcription, tied by
           the C30 matrix of real channels.  REFUTED: the configuration is not consulted when a channel is opened
           (known finding); the advertised endpoints are exactly the enabled pairs. *)
From Coq Require Import NArith Bool List Lia.
From Opcua Require Import Model.ServerSec.
Import ListNotations.
Open Scope N_scope.

(* the full statement: a channel is opened only for an enabled pair *)
Definition C30_statement : Prop :=
  forall enabled has_key p m, opn_accept enabled has_key p m = true -> In (p, m) enabled.

(* witness (DESIGN row 23): only Basic256Sha256(5)/SignAndEncrypt enabled, the client asks for None/None *)
Theorem C30_refuted_policy_adopted_from_client : ~ C30_statement.
Proof.
  intros C. specialize (C [(5, 3)] true 0 1 eq_refl). cbn in C. destruct C as [C|[]]. discriminate.
Qed.

(* even a server with nothing enabled accepts *)
Theorem C30_refuted_nothing_enabled : exists p m, opn_accept [] true p m = true.
Proof. exists 0, 1. reflexivity. Qed.

(* what does hold of the acceptance: only consistent pairs, and a secured policy only if the server has a key *)
Theorem C30_partial_accept_shape : forall enabled has_key p m, opn_accept enabled has_key p m = true ->
  consistent p m = true /\ (p <> 0 -> has_key = true).
Proof.
  intros enabled has_key p m H. unfold opn_accept in H. apply andb_true_iff in H. destruct H as [H1 H2].
  split; [exact H1|]. intros Hp. apply orb_true_iff in H2. destruct H2 as [H2|H2]; [apply N.eqb_eq in H2; congruence | exact H2].
Qed.

(* the second half of the property holds: the advertised endpoints are exactly the enabled pairs (per url) *)
Theorem C30_partial_advertised_are_enabled : forall enabled urls u sec,
  In (u, sec) (advertised enabled urls) <-> In sec enabled /\ In u urls.
Proof.
  intros enabled urls u sec. unfold advertised. rewrite in_flat_map. split.
  - intros (s & Hs & Hin). apply in_map_iff in Hin. destruct Hin as (u' & E & Hu). inversion E; subst. now split.
  - intros [Hs Hu]. exists sec. split; [exact Hs|]. apply in_map_iff. exists u. now split.
Qed.

Example C30_ex_accept : opn_accept [(0, 1); (5, 3)] true 5 3 = true /\ opn_accept [(0, 1)] false 5 3 = false.
Proof. split; reflexivity. Qed.

Print Assumptions C30_refuted_policy_adopted_from_client.
Print Assumptions C30_refuted_nothing_enabled.
Print Assumptions C30_partial_accept_shape.
Print Assumptions C30_partial_advertised_are_enabled.
