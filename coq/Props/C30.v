(* C30 — the server only opens channels with security settings it enabled.
   model : Model.ServerSec — hand transcription of the fixed code (fix ec1f466), tied by
           Gen.ServerGen.g_sec_table (securityEnabled / acceptSecurity evaluated by the code for ten configurations x every
           policy x modes 0..4 on every run), g_discovery_services (discoveryService over all 65536 ids) and the C30 matrix of
           real channels and raw OPN frames.
   One deliberate relaxation of the literal statement, stated in the fix: an unsecured None/None channel is opened even when
   None/None is not enabled, because clients look up the endpoints over one (Part 4, 5.4); on such a channel only the five
   discovery services are served.  A server created without any EnableSecurity keeps serving None/None only. *)
From Coq Require Import NArith Bool List Lia.
From Opcua Require Import Model.ServerSpace Model.ServerBrowse Model.Server Model.ServerSec Gen.ServerGen.
Import ListNotations.
Open Scope N_scope.

(* the model's decisions are the code's decisions on every row of the regenerated table *)
Definition row_ok (enabled : list secpair) (r : N * N * bool * N) : bool :=
  let '(p, m, en, st) := r in
  Bool.eqb (sec_enabled enabled p m) en &&
  match accept_security enabled p m with None => st =? 0 | Some x => st =? x end.

Theorem C30_decisions_tied :
  forallb (fun c => forallb (row_ok (fst c)) (snd c)) g_sec_table = true /\
  (10 <= length g_sec_table)%nat /\
  g_discovery_services = [g_SvcFindServers; g_SvcGetEndpoints; g_SvcRegisterServer; g_SvcFindServersOnNetwork; g_SvcRegisterServer2] /\
  forallb (fun svc => discovery svc) g_discovery_services = true /\ length g_discovery_services = length discovery_services /\
  (StBadSecurityPolicyRejected, StBadSecurityModeRejected) = (g_StBadSecurityPolicyRejected, g_StBadSecurityModeRejected).
Proof. repeat split; vm_compute; (reflexivity || lia). Qed.

Lemma pair_in_In : forall enabled p m, pair_in enabled p m = true -> In (p, m) enabled.
Proof.
  intros enabled p m H. unfold pair_in in H. apply existsb_exists in H. destruct H as ([a b] & Hin & Hab).
  cbn [fst snd] in Hab. apply andb_true_iff in Hab. destruct Hab as [Ha Hb]. apply N.eqb_eq in Ha, Hb. now subst.
Qed.

Lemma sec_enabled_spec : forall enabled p m, sec_enabled enabled p m = true ->
  In (p, m) enabled \/ (enabled = [] /\ (p, m) = (0, 1)).
Proof.
  intros [|e t] p m H; cbn [sec_enabled] in H.
  - right. apply andb_true_iff in H. destruct H as [Hp Hm]. apply N.eqb_eq in Hp, Hm. now subst.
  - left. now apply pair_in_In.
Qed.

(* THE PROPERTY, first half, all configurations and all requested pairs (consistent or not):
   an OpenSecureChannel request is accepted only for an enabled pair - or for None/None, which then is a
   discovery-only channel (next theorem); for a server without any EnableSecurity only for None/None *)
Definition C30_statement : Prop :=
  forall enabled has_key p m, opn_accept enabled has_key p m = true ->
    In (p, m) enabled \/ (p, m) = (0, 1).

Theorem C30_channel_only_for_enabled_pair : C30_statement.
Proof.
  intros enabled has_key p m H. unfold opn_accept in H.
  destruct (accept_security enabled p m) eqn:A; [discriminate|]. unfold accept_security in A.
  destruct (sec_enabled enabled p m) eqn:E.
  - destruct (sec_enabled_spec _ _ _ E) as [Hin|[_ Hp]]; [now left | now right].
  - destruct ((p =? 0) && (m =? 1)) eqn:N1.
    + right. apply andb_true_iff in N1. destruct N1 as [Hp Hm]. apply N.eqb_eq in Hp, Hm. now subst.
    + destruct (existsb (fun e => fst e =? p) enabled); discriminate.
Qed.

(* ... and the same for the token of a renewal: a Renew that names another policy or mode moves the channel to that pair,
   so it is decided like an Issue (both request types, every pair) *)
Theorem C30_issue_and_renew_only_for_enabled_pair : forall enabled has_key k p m,
  opn_accept_k enabled has_key k p m = true -> In (p, m) enabled \/ (p, m) = (0, 1).
Proof. intros enabled has_key [|] p m H; exact (C30_channel_only_for_enabled_pair enabled has_key p m H). Qed.

(* every refusal carries one of the two security status codes *)
Theorem C30_refusal_status : forall enabled p m st, accept_security enabled p m = Some st ->
  (st = StBadSecurityPolicyRejected \/ st = StBadSecurityModeRejected) /\ sec_enabled enabled p m = false /\ (p, m) <> (0, 1).
Proof.
  intros enabled p m st H. unfold accept_security in H.
  destruct (sec_enabled enabled p m); [discriminate|].
  destruct ((p =? 0) && (m =? 1)) eqn:N1; [discriminate|].
  split; [destruct (existsb (fun e => fst e =? p) enabled); inversion H; tauto|]. split; [reflexivity|].
  intros C. inversion C; subst. discriminate.
Qed.

(* what is served on a channel whose pair is not enabled (the None/None discovery channel): nothing but discovery.
   For every state, request and token: any other service with a handler answers BadSecurityPolicyRejected, state unchanged *)
Theorem C30_only_discovery_on_other_channels : forall enabled chansec fuel s chan tok r,
  sec_enabled enabled (fst (chansec chan)) (snd (chansec chan)) = false ->
  discovery (svc_of r) = false -> has_handler r = true ->
  handle_on enabled chansec fuel s (EReq chan tok r) = (s, OFault StBadSecurityPolicyRejected).
Proof. intros enabled chansec fuel s chan tok r E D H. cbn [handle_on]. now rewrite H, D, E. Qed.

(* so: a session service or any data service that is served runs over a channel with an enabled pair *)
Theorem C30_served_implies_enabled : forall enabled chansec fuel s chan tok r s' o,
  discovery (svc_of r) = false -> has_handler r = true ->
  handle_on enabled chansec fuel s (EReq chan tok r) = (s', o) -> o <> OFault StBadSecurityPolicyRejected ->
  In (chansec chan) enabled \/ (enabled = [] /\ chansec chan = (0, 1)).
Proof.
  intros enabled chansec fuel s chan tok r s' o D H Hh Ho.
  destruct (sec_enabled enabled (fst (chansec chan)) (snd (chansec chan))) eqn:E.
  - destruct (chansec chan) as [p m]. cbn [fst snd] in E. now apply sec_enabled_spec.
  - rewrite (C30_only_discovery_on_other_channels _ _ _ _ _ _ _ E D H) in Hh. inversion Hh; subst. congruence.
Qed.

(* an enabled pair is accepted whenever uasc can run it (nothing enabled is locked out) *)
Theorem C30_enabled_pairs_accepted : forall enabled has_key p m, In (p, m) enabled -> uasc_ok has_key p m = true ->
  opn_accept enabled has_key p m = true.
Proof.
  intros enabled has_key p m Hin Hu. unfold opn_accept, accept_security.
  assert (E : sec_enabled enabled p m = true).
  { destruct enabled as [|e t]; [destruct Hin|]. cbn [sec_enabled]. unfold pair_in. apply existsb_exists.
    exists (p, m). split; [exact Hin|]. cbn [fst snd]. now rewrite !N.eqb_refl. }
  now rewrite E.
Qed.

(* second half: the advertised endpoints are exactly the enabled pairs (per url) *)
Theorem C30_advertised_are_enabled : forall enabled urls u sec,
  In (u, sec) (advertised enabled urls) <-> In sec enabled /\ In u urls.
Proof.
  intros enabled urls u sec. unfold advertised. rewrite in_flat_map. split.
  - intros (s & Hs & Hin). apply in_map_iff in Hin. destruct Hin as (u' & E & Hu). inversion E; subst. now split.
  - intros [Hs Hu]. exists sec. split; [exact Hs|]. apply in_map_iff. exists u. now split.
Qed.

(* the reproduced defect (DESIGN row 23), kept: before the fix the statement was false *)
Theorem C30_refuted_before_fix :
  ~ (forall enabled has_key p m, opn_accept_before_fix enabled has_key p m = true -> In (p, m) enabled \/ (p, m) = (0, 1)).
Proof.
  intros C. specialize (C [(0, 1)] true 5 3 eq_refl). destruct C as [[C|[]]|C]; discriminate.
Qed.

Example C30_ex : opn_accept [(5, 3)] true 5 3 = true /\ opn_accept [(5, 3)] true 5 2 = false /\
  accept_security [(5, 3)] 5 2 = Some StBadSecurityModeRejected /\ accept_security [(5, 3)] 4 3 = Some StBadSecurityPolicyRejected /\
  opn_accept [(5, 3)] true 0 1 = true /\ sec_enabled [(5, 3)] 0 1 = false /\ opn_accept [] true 0 1 = true /\ opn_accept [] true 5 3 = false /\
  accept_security [(0, 1)] 0 2 = Some StBadSecurityModeRejected.
Proof. vm_compute. repeat split. Qed.

Print Assumptions C30_decisions_tied.
Print Assumptions C30_channel_only_for_enabled_pair.
Print Assumptions C30_issue_and_renew_only_for_enabled_pair.
Print Assumptions C30_refusal_status.
Print Assumptions C30_only_discovery_on_other_channels.
Print Assumptions C30_served_implies_enabled.
Print Assumptions C30_enabled_pairs_accepted.
Print Assumptions C30_advertised_are_enabled.
Print Assumptions C30_refuted_before_fix.
