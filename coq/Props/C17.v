(* C17 — chunks secured with an expired token are rejected.
   model : Model.RecvChan (instance table keyed by channel id as in handleOpenSecureChannelResponse; scheduleExpiration's
           table update transcribed, object identity explicit; timers fire when their instant has passed; a chunk verifies
           under an instance iff it was secured with that instance's keys — the reduction proved for C09).
   [expire_one false] is the expiry routine before the repair (indexed the table by token id): C17_prefix_refuted. *)
From Coq Require Import NArith ZArith List Bool Lia.
From Opcua Require Import Model.RecvBase Model.RecvChan Proofs.RecvBaseProofs Proofs.RecvChanProofs.
Import ListNotations.
Open Scope Z_scope.

(* Over every history of token installations (issue / renewals, any channel ids, token ids re-used or not, any creation
   instants and lifetimes) and clock ticks: a chunk is accepted only under the keys of an instance that the history installed
   for that channel and whose expiry instant created + 5/4 lifetime has not been reached. *)
Theorem C17_accepted_not_expired : forall t0 ops chan key,
  let s := crun true (cinit t0) ops in
  accepts s chan key = true ->
  exists i, In i (installed 0 ops) /\ i_chan i = chan /\ i_key i = key /\ now s < due i.
Proof.
  intros t0 ops chan key s H. apply accepts_spec in H. destruct H as (i & Hin & Hk).
  destruct (crun_inv ops (cinit t0) (cinit_inv t0)) as [Hwf Hdue]. fold s in Hwf, Hdue.
  exists i. repeat split.
  - destruct (crun_sub ops (cinit t0) chan i Hin) as [[]|H]. exact H.
  - now apply Hwf.
  - exact Hk.
  - now apply Hdue with chan.
Qed.

(* The property as stated: once every token that ever carried these keys on this channel is past its lifetime plus the
   25 % grace period, a chunk protected with them is rejected. *)
Theorem C17_expired_rejected : forall t0 ops chan key,
  let s := crun true (cinit t0) ops in
  (forall i, In i (installed 0 ops) -> i_chan i = chan -> i_key i = key -> due i <= now s) ->
  accepts s chan key = false.
Proof.
  intros t0 ops chan key s Hexp. destruct (accepts s chan key) eqn:E; [|reflexivity]. exfalso.
  destruct (C17_accepted_not_expired t0 ops chan key E) as (i & H1 & H2 & H3 & H4).
  specialize (Hexp i H1 H2 H3). fold s in H4. lia.
Qed.

(* The defect that was repaired (fixed: see known_findings.txt): the routine indexed the table by token id, so nothing
   was ever removed (unless token id = channel id by coincidence). Witness: token 1 (1 s) renewed at 0.75 s by token 2;
   at 1.25 s a chunk under token 1's keys is still accepted. *)
Definition expired_rejected_prefix : Prop := forall t0 ops chan key,
  let s := crun false (cinit t0) ops in
  (forall i, In i (installed 0 ops) -> i_chan i = chan -> i_key i = key -> due i <= now s) ->
  accepts s chan key = false.
Definition witness_ops : list cop :=
  [Install 7 1 0 0 1000000000; Tick 750000000; Install 7 2 1 750000000 1000000000; Tick 500000000].
Theorem C17_prefix_refuted : ~ expired_rejected_prefix.
Proof.
  intro H. specialize (H 0 witness_ops 7%N 0%N).
  assert (Hf : accepts (crun false (cinit 0) witness_ops) 7 0 = false).
  { apply H. intros i Hin Hc Hk. cbn in Hin. destruct Hin as [<-|[<-|[]]]; [vm_compute; discriminate | cbn in Hk; discriminate]. }
  vm_compute in Hf. discriminate.
Qed.

(* The same history on the repaired routine: old keys rejected, current keys accepted; also with the token id re-used. *)
Example C17_nonvacuous :
  let s := crun true (cinit 0) witness_ops in
  accepts s 7 0 = false /\ accepts s 7 1 = true /\ now s = 1250000000 /\
  let s' := crun true (cinit 0) [Install 7 9 0 0 1000000000; Tick 750000000; Install 7 9 1 750000000 1000000000; Tick 500000000] in
  accepts s' 7 0 = false /\ accepts s' 7 1 = true.
Proof. vm_compute. repeat split. Qed.

Print Assumptions C17_accepted_not_expired.
Print Assumptions C17_expired_rejected.
Print Assumptions C17_prefix_refuted.
