(* C11 — outgoing sequence numbers increase by one per chunk, across renewals and senders; chunks of one message
   are never interleaved with chunks of another.
   model : Model.ChannelSched (interleaving semantics of the code AS IT IS NOW: any number of senders, a renewer that
           renews again and again and may fail; one atomic step per synchronisation boundary of
           uasc/secure_channel.go; wire = order of the Write calls)
   counters : Gen.ArithFromGo.go_nextSequenceNumber / go_nextRequestID (translated from the Go AST on every run)
   tie   : schedharness c11 forces schedules on the real channel through the verifhook scheduling points and the
           captured wire must be the model's wire for the same schedule.
   Model.ChannelSchedBeforeFix is the same semantics for the code before the fixes dd66ad2 / 5bac950, and
   Model.ChannelSchedBeforeGapFix for the code before fix bf63793; they are kept only for the *_before_fix theorems. *)
From Coq Require Import ZArith List Bool Lia String.
From Opcua Require Import Gen.ArithFromGo Gen.SendSide Model.ChannelSched Proofs.ChannelSchedProofs.
From Opcua Require Model.ChannelSchedBeforeFix Model.ChannelSchedBeforeGapFix.
Import ListNotations.
Open Scope Z_scope.

Module Old := Opcua.Model.ChannelSchedBeforeFix.
Module Gap := Opcua.Model.ChannelSchedBeforeGapFix.

Definition wire_ok (s : st) : Prop :=
  consecutive_rev (wire_rev s) = true /\ contiguous_rev (wire_rev s) = true.

(* FULL: under EVERY interleaving of any number of senders (any message sizes, sends failing before or between chunks)
   and any number of renewals (succeeding or failing)
     - every chunk on the wire carries the successor of the number of the chunk written before it, and
     - every chunk either continues the message of the chunk written just before it or starts a message of which
       nothing was written before (chunks of two messages never interleave; a message abandoned after some chunks is
       never resumed) *)
Theorem C11_sequence_numbers_consecutive_and_messages_never_interleaved :
  forall seq0 req0 s, reachable seq0 req0 s -> wire_ok s.
Proof. intros seq0 req0 s R. split; [eapply wire_consecutive_full|eapply wire_contiguous_full]; exact R. Qed.

(* not vacuous: a renewal under load with the counter wrapping.  Sender 0 (3 chunks) is counted before the renewal
   locks the gate, so the renewal waits for it; sender 1 is held at the gate, uses the new instance and FAILS after its
   first chunk; sender 2 fails BEFORE its first chunk (its number is handed back); a second renewal fails after its
   OPN and hands the counter back; sender 3 goes on *)
Example C11_nonvacuous : exists s,
  reachable 4294966270 7 s /\ renewals s = 1%nat /\
  wire_obs s = [(4294966271, 8, false, false); (4294966272, 8, false, false); (1, 8, true, false); (2, 9, true, true);
                (3, 10, false, false); (4, 12, true, true); (5, 13, true, false)].
Proof.
  eexists. split.
  - exists [ESpawn 2; ESpawn 1; EGate 0; ERenStart; ERenGate; EActive 0; EId 0; ELockI 0; EChunk 0; EChunk 0; EChunk 0;
            EUnlockI 0; EDone 0; ERenDrain; ERenLock; ERenCopy; ERenOpn; ERenInstall; ERenUnlock;
            EGate 1; EActive 1; EId 1; ELockI 1; EChunk 1; EFail 1; EUnlockI 1; EDone 1;
            ESpawn 0; EGate 2; EActive 2; EId 2; ELockI 2; EFail 2; EUnlockI 2; EDone 2;
            ERenStart; ERenGate; ERenDrain; ERenLock; ERenCopy; ERenOpn; ERenFail; ERenUnlock;
            ESpawn 0; EGate 3; EActive 3; EId 3; ELockI 3; EChunk 3]%nat.
    vm_compute. reflexivity.
  - split; vm_compute; reflexivity.
Qed.

(* the theorem quantifies over every value of the counter, the roll-over included: a renewal that fails right after the
   counter has wrapped (its OPN took number 1) still hands its numbers over; the next chunk carries 2 *)
Example C11_failed_renewal_across_roll_over : exists s,
  reachable 4294966271 1 s /\ wire_ok s /\
  map (fun x => fst (fst (fst x))) (wire_obs s) = [4294966272; 1; 2].
Proof.
  eexists. split.
  - exists [ESpawn 0; EGate 0; EActive 0; EId 0; ELockI 0; EChunk 0; EUnlockI 0; EDone 0;
            ERenStart; ERenGate; ERenDrain; ERenLock; ERenCopy; ERenOpn; ERenFail; ERenUnlock;
            ESpawn 0; EGate 1; EActive 1; EId 1; ELockI 1; EChunk 1]%nat. vm_compute. reflexivity.
  - split; [split; vm_compute; reflexivity|vm_compute; reflexivity].
Qed.

(* the renewal cannot overtake a counted sender: while any sender is between the gate and pendingReq.Done the
   renewer's pendingReq.Wait() step is not enabled *)
Theorem C11_renewal_waits_for_counted_senders : forall seq0 req0 s i,
  reachable seq0 req0 s -> r s = RGate i -> (exists t pc, nth_error (ss s) t = Some pc /\ in_flight pc = true) ->
  step s ERenDrain = None.
Proof.
  intros seq0 req0 s i R Rg (t & pc & H & F). pose proof (reachableP_inv _ _ _ _ R) as I.
  cbn. rewrite Rg. destruct (Nat.eqb_spec (pending s) 0) as [P0|]; [|reflexivity].
  rewrite (J3 _ I) in P0. rewrite (count_zero _ _ _ _ P0 H) in F. discriminate.
Qed.

(* ---- what the fixes repaired (model of the code before dd66ad2 / 5bac950) ---- *)

Definition C11_statement_before_fix : Prop := forall seq0 req0 s, Old.reachable seq0 req0 s ->
  Old.consecutive_rev (Old.wire_rev s) = true /\ Old.contiguous_rev (Old.wire_rev s) = true.

(* (1) a sender that had passed the gate and read the active instance but was not yet counted in pendingReq did not
   hold the renewal back: duplicate numbers *)
Definition window_schedule : list Old.ev :=
  [Old.ESpawn 0; Old.EGate 0; Old.EActive 0;
   Old.ERenStart; Old.ERenGate; Old.ERenDrain; Old.ERenLock; Old.ERenCopy; Old.ERenOpn; Old.ERenInstall; Old.ERenUnlock;
   Old.ECount 0; Old.ELockI 0; Old.EChunk 0]%nat.

Theorem C11_refuted_before_fix_renewal_window : exists s,
  Old.reachable 1 1 s /\ Old.consecutive_rev (Old.wire_rev s) = false /\
  Old.wire_obs s = [(2, 2, true, true); (2, 3, true, false)].
Proof. eexists. split; [exists window_schedule; vm_compute; reflexivity|]. split; vm_compute; reflexivity. Qed.

(* (2) in the same window two multi-chunk messages were written under two different instance locks *)
Definition interleave_schedule : list Old.ev :=
  [Old.ESpawn 1; Old.ESpawn 1; Old.EGate 0; Old.EActive 0;
   Old.ERenStart; Old.ERenGate; Old.ERenDrain; Old.ERenLock; Old.ERenCopy; Old.ERenOpn; Old.ERenInstall; Old.ERenUnlock;
   Old.EGate 1; Old.EActive 1; Old.ECount 0; Old.ECount 1; Old.ELockI 0; Old.ELockI 1;
   Old.EChunk 0; Old.EChunk 1; Old.EChunk 0; Old.EChunk 1]%nat.

Theorem C11_refuted_before_fix_interleaved_messages : exists s,
  Old.reachable 1 1 s /\ Old.contiguous_rev (Old.wire_rev s) = false /\
  Old.wire_obs s = [(2, 2, true, true); (2, 3, false, false); (3, 4, false, false); (3, 3, true, false); (4, 4, true, false)].
Proof. eexists. split; [exists interleave_schedule; vm_compute; reflexivity|]. split; vm_compute; reflexivity. Qed.

(* (3) a renewal that failed after its OPN was written had used n+1 on an instance that was thrown away *)
Definition failed_renewal_schedule : list Old.ev :=
  [Old.ERenStart; Old.ERenGate; Old.ERenDrain; Old.ERenLock; Old.ERenCopy; Old.ERenOpn; Old.ERenFail; Old.ERenUnlock;
   Old.ESpawn 0; Old.EGate 0; Old.EActive 0; Old.ECount 0; Old.ELockI 0; Old.EChunk 0]%nat.

Theorem C11_refuted_before_fix_failed_renewal : exists s,
  Old.reachable 1 1 s /\ Old.consecutive_rev (Old.wire_rev s) = false /\
  Old.wire_obs s = [(2, 2, true, true); (2, 3, true, false)].
Proof. eexists. split; [exists failed_renewal_schedule; vm_compute; reflexivity|]. split; vm_compute; reflexivity. Qed.

(* (4) before fix bf63793: a request that failed before its first chunk was written (context already done, encoding or
   size-limit error, duplicate request id, failing first write) had taken a number that never reached the wire *)
Theorem C11_refuted_before_fix_early_failure_gap : exists s,
  Gap.reachable 1 1 s /\ Gap.consecutive_rev (Gap.wire_rev_visible s) = false /\
  Gap.wire_obs s = [(2, 2, true, false); (4, 4, true, false)].
Proof.
  eexists. split.
  - exists [Gap.ESpawn 0; Gap.EGate 0; Gap.EActive 0; Gap.EId 0; Gap.ELockI 0; Gap.EChunk 0; Gap.EUnlockI 0; Gap.EDone 0;
            Gap.ESpawn 0; Gap.EGate 1; Gap.EActive 1; Gap.EId 1; Gap.ELockI 1; Gap.EFail 1; Gap.EUnlockI 1; Gap.EDone 1;
            Gap.ESpawn 0; Gap.EGate 2; Gap.EActive 2; Gap.EId 2; Gap.ELockI 2; Gap.EChunk 2]%nat. vm_compute. reflexivity.
  - split; vm_compute; reflexivity.
Qed.

Theorem C11_refuted_before_fix : ~ C11_statement_before_fix.
Proof.
  intro H. destruct C11_refuted_before_fix_renewal_window as (s & R & C & _).
  destruct (H 1 1 s R) as [X _]. congruence.
Qed.

(* the counter step, in closed form: +1, wrapping to 1 above 2^32 - 1024, never 0 *)
Theorem C11_sequence_step : forall x, 0 <= x < 4294967295 ->
  go_nextSequenceNumber x = (if x <? 4294966272 then x + 1 else 1) /\ 1 <= go_nextSequenceNumber x <= 4294966272.
Proof. exact next_seq_formula. Qed.

(* the synchronisation skeleton the model transcribes, re-read from the source on every run: the request is counted
   inside waitIfLockThen (under the gate's mutex) BEFORE the active instance is read *)
Theorem C11_tie_source_shape :
  src_sync_renew = ["s.reqLocker.lock()"; "s.reqLocker.unlock()"; "s.pendingReq.Wait()"; "instance.Lock()"; "instance.Unlock()";
                    "s.open(context.Background(), instance, ua.SecurityTokenRequestTypeRenew)"]%string /\
  src_sync_SendRequestWithTimeout = ["s.reqLocker.waitIfLockThen(func() { verifhook.Point(""sc.req.gateOpen""); s.pendingReq.Add(1) })"; "s.pendingReq.Add(1)";
     "s.getActiveChannelInstance()"; "s.pendingReq.Done()";
     "s.sendRequestWithTimeout(ctx, req, s.nextRequestID(), active, authToken, timeout, h)"; "s.nextRequestID()"]%string /\
  src_sync_waitIfLockThen = ["c.lockMu.Lock()"; "c.lockCnd.Wait()"; "f()"; "c.lockMu.Unlock()"]%string /\
  firstn 2 src_sync_sendRequestWithTimeout = ["s.sendAsyncWithTimeout(ctx, req, reqID, instance, authToken, respRequired, timeout)"; "s.pendingReq.Done()"]%string /\
  firstn 7 src_sync_open = ["s.rcvLocker.unlock()"; "s.openingMu.Lock()"; "s.openingMu.Unlock()"; "s.nextRequestID()";
     "atomic.StoreUint32(&s.openingReqID, reqID)"; "atomic.StoreUint32(&s.openingReqID, 0)"; "s.pendingReq.Add(1)"]%string /\
  firstn 3 src_sync_sendAsyncWithTimeout = ["instance.Lock()"; "instance.Unlock()"; "instance.newRequestMessage(req, reqID, authToken, timeout)"]%string /\
  firstn 3 src_sync_sendResponseWithContext = ["s.getActiveChannelInstance()"; "instance.Lock()"; "instance.Unlock()"]%string /\
  src_open_copies_sequence_number = true /\ src_open_hands_sequence_number_back = true.
Proof. repeat split; reflexivity. Qed.

Print Assumptions C11_sequence_numbers_consecutive_and_messages_never_interleaved.
Print Assumptions C11_renewal_waits_for_counted_senders.
Print Assumptions C11_refuted_before_fix_renewal_window.
Print Assumptions C11_refuted_before_fix_interleaved_messages.
Print Assumptions C11_refuted_before_fix_failed_renewal.
Print Assumptions C11_refuted_before_fix_early_failure_gap.
Print Assumptions C11_refuted_before_fix.
Print Assumptions C11_sequence_step.
Print Assumptions C11_tie_source_shape.
