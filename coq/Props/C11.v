(* C11 — outgoing sequence numbers increase by one per chunk, across renewals and senders; chunks of one message
   are never interleaved with chunks of another.
   model : Model.ChannelSched (interleaving semantics: any number of senders, a renewer that renews again and again;
           one atomic step per synchronisation boundary of uasc/secure_channel.go; wire = order of the Write calls)
   counters : Gen.ArithFromGo.go_nextSequenceNumber / go_nextRequestID (translated from the Go AST on every run)
   tie   : schedharness c11 forces schedules on the real channel through the verifhook scheduling points and the
           captured wire must be the model's wire for the same schedule. *)
From Coq Require Import ZArith List Bool Lia String.
From Opcua Require Import Gen.ArithFromGo Gen.SendSide Model.ChannelSched Proofs.ChannelSchedProofs.
Import ListNotations.
Open Scope Z_scope.

Definition wire_ok (s : st) : Prop :=
  consecutive_rev (wire_rev s) = true /\ contiguous_rev (wire_rev s) = true.

(* the full statement: every interleaving of any number of senders and renewals *)
Definition C11_statement : Prop := forall seq0 req0 s, reachable seq0 req0 s -> wire_ok s.

(* REFUTED (1): a sender that has passed the renewal gate and read the active instance, but has not yet been counted
   in pendingReq, does not hold the renewal back: pendingReq.Wait() returns, the renewal copies the counter, sends its
   OPN with number n+1 on the new instance, installs it; the sender then numbers its chunk n+1 on the OLD instance:
   two chunks with the same number (and the second one secured with the superseded token). *)
Definition window_schedule : list ev :=
  [ESpawn 0; EGate 0; EActive 0;
   ERenStart; ERenGate; ERenDrain; ERenLock; ERenCopy; ERenOpn; ERenInstall; ERenUnlock;
   ECount 0; ELockI 0; EChunk 0]%nat.

Theorem C11_refuted_renewal_window : exists s,
  reachable 1 1 s /\ consecutive_rev (wire_rev s) = false /\
  wire_obs s = [(2, 2, true, true); (2, 3, true, false)].
Proof. eexists. split; [exists window_schedule; vm_compute; reflexivity|]. split; vm_compute; reflexivity. Qed.

(* REFUTED (2): in the same window, a two-chunk message on the old instance and a two-chunk message on the new
   instance are written under two different locks: their chunks interleave on the one connection *)
Definition interleave_schedule : list ev :=
  [ESpawn 1; ESpawn 1; EGate 0; EActive 0;
   ERenStart; ERenGate; ERenDrain; ERenLock; ERenCopy; ERenOpn; ERenInstall; ERenUnlock;
   EGate 1; EActive 1; ECount 0; ECount 1; ELockI 0; ELockI 1; EChunk 0; EChunk 1; EChunk 0; EChunk 1]%nat.

Theorem C11_refuted_interleaved_messages : exists s,
  reachable 1 1 s /\ contiguous_rev (wire_rev s) = false /\
  wire_obs s = [(2, 2, true, true); (2, 3, false, false); (3, 4, false, false); (3, 3, true, false); (4, 4, true, false)].
Proof. eexists. split; [exists interleave_schedule; vm_compute; reflexivity|]. split; vm_compute; reflexivity. Qed.

(* REFUTED (3): a renewal that fails after its OPN was written (e.g. it times out) has consumed n+1 on an instance
   that is thrown away; the next message on the old instance uses n+1 again *)
Definition failed_renewal_schedule : list ev :=
  [ERenStart; ERenGate; ERenDrain; ERenLock; ERenCopy; ERenOpn; ERenFail; ERenUnlock;
   ESpawn 0; EGate 0; EActive 0; ECount 0; ELockI 0; EChunk 0]%nat.

Theorem C11_refuted_failed_renewal : exists s,
  reachable 1 1 s /\ consecutive_rev (wire_rev s) = false /\
  wire_obs s = [(2, 2, true, true); (2, 3, true, false)].
Proof. eexists. split; [exists failed_renewal_schedule; vm_compute; reflexivity|]. split; vm_compute; reflexivity. Qed.

Theorem C11_refuted : ~ C11_statement.
Proof.
  intro H. destruct C11_refuted_renewal_window as (s & R & C & _).
  destruct (H 1 1 s R) as [X _]. congruence.
Qed.

(* PARTIAL: on every run on which (a) no sender is between "passed the gate" and "counted" at the moment the
   renewer finds pendingReq drained, and (b) no renewal fails after its OPN was written -- any number of senders,
   any message sizes, any number of renewals, every interleaving -- numbers are consecutive and messages contiguous *)
Theorem C11_partial_gate_respected : forall seq0 req0 s, reachableP renew_ok seq0 req0 s -> wire_ok s.
Proof. intros; eapply wire_ok_partial; eassumption. Qed.

(* in particular on a channel that never renews (the server's channel: response and publish senders; a client
   channel between renewals): FULL for every interleaving of any number of senders *)
Theorem C11_no_renewal : forall seq0 req0 s, reachableP no_renew seq0 req0 s -> wire_ok s.
Proof. intros; eapply wire_ok_no_renewal; eassumption. Qed.

(* the hypotheses are satisfiable by a real renewal under load: sender 0 (3 chunks) is counted before the renewal
   starts, so the renewal waits for it; sender 1 is held at the gate and uses the new instance afterwards *)
Example C11_partial_nonvacuous : exists s,
  reachableP renew_ok 4294966270 7 s /\ renewals s = 1%nat /\
  map (fun x => fst (fst (fst x))) (wire_obs s) = [4294966271; 4294966272; 1; 2; 3; 4].
Proof.
  eexists. split.
  - exists [ESpawn 2; ESpawn 1; EGate 0; EActive 0; ECount 0; ERenStart; ERenGate; ELockI 0; EChunk 0; EChunk 0; EChunk 0;
            EUnlockI 0; EDone 0; ERenDrain; ERenLock; ERenCopy; ERenOpn; ERenInstall; ERenUnlock;
            EGate 1; EActive 1; ECount 1; ELockI 1; EChunk 1; EChunk 1]%nat.
    vm_compute. reflexivity.
  - split; vm_compute; reflexivity.
Qed.

(* the counter step, in closed form: +1, wrapping to 1 above 2^32 - 1024, never 0 *)
Theorem C11_sequence_step : forall x, 0 <= x < 4294967295 ->
  go_nextSequenceNumber x = (if x <? 4294966272 then x + 1 else 1) /\ 1 <= go_nextSequenceNumber x <= 4294966272.
Proof. exact next_seq_formula. Qed.

(* the synchronisation skeleton the model transcribes, re-read from the source on every run *)
Theorem C11_tie_source_shape :
  src_sync_renew = ["s.reqLocker.lock()"; "s.reqLocker.unlock()"; "s.pendingReq.Wait()"; "instance.Lock()"; "instance.Unlock()";
                    "s.open(context.Background(), instance, ua.SecurityTokenRequestTypeRenew)"]%string /\
  src_sync_SendRequestWithTimeout = ["s.reqLocker.waitIfLock()"; "s.getActiveChannelInstance()";
     "s.sendRequestWithTimeout(ctx, req, s.nextRequestID(), active, authToken, timeout, h)"; "s.nextRequestID()"]%string /\
  firstn 3 src_sync_sendRequestWithTimeout = ["s.pendingReq.Add(1)"; "s.sendAsyncWithTimeout(ctx, req, reqID, instance, authToken, respRequired, timeout)"; "s.pendingReq.Done()"]%string /\
  firstn 3 src_sync_sendAsyncWithTimeout = ["instance.Lock()"; "instance.Unlock()"; "instance.newRequestMessage(req, reqID, authToken, timeout)"]%string /\
  firstn 3 src_sync_sendResponseWithContext = ["s.getActiveChannelInstance()"; "instance.Lock()"; "instance.Unlock()"]%string /\
  src_open_copies_sequence_number = true.
Proof. repeat split; reflexivity. Qed.

Print Assumptions C11_refuted_renewal_window.
Print Assumptions C11_refuted_interleaved_messages.
Print Assumptions C11_refuted_failed_renewal.
Print Assumptions C11_refuted.
Print Assumptions C11_partial_gate_respected.
Print Assumptions C11_no_renewal.
Print Assumptions C11_sequence_step.
Print Assumptions C11_tie_source_shape.
