(* C21 — client calls never panic on any well-formed (decodable) server response.
   sites  : Gen.ClientSites.sites   (regenerated on every run from the type-checked AST of client.go, client_sub.go,
            subscription.go, node.go, monitor/subscription.go, uasc/secure_channel_crypto.go: every slice index,
            unchecked type assertion and *ua.Variant method call, with the guard that dominates it)
   models : Model.ClientOps          (hand-transcribed response-consuming code per operation, parameterised by the
            guards of its sites; tied to the implementation by the scripted-server correspondence run)
   Each theorem quantifies over ALL response shapes of its operation; the guards are the ones the code has today. *)
From Coq Require Import List String Bool Arith.
From Opcua Require Import Model.ClientGuards Model.ClientOps Proofs.ClientOpsProofs Gen.ClientSites.
Import ListNotations.
Open Scope string_scope.

Definition G (f e : string) : guard := site_guard sites f e.

(* Every potentially panicking expression in the client files is either independent of the response (with a stated
   reason) or a modelled, sufficiently guarded response-consuming site; no modelled site has disappeared. A new
   unguarded `res.Results[i]` or `x.(T)` anywhere in those files makes this fail. *)
Theorem C21_sites_covered : table_ok sites = true.
Proof. vm_compute. reflexivity. Qed.

(* The operations as the code has them today: the models instantiated with the guards of the generated table.
   The correspondence run evaluates exactly these definitions on the shapes the scripted server sent. *)
Definition assert_guard (h : helper) : guard :=
  match h with
  | HBrowseName => G "Node.BrowseName" "v.Value().(*ua.QualifiedName)"
  | HDescription => G "Node.Description" "v.Value().(*ua.LocalizedText)"
  | HDisplayName => G "Node.DisplayName" "v.Value().(*ua.LocalizedText)"
  | HAccessLevel => G "Node.AccessLevel" "v.Value().(uint8)"
  | HUserAccessLevel => G "Node.UserAccessLevel" "v.Value().(uint8)"
  | HNamespaceArray => G "Client.NamespaceArray" "v.Value().([]string)"
  | HStats => G "Subscription.Stats" "v.Value().([]*ua.ExtensionObject)"
  | HNodeClass | HValue => GCommaOk   (* no assertion in these helpers *)
  end.
Definition impl_node_helper h k nres d := node_helper (G "Node.Attribute" "res.Results[0]") (assert_guard h) h k nres d.
Definition impl_references first nexts := references (G "Node.browseNext" "results[0]") first nexts.
Definition impl_call k nres := call (G "Client.Call" "res.Results[0]") k nres.
Definition impl_translate k nres st nt :=
  translate (G "Node.TranslateBrowsePathsToNodeIDs" "resp.Results[0]")
            (G "Node.TranslateBrowsePathsToNodeIDs" "resp.Results[0].Targets[0]") k nres st nt.
Definition impl_monitor k nitems nres := monitor_items (G "Subscription.Monitor" "res.Results[i]") k nitems nres.
Definition impl_modify k nmod oks := modify_items (G "Subscription.ModifyMonitoredItems" "req.ItemsToModify[i]") k nmod oks.
Definition impl_cancel k nres st0 := cancel (G "Subscription.delete" "res.Results[0]") k nres st0.
Definition impl_monitor_pkg_add k nitems oks :=
  add_monitor_items (G "Subscription.Monitor" "res.Results[i]") (G "Subscription.AddMonitorItems" "toAdd[i]") k nitems oks.
Definition impl_publish_loop pending rs := publish_loop (G "Client.handleAcks_NeedsSubMuxLock" "res[i]") pending rs [].
Definition impl_reconnect t nsubs invalid k nitems oks :=
  reconnect (G "Client.monitor" "subIDs[i]") (G "Subscription.recreate_monitoredItems" "res.Results[i]") t nsubs invalid k nitems oks.
Definition impl_connect kc kr nres d :=
  connect_shape (G "Node.Attribute" "res.Results[0]") (G "Client.NamespaceArray" "v.Value().([]string)") kc kr nres d.

(* Node.NodeClass / BrowseName / Description / DisplayName / AccessLevel / UserAccessLevel / Value,
   Client.NamespaceArray, Subscription.Stats: any response kind, any number of results, any value kind, any status *)
Theorem C21_node_helpers : forall h k nres d, impl_node_helper h k nres d <> Panic.
Proof.
  intros h k nres d. apply node_helper_safe; [vm_compute; reflexivity|]. destruct h; vm_compute; reflexivity.
Qed.

(* Node.References / ReferencedNodes / Children: any Browse response followed by any sequence of BrowseNext responses *)
Theorem C21_references : forall first nexts, impl_references first nexts <> Panic.
Proof. intros. apply references_safe. vm_compute. reflexivity. Qed.

Theorem C21_call : forall k nres, impl_call k nres <> Panic.
Proof. intros. apply call_safe. vm_compute. reflexivity. Qed.

Theorem C21_translate : forall k nres st ntargets, impl_translate k nres st ntargets <> Panic.
Proof. intros. apply translate_safe; vm_compute; reflexivity. Qed.

Theorem C21_monitor : forall k nitems nres, impl_monitor k nitems nres <> Panic.
Proof. intros. eapply monitor_items_safe with (r := "len(items)"). vm_compute. reflexivity. Qed.

Theorem C21_modify : forall k nmod oks, impl_modify k nmod oks <> Panic.
Proof. intros. eapply modify_items_safe with (r := "len(res.Results)"). vm_compute. reflexivity. Qed.

Theorem C21_cancel : forall k nres st0, impl_cancel k nres st0 <> Panic.
Proof. intros. apply cancel_safe. vm_compute. reflexivity. Qed.

(* Read, Write, Browse, BrowseNext, RegisterNodes, UnregisterNodes, HistoryRead*, FindServers, GetEndpoints,
   Attributes, Unmonitor, SetTriggering, SetMonitoringMode, ModifySubscription; Subscribe *)
Theorem C21_simple : forall k, simple k <> Panic.
Proof. exact simple_safe. Qed.

Theorem C21_subscribe : forall k subid0, subscribe k subid0 <> Panic.
Proof. exact subscribe_safe. Qed.

(* monitor.Subscription.AddMonitorItems (and AddNodes / AddNodeIDs, which call it) *)
Theorem C21_monitor_pkg_add : forall k nitems oks, impl_monitor_pkg_add k nitems oks <> Panic.
Proof.
  intros. eapply add_monitor_items_safe with (r1 := "len(items)") (r2 := "len(resp.Results)"); vm_compute; reflexivity.
Qed.

(* the background publish loop: any sequence of publish responses, from any number of pending acknowledgements *)
Theorem C21_publish_loop : forall rs pending, impl_publish_loop pending rs <> None.
Proof. intros. apply publish_loop_safe. vm_compute. reflexivity. Qed.

(* the reconnect goroutine: any TransferSubscriptions outcome and any CreateMonitoredItems answer while recreating *)
Theorem C21_reconnect : forall t nsubs invalid k nitems oks, impl_reconnect t nsubs invalid k nitems oks <> Panic.
Proof.
  intros. eapply reconnect_safe with (r1 := "len(res.Results)") (r2 := "len(items)"); vm_compute; reflexivity.
Qed.

(* Connect, as far as response shapes go (CreateSession answer kind, then the namespace array read) *)
Theorem C21_connect : forall kc kr nres d, impl_connect kc kr nres d <> Panic.
Proof. intros. apply connect_shape_safe; vm_compute; reflexivity. Qed.

(* The models are not vacuously safe: with the guard removed they do panic (these are the defects of DESIGN row 17,
   fixed in /repo; see known_findings.txt). *)
Example C21_unguarded_monitor_panics : monitor_items GNone KExpected 2 1 = Panic.
Proof. reflexivity. Qed.
Example C21_unguarded_browse_name_panics :
  node_helper GLenEq0Ret GNone HBrowseName KExpected 1 {| dv_value := VStrArr; dv_good := true |} = Panic.
Proof. reflexivity. Qed.

Print Assumptions C21_sites_covered.
Print Assumptions C21_node_helpers.
Print Assumptions C21_references.
Print Assumptions C21_call.
Print Assumptions C21_translate.
Print Assumptions C21_monitor.
Print Assumptions C21_modify.
Print Assumptions C21_cancel.
Print Assumptions C21_simple.
Print Assumptions C21_subscribe.
Print Assumptions C21_monitor_pkg_add.
Print Assumptions C21_publish_loop.
Print Assumptions C21_reconnect.
Print Assumptions C21_connect.
