(* LocksetProofs.v — if every two conflicting access sites of a table share a lock (one side exclusively) then no
   interleaving of any number of threads that follow the table reaches a racy state (C36). *)
From Coq Require Import Bool String List Arith Lia.
From Opcua Require Import Model.Lockset.
Import ListNotations.

(* ---- list surgery ---- *)
Lemma nth_error_mid : forall (A : Type) (pre post : list A) x, nth_error (pre ++ x :: post) (length pre) = Some x.
Proof. intros A pre post x. rewrite nth_error_app2 by lia. rewrite Nat.sub_diag. reflexivity. Qed.

Lemma nth_error_other : forall (A : Type) (pre post : list A) x y k, k <> length pre ->
  nth_error (pre ++ x :: post) k = nth_error (pre ++ y :: post) k.
Proof.
  intros A pre post x y k Hk. destruct (Nat.lt_ge_cases k (length pre)) as [H|H].
  - rewrite !nth_error_app1 by exact H. reflexivity.
  - rewrite !nth_error_app2 by exact H. destruct (k - length pre) as [|m] eqn:E; [lia|reflexivity].
Qed.

(* ---- held-set facts ---- *)
Lemma holds_in : forall h l, holds h l = true <-> exists e, In e h /\ fst e = l.
Proof.
  intros h l. unfold holds. rewrite existsb_exists. split; intros [e [Hi He]]; exists e; split; auto.
  - apply String.eqb_eq. exact He.
  - apply String.eqb_eq. exact He.
Qed.

Lemma holds_excl_in : forall h l, holds_excl h l = true <-> In (l, true) h.
Proof.
  intros h l. unfold holds_excl. rewrite existsb_exists. split.
  - intros [[a b] [Hi He]]. cbn in He. apply andb_prop in He. destruct He as [H1 H2]. apply String.eqb_eq in H1. subst. exact Hi.
  - intro Hi. exists (l, true). split; [exact Hi|]. cbn. rewrite String.eqb_refl. reflexivity.
Qed.

Lemma holds_excl_holds : forall h l, holds_excl h l = true -> holds h l = true.
Proof. intros h l H. apply holds_excl_in in H. apply holds_in. exists (l, true). auto. Qed.

Lemma release_sub : forall h l e, In e (release h l) -> In e h.
Proof. intros h l e H. unfold release in H. apply filter_In in H. apply H. Qed.

(* ---- invariants ---- *)
Definition excl_pair (a b : held) : Prop := forall l, holds_excl a l = true -> holds b l = false.

Definition mutex_inv (s : state) : Prop :=
  forall i j a b, i <> j -> nth_error s i = Some a -> nth_error s j = Some b -> excl_pair (t_held a) (t_held b).

Definition cover_inv (T : list site) (s : state) : Prop :=
  forall i a, nth_error s i = Some a -> forallb (covered T) (sites_from (t_held a) (t_rest a)) = true.

Lemma mutex_start : forall progs, mutex_inv (start progs).
Proof.
  intros progs i j a b _ Ha _ l Hl. unfold start in Ha. rewrite nth_error_map in Ha.
  destruct (nth_error progs i); [|discriminate]. inversion Ha; subst. discriminate.
Qed.

Lemma cover_start : forall T progs, (forall p, In p progs -> follows T p = true) -> cover_inv T (start progs).
Proof.
  intros T progs H i a Ha. unfold start in Ha. rewrite nth_error_map in Ha.
  destruct (nth_error progs i) as [p|] eqn:E; [|discriminate]. inversion Ha; subst. cbn.
  apply H. eapply nth_error_In. exact E.
Qed.

Lemma can_acquire_others : forall pre post h l excl t,
  can_acquire (pre ++ post) h l excl = true -> In t (pre ++ post) ->
  if excl then holds (t_held t) l = false else holds_excl (t_held t) l = false.
Proof.
  intros pre post h l excl t H Hin. unfold can_acquire in H. apply andb_prop in H. destruct H as [_ H].
  rewrite forallb_forall in H. specialize (H t Hin). destruct excl; apply negb_true_iff in H; exact H.
Qed.

Lemma other_in : forall (pre post : list thread) x k b, k <> length pre ->
  nth_error (pre ++ x :: post) k = Some b -> In b (pre ++ post).
Proof.
  intros pre post x k b Hk H. destruct (Nat.lt_ge_cases k (length pre)) as [Hl|Hl].
  - rewrite nth_error_app1 in H by exact Hl. apply in_or_app. left. eapply nth_error_In. exact H.
  - rewrite nth_error_app2 in H by exact Hl. destruct (k - length pre) as [|m] eqn:E; [lia|].
    cbn in H. apply in_or_app. right. eapply nth_error_In. exact H.
Qed.

Lemma mutex_step : forall s s', step s s' -> mutex_inv s -> mutex_inv s'.
Proof.
  intros s s' Hs Hinv. destruct Hs as [pre post h l excl rest Hca|pre post h l rest|pre post h x k rest].
  - (* acquire *)
    set (old := {| t_held := h; t_rest := Acq l excl :: rest |}).
    intros i j a b Hij Ha Hb.
    destruct (Nat.eq_dec i (length pre)) as [Ei|Ei]; destruct (Nat.eq_dec j (length pre)) as [Ej|Ej]; try lia.
    + subst i. rewrite nth_error_mid in Ha. inversion Ha; subst a. cbn [t_held].
      rewrite (nth_error_other _ pre post _ old j Ej) in Hb.
      pose proof (other_in pre post old j b Ej Hb) as Hin.
      pose proof (can_acquire_others _ _ _ _ _ _ Hca Hin) as Hoth.
      intros l' Hl'. apply holds_excl_in in Hl'. destruct Hl' as [Hl'|Hl'].
      * inversion Hl'; subst. exact Hoth.
      * apply (Hinv (length pre) j old b Hij (nth_error_mid _ pre post old) Hb). apply holds_excl_in. exact Hl'.
    + subst j. rewrite nth_error_mid in Hb. inversion Hb; subst b. cbn [t_held].
      rewrite (nth_error_other _ pre post _ old i Ei) in Ha.
      pose proof (other_in pre post old i a Ei Ha) as Hin.
      pose proof (can_acquire_others _ _ _ _ _ _ Hca Hin) as Hoth.
      intros l' Hl'. destruct (holds ((l, excl) :: h) l') eqn:Eh; [|reflexivity]. exfalso.
      unfold holds in Eh. cbn [existsb fst] in Eh. apply orb_prop in Eh. destruct Eh as [Eh|Eh].
      * apply String.eqb_eq in Eh. subst l'. destruct excl.
        -- apply holds_excl_holds in Hl'. congruence.
        -- congruence.
      * pose proof (Hinv i (length pre) a old Hij Ha (nth_error_mid _ pre post old) l' Hl') as Hx.
        unfold holds in Hx. cbn [t_held old] in Hx. congruence.
    + rewrite (nth_error_other _ pre post _ old i Ei) in Ha. rewrite (nth_error_other _ pre post _ old j Ej) in Hb.
      exact (Hinv i j a b Hij Ha Hb).
  - (* release *)
    set (old := {| t_held := h; t_rest := Rel l :: rest |}).
    intros i j a b Hij Ha Hb.
    destruct (Nat.eq_dec i (length pre)) as [Ei|Ei]; destruct (Nat.eq_dec j (length pre)) as [Ej|Ej]; try lia.
    + subst i. rewrite nth_error_mid in Ha. inversion Ha; subst a. cbn [t_held].
      rewrite (nth_error_other _ pre post _ old j Ej) in Hb.
      intros l' Hl'. apply (Hinv (length pre) j old b Hij (nth_error_mid _ pre post old) Hb).
      apply holds_excl_in. apply holds_excl_in in Hl'. eapply release_sub. exact Hl'.
    + subst j. rewrite nth_error_mid in Hb. inversion Hb; subst b. cbn [t_held].
      rewrite (nth_error_other _ pre post _ old i Ei) in Ha.
      intros l' Hl'. pose proof (Hinv i (length pre) a old Hij Ha (nth_error_mid _ pre post old) l' Hl') as Hx.
      cbn [t_held old] in Hx. destruct (holds (release h l) l') eqn:Eh; [|reflexivity]. exfalso.
      apply holds_in in Eh. destruct Eh as [e [Hi He]]. apply release_sub in Hi.
      assert (holds h l' = true) by (apply holds_in; exists e; auto). congruence.
    + rewrite (nth_error_other _ pre post _ old i Ei) in Ha. rewrite (nth_error_other _ pre post _ old j Ej) in Hb.
      exact (Hinv i j a b Hij Ha Hb).
  - (* access *)
    set (old := {| t_held := h; t_rest := Acc x k :: rest |}).
    intros i j a b Hij Ha Hb.
    destruct (Nat.eq_dec i (length pre)) as [Ei|Ei]; destruct (Nat.eq_dec j (length pre)) as [Ej|Ej]; try lia.
    + subst i. rewrite nth_error_mid in Ha. inversion Ha; subst a. cbn [t_held].
      rewrite (nth_error_other _ pre post _ old j Ej) in Hb.
      exact (Hinv (length pre) j old b Hij (nth_error_mid _ pre post old) Hb).
    + subst j. rewrite nth_error_mid in Hb. inversion Hb; subst b. cbn [t_held].
      rewrite (nth_error_other _ pre post _ old i Ei) in Ha.
      exact (Hinv i (length pre) a old Hij Ha (nth_error_mid _ pre post old)).
    + rewrite (nth_error_other _ pre post _ old i Ei) in Ha. rewrite (nth_error_other _ pre post _ old j Ej) in Hb.
      exact (Hinv i j a b Hij Ha Hb).
Qed.

Lemma cover_step : forall T s s', step s s' -> cover_inv T s -> cover_inv T s'.
Proof.
  intros T s s' Hs Hinv. destruct Hs as [pre post h l excl rest Hca|pre post h l rest|pre post h x k rest];
    intros i a Ha; (destruct (Nat.eq_dec i (length pre)) as [Ei|Ei];
    [subst i; rewrite nth_error_mid in Ha; inversion Ha; subst a; cbn [t_held t_rest]
    |erewrite nth_error_other in Ha by exact Ei; exact (Hinv i a Ha)]).
  - exact (Hinv (length pre) _ (nth_error_mid _ pre post {| t_held := h; t_rest := Acq l excl :: rest |})).
  - exact (Hinv (length pre) _ (nth_error_mid _ pre post {| t_held := h; t_rest := Rel l :: rest |})).
  - pose proof (Hinv (length pre) _ (nth_error_mid _ pre post {| t_held := h; t_rest := Acc x k :: rest |})) as H.
    cbn [t_held t_rest sites_from forallb] in H. apply andb_prop in H. apply H.
Qed.

Lemma invs_reachable : forall T progs s, (forall p, In p progs -> follows T p = true) ->
  reachable (start progs) s -> mutex_inv s /\ cover_inv T s.
Proof.
  intros T progs s Hf Hr. induction Hr as [|s s' Hr IH Hs].
  - split; [apply mutex_start|apply cover_start; exact Hf].
  - destruct IH as [Hm Hc]. split; [eapply mutex_step; eassumption|eapply cover_step; eassumption].
Qed.

Lemma covered_inv : forall T x k h, covered T {| s_loc := x; s_kind := k; s_locks := h |} = true ->
  exists t, In t T /\ s_loc t = x /\ s_kind t = k /\ sub_held (s_locks t) h = true.
Proof.
  intros T x k h H. unfold covered in H. apply existsb_exists in H. destruct H as [t [Hi Ht]].
  cbn [s_loc s_kind s_locks] in Ht. apply andb_prop in Ht. destruct Ht as [Ht Hs]. apply andb_prop in Ht. destruct Ht as [Hl Hk].
  apply String.eqb_eq in Hl. exists t. repeat split; try assumption. destruct (s_kind t), k; try discriminate; reflexivity.
Qed.

Lemma sub_held_holds : forall small big e, sub_held small big = true -> In e small ->
  holds big (fst e) = true /\ (snd e = true -> holds_excl big (fst e) = true).
Proof.
  intros small big e H Hi. unfold sub_held in H. rewrite forallb_forall in H. specialize (H e Hi).
  apply andb_prop in H. destruct H as [H1 H2]. split; [exact H1|]. intro Hs. rewrite Hs in H2. exact H2.
Qed.

(* THE THEOREM: any number of threads, any schedule *)
Theorem lockset_race_free : forall T progs,
  table_ok T = true -> (forall p, In p progs -> follows T p = true) ->
  forall s, reachable (start progs) s -> ~ racy s.
Proof.
  intros T progs HT Hf s Hr [pre [mid [post [h1 [h2 [x [k1 [k2 [r1 [r2 [Hs Hk]]]]]]]]]]].
  destruct (invs_reachable T progs s Hf Hr) as [Hm Hc].
  set (t1 := {| t_held := h1; t_rest := Acc x k1 :: r1 |}) in *.
  set (t2 := {| t_held := h2; t_rest := Acc x k2 :: r2 |}) in *.
  assert (N1 : nth_error s (length pre) = Some t1) by (subst s; apply nth_error_mid).
  assert (N2 : nth_error s (length pre + S (length mid)) = Some t2).
  { subst s. rewrite nth_error_app2 by lia. replace (length pre + S (length mid) - length pre) with (S (length mid)) by lia.
    cbn [nth_error]. apply nth_error_mid. }
  assert (Hne : length pre <> length pre + S (length mid)) by lia.
  pose proof (Hc _ _ N1) as C1. pose proof (Hc _ _ N2) as C2.
  cbn [t_held t_rest t1 t2 sites_from forallb] in C1, C2.
  apply andb_prop in C1. destruct C1 as [C1 _]. apply andb_prop in C2. destruct C2 as [C2 _].
  destruct (covered_inv _ _ _ _ C1) as [ta [Ia [La [Ka Sa]]]]. destruct (covered_inv _ _ _ _ C2) as [tb [Ib [Lb [Kb Sb]]]].
  unfold table_ok in HT. rewrite forallb_forall in HT. specialize (HT ta Ia). rewrite forallb_forall in HT. specialize (HT tb Ib).
  unfold sites_ok in HT. rewrite La, Lb, Ka, Kb, String.eqb_refl, Hk in HT. cbn [andb negb orb] in HT.
  unfold guarded_pair in HT. apply existsb_exists in HT. destruct HT as [e [Ie He]].
  apply andb_prop in He. destruct He as [Hb He].
  destruct (sub_held_holds _ _ _ Sa Ie) as [A1 A2].
  apply holds_in in Hb. destruct Hb as [e' [Ie' Fe']].
  destruct (sub_held_holds _ _ _ Sb Ie') as [B1 B2]. rewrite Fe' in B1, B2.
  apply orb_prop in He. destruct He as [He|He].
  - (* the first side holds the lock exclusively *)
    pose proof (Hm _ _ _ _ Hne N1 N2 (fst e) (A2 He)) as X. cbn [t_held t2] in X. congruence.
  - (* the second side holds it exclusively *)
    apply holds_excl_in in He. destruct (sub_held_holds _ _ _ Sb He) as [_ B3]. cbn [fst snd] in B3. specialize (B3 eq_refl).
    assert (Hne' : length pre + S (length mid) <> length pre) by lia.
    pose proof (Hm _ _ _ _ Hne' N2 N1 (fst e) B3) as X. cbn [t_held t1] in X. congruence.
Qed.

(* conversely: an unguarded conflicting pair is a race of the two-thread program that runs both sites *)
Theorem unguarded_pair_races : forall x k1 k2 (p1 p2 : list ev) r1 r2,
  conflict k1 k2 = true ->
  racy (start [Acc x k1 :: r1; Acc x k2 :: r2]).
Proof.
  intros x k1 k2 p1 p2 r1 r2 Hk. exists [], [], [], [], [], x, k1, k2, r1, r2. split; [reflexivity|exact Hk].
Qed.
