(* E1 codec, C01: round trip of ExtensionObject: nil pointer, mask 0, nil body, XML body, registered struct body,
   relative to the decoder one nesting level down for the body. *)
From Coq Require Import NArith ZArith List Bool Lia.
From Coq.Strings Require Import Byte.
From Opcua Require Import Model.CodecTypes Model.Codec Model.CodecWf Model.CodecWfAll Proofs.CodecBase Proofs.CodecRoundtrip
  Proofs.CodecRT Proofs.CodecCustomsA.
Import ListNotations.
Open Scope Z_scope.

Definition enc_extobj_body (reg : list (Z * Z * ty)) (mask : Z) (tv : val) (body : option val) : eres :=
  if mask =? 0 then EOk []
  else
    let b := match body with
             | None => EOk []
             | Some bv =>
               match (if mask =? 2 then Some xml_body_ty else option_map TPtr (lookup_expnodeid reg tv)) with
               | Some bt => encode reg bt bv
               | None => EIllTyped
               end
             end in
    match b with
    | EOk bb => EOk (le 4 (blen bb) ++ bb)
    | e => e
    end.

Lemma encode_extobj : forall reg mask tv body,
  encode reg (TCustom CExtObj) (VExtObj mask (Some tv) body) =
  eapp (enc_expnodeid tv) (eapp (EOk [byte_of_Z mask]) (enc_extobj_body reg mask tv body)).
Proof. reflexivity. Qed.

Lemma rwf_extobj : forall reg m tv body,
  rwf reg (TCustom CExtObj) (VExtObj m (Some tv) body) =
  byte_ok m && expnodeid_ok tv &&
  (if m =? 0 then true
   else match body with
        | None => true
        | Some bv =>
          match extobj_body_ty reg m tv with
          | Some bt => rwf reg bt bv &&
                       match encode reg bt bv with EOk bb => (0 <? blen bb) && (blen bb <? null32) | _ => false end
          | None => false
          end
        end).
Proof. reflexivity. Qed.

Lemma rnorm_extobj : forall reg m tv body,
  rnorm reg (TCustom CExtObj) (VExtObj m (Some tv) body) =
  VExtObj m (Some (norm_expnodeid tv))
    (if m =? 0 then None
     else match body with
          | None => None
          | Some bv => match extobj_body_ty reg m tv with Some bt => Some (rnorm reg bt bv) | None => body end
          end).
Proof. reflexivity. Qed.

Lemma lookup_norm_expnodeid : forall reg tv t, lookup_expnodeid reg tv = Some t ->
  lookup_expnodeid reg (norm_expnodeid tv) = Some t.
Proof.
  intros reg tv t H. destruct tv; try discriminate. destruct nid as [n|]; [|discriminate].
  cbn [norm_expnodeid lookup_expnodeid] in *. destruct n; try discriminate. exact H.
Qed.

Lemma decodes_run_sub : forall A (d : dec A) body x bs, decodes d body x [] -> decodes (run_sub d body) bs x bs.
Proof. intros A d body x bs [al H]. unfold decodes, run_sub. rewrite H. eexists. reflexivity. Qed.

Section ExtObj.
  Variable reg : list (Z * Z * ty).
  Variable rec : ty -> dec val.
  Variable k : nat.

  Lemma RTb_extobj_body : forall m tv body tid',
    byte_ok m = true ->
    (if m =? 0 then true
     else match body with
          | None => true
          | Some bv =>
            match extobj_body_ty reg m tv with
            | Some bt => rwf reg bt bv &&
                         match encode reg bt bv with EOk bb => (0 <? blen bb) && (blen bb <? null32) | _ => false end
            | None => false
            end
          end) = true ->
    tid' = norm_expnodeid tv ->
    (forall bt bv, body = Some bv -> (m =? 0) = false -> extobj_body_ty reg m tv = Some bt -> rwf reg bt bv = true ->
       RTb 0 k (encode reg bt bv) (rec bt) (rnorm reg bt bv)) ->
    RTb 0 k (enc_extobj_body reg m tv body)
      (if m =? 0 then ret (VExtObj m (Some tid') None)
       else
         len <- read_u 4 ;;
         if (len =? 0) || (len =? null32) then ret (VExtObj m (Some tid') None)
         else
           body <- read_n len ;;
           if m =? 2 then v <- run_sub (rec xml_body_ty) body ;; ret (VExtObj m (Some tid') (Some v))
           else match lookup_expnodeid reg tid' with
                | None => ret (VExtObj m (Some tid') None)
                | Some t => v <- run_sub (rec (TPtr t)) body ;; ret (VExtObj m (Some tid') (Some v))
                end)
      (VExtObj m (Some tid')
         (if m =? 0 then None
          else match body with
               | None => None
               | Some bv => match extobj_body_ty reg m tv with Some bt => Some (rnorm reg bt bv) | None => body end
               end)).
  Proof.
    intros m tv body tid' Hm H Etid Hrec. unfold enc_extobj_body. destruct (m =? 0) eqn:E0; [apply RTb_ret|].
    destruct body as [bv|].
    - destruct (extobj_body_ty reg m tv) as [bt|] eqn:Ebt; [|discriminate]. apply andb_true in H. destruct H as [Hw Hlen].
      destruct (Hrec bt bv eq_refl eq_refl eq_refl Hw) as [bb [Ebb [_ Dbb]]].
      change (if m =? 2 then Some xml_body_ty else option_map TPtr (lookup_expnodeid reg tv)) with (extobj_body_ty reg m tv).
      rewrite Ebt. cbv zeta. rewrite Ebb in *. apply andb_true in Hlen. destruct Hlen as [Hpos Hnull].
      apply Z.ltb_lt in Hpos, Hnull.
      exists (le 4 (blen bb) ++ bb). split; [reflexivity|]. split; [lia|]. intros Hl rest.
      rewrite app_length, le_length in Hl. rewrite <- app_assoc.
      eapply decodes_bind; [apply decodes_read_u; rewrite pow8_4; unfold null32 in Hnull; lia|].
      replace ((blen bb =? 0) || (blen bb =? null32)) with false.
      2:{ symmetry. apply orb_false_iff. split; apply Z.eqb_neq; lia. }
      eapply decodes_bind; [apply decodes_read_n|].
      assert (Dsub : decodes (rec bt) bb (rnorm reg bt bv) []).
      { specialize (Dbb ltac:(lia) []). rewrite app_nil_r in Dbb. exact Dbb. }
      unfold extobj_body_ty in Ebt. destruct (m =? 2) eqn:E2.
      + inversion Ebt; subst bt.
        eapply decodes_bind; [apply decodes_run_sub; exact Dsub|apply decodes_ret].
      + destruct (lookup_expnodeid reg tv) as [t|] eqn:El; [|discriminate]. cbn [option_map] in Ebt. inversion Ebt; subst bt.
        subst tid'. rewrite (lookup_norm_expnodeid reg tv t El).
        eapply decodes_bind; [apply decodes_run_sub; exact Dsub|apply decodes_ret].
    - cbv zeta. eapply RTb_prim; [reflexivity|apply Nat.le_0_l|]. intros rest.
      change (blen []) with 0. rewrite <- app_assoc.
      eapply decodes_bind; [apply decodes_read_u; rewrite pow8_4; lia|].
      change ((0 =? 0) || (0 =? null32)) with true. cbv iota. apply decodes_ret.
  Qed.

  Lemma RTb_extobj : forall m tv body,
    rwf reg (TCustom CExtObj) (VExtObj m (Some tv) body) = true ->
    (forall bt bv, body = Some bv -> (m =? 0) = false -> extobj_body_ty reg m tv = Some bt -> rwf reg bt bv = true ->
       RTb 0 k (encode reg bt bv) (rec bt) (rnorm reg bt bv)) ->
    RTb 3 (S k) (encode reg (TCustom CExtObj) (VExtObj m (Some tv) body)) (dec_extobj reg rec)
        (rnorm reg (TCustom CExtObj) (VExtObj m (Some tv) body)).
  Proof.
    intros m tv body H Hrec. rewrite rwf_extobj in H. apply andb_true in H. destruct H as [H Hbody].
    apply andb_true in H. destruct H as [Hm Htv].
    rewrite encode_extobj, rnorm_extobj. unfold dec_extobj. apply RTb_tick.
    rt_weaken ltac:(eapply RTb_bind_strict; [|apply RTb_expnodeid; exact Htv|]; [lia|]; cbv beta;
                    eapply RTb_bind; [apply RTb_byte; exact Hm|]; cbv beta;
                    apply (RTb_extobj_body m tv body (norm_expnodeid tv) Hm Hbody eq_refl Hrec)).
  Qed.

  (* nil *ExtensionObject: Encode writes the two-byte null id and mask 0 *)
  Lemma RTb_extobj_nil :
    RTb 3 (S k) (encode reg (TCustom CExtObj) (VPtr None)) (dec_extobj reg rec) (rnorm reg (TCustom CExtObj) (VPtr None)).
  Proof.
    eapply RTb_eq; [apply (RTb_extobj 0 (VExpNodeID None [] 0) None); [reflexivity|intros; discriminate]| | |]; reflexivity.
  Qed.
End ExtObj.
