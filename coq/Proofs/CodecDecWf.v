(* E1 codec, C03: whatever the decoder returns is a well-formed value (rwf0: rwf without the condition on the size of
   re-encoded extension object bodies) and its own normal form.  For inputs of at most MaxInt32 bytes (strings longer than that cannot be re-encoded), any registry of
   descriptors satisfying desc_ok, any nesting budget. *)
From Coq Require Import NArith ZArith List Bool Lia.
From Coq.Strings Require Import Byte.
From Opcua Require Import Model.CodecTypes Model.Codec Model.CodecWf Model.CodecWfAll Proofs.CodecBase Proofs.CodecRoundtrip
  Proofs.CodecRT Proofs.CodecSplit Proofs.CodecCustomsA Proofs.CodecCustomsB Proofs.CodecCustomsC Proofs.CodecCustomsD
  Proofs.CodecRoundtripAll.
Import ListNotations.
Open Scope Z_scope.

Definition small (bs : bytes) : Prop := blen bs <= max_int32.

(* postcondition of a decoder on small inputs; the unread rest is never longer than the input *)
Definition post {A} (P : A -> Prop) (d : dec A) : Prop :=
  forall bs x rest al, small bs -> d bs = Ok x rest al -> P x /\ (length rest <= length bs)%nat.

Lemma post_ret : forall A (P : A -> Prop) a, P a -> post P (ret a).
Proof. intros A P a H bs x rest al _ E. inversion E; subst. split; [exact H|lia]. Qed.
Lemma post_fail : forall A (P : A -> Prop) e, post P (fail e).
Proof. intros A P e bs x rest al _ E. discriminate. Qed.
Lemma post_panic : forall A (P : A -> Prop), post P panic.
Proof. intros A P bs x rest al _ E. discriminate. Qed.
Lemma post_weaken : forall A (P Q : A -> Prop) d, post P d -> (forall x, P x -> Q x) -> post Q d.
Proof. intros A P Q d H HPQ bs x rest al Hs E. destruct (H bs x rest al Hs E). split; auto. Qed.

Lemma add_al_ok : forall A n (r : res A) x rest al, add_al n r = Ok x rest al -> exists al', r = Ok x rest al'.
Proof. intros A n [a r0 al0|e al0|al0|] x rest al H; cbn in H; try discriminate. inversion H; subst. eauto. Qed.

Lemma post_bind : forall A B (P : A -> Prop) (Q : B -> Prop) (m : dec A) (f : A -> dec B),
  post P m -> (forall a, P a -> post Q (f a)) -> post Q (bind m f).
Proof.
  intros A B P Q m f Hm Hf bs x rest al Hs E. unfold bind in E.
  destruct (m bs) as [a r1 al1|e al1|al1|] eqn:Em; try discriminate.
  destruct (Hm bs a r1 al1 Hs Em) as [Pa L1]. apply add_al_ok in E. destruct E as [al' E].
  assert (Hs1 : small r1) by (unfold small, blen in *; lia).
  destruct (Hf a Pa r1 x rest al' Hs1 E) as [Qx L2]. split; [exact Qx|lia].
Qed.

Lemma post_tick : forall n, post (fun _ => True) (tick n).
Proof. intros n bs x rest al _ E. inversion E; subst. split; [exact I|lia]. Qed.
Lemma post_remaining : post (fun r => 0 <= r <= max_int32) remaining.
Proof. intros bs x rest al Hs E. inversion E; subst. unfold small, blen in *. split; [lia|lia]. Qed.
Lemma post_if : forall A (P : A -> Prop) (b : bool) (x y : dec A), post P x -> post P y -> post P (if b then x else y).
Proof. intros A P [|] x y Hx Hy; assumption. Qed.

(* bind where the continuation ignores the value of a tick *)
Lemma post_tick_bind : forall A (Q : A -> Prop) n (d : dec A), post Q d -> post Q (bind (tick n) (fun _ => d)).
Proof. intros A Q n d H. eapply post_bind; [apply post_tick|]. intros _ _. exact H. Qed.

Lemma post_read_n : forall n, post (fun d => blen d = n /\ 0 <= n <= max_int32) (read_n n).
Proof.
  intros n bs x rest al Hs E. unfold read_n in E. destruct (n <? 0) eqn:E0; [discriminate|].
  destruct (blen bs <? n) eqn:E1; [discriminate|]. inversion E; subst. apply Z.ltb_ge in E0, E1.
  unfold small, blen in *. rewrite firstn_length, skipn_length. split; [|lia]. split; lia.
Qed.

Lemma Z_of_byte_range : forall b, 0 <= Z_of_byte b < 256.
Proof. intros b. unfold Z_of_byte. pose proof (Byte.to_N_bounded b). lia. Qed.

Lemma unle_range : forall d, 0 <= unle d < pow8 (length d).
Proof.
  induction d as [|b r IH]; [cbn; unfold pow8; cbn; lia|].
  cbn [unle length]. rewrite pow8_S. pose proof (Z_of_byte_range b). lia.
Qed.

Lemma post_read_u : forall w, post (fun z => 0 <= z < pow8 w) (read_u w).
Proof.
  intros w. unfold read_u. eapply post_bind; [apply post_read_n|]. intros d [Hd _]. apply post_ret.
  pose proof (unle_range d) as H. unfold blen in Hd. apply Nat2Z.inj in Hd. rewrite Hd in H. exact H.
Qed.

Lemma to_signed_range : forall w n, (1 <= w)%nat -> 0 <= n < pow8 w -> - (pow8 w / 2) <= to_signed w n < pow8 w / 2.
Proof.
  intros w n Hw Hn. unfold to_signed.
  assert (Hev : pow8 w = 2 * (pow8 w / 2)).
  { destruct w as [|w]; [lia|]. rewrite pow8_S. replace (256 * pow8 w) with ((128 * pow8 w) * 2) by lia.
    rewrite Z.div_mul by lia. lia. }
  destruct (n <? pow8 w / 2) eqn:E; [apply Z.ltb_lt in E|apply Z.ltb_ge in E]; lia.
Qed.

Lemma post_read_i : forall w, (1 <= w)%nat -> post (fun z => - (pow8 w / 2) <= z < pow8 w / 2) (read_i w).
Proof.
  intros w Hw. unfold read_i. eapply post_bind; [apply post_read_n|]. intros d [Hd _]. apply post_ret.
  pose proof (unle_range d) as H. unfold blen in Hd. apply Nat2Z.inj in Hd. rewrite Hd in H.
  apply to_signed_range; assumption.
Qed.

Lemma post_read_byte : post (fun z => byte_ok z = true) read_byte.
Proof.
  eapply post_weaken; [apply (post_read_u 1)|]. intros z Hz. rewrite pow8_1 in Hz. unfold byte_ok.
  apply andb_true_intro. split; [apply Z.leb_le|apply Z.ltb_lt]; lia.
Qed.

Lemma u_ok_intro : forall w z, 0 <= z < pow8 w -> u_ok w z = true.
Proof. intros w z H. unfold u_ok, int_ok. apply andb_true_intro. split; [apply Z.leb_le|apply Z.ltb_lt]; lia. Qed.
Lemma i_ok_intro : forall w z, - (pow8 w / 2) <= z < pow8 w / 2 -> i_ok w z = true.
Proof. intros w z H. unfold i_ok, int_ok. apply andb_true_intro. split; [apply Z.leb_le|apply Z.ltb_lt]; lia. Qed.

Lemma post_read_uok : forall w, post (fun z => u_ok w z = true) (read_u w).
Proof. intros w. eapply post_weaken; [apply post_read_u|]. intros z. apply u_ok_intro. Qed.
Lemma post_read_iok : forall w, (1 <= w)%nat -> post (fun z => i_ok w z = true) (read_i w).
Proof. intros w Hw. eapply post_weaken; [apply post_read_i; exact Hw|]. intros z. apply i_ok_intro. Qed.

Lemma post_read_bytes : post (fun o => obytes_ok o = true /\ norm_obytes o = o) read_bytes.
Proof.
  unfold read_bytes. eapply post_bind; [apply (post_read_u 4)|]. intros n Hn.
  destruct ((n =? 0) || (n =? null32)) eqn:E; [apply post_ret; split; reflexivity|].
  apply orb_false_iff in E. destruct E as [E0 _]. apply Z.eqb_neq in E0.
  eapply post_bind; [apply post_read_n|]. intros d [Hd Hr]. apply post_ret. split.
  - cbn [obytes_ok]. unfold str_ok. apply Z.leb_le. lia.
  - destruct d; [unfold blen in Hd; cbn in Hd; lia|reflexivity].
Qed.

Lemma post_read_string : post (fun s => str_ok s = true) read_string.
Proof.
  unfold read_string. eapply post_bind; [apply post_read_bytes|]. intros o [Ho _].
  destruct o as [d|]; [|apply post_ret; reflexivity]. apply post_tick_bind. apply post_ret. exact Ho.
Qed.

Lemma post_read_time : post (fun t => time_ok t = true /\ norm_time t = t) read_time.
Proof.
  unfold read_time. eapply post_bind; [apply post_read_n|]. intros d [Hd _]. cbv zeta.
  destruct (unle d =? 0) eqn:E0; [apply post_ret; split; reflexivity|]. apply Z.eqb_neq in E0.
  pose proof (unle_range d) as Hu. assert (Hl : length d = 8%nat) by (unfold blen in Hd; lia). rewrite Hl, pow8_8 in Hu.
  set (t := to_signed 8 (unle d)).
  assert (Ht : -9223372036854775808 <= t < 9223372036854775808 /\ t <> 0).
  { unfold t, to_signed. rewrite pow8_8. destruct (unle d <? 18446744073709551616 / 2) eqn:E; [apply Z.ltb_lt in E|apply Z.ltb_ge in E]; lia. }
  destruct ((t - time_offset) * 100 =? zero_time_ns) eqn:Ez; [apply post_ret; split; reflexivity|].
  apply post_ret. cbn [time_ok norm_time]. cbv zeta. rewrite Z.div_mul by lia.
  replace (t - time_offset + time_offset) with t by lia. split.
  - apply andb_true_intro. split; [apply Z.leb_le|apply Z.ltb_lt]; lia.
  - replace (t =? 0) with false by (symmetry; apply Z.eqb_neq; lia). rewrite Ez. reflexivity.
Qed.

Lemma post_dec_n : forall A (P : A -> Prop) (d : dec A) n, post P d -> post (fun l => Forall P l /\ length l = n) (dec_n d n).
Proof.
  intros A P d n Hd. induction n as [|n IH]; cbn [dec_n]; [apply post_ret; split; [constructor|reflexivity]|].
  eapply post_bind; [exact Hd|]. intros x Px. eapply post_bind; [exact IH|]. intros r [Hr Hl].
  apply post_ret. split; [constructor; assumption|cbn [length]; lia].
Qed.

Lemma post_run_sub : forall A (P : A -> Prop) (d : dec A) body, small body -> post P d -> post P (run_sub d body).
Proof.
  intros A P d body Hb Hd bs x rest al Hs E. unfold run_sub in E.
  destruct (d body) as [a r1 al1|e al1|al1|] eqn:Ed; try discriminate. inversion E; subst.
  destruct (Hd body x r1 al Hb Ed) as [Px _]. split; [exact Px|lia].
Qed.

(* ------------------------------------------------------------------ what is claimed of a decoded value *)
Definition Pv (reg : list (Z * Z * ty)) (t : ty) (v : val) : Prop :=
  rwf0 reg t v = true /\ rnorm reg t v = v.

Lemma imp_intro : forall b c, (b = true -> c = true) -> imp b c = true.
Proof. intros [|] c H; [apply H|]; reflexivity. Qed.
Lemma if_dflt : forall A (b : bool) (z dflt : A), (b = false -> z = dflt) -> (if b then z else dflt) = z.
Proof. intros A [|] z dflt H; [reflexivity|symmetry; apply H; reflexivity]. Qed.

(* a field governed by a mask bit: present and P, or absent and the default *)
Lemma post_optf : forall A (P : A -> Prop) (b : bool) (d : dec A) dflt, post P d ->
  post (fun z => (b = true -> P z) /\ (b = false -> z = dflt)) (if b then d else ret dflt).
Proof.
  intros A P b d dflt H. destruct b.
  - eapply post_weaken; [exact H|]. intros x Px. split; [auto|discriminate].
  - apply post_ret. split; [discriminate|reflexivity].
Qed.

Lemma post_guid : post (fun g => gwf (TCustom CGUID) g = true) dec_guid.
Proof.
  unfold dec_guid. apply post_tick_bind.
  eapply post_bind; [apply (post_read_uok 4)|]. intros d1 H1.
  eapply post_bind; [apply (post_read_uok 2)|]. intros d2 H2.
  eapply post_bind; [apply (post_read_uok 2)|]. intros d3 H3.
  eapply post_bind; [apply post_read_n|]. intros d4 [H4 _]. apply post_ret.
  cbn [gwf]. unfold u_ok in *. rewrite H1, H2, H3. cbn [andb]. apply Nat.eqb_eq. unfold blen in H4. lia.
Qed.

Lemma post_nodeid : post (fun v => nodeid_ok v = true /\ norm_nodeid v = v) dec_nodeid.
Proof.
  unfold dec_nodeid. apply post_tick_bind. eapply post_bind; [apply post_read_byte|]. intros mask Hm. cbv zeta.
  destruct (mask mod 16 =? 0) eqn:E0; [|destruct (mask mod 16 =? 1) eqn:E1; [|destruct (mask mod 16 =? 2) eqn:E2;
    [|destruct (mask mod 16 =? 4) eqn:E4; [|destruct ((mask mod 16 =? 3) || (mask mod 16 =? 5)) eqn:E35; [|apply post_fail]]]]].
  - eapply post_bind; [apply post_read_byte|]. intros nid Hn. apply post_ret. split; [|reflexivity].
    unfold nodeid_ok. cbv zeta. rewrite Hm, E0, Hn. reflexivity.
  - eapply post_bind; [apply post_read_byte|]. intros ns Hns. eapply post_bind; [apply (post_read_uok 2)|]. intros nid Hn.
    apply post_ret. split; [|reflexivity]. unfold nodeid_ok. cbv zeta. rewrite Hm, E0, E1, Hns, Hn. reflexivity.
  - eapply post_bind; [apply (post_read_uok 2)|]. intros ns Hns. eapply post_bind; [apply (post_read_uok 4)|]. intros nid Hn.
    apply post_ret. split; [|reflexivity]. unfold nodeid_ok. cbv zeta. rewrite Hm, E0, E1, E2, Hns, Hn. reflexivity.
  - eapply post_bind; [apply (post_read_uok 2)|]. intros ns Hns. eapply post_bind; [apply post_guid|]. intros g Hg.
    apply post_ret. split; [|reflexivity]. unfold nodeid_ok. cbv zeta. rewrite Hm, E0, E1, E2, E4, Hns, Hg. reflexivity.
  - eapply post_bind; [apply (post_read_uok 2)|]. intros ns Hns. eapply post_bind; [apply post_read_bytes|]. intros b [Hb Hnb].
    apply post_ret. split; [|cbn [norm_nodeid]; rewrite Hnb; reflexivity].
    unfold nodeid_ok. cbv zeta. rewrite Hm, E0, E1, E2, E4, E35, Hns, Hb. reflexivity.
Qed.

Definition is_expnodeid (v : val) : Prop := exists n u s, v = VExpNodeID (Some n) u s.

Lemma post_expnodeid : post (fun v => expnodeid_ok v = true /\ norm_expnodeid v = v /\ is_expnodeid v) dec_expnodeid.
Proof.
  unfold dec_expnodeid. apply post_tick_bind. eapply post_bind; [apply post_nodeid|]. intros n [Hn Hnn]. cbv zeta.
  eapply post_bind; [eapply post_optf; apply post_read_string|].
  intros uri [Hu1 Hu0].
  eapply post_bind; [eapply post_optf; apply (post_read_uok 4)|].
  intros srv [Hs1 Hs0]. apply post_ret. split; [|split; [cbn [norm_expnodeid]; rewrite Hnn; reflexivity|repeat eexists]].
  cbn [expnodeid_ok]. rewrite Hn. cbn [andb].
  destruct (bit (nodeid_mask n) 7); [rewrite Hu1 by reflexivity|rewrite Hu0 by reflexivity]; cbn [is_nil andb];
  (destruct (bit (nodeid_mask n) 6); [rewrite Hs1 by reflexivity|rewrite Hs0 by reflexivity]; reflexivity).
Qed.

Lemma post_loctext : post (fun v => gwf (TCustom CLocText) v = true) dec_loctext.
Proof.
  unfold dec_loctext. apply post_tick_bind. eapply post_bind; [apply post_read_byte|]. intros mask Hm.
  eapply post_bind; [eapply post_optf; apply post_read_string|]. intros l [Hl1 Hl0].
  eapply post_bind; [eapply post_optf; apply post_read_string|]. intros t [Ht1 Ht0].
  apply post_ret. cbn [gwf]. rewrite Hm. cbn [andb].
  destruct (bit mask 0); [rewrite Hl1 by reflexivity|rewrite Hl0 by reflexivity]; cbn [str_ok blen length Z.of_nat andb orb];
  (destruct (bit mask 1); [rewrite Ht1 by reflexivity|rewrite Ht0 by reflexivity]; cbn [andb orb]; try reflexivity).
Qed.

(* ------------------------------------------------------------------ unfolding equations *)
Lemma rwf0_datavalue : forall reg m value status st sp svt svp,
  rwf0 reg (TCustom CDataValue) (VDataValue m value status st sp svt svp) =
  byte_ok m &&
  imp (bit m 0) (match value with Some x => rwf0 reg (TCustom CVariant) x | None => false end) &&
  imp (bit m 1) (u_ok 4 status) && imp (bit m 2) (time_ok st) && imp (bit m 4) (u_ok 2 sp) &&
  imp (bit m 3) (time_ok svt) && imp (bit m 5) (u_ok 2 svp).
Proof. reflexivity. Qed.
Lemma rwf0_diag : forall reg m sym ns locale loctext info status inner,
  rwf0 reg (TCustom CDiagInfo) (VDiag m sym ns locale loctext info status inner) =
  byte_ok m && imp (bit m 0) (i_ok 4 sym) && imp (bit m 1) (i_ok 4 ns) && imp (bit m 3) (i_ok 4 locale) &&
  imp (bit m 2) (i_ok 4 loctext) && imp (bit m 4) (str_ok info) && imp (bit m 5) (u_ok 4 status) &&
  imp (bit m 6) (match inner with Some i => rwf0 reg (TCustom CDiagInfo) i | None => false end).
Proof. reflexivity. Qed.

Section DecCustoms.
  Variable reg : list (Z * Z * ty).
  Variable rec : ty -> dec val.
  Hypothesis Hrec : forall t, desc_ok t = true -> post (Pv reg t) (rec t).

  Lemma post_diag : post (Pv reg (TCustom CDiagInfo)) (dec_diag rec).
  Proof.
    unfold dec_diag. apply post_tick_bind. eapply post_bind; [apply post_read_byte|]. intros mask Hm.
    eapply post_bind; [eapply post_optf; apply (post_read_iok 4); lia|]. intros sym [Hs1 Hs0].
    eapply post_bind; [eapply post_optf; apply (post_read_iok 4); lia|]. intros ns [Hn1 Hn0].
    eapply post_bind; [eapply post_optf; apply (post_read_iok 4); lia|]. intros loc [Hl1 Hl0].
    eapply post_bind; [eapply post_optf; apply (post_read_iok 4); lia|]. intros lt [Ht1 Ht0].
    eapply post_bind; [eapply post_optf; apply post_read_string|]. intros info [Hi1 Hi0].
    eapply post_bind; [eapply post_optf; apply (post_read_uok 4)|]. intros st [Hst1 Hst0].
    eapply post_bind.
    { instantiate (1 := fun o => (bit mask 6 = true -> exists i, o = Some i /\ Pv reg (TCustom CDiagInfo) i) /\
                                 (bit mask 6 = false -> o = None)).
      destruct (bit mask 6).
      - eapply post_bind; [apply Hrec; reflexivity|]. intros i Hi. apply post_ret. split; [eauto|discriminate].
      - apply post_ret. split; [discriminate|reflexivity]. }
    intros inner [Hin1 Hin0]. apply post_ret. split.
    - cbv beta in Hm. rewrite rwf0_diag, Hm. cbn [andb]. repeat (apply andb_true_intro; split); try assumption; try (apply imp_intro; assumption).
      apply imp_intro. intros Hb. destruct (Hin1 Hb) as [i [-> [Hw _]]]. exact Hw.
    - rewrite rnorm_diag.
      rewrite (if_dflt _ _ sym 0 Hs0), (if_dflt _ _ ns 0 Hn0), (if_dflt _ _ loc 0 Hl0), (if_dflt _ _ lt 0 Ht0),
              (if_dflt _ _ info [] Hi0), (if_dflt _ _ st 0 Hst0).
      f_equal. destruct (bit mask 6); [|symmetry; apply Hin0; reflexivity].
      destruct (Hin1 eq_refl) as [i [-> [_ Hn]]]. rewrite Hn. reflexivity.
  Qed.

  Lemma zero_variant_Pv : Pv reg (TCustom CVariant) zero_variant.
  Proof. split; [reflexivity|reflexivity]. Qed.

  Lemma post_datavalue : post (Pv reg (TCustom CVariant)) (rec (TCustom CVariant)) ->
    post (Pv reg (TCustom CDataValue)) (dec_datavalue rec).
  Proof.
    intros HV. unfold dec_datavalue. apply post_tick_bind. eapply post_bind; [apply post_read_byte|]. intros mask Hm.
    eapply post_bind.
    { instantiate (1 := fun v => Pv reg (TCustom CVariant) v /\ (bit mask 0 = false -> v = zero_variant)).
      destruct (bit mask 0).
      - eapply post_weaken; [exact HV|]. intros x Px. split; [exact Px|discriminate].
      - apply post_tick_bind. apply post_ret. split; [apply zero_variant_Pv|reflexivity]. }
    intros v [[Hvw Hvn] Hv0].
    eapply post_bind; [eapply post_optf; apply (post_read_uok 4)|]. intros status [Hs1 Hs0].
    eapply post_bind; [eapply post_optf; apply post_read_time|]. intros st [Ht1' Ht0].
    assert (Ht1 : bit mask 2 = true -> time_ok st = true) by (intros Hb; exact (proj1 (Ht1' Hb))).
    eapply post_bind; [eapply post_optf; apply (post_read_uok 2)|]. intros sp [Hp1 Hp0].
    eapply post_bind; [eapply post_optf; apply post_read_time|]. intros svt [Hvt1' Hvt0].
    assert (Hvt1 : bit mask 3 = true -> time_ok svt = true) by (intros Hb; exact (proj1 (Hvt1' Hb))).
    eapply post_bind; [eapply post_optf; apply (post_read_uok 2)|]. intros svp [Hvp1 Hvp0].
    apply post_ret. split.
    - cbv beta in Hm. rewrite rwf0_datavalue, Hm. cbn [andb]. repeat (apply andb_true_intro; split); try assumption; try (apply imp_intro; assumption).
      apply imp_intro. intros _. exact Hvw.
    - rewrite rnorm_datavalue.
      rewrite (if_dflt _ _ status 0 Hs0), (if_dflt _ _ sp 0 Hp0), (if_dflt _ _ svp 0 Hvp0).
      replace (if bit mask 2 then norm_time st else None) with st
        by (destruct (bit mask 2); [symmetry; exact (proj2 (Ht1' eq_refl))|exact (Ht0 eq_refl)]).
      replace (if bit mask 3 then norm_time svt else None) with svt
        by (destruct (bit mask 3); [symmetry; exact (proj2 (Hvt1' eq_refl))|exact (Hvt0 eq_refl)]).
      f_equal. destruct (bit mask 0); [rewrite Hvn; reflexivity|rewrite (Hv0 eq_refl); reflexivity].
  Qed.
End DecCustoms.

(* ------------------------------------------------------------------ Variant *)
Definition wf_payload0 (reg : list (Z * Z * ty)) (tid : Z) : val -> bool :=
  fix lv (pv : val) : bool :=
    match pv with
    | VSlice None => true
    | VSlice (Some l) => (fix go (l : list val) : bool := match l with [] => true | x :: r => lv x && go r end) l
    | _ => rwf0 reg (variant_ty tid) pv
    end.

Lemma rwf0_variant : forall reg m alen dl dims value,
  rwf0 reg (TCustom CVariant) (VVariant m alen dl dims value) =
  byte_ok m &&
  (if m mod 64 =? 0 then (alen =? 0) && (dl =? 0) && is_nil dims && is_none value
   else match value with
        | None => false
        | Some p => variant_hdr_ok m alen dl dims p && wf_payload0 reg (m mod 64) p
        end).
Proof. reflexivity. Qed.

Lemma payload_walker0 : forall reg tid p,
  wf_payload0 reg tid p = forallb (rwf0 reg (variant_ty tid)) (leaves p).
Proof.
  intros reg tid. induction p using val_ind';
    try (cbn [wf_payload0 leaves forallb]; rewrite andb_true_r; reflexivity).
  - reflexivity.
  - rewrite leaves_slice. induction H as [|x r Hx _ IH]; [reflexivity|].
    cbn [flat_map]. rewrite forallb_app.
    change (wf_payload0 reg tid (VSlice (Some (x :: r))))
      with (wf_payload0 reg tid x && wf_payload0 reg tid (VSlice (Some r))).
    rewrite Hx, IH. reflexivity.
Qed.

Lemma norm_payload_id : forall reg tid p, Forall (fun x => norm_leaf reg tid x = x) (leaves p) -> norm_payload reg tid p = p.
Proof.
  intros reg tid. induction p using val_ind'; intros HF;
    try (cbn [leaves] in HF; inversion HF; subst; assumption).
  - reflexivity.
  - rewrite norm_payload_slice. f_equal. f_equal. rewrite leaves_slice in HF.
    induction H as [|x r Hx _ IH]; [reflexivity|]. cbn [flat_map] in HF. apply Forall_app in HF. destruct HF as [H1 H2].
    cbn [map]. rewrite (Hx H1), (IH H2). reflexivity.
Qed.

Lemma variant_ty_desc_ok : forall tid, desc_ok (variant_ty tid) = true.
Proof.
  intros tid. destruct tid as [|p|p]; try reflexivity.
  do 5 (destruct p as [p|p|]; try reflexivity).
Qed.

Lemma rwf0_variant_ty_not_slice : forall reg tid x, rwf0 reg (variant_ty tid) x = true -> not_slice x = true.
Proof.
  intros reg tid x H. destruct x; try reflexivity. exfalso.
  destruct tid as [|p|p]; try (cbn in H; discriminate).
  do 5 (destruct p as [p|p|]; try (cbn in H; discriminate)).
Qed.

Lemma hdr_scalar_intro : forall m p, m mod 64 <= 25 -> bit m 7 = false -> not_slice p = true ->
  variant_hdr_ok m 0 0 [] p = true.
Proof.
  intros m p Ht B7 Hp. unfold variant_hdr_ok. rewrite B7. cbn [negb]. rewrite Hp.
  replace (m mod 64 <=? 25) with true by (symmetry; apply Z.leb_le; exact Ht). reflexivity.
Qed.

Lemma hdr_array_intro : forall m alen dl dims p,
  m mod 64 <= 25 -> bit m 7 = true -> -1 <= alen <= max_variant_array_length ->
  dl = zlen dims -> dl <= max_variant_array_dimensions -> forallb dim_ok dims = true -> (bit m 6 = false -> dims = []) ->
  (0 < dl -> dims_product dims 1 = Some alen) ->
  (if dl <? 2 then (if alen =? -1 then match p with VSlice None => true | _ => false end else shape_ok [Z.to_nat alen] p)
   else shape_ok (map Z.to_nat dims) p) = true ->
  variant_hdr_ok m alen dl dims p = true.
Proof.
  intros m alen dl dims p Ht B7 Ha Hdl Hmax Hge Hnil Hprod Hshape. unfold variant_hdr_ok. rewrite B7. cbn [negb].
  rewrite Hshape, andb_true_r.
  replace (m mod 64 <=? 25) with true by (symmetry; apply Z.leb_le; exact Ht).
  replace (-1 <=? alen) with true by (symmetry; apply Z.leb_le; lia).
  replace (alen <=? max_variant_array_length) with true by (symmetry; apply Z.leb_le; lia). cbn [andb].
  destruct (bit m 6).
  - rewrite Hge. replace (dl =? zlen dims) with true by (symmetry; apply Z.eqb_eq; exact Hdl).
    replace (dl <=? max_variant_array_dimensions) with true by (symmetry; apply Z.leb_le; exact Hmax). cbn [andb].
    destruct (0 <? dl) eqn:E; [|reflexivity]. apply Z.ltb_lt in E. rewrite (Hprod E), Z.eqb_refl. reflexivity.
  - rewrite (Hnil eq_refl) in *. cbn in Hdl. subst dl. reflexivity.
Qed.

Lemma post_dec_dim : post (fun d => 1 <= d <= max_int32) dec_dim.
Proof.
  unfold dec_dim. eapply post_bind; [apply (post_read_i 4); lia|]. intros d Hd. rewrite pow8_4 in Hd.
  destruct (d <? 1) eqn:E; [apply post_fail|]. apply Z.ltb_ge in E. apply post_ret. unfold max_int32. lia.
Qed.

Lemma post_variant_dims : forall mask,
  post (fun dd => fst dd = zlen (snd dd) /\ fst dd <= max_variant_array_dimensions /\ forallb dim_ok (snd dd) = true /\
                  (bit mask 6 = false -> snd dd = [])) (variant_dims_dec mask).
Proof.
  intros mask. unfold variant_dims_dec. destruct (bit mask 6).
  - eapply post_bind; [apply (post_read_i 4); lia|]. intros dl Hdl.
    destruct ((dl <? 0) || (max_variant_array_dimensions <? dl)) eqn:E0; [apply post_fail|].
    apply orb_false_iff in E0. destruct E0 as [E0 Emd]. apply Z.ltb_ge in E0, Emd.
    eapply post_bind; [apply post_remaining|]. intros r Hr. cbv beta in Hr. unfold max_int32 in Hr.
    destruct (r / 4 <? dl) eqn:E1; [apply post_fail|]. apply Z.ltb_ge in E1.
    apply post_tick_bind. eapply post_bind; [apply post_dec_n; apply post_dec_dim|]. intros ds [HF Hl].
    apply post_ret. cbn [fst snd]. split; [unfold zlen; lia|]. split; [exact Emd|]. split; [|discriminate].
    apply forallb_forall. intros d Hin. rewrite Forall_forall in HF. specialize (HF d Hin). unfold dim_ok.
    apply andb_true_intro. split; apply Z.leb_le; lia.
  - apply post_ret. cbn [fst snd]. repeat split; try reflexivity. unfold max_variant_array_dimensions. lia.
Qed.

Section DecVariant.
  Variable reg : list (Z * Z * ty).
  Variable rec : ty -> dec val.
  Hypothesis Hrec : forall t, desc_ok t = true -> post (Pv reg t) (rec t).

  Definition Pleaf (tid : Z) (x : val) : Prop :=
    rwf0 reg (variant_ty tid) x = true /\ norm_leaf reg tid x = x.

  Lemma post_builtin : forall tid, post (Pleaf tid) (dec_builtin rec tid).
  Proof.
    intros tid. unfold dec_builtin, Pleaf, norm_leaf. destruct (tid =? 15) eqn:E.
    - apply Z.eqb_eq in E. subst tid. eapply post_bind; [apply post_read_bytes|]. intros b [Hb Hn]. apply post_ret.
      split; [destruct b; exact Hb|]. cbn [variant_ty].
      change (rnorm reg TBytes (VBytes b)) with (VBytes b). destruct b as [[|c d]|]; try reflexivity. discriminate.
    - eapply post_weaken; [apply Hrec; apply variant_ty_desc_ok|]. intros x Hx. exact Hx.
  Qed.

  Lemma post_variant : post (Pv reg (TCustom CVariant)) (dec_variant rec).
  Proof.
    unfold dec_variant. apply post_tick_bind. eapply post_bind; [apply post_read_byte|]. intros mask Hm.
    cbv beta in Hm. cbv zeta. set (tid := mask mod 64).
    destruct (tid =? 0) eqn:E0.
    { apply post_ret. split; [|reflexivity]. rewrite rwf0_variant. fold tid. rewrite Hm, E0. reflexivity. }
    destruct (25 <? tid) eqn:E25; [apply post_fail|]. apply Z.ltb_ge in E25.
    destruct (bit mask 7) eqn:B7; cbn [negb].
    2:{ (* scalar *)
      eapply post_bind; [apply post_builtin|]. intros v [Hw Hn]. apply post_ret.
      pose proof (rwf0_variant_ty_not_slice reg tid v Hw) as Hns. split.
      - rewrite rwf0_variant. fold tid. rewrite Hm, E0. cbn [andb]. rewrite hdr_scalar_intro by assumption.
        rewrite payload_walker0, (leaves_not_slice v Hns). cbn [forallb]. rewrite Hw. reflexivity.
      - rewrite rnorm_variant. fold tid. rewrite E0.
        rewrite norm_payload_leaf by exact Hns. rewrite Hn. reflexivity. }
    (* arrays *)
    eapply post_bind; [apply (post_read_i 4); lia|]. intros alen _.
    destruct (max_variant_array_length <? alen) eqn:Emax; [apply post_fail|]. apply Z.ltb_ge in Emax.
    destruct (alen <? -1) eqn:Emin; [apply post_fail|]. apply Z.ltb_ge in Emin.
    eapply post_bind; [apply post_remaining|]. intros rem _. destruct (rem <? alen); [apply post_fail|].
    eapply post_bind.
    { instantiate (1 := fun vals => (alen = -1 -> vals = None) /\
                          (alen <> -1 -> exists l, vals = Some l /\ Forall (Pleaf tid) l /\ length l = Z.to_nat alen)).
      destruct (alen =? -1) eqn:Ea.
      - apply Z.eqb_eq in Ea. apply post_ret. split; [reflexivity|lia].
      - apply Z.eqb_neq in Ea. apply post_tick_bind.
        eapply post_bind; [apply post_dec_n; apply post_builtin|]. intros l [HF Hl]. apply post_ret.
        split; [lia|]. intros _. exists l. auto. }
    intros vals [Hnone Hsome].
    eapply post_bind; [apply (post_variant_dims mask)|]. intros [dl ds] [Hdl [Hdlmax [Hge Hnil]]]. cbn [fst snd] in *.
    cbv beta iota.
    destruct ((0 <? dl) && negb (match dims_product ds 1 with Some c => c =? alen | None => false end)) eqn:Echk;
      [apply post_fail|].
    assert (Hprod : 0 < dl -> dims_product ds 1 = Some alen).
    { intros Hp. replace (0 <? dl) with true in Echk by (symmetry; apply Z.ltb_lt; exact Hp). cbn [andb] in Echk.
      destruct (dims_product ds 1) as [c|]; [|discriminate]. apply negb_false_iff, Z.eqb_eq in Echk. subst c. reflexivity. }
    (* the result, whatever the branch: payload p with its leaves ls *)
    assert (Hfin : forall p ls, leaves p = ls -> Forall (Pleaf tid) ls ->
              (if dl <? 2 then (if alen =? -1 then match p with VSlice None => true | _ => false end else shape_ok [Z.to_nat alen] p)
               else shape_ok (map Z.to_nat ds) p) = true ->
              Pv reg (TCustom CVariant) (VVariant mask alen dl ds (Some p))).
    { intros p ls Els HF Hshape. split.
      - rewrite rwf0_variant. fold tid. rewrite Hm, E0. cbn [andb].
        rewrite (hdr_array_intro mask alen dl ds p) by (assumption || (fold tid; lia) || lia).
        rewrite payload_walker0, Els. apply forallb_forall. intros x Hx. rewrite Forall_forall in HF. apply (HF x Hx).
      - rewrite rnorm_variant. fold tid. rewrite E0. f_equal. f_equal.
        apply norm_payload_id. rewrite Els.
        rewrite Forall_forall in *. intros x Hx. apply (HF x Hx). }
    destruct (dl <? 2) eqn:Ed2.
    - apply post_ret. destruct (Z.eq_dec alen (-1)) as [Ea|Ea].
      + rewrite (Hnone Ea). apply (Hfin (VSlice None) []); [reflexivity|constructor|].
        subst alen. reflexivity.
      + destruct (Hsome Ea) as [l [-> [HF Hl]]].
        assert (Hns : forallb not_slice l = true).
        { apply forallb_forall. intros x Hx. rewrite Forall_forall in HF. destruct (HF x Hx) as [Hw _].
          apply (rwf0_variant_ty_not_slice reg tid x Hw). }
        apply (Hfin (VSlice (Some l)) l); [apply leaves_flat; exact Hns|exact HF|].
        replace (alen =? -1) with false by (symmetry; apply Z.eqb_neq; exact Ea).
        cbn [shape_ok]. rewrite Hns, andb_true_r. apply Nat.eqb_eq. exact Hl.
    - apply Z.ltb_ge in Ed2. assert (Hpos : 0 < dl) by lia. specialize (Hprod Hpos).
      destruct (dims_product_nprod ds alen Hge Hprod) as [Ealen HFd].
      pose proof (nprod_pos _ HFd) as Hnp.
      assert (Ea : alen <> -1) by lia. destruct (Hsome Ea) as [l [-> [HF Hl]]].
      assert (Hns : forallb not_slice l = true).
      { apply forallb_forall. intros x Hx. rewrite Forall_forall in HF. destruct (HF x Hx) as [Hw _].
        apply (rwf0_variant_ty_not_slice reg tid x Hw). }
      assert (Hne : map Z.to_nat ds <> []).
      { destruct ds; [unfold zlen in Hdl; cbn in Hdl; lia|discriminate]. }
      destruct (shape_split (map Z.to_nat ds) l Hne HFd ltac:(lia) Hns) as [Hshape Hleaves].
      apply post_tick_bind. apply post_ret.
      apply (Hfin _ l Hleaves HF). exact Hshape.
  Qed.
End DecVariant.

(* ------------------------------------------------------------------ ExtensionObject *)
Lemma rwf0_extobj : forall reg m tv body,
  rwf0 reg (TCustom CExtObj) (VExtObj m (Some tv) body) =
  byte_ok m && expnodeid_ok tv &&
  (if m =? 0 then true
   else match body with
        | None => true
        | Some bv => match extobj_body_ty reg m tv with Some bt => rwf0 reg bt bv && true | None => false end
        end).
Proof. reflexivity. Qed.

Definition reg_desc_ok (reg : list (Z * Z * ty)) : bool := forallb (fun r => desc_ok (snd r)) reg.

Lemma lookup_desc_ok : forall reg tid t, reg_desc_ok reg = true -> lookup_expnodeid reg tid = Some t -> desc_ok (TPtr t) = true.
Proof.
  intros reg tid t Hreg H. unfold lookup_expnodeid, lookup_nodeid, lookup in H.
  assert (Hf : forall p r, find p reg = Some r -> desc_ok (TPtr (snd r)) = true).
  { intros p r Hfind. apply find_some in Hfind. destruct Hfind as [Hin _].
    unfold reg_desc_ok in Hreg. rewrite forallb_forall in Hreg. exact (Hreg r Hin). }
  destruct tid; try discriminate. destruct nid as [nv|]; try discriminate. destruct nv; try discriminate.
  repeat match type of H with
         | (if ?c then _ else _) = _ => destruct c
         | match find ?p reg with _ => _ end = _ => destruct (find p reg) eqn:Ef; [apply Hf in Ef|]
         end; try discriminate; inversion H; subst; assumption.
Qed.

Section DecExtObj.
  Variable reg : list (Z * Z * ty).
  Variable rec : ty -> dec val.
  Hypothesis Hreg : reg_desc_ok reg = true.
  Hypothesis Hrec : forall t, desc_ok t = true -> post (Pv reg t) (rec t).

  Lemma post_extobj : post (Pv reg (TCustom CExtObj)) (dec_extobj reg rec).
  Proof.
    unfold dec_extobj. apply post_tick_bind. eapply post_bind; [apply post_expnodeid|]. intros tid [Htid [Hntid _]].
    eapply post_bind; [apply post_read_byte|]. intros mask Hm. cbv beta in Hm.
    assert (Hnone : Pv reg (TCustom CExtObj) (VExtObj mask (Some tid) None)).
    { split.
      - rewrite rwf0_extobj, Hm, Htid. destruct (mask =? 0); reflexivity.
      - rewrite rnorm_extobj, Hntid. destruct (mask =? 0); reflexivity. }
    destruct (mask =? 0) eqn:E0; [apply post_ret; exact Hnone|].
    eapply post_bind; [apply (post_read_u 4)|]. intros len _.
    destruct ((len =? 0) || (len =? null32)); [apply post_ret; exact Hnone|].
    eapply post_bind; [apply post_read_n|]. intros body [Hb Hr].
    assert (Hsmall : small body) by (unfold small; lia).
    assert (Hsome : forall bt, extobj_body_ty reg mask tid = Some bt -> desc_ok bt = true ->
              post (Pv reg (TCustom CExtObj)) (bind (run_sub (rec bt) body) (fun v => ret (VExtObj mask (Some tid) (Some v))))).
    { intros bt Ebt Hd. eapply post_bind; [apply post_run_sub; [exact Hsmall|apply Hrec; exact Hd]|].
      intros v [Hw Hn]. apply post_ret. split.
      - rewrite rwf0_extobj, Hm, Htid, E0, Ebt, Hw. reflexivity.
      - rewrite rnorm_extobj, Hntid, E0, Ebt. rewrite Hn. reflexivity. }
    unfold extobj_body_ty in Hsome. destruct (mask =? 2) eqn:E2.
    - apply (Hsome xml_body_ty eq_refl eq_refl).
    - destruct (lookup_expnodeid reg tid) as [t|] eqn:El; [|apply post_ret; exact Hnone].
      apply (Hsome (TPtr t) eq_refl). apply (lookup_desc_ok reg tid t Hreg El).
  Qed.
End DecExtObj.

(* ------------------------------------------------------------------ the decoder *)
Definition rwf0_struct (reg : list (Z * Z * ty)) : list ty -> list val -> bool :=
  fix go (fs : list ty) (vs : list val) {struct vs} : bool :=
    match fs, vs with
    | [], [] => true
    | f :: fs', x :: vs' => rwf0 reg f x && go fs' vs'
    | _, _ => false
    end.
Lemma rwf0_list_forall : forall reg e l,
  (fix go (l : list val) : bool := match l with [] => true | x :: r => rwf0 reg e x && go r end) l = forallb (rwf0 reg e) l.
Proof. intros reg e l. induction l as [|x r IH]; [reflexivity|]. cbn [forallb]. rewrite <- IH. reflexivity. Qed.

Section DecMain.
  Variable reg : list (Z * Z * ty).
  Hypothesis Hreg : reg_desc_ok reg = true.

  Lemma post_fields : forall (D : ty -> dec val) fs,
    Forall (fun t => post (Pv reg t) (D t)) fs ->
    post (fun vs => rwf0_struct reg fs vs = true /\ rnorm_struct reg fs vs = vs)
         (dec_fields (map D fs)).
  Proof.
    intros D fs H. induction H as [|t fs' Ht _ IH]; cbn [map dec_fields].
    - apply post_ret. split; [reflexivity|reflexivity].
    - eapply post_bind; [exact Ht|]. intros x [Hw Hn]. eapply post_bind; [exact IH|]. intros xs [Hws Hns].
      apply post_ret. split.
      + cbn [rwf0_struct]. fold (rwf0_struct reg). rewrite Hw, Hws. reflexivity.
      + cbn [rnorm_struct]. fold (rnorm_struct reg). rewrite Hn, Hns. reflexivity.
  Qed.

  Definition level_custom (rec : ty -> dec val) (allow : bool) (c : custom) : dec val :=
    if nested c && negb allow then bind (tick (csize c)) (fun _ => fail EOther) else dec_custom reg rec c.

  (* one nesting level of ua.decode, given the hand-written decoders of that level *)
  Lemma level_wf : forall rec allow, (forall c, post (Pv reg (TCustom c)) (level_custom rec allow c)) ->
    forall t, desc_ok t = true -> post (Pv reg t) (dec_level reg rec allow t).
  Proof.
    intros rec allow Hcust t. induction t using ty_ind'; intros Ht.
    - (* bool *)
      cbn [dec_level]. eapply post_bind; [apply post_read_byte|]. intros b _. apply post_ret. split; [reflexivity|reflexivity].
    - (* int *)
      cbn [dec_level desc_ok] in *.
      assert (Hw1 : (1 <= w)%nat) by (unfold width_ok in Ht; destruct w as [|w]; [discriminate|lia]).
      destruct s.
      + eapply post_bind; [apply (post_read_i w Hw1)|]. intros z Hz. apply post_ret. split; [|reflexivity].
        change (rwf0 reg (TInt w true) (VInt z)) with (width_ok w && int_ok w true z). rewrite Ht. apply i_ok_intro. exact Hz.
      + eapply post_bind; [apply (post_read_u w)|]. intros z Hz. apply post_ret. split; [|reflexivity].
        change (rwf0 reg (TInt w false) (VInt z)) with (width_ok w && int_ok w false z). rewrite Ht. apply u_ok_intro. exact Hz.
    - (* float *)
      cbn [dec_level desc_ok] in *.
      assert (Hw4 : (w = 4 \/ w = 8)%nat).
      { apply orb_true_iff in Ht. destruct Ht as [H|H]; apply Nat.eqb_eq in H; auto. }
      eapply post_bind; [apply (post_read_u w)|]. intros z Hz. apply post_ret. split.
      + change (rwf0 reg (TFloat w) (VInt (canon_float w z))) with (float_ok w (canon_float w z)).
        unfold float_ok. rewrite Ht. pose proof (canon_range w z Hw4 Hz) as Hc. cbn [andb].
        apply andb_true_intro. split; [apply Z.leb_le|apply Z.ltb_lt]; lia.
      + change (rnorm reg (TFloat w) (VInt (canon_float w z))) with (VInt (canon_float w (canon_float w z))).
        rewrite canon_idem by exact Hw4. reflexivity.
    - (* string *)
      cbn [dec_level]. eapply post_bind; [apply post_read_string|]. intros s Hs. apply post_ret. split; [exact Hs|reflexivity].
    - (* time *)
      cbn [dec_level]. eapply post_bind; [apply post_read_time|]. intros t [Ht' Hnt]. apply post_ret. split; [exact Ht'|].
      change (rnorm reg TTime (VTime t)) with (VTime (norm_time t)). rewrite Hnt. reflexivity.
    - (* []byte *)
      cbn [dec_level]. unfold dec_bytes. eapply post_bind; [apply (post_read_u 4)|]. intros n Hn.
      destruct (n =? null32); [apply post_ret; split; [reflexivity|reflexivity]|].
      destruct (max_int32 <? n) eqn:Emax; [apply post_fail|]. apply Z.ltb_ge in Emax.
      eapply post_bind; [apply post_remaining|]. intros r _. destruct (r <? n); [apply post_fail|].
      eapply post_bind; [apply post_read_n|]. intros d [Hd _]. apply post_ret. split; [|reflexivity].
      change (rwf0 reg TBytes (VBytes (Some d))) with (str_ok d). unfold str_ok. apply Z.leb_le. lia.
    - (* slice *)
      cbn [desc_ok] in Ht. apply andb_true in Ht. destruct Ht as [Hmin Ht].
      change (dec_level reg rec allow (TSlice t)) with
        (dec_slice (match t with TPtr x => 8 + tsize x | TCustom _ => 8 | _ => tsize t end)%N (dec_level reg rec allow t)).
      unfold dec_slice. eapply post_bind; [apply (post_read_u 4)|]. intros n Hn.
      destruct (n =? null32); [apply post_ret; split; [reflexivity|reflexivity]|].
      destruct (max_int32 <? n) eqn:Emax; [apply post_fail|]. apply Z.ltb_ge in Emax.
      eapply post_bind; [apply post_remaining|]. intros r _. destruct (r <? n); [apply post_fail|].
      apply post_tick_bind. eapply post_bind; [apply post_dec_n; apply IHt; exact Ht|]. intros l [HF Hl].
      apply post_ret. split.
      + change (rwf0 reg (TSlice t) (VSlice (Some l))) with
          (Nat.leb 1 (minsize t) && (zlen l <=? max_int32) &&
           (fix go (l : list val) : bool := match l with [] => true | x :: r => rwf0 reg t x && go r end) l).
        rewrite rwf0_list_forall, Hmin. replace (zlen l <=? max_int32) with true by (symmetry; apply Z.leb_le; cbv beta in Hn; unfold zlen, max_int32 in *; lia).
        cbn [andb]. apply forallb_forall. intros x Hx. rewrite Forall_forall in HF. apply (HF x Hx).
      + cbn [rnorm]. rewrite rnorm_list_map. f_equal. f_equal. rewrite Forall_forall in HF.
        rewrite <- (map_id l) at 2. apply map_ext_in. intros x Hx. apply (HF x Hx).
    - (* pointer *)
      cbn [desc_ok] in Ht. change (dec_level reg rec allow (TPtr t)) with (dec_ptr t (dec_level reg rec allow t)).
      unfold dec_ptr. destruct t; try apply post_panic;
        (apply post_tick_bind; eapply post_bind; [apply IHt; exact Ht|]; intros v [Hw Hn]; apply post_ret; split;
         [match goal with |- rwf0 _ (TPtr ?e) _ = true => change (ptr_elem_ok e && rwf0 reg e v = true) end; rewrite Hw; reflexivity
         |cbn [rnorm]; rewrite Hn; reflexivity]).
    - (* struct *)
      cbn [desc_ok] in Ht. rewrite forallb_forall in Ht.
      change (dec_level reg rec allow (TStruct fs)) with
        (bind (dec_fields (map (dec_level reg rec allow) fs)) (fun vs => ret (VStruct vs))).
      eapply post_bind.
      + apply post_fields. rewrite Forall_forall in *. intros t Hin. apply H; [exact Hin|apply Ht; exact Hin].
      + intros vs [Hw Hn]. apply post_ret. split; [exact Hw|].
        change (rnorm reg (TStruct fs) (VStruct vs)) with (VStruct (rnorm_struct reg fs vs)). rewrite Hn. reflexivity.
    - (* hand-written codecs *)
      exact (Hcust c).
  Qed.

  Lemma customs_wf : forall rec, (forall t, desc_ok t = true -> post (Pv reg t) (rec t)) ->
    forall c, post (Pv reg (TCustom c)) (dec_custom reg rec c).
  Proof.
    intros rec Hrec c. destruct c; cbn [dec_custom].
    + apply post_variant. exact Hrec.
    + apply post_datavalue. apply Hrec. reflexivity.
    + apply post_diag. exact Hrec.
    + eapply post_weaken; [apply post_loctext|]. intros v Hv. destruct v; try discriminate. split; [exact Hv|reflexivity].
    + eapply post_weaken; [apply post_nodeid|]. intros v [Hv Hn]. destruct v; try discriminate. split; [exact Hv|exact Hn].
    + eapply post_weaken; [apply post_expnodeid|]. intros v [Hv [Hn _]]. destruct v; try discriminate. split; [exact Hv|exact Hn].
    + apply post_extobj; [exact Hreg|exact Hrec].
    + eapply post_weaken; [apply post_guid|]. intros v Hv. destruct v; try discriminate. split; [exact Hv|reflexivity].
  Qed.

  Theorem decode_wf : forall fuel t, desc_ok t = true -> post (Pv reg t) (decode reg fuel t).
  Proof.
    induction fuel as [|f IHf]; intros t Ht; cbn [decode].
    - apply level_wf; [|exact Ht]. intros c. unfold level_custom. destruct c; cbn [nested andb negb];
        try (apply post_tick_bind; apply post_fail); apply customs_wf; intros t' _; apply post_fail.
    - apply level_wf; [|exact Ht]. intros c. unfold level_custom. rewrite andb_false_r. apply customs_wf. exact IHf.
  Qed.
End DecMain.
