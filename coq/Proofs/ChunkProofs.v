(* ChunkProofs.v — lemmas about Model/ChunkModel.v: signAndEncrypt / verifyAndDecrypt are inverse on produced
   chunks (any admissible padding), EncodeChunks splits the body, the send loop numbers the chunks, Receive +
   mergeChunks reassemble. *)
From Coq Require Import ZArith List Bool Lia.
From Coq.Strings Require Import Byte.
From Opcua Require Import Model.Layout Model.ChunkBytes Model.ChunkModel Proofs.LayoutProofs Proofs.ChunkBytesProofs Gen.ArithFromGo Gen.ChunkPreds.
Import ListNotations.
Open Scope Z_scope.

Ltac Zify.zify_post_hook ::= Z.div_mod_to_equations.

Lemma zlen_single {A} (x : A) : zlen [x] = 1.
Proof. reflexivity. Qed.

Lemma zlen_pad_string extra n : 0 <= n -> zlen (pad_string extra n) = n + (if extra then 2 else 1).
Proof.
  intros Hn. unfold pad_string. rewrite zlen_app, zlen_repeat.
  destruct extra; [rewrite zlen_single | rewrite zlen_nil]; lia.
Qed.

(* the last byte(s) of the padding encode its length *)
Lemma pad_string_last_noextra n : 0 <= n -> znth n (pad_string false n) = b8 n.
Proof.
  intros Hn. unfold pad_string. rewrite app_nil_r. apply znth_repeat. lia.
Qed.
Lemma pad_string_last_extra n : 0 <= n ->
  znth (n + 1) (pad_string true n) = b8 (Z.shiftr n 8) /\ znth n (pad_string true n) = b8 n.
Proof.
  intros Hn. unfold pad_string. split.
  - rewrite znth_app_r by (rewrite zlen_repeat; lia). rewrite zlen_repeat.
    replace (n + 1 - Z.of_nat (Z.to_nat (n + 1))) with 0 by lia. reflexivity.
  - rewrite znth_app_l by (rewrite zlen_repeat; lia). apply znth_repeat. lia.
Qed.

(* ---------------------------------------------------------------------------------------------- *)
(* verifyAndDecrypt accepts what a sender produced (any padding length n that its size byte(s) can express) *)

Lemma verify_decrypt_enc R m pnone asym hl H' P n s c :
  encrypts m asym = true ->
  (m = ModeNone -> pnone = false /\ asym = true) ->
  0 <= hl -> zlen H' = hl ->
  0 <= n < (if a_sig R >? 256 then 65536 else 256) ->
  a_dec R c = Some (P ++ pad_string (a_sig R >? 256) n ++ s) ->
  zlen s = a_rsig R ->
  a_verify R (H' ++ P ++ pad_string (a_sig R >? 256) n) s = true ->
  verify_decrypt m pnone asym R hl (H' ++ c) = Ok P.
Proof.
  intros Henc Hby Hhl HH Hn Hdec Hs Hver.
  unfold verify_decrypt, go_recvExtraPadding.
  assert (Hbypass : (match m with ModeNone => true | _ => false end) && (pnone || negb asym) = false).
  { destruct m; try reflexivity. destruct (Hby eq_refl) as [-> ->]. reflexivity. }
  rewrite Hbypass, Henc.
  pose proof (zlen_nonneg c) as Hc0.
  replace ((hl <? 0) || (zlen (H' ++ c) <? hl)) with false
    by (symmetry; apply orb_false_iff; rewrite zlen_app; split; lia).
  rewrite zdrop_app_exact, ztake_app_exact by exact HH. rewrite Hdec.
  set (extra := a_sig R >? 256) in *.
  set (pad := pad_string extra n) in *.
  assert (Hpadlen : zlen pad = n + (if extra then 2 else 1)) by (apply zlen_pad_string; lia).
  pose proof (zlen_nonneg P) as HP0. pose proof (zlen_nonneg s) as Hs0.
  set (msg := H' ++ P ++ pad).
  assert (Hmsg : zlen msg = hl + zlen P + zlen pad) by (unfold msg; rewrite !zlen_app; lia).
  replace (H' ++ P ++ pad ++ s) with (msg ++ s) by (unfold msg; rewrite <- !app_assoc; reflexivity).
  rewrite zlen_app. replace (zlen msg + zlen s - a_rsig R) with (zlen msg) by lia.
  replace (zlen msg + zlen s <? hl + a_rsig R) with false by (symmetry; apply Z.ltb_ge; destruct extra; lia).
  replace ((zlen msg <? 0) || (a_rsig R <? 0)) with false
    by (symmetry; apply orb_false_iff; pose proof (zlen_nonneg msg); split; lia).
  rewrite zdrop_app_exact, ztake_app_exact by reflexivity.
  unfold msg at 1. rewrite Hver. cbn [negb].
  replace (zlen msg <? hl + (if extra then 2 else 1)) with false by (symmetry; apply Z.ltb_ge; destruct extra; lia).
  replace (zlen msg <? (if extra then 2 else 1)) with false by (symmetry; apply Z.ltb_ge; destruct extra; lia).
  assert (Hlast : forall k, 0 <= k < zlen pad -> znth (hl + zlen P + k) msg = znth k pad).
  { intros k Hk. unfold msg. rewrite znth_app_r by lia. rewrite znth_app_r by lia. f_equal. lia. }
  destruct extra eqn:Ex.
  - replace (zlen msg - 1) with (hl + zlen P + (n + 1)) by lia.
    replace (zlen msg - 2) with (hl + zlen P + n) by lia.
    rewrite !Hlast by lia. unfold pad.
    destruct (pad_string_last_extra n ltac:(lia)) as [E1 E2]. rewrite E1, E2, !zb_b8.
    rewrite Z.shiftr_div_pow2 by lia. change (2 ^ 8) with 256.
    assert (Hv : n / 256 mod 256 * 256 + n mod 256 + 1 + 1 = n + 2) by lia.
    rewrite Hv.
    replace (zlen msg - (n + 2) <? hl) with false by (symmetry; apply Z.ltb_ge; lia).
    replace (hl <? 0) with false by (symmetry; apply Z.ltb_ge; lia).
    replace (zlen msg - (n + 2)) with (zlen (H' ++ P)) by (rewrite zlen_app; lia).
    unfold msg. rewrite app_assoc, ztake_app_exact by reflexivity.
    rewrite zdrop_app_exact by exact HH. reflexivity.
  - replace (zlen msg - 1) with (hl + zlen P + n) by lia.
    rewrite Hlast by lia. unfold pad. rewrite pad_string_last_noextra by lia. rewrite zb_b8.
    rewrite Z.mod_small by lia.
    replace (zlen msg - (n + 1) <? hl) with false by (symmetry; apply Z.ltb_ge; lia).
    replace (hl <? 0) with false by (symmetry; apply Z.ltb_ge; lia).
    replace (zlen msg - (n + 1)) with (zlen (H' ++ P)) by (rewrite zlen_app; lia).
    unfold msg. rewrite app_assoc, ztake_app_exact by reflexivity.
    rewrite zdrop_app_exact by exact HH. reflexivity.
Qed.

Lemma verify_decrypt_sign R pnone hl H' P s :
  0 <= hl -> zlen H' = hl -> zlen s = a_rsig R ->
  a_verify R (H' ++ P) s = true ->
  verify_decrypt ModeSign pnone false R hl (H' ++ P ++ s) = Ok P.
Proof.
  intros Hhl HH Hs Hver. unfold verify_decrypt. cbn [andb encrypts].
  pose proof (zlen_nonneg P) as HP0. pose proof (zlen_nonneg s) as Hs0.
  rewrite app_assoc. rewrite zlen_app.
  replace (zlen (H' ++ P) + zlen s - a_rsig R) with (zlen (H' ++ P)) by lia.
  replace (zlen (H' ++ P) + zlen s <? hl + a_rsig R) with false
    by (symmetry; apply Z.ltb_ge; rewrite zlen_app; lia).
  replace ((zlen (H' ++ P) <? 0) || (a_rsig R <? 0)) with false
    by (symmetry; apply orb_false_iff; pose proof (zlen_nonneg (H' ++ P)); split; lia).
  rewrite zdrop_app_exact, ztake_app_exact by reflexivity.
  rewrite Hver. cbn [negb]. rewrite Z.sub_0_r.
  replace (zlen (H' ++ P) <? hl) with false by (symmetry; apply Z.ltb_ge; rewrite zlen_app; lia).
  replace (hl <? 0) with false by (symmetry; apply Z.ltb_ge; lia).
  rewrite ztake_all by lia. rewrite zdrop_app_exact by exact HH. reflexivity.
Qed.

Lemma verify_decrypt_none pnone A hl H' P :
  zlen H' = hl -> verify_decrypt ModeNone pnone false A hl (H' ++ P) = Ok P.
Proof.
  intros HH. unfold verify_decrypt. cbn [negb]. rewrite orb_true_r. cbn [andb].
  rewrite zdrop_app_exact by exact HH. reflexivity.
Qed.

(* ---------------------------------------------------------------------------------------------- *)
(* signAndEncrypt in closed form *)

Lemma padding_len_range plain sig rsig n :
  0 < plain -> 0 <= n -> 0 <= sig -> 0 <= padding_len plain sig rsig n < plain.
Proof.
  intros Hp Hn Hs. unfold padding_len. pose proof (pad_bytes_range rsig) as Hpb.
  rewrite Z.rem_mod_nonneg by lia.
  pose proof (Z.mod_pos_bound (n + sig + pad_bytes rsig) plain Hp).
  destruct (Z.eqb_spec ((n + sig + pad_bytes rsig) mod plain) 0); lia.
Qed.

Lemma sign_encrypt_enc S m asym hl h4 old h8 P pad size H' s c :
  encrypts m asym = true -> m <> ModeNone ->
  zlen h4 = 4 -> zlen old = 4 -> zlen (h4 ++ old ++ h8) = hl ->
  0 < a_plain S -> 0 <= a_sig S ->
  pad = pad_string (a_rsig S >? 256) (padding_len (a_plain S) (a_sig S) (a_rsig S) (zlen P)) ->
  size = hl + Z.quot (plaintext_len (a_plain S) (a_sig S) (a_rsig S) (zlen P)) (a_plain S) * a_block S ->
  H' = h4 ++ le32 size ++ h8 ->
  a_sign S (H' ++ P ++ pad) = Some s ->
  a_enc S (P ++ pad ++ s) = Some c ->
  sign_encrypt m asym S hl ((h4 ++ old ++ h8) ++ P) = Ok (H' ++ c).
Proof.
  intros Henc Hm H4 Ho HH Hpl Hsg Hpad Hsize HH' Hsign Hcipher.
  pose proof (zlen_nonneg P) as HP0.
  pose proof (padding_len_range (a_plain S) (a_sig S) (a_rsig S) (zlen P) Hpl HP0 Hsg) as Hplr.
  assert (HH'len : zlen H' = hl).
  { subst H'. rewrite <- HH. rewrite !zlen_app, zlen_le32, Ho. reflexivity. }
  assert (Hbody : sign_encrypt m asym S hl ((h4 ++ old ++ h8) ++ P) =
    if (hl <? 0) || (zlen ((h4 ++ old ++ h8) ++ P) <? hl) then Panic
    else
      let padded :=
        if encrypts m asym then
          if a_plain S =? 0 then None
          else
            let extra := a_rsig S >? 256 in
            let pb := if extra then 2 else 1 in
            let rem := Z.rem (zlen ((h4 ++ old ++ h8) ++ P) - hl + a_sig S + pb) (a_plain S) in
            let pl := if rem =? 0 then 0 else a_plain S - rem in
            let b1 := ((h4 ++ old ++ h8) ++ P) ++ pad_string extra pl in
            Some (b1, Z.quot (zlen b1 - hl + a_sig S) (a_plain S) * a_block S)
        else Some ((h4 ++ old ++ h8) ++ P, zlen ((h4 ++ old ++ h8) ++ P) - hl + a_sig S) in
      match padded with
      | None => Panic
      | Some (b1, enclen) =>
        match put32 4 b1 (hl + enclen) with
        | None => Panic
        | Some b2 =>
          match a_sign S b2 with
          | None => Err ESecurityChecks
          | Some s =>
            let b3 := b2 ++ s in
            let p := zdrop hl b3 in
            if encrypts m asym then
              match a_enc S p with
              | None => Err ESecurityChecks
              | Some c => Ok (ztake hl b3 ++ c)
              end
            else Ok (ztake hl b3 ++ p)
          end
        end
      end).
  { destruct m; [contradiction | reflexivity | reflexivity]. }
  rewrite Hbody. clear Hbody. cbv zeta.
  assert (Hhl : 8 <= hl) by (rewrite <- HH, !zlen_app, H4, Ho; pose proof (zlen_nonneg h8); lia).
  replace ((hl <? 0) || (zlen ((h4 ++ old ++ h8) ++ P) <? hl)) with false
    by (symmetry; apply orb_false_iff; rewrite zlen_app, HH; split; lia).
  rewrite Henc.
  replace (a_plain S =? 0) with false by (symmetry; apply Z.eqb_neq; lia).
  replace (zlen ((h4 ++ old ++ h8) ++ P) - hl) with (zlen P) by (rewrite zlen_app, HH; lia).
  change (if Z.rem (zlen P + a_sig S + (if a_rsig S >? 256 then 2 else 1)) (a_plain S) =? 0
          then 0 else a_plain S - Z.rem (zlen P + a_sig S + (if a_rsig S >? 256 then 2 else 1)) (a_plain S))
    with (padding_len (a_plain S) (a_sig S) (a_rsig S) (zlen P)).
  rewrite <- Hpad.
  assert (Hpadlen : zlen pad = padding_len (a_plain S) (a_sig S) (a_rsig S) (zlen P) + pad_bytes (a_rsig S)).
  { rewrite Hpad, zlen_pad_string by lia. reflexivity. }
  replace (zlen (((h4 ++ old ++ h8) ++ P) ++ pad) - hl + a_sig S)
    with (plaintext_len (a_plain S) (a_sig S) (a_rsig S) (zlen P))
    by (unfold plaintext_len; rewrite (zlen_app _ pad), (zlen_app _ P), HH, Hpadlen; lia).
  rewrite <- Hsize.
  replace (((h4 ++ old ++ h8) ++ P) ++ pad) with (h4 ++ old ++ (h8 ++ P ++ pad))
    by (rewrite <- !app_assoc; reflexivity).
  rewrite put32_app4 by assumption.
  replace (h4 ++ le32 size ++ h8 ++ P ++ pad) with (H' ++ P ++ pad)
    by (subst H'; rewrite <- !app_assoc; reflexivity).
  rewrite Hsign.
  replace ((H' ++ P ++ pad) ++ s) with (H' ++ P ++ pad ++ s) by (rewrite <- !app_assoc; reflexivity).
  rewrite zdrop_app_exact, ztake_app_exact by exact HH'len.
  rewrite Hcipher. reflexivity.
Qed.

Lemma sign_encrypt_sign S hl h4 old h8 P H' s :
  zlen h4 = 4 -> zlen old = 4 -> zlen (h4 ++ old ++ h8) = hl ->
  H' = h4 ++ le32 (hl + (zlen P + a_sig S)) ++ h8 ->
  a_sign S (H' ++ P) = Some s ->
  sign_encrypt ModeSign false S hl ((h4 ++ old ++ h8) ++ P) = Ok (H' ++ P ++ s).
Proof.
  intros H4 Ho HH HH' Hsign. unfold sign_encrypt. cbn [encrypts].
  pose proof (zlen_nonneg P) as HP0.
  assert (Hhl : 8 <= hl) by (rewrite <- HH, !zlen_app, H4, Ho; pose proof (zlen_nonneg h8); lia).
  assert (HH'len : zlen H' = hl).
  { subst H'. rewrite <- HH. rewrite !zlen_app, zlen_le32, Ho. reflexivity. }
  replace ((hl <? 0) || (zlen ((h4 ++ old ++ h8) ++ P) <? hl)) with false
    by (symmetry; apply orb_false_iff; rewrite zlen_app, HH; split; lia).
  replace (zlen ((h4 ++ old ++ h8) ++ P) - hl) with (zlen P) by (rewrite zlen_app, HH; lia).
  replace ((h4 ++ old ++ h8) ++ P) with (h4 ++ old ++ (h8 ++ P)) by (rewrite <- !app_assoc; reflexivity).
  rewrite put32_app4 by assumption.
  replace (h4 ++ le32 (hl + (zlen P + a_sig S)) ++ h8 ++ P) with (H' ++ P)
    by (subst H'; rewrite <- !app_assoc; reflexivity).
  rewrite Hsign.
  replace ((H' ++ P) ++ s) with (H' ++ P ++ s) by (rewrite <- !app_assoc; reflexivity).
  rewrite zdrop_app_exact, ztake_app_exact by exact HH'len. reflexivity.
Qed.

(* ---------------------------------------------------------------------------------------------- *)
(* What the theorems assume about the two ends' algorithms (sender S, receiver R).  Satisfied by the toy
   algorithms (ChunkToyProofs.v) and, for block-wise RSA, derived from per-block hypotheses (CryptoBlocksProofs.v). *)
Record link (S R : algo) : Prop := mkLink {
  lk_sign : forall m, exists s, a_sign S m = Some s /\ zlen s = a_sig S;
  lk_verify : forall m s, a_sign S m = Some s -> a_verify R m s = true;
  lk_enc : forall p, 0 < zlen p -> Z.rem (zlen p) (a_plain S) = 0 ->
           exists c, a_enc S p = Some c /\ a_dec R c = Some p /\
                     zlen c = Z.quot (zlen p) (a_plain S) * a_block S;
  lk_rsig : a_rsig R = a_sig S;
  lk_extra : (a_sig R >? 256) = (a_rsig S >? 256);
  lk_pad : a_plain S <= (if a_rsig S >? 256 then 65536 else 256)
}.

(* the 12-byte header followed by the 4-byte symmetric security header *)
Definition hdr16 (mt : bytes) (ct : byte) (size chan tok : Z) : bytes :=
  (mt ++ [ct]) ++ le32 size ++ (le32 chan ++ le32 tok).

Lemma raw_chunk_split mt ct size chan tok seq req data :
  raw_chunk mt ct size chan tok seq req data =
  ((mt ++ [ct]) ++ le32 size ++ (le32 chan ++ le32 tok)) ++ (le32 seq ++ le32 req ++ data).
Proof. unfold raw_chunk, hdr12. rewrite <- !app_assoc. reflexivity. Qed.

Lemma zlen_hdr16 mt ct size chan tok : zlen mt = 3 -> zlen (hdr16 mt ct size chan tok) = 16.
Proof. intros H. unfold hdr16. rewrite !zlen_app, !zlen_le32, zlen_single, H. reflexivity. Qed.

(* One symmetric chunk through signAndEncrypt and the peer's verifyAndDecrypt. *)
Lemma secure_roundtrip S R m pnone mt ct size chan tok seq req data :
  link S R -> zlen mt = 3 -> 0 < a_plain S -> 0 <= a_sig S ->
  exists size' X,
    sign_encrypt m false S 16 (raw_chunk mt ct size chan tok seq req data) = Ok (hdr16 mt ct size' chan tok ++ X) /\
    verify_decrypt m pnone false R 16 (hdr16 mt ct size' chan tok ++ X) = Ok (le32 seq ++ le32 req ++ data) /\
    16 + zlen X = secured_len m (a_block S) (a_plain S) (a_sig S) (a_rsig S) 16 (8 + zlen data) /\
    size' = match m with ModeNone => size | _ => 16 + zlen X end.
Proof.
  intros L Hmt Hpl Hsg.
  set (P := le32 seq ++ le32 req ++ data).
  assert (HP : zlen P = 8 + zlen data) by (unfold P; rewrite !zlen_app, !zlen_le32; lia).
  pose proof (zlen_nonneg data) as Hd0.
  rewrite raw_chunk_split. fold P.
  assert (H4 : zlen (mt ++ [ct]) = 4) by (rewrite zlen_app, zlen_single, Hmt; reflexivity).
  assert (H16 : zlen ((mt ++ [ct]) ++ le32 size ++ le32 chan ++ le32 tok) = 16)
    by (rewrite (zlen_app (mt ++ [ct])), H4, !zlen_app, !zlen_le32; reflexivity).
  destruct m.
  - (* None *)
    exists size, P. split; [reflexivity|]. split.
    + apply verify_decrypt_none. apply zlen_hdr16. exact Hmt.
    + split; [cbn [secured_len]; lia | reflexivity].
  - (* Sign *)
    set (H' := (mt ++ [ct]) ++ le32 (16 + (zlen P + a_sig S)) ++ (le32 chan ++ le32 tok)).
    destruct (lk_sign S R L (H' ++ P)) as (s & Hs & Hslen).
    exists (16 + (zlen P + a_sig S)), (P ++ s). split.
    + apply (sign_encrypt_sign S 16 (mt ++ [ct]) (le32 size) (le32 chan ++ le32 tok) P H' s);
        [exact H4 | reflexivity | exact H16 | reflexivity | exact Hs].
    + split.
      * apply verify_decrypt_sign; [lia | apply zlen_hdr16; exact Hmt | rewrite (lk_rsig S R L); exact Hslen |].
        apply (lk_verify S R L). exact Hs.
      * rewrite zlen_app, Hslen. cbn [secured_len]. split; lia.
  - (* SignAndEncrypt *)
    set (pl := padding_len (a_plain S) (a_sig S) (a_rsig S) (zlen P)).
    set (pad := pad_string (a_rsig S >? 256) pl).
    set (size' := 16 + Z.quot (plaintext_len (a_plain S) (a_sig S) (a_rsig S) (zlen P)) (a_plain S) * a_block S).
    set (H' := (mt ++ [ct]) ++ le32 size' ++ (le32 chan ++ le32 tok)).
    pose proof (zlen_nonneg P) as HP0.
    pose proof (padding_len_range (a_plain S) (a_sig S) (a_rsig S) (zlen P) Hpl HP0 Hsg) as Hplr. fold pl in Hplr.
    destruct (lk_sign S R L (H' ++ P ++ pad)) as (s & Hs & Hslen).
    assert (Hpadlen : zlen pad = pl + pad_bytes (a_rsig S)).
    { unfold pad. rewrite zlen_pad_string by lia. reflexivity. }
    assert (Hptlen : zlen (P ++ pad ++ s) = plaintext_len (a_plain S) (a_sig S) (a_rsig S) (zlen P)).
    { unfold plaintext_len. fold pl. rewrite !zlen_app, Hpadlen, Hslen. lia. }
    pose proof (pad_bytes_range (a_rsig S)) as Hpb.
    destruct (lk_enc S R L (P ++ pad ++ s)) as (c & Hc & Hdec & Hclen).
    { rewrite Hptlen. unfold plaintext_len. fold pl. lia. }
    { rewrite Hptlen. apply padded_is_multiple; lia. }
    exists size', c. split.
    + apply (sign_encrypt_enc S ModeSignEnc false 16 (mt ++ [ct]) (le32 size) (le32 chan ++ le32 tok) P pad size' H' s c);
        try reflexivity; try assumption. discriminate.
    + split.
      * apply (verify_decrypt_enc R ModeSignEnc pnone false 16 (hdr16 mt ct size' chan tok) P pl s c);
          try reflexivity.
        -- discriminate.
        -- lia.
        -- apply zlen_hdr16. exact Hmt.
        -- rewrite (lk_extra S R L). pose proof (lk_pad S R L). destruct (a_rsig S >? 256); lia.
        -- rewrite (lk_extra S R L). exact Hdec.
        -- rewrite (lk_rsig S R L). exact Hslen.
        -- rewrite (lk_extra S R L). apply (lk_verify S R L). exact Hs.
      * rewrite Hclen, Hptlen. cbn [secured_len]. rewrite HP. unfold size'. rewrite HP. split; reflexivity.
Qed.

(* readChunk on a frame with a well-formed MSG header *)
Lemma read_chunk_ok m pnone R ct size chan tok X d :
  0 <= chan < 4294967296 ->
  verify_decrypt m pnone false R 16 (hdr16 MSG ct size chan tok ++ X) = Ok d -> 8 <= zlen d ->
  read_chunk m pnone R chan (hdr16 MSG ct size chan tok ++ X) =
  Ok (mkChunk ct chan (de32 d) (de32 (zdrop 4 d)) (zdrop 8 d)).
Proof.
  intros Hch Hvd Hd. unfold read_chunk. rewrite Hvd.
  pose proof (zlen_nonneg X) as HX0.
  replace (zlen (hdr16 MSG ct size chan tok ++ X) <? 16) with false
    by (symmetry; apply Z.ltb_ge; rewrite zlen_app, zlen_hdr16 by reflexivity; lia).
  assert (E3 : ztake 3 (hdr16 MSG ct size chan tok ++ X) = MSG) by reflexivity.
  assert (E4 : znth 3 (hdr16 MSG ct size chan tok ++ X) = ct) by reflexivity.
  assert (E8 : zdrop 8 (hdr16 MSG ct size chan tok ++ X) = le32 chan ++ le32 tok ++ X).
  { reflexivity. }
  rewrite E3, E4, E8. rewrite de32_le32, Z.mod_small by lia. rewrite Z.eqb_refl.
  cbn [negb]. replace (zlen d <? 8) with false by (symmetry; apply Z.ltb_ge; lia).
  reflexivity.
Qed.
