(* E1 codec, C02: a successful decode into a descriptor of at least one byte consumes at least one byte (used to
   amortise the element slots that slices and Variant arrays allocate up front). *)
From Coq Require Import NArith ZArith List Bool Lia.
From Coq.Strings Require Import Byte.
From Opcua Require Import Model.CodecTypes Model.Codec Model.CodecWf Proofs.CodecTotal.
Import ListNotations.
Open Scope Z_scope.

Lemma strict_bind_strict : forall A B n (m : dec A) (f : A -> dec B),
  strict_on n m -> (forall a k, (k < n)%nat -> safe_on k (f a)) -> strict_on n (bind m f).
Proof.
  intros A B n m f Hm Hf bs Hl. unfold bind. specialize (Hm bs Hl).
  destruct (m bs) as [a rest al|e al|al|] eqn:E; cbn in Hm; try exact I; try contradiction.
  apply fine1_add_al. assert (Hr : (length rest < n)%nat) by lia.
  specialize (Hf a (length rest) Hr rest (le_n _)). destruct (f a rest); cbn in *; auto. lia.
Qed.

Lemma strict_le : forall A n m (d : dec A), strict_on n d -> (m <= n)%nat -> strict_on m d.
Proof. intros A n m d H Hm bs Hl. apply H. lia. Qed.

Lemma dec_guid_strict : forall n, strict_on n dec_guid.
Proof.
  intros n. unfold dec_guid. apply strict_bind_r; [apply safe_tick|]. intros _.
  apply strict_bind_l; [apply read_u_strict; lia|]. intros d1.
  apply safe_bind; [apply read_u_safe|]. intros d2. apply safe_bind; [apply read_u_safe|]. intros d3.
  apply safe_bind; [apply read_n_safe; lia|]. intros d4. apply safe_ret.
Qed.

Section Rec.
  Variable reg : list (Z * Z * ty).
  Variable rec : ty -> dec val.
  Variable n : nat.
  Hypothesis Hreg : reg_ok reg = true.
  Hypothesis Hrec : forall t k, ptr_ok t = true -> (k < n)%nat -> safe_on k (rec t).

  Lemma dec_variant_strict : strict_on n (dec_variant rec).
  Proof.
    unfold dec_variant. apply strict_bind_r; [apply safe_tick|]. intros _.
    apply strict_bind_strict; [apply read_byte_strict|]. intros mask k Hk. cbv zeta.
    destruct (mask mod 64 =? 0); [apply safe_ret|].
    destruct (25 <? mask mod 64); [apply safe_fail|].
    destruct (negb (bit mask 7)).
    { apply safe_bind; [apply (dec_builtin_below rec n Hrec); exact Hk|]. intros v. apply safe_ret. }
    apply safe_bind; [safe_step|]. intros alen.
    destruct (max_variant_array_length <? alen); [apply safe_fail|].
    destruct (alen <? -1); [apply safe_fail|].
    apply safe_bind.
    { destruct (alen =? -1); [apply safe_ret|].
      apply safe_bind; [apply safe_tick|]. intros _.
      apply safe_bind; [apply dec_n_safe; apply (dec_builtin_below rec n Hrec); exact Hk|]. intros l. apply safe_ret. }
    intros vals. apply safe_bind.
    { destruct (bit mask 6); [|apply safe_ret].
      apply safe_bind; [safe_step|]. intros dl. destruct (dl <? 0); [apply safe_fail|].
      apply safe_bind; [apply safe_remaining|]. intros r. destruct (r / 4 <? dl); [apply safe_fail|].
      apply safe_bind; [apply safe_tick|]. intros _.
      apply safe_bind; [apply dec_n_safe; apply dec_dim_safe|]. intros ds. apply safe_ret. }
    intros [dl ds].
    destruct ((0 <? dl) && negb match dims_product ds 1 with Some c => c =? alen | None => false end); [apply safe_fail|].
    destruct (dl <? 2); [apply safe_ret|].
    destruct vals as [l|]; [apply safe_bind; [apply safe_tick|]; intros _; apply safe_ret|apply safe_ret].
  Qed.

  Lemma dec_datavalue_strict : strict_on n (dec_datavalue rec).
  Proof.
    unfold dec_datavalue. apply strict_bind_r; [apply safe_tick|]. intros _.
    apply strict_bind_strict; [apply read_byte_strict|]. intros mask k Hk.
    apply safe_bind.
    { destruct (bit mask 0); [apply Hrec; [reflexivity|exact Hk]|]. apply safe_bind; [apply safe_tick|]. intros _. apply safe_ret. }
    intros v. repeat (apply safe_bind; [apply if_safe; safe_step|]; intros ?). apply safe_ret.
  Qed.

  Lemma dec_diag_strict : strict_on n (dec_diag rec).
  Proof.
    unfold dec_diag. apply strict_bind_r; [apply safe_tick|]. intros _.
    apply strict_bind_strict; [apply read_byte_strict|]. intros mask k Hk.
    do 6 (apply safe_bind; [apply if_safe; safe_step|]; intros ?).
    apply safe_bind; [|intros inner; apply safe_ret].
    destruct (bit mask 6); [|apply safe_ret].
    apply safe_bind; [apply Hrec; [reflexivity|exact Hk]|]. intros i. apply safe_ret.
  Qed.

  Lemma dec_extobj_strict : strict_on n (dec_extobj reg rec).
  Proof.
    unfold dec_extobj. apply strict_bind_r; [apply safe_tick|]. intros _.
    apply strict_bind_strict; [apply dec_expnodeid_strict|]. intros tid k Hk.
    apply safe_bind; [safe_step|]. intros mask.
    destruct (mask =? 0); [apply safe_ret|].
    intros bs Hl. unfold bind at 1.
    pose proof (read_u_safe k 4 bs Hl) as Hu.
    destruct (read_u 4 bs) as [len rest al|e al|al|] eqn:Eu; cbn in Hu; try exact I; try contradiction.
    apply fine_add_al.
    assert (Hlen : 0 <= len) by (eapply read_u_nonneg; exact Eu).
    destruct ((len =? 0) || (len =? null32)); [cbn; lia|].
    unfold bind at 1.
    pose proof (read_n_safe k len Hlen rest ltac:(lia)) as Hn.
    destruct (read_n len rest) as [body rest2 al2|e2 al2|al2|] eqn:En; cbn in Hn; try exact I; try contradiction.
    apply fine_add_al.
    assert (Hbody : (length body < n)%nat) by (apply read_n_len in En; lia).
    assert (Hsub : forall t, ptr_ok t = true -> fine bs (bind (run_sub (rec t) body) (fun v => ret (VExtObj mask (Some tid) (Some v))) rest2)).
    { intros t Ht. unfold bind. pose proof (run_sub_safe n val (rec t) body k Hbody (fun j => Hrec t j Ht) rest2 ltac:(lia)) as Hs.
      destruct (run_sub (rec t) body rest2) as [v r3 al3|e3 al3|al3|]; cbn in Hs; try exact I; try contradiction.
      cbn. lia. }
    destruct (mask =? 2); [apply Hsub; reflexivity|].
    destruct (lookup_expnodeid reg tid) as [t|] eqn:El; [apply Hsub; eapply lookup_reg_ok; eassumption|]. cbn. lia.
  Qed.

  Lemma dec_custom_strict : forall c, strict_on n (dec_custom reg rec c).
  Proof.
    intros []; cbn [dec_custom].
    - apply dec_variant_strict.
    - apply dec_datavalue_strict.
    - apply dec_diag_strict.
    - apply dec_loctext_strict.
    - apply dec_nodeid_strict.
    - apply dec_expnodeid_strict.
    - apply dec_extobj_strict.
    - apply dec_guid_strict.
  Qed.
End Rec.

Section Main.
  Variable reg : list (Z * Z * ty).
  Hypothesis Hreg : reg_ok reg = true.

  Lemma dec_fields_strict : forall n ds, Forall (safe_on n) ds -> Exists (strict_on n) ds -> strict_on n (dec_fields ds).
  Proof.
    intros n ds Hs He. induction He as [d r Hd|d r He IH]; cbn [dec_fields]; inversion Hs as [|? ? Hd' Hr]; subst.
    - apply strict_bind_l; [exact Hd|]. intros x. apply safe_bind; [apply dec_fields_safe; exact Hr|]. intros xs. apply safe_ret.
    - apply strict_bind_r; [exact Hd'|]. intros x. apply strict_bind_l; [apply IH; exact Hr|]. intros xs. apply safe_ret.
  Qed.

  (* a descriptor of at least one byte: decoding it successfully consumes at least one byte *)
  Theorem decode_strict : forall f t n, ptr_ok t = true -> (1 <= minsize t)%nat -> (n < f)%nat -> strict_on n (decode reg f t).
  Proof.
    intros f t n Ht Hm Hn. destruct f as [|f]; [lia|].
    revert Ht Hm. induction t using ty_ind'; intros Ht Hm; cbn [decode].
    - apply strict_bind_l; [apply read_byte_strict|]. intros b. apply safe_ret.
    - cbn [minsize] in Hm. apply strict_bind_l; [destruct s; [apply read_i_strict|apply read_u_strict]; exact Hm|]. intros z. apply safe_ret.
    - cbn [minsize] in Hm. apply strict_bind_l; [apply read_u_strict; exact Hm|]. intros z. apply safe_ret.
    - apply strict_bind_l; [apply read_string_strict|]. intros z. apply safe_ret.
    - apply strict_bind_l; [apply read_time_strict|]. intros z. apply safe_ret.
    - apply dec_bytes_strict.
    - apply dec_slice_strict. apply (decode_safe reg Hreg (S f) t n Ht Hn).
    - assert (He : ptr_ok t = true) by (apply ptr_ok_elem; exact Ht).
      unfold dec_ptr. destruct t; try discriminate;
        (apply strict_bind_r; [apply safe_tick|]; intros _; apply strict_bind_l; [apply IHt; [exact He|exact Hm]|]; intros v; apply safe_ret).
    - apply strict_bind_l; [|intros vs; apply safe_ret]. cbn [ptr_ok] in Ht. rewrite forallb_forall in Ht.
      apply dec_fields_strict.
      + apply Forall_forall. intros d Hd. apply in_map_iff in Hd. destruct Hd as [x [<- Hin]].
        apply (decode_safe reg Hreg (S f) x n (Ht x Hin) Hn).
      + cbn [minsize] in Hm. rewrite Forall_forall in H.
        assert (Hex : exists x, In x fs /\ (1 <= minsize x)%nat).
        { clear -Hm. induction fs as [|x r IH]; cbn [fold_right] in Hm; [lia|].
          destruct (Nat.eq_dec (minsize x) 0) as [E|E].
          - destruct IH as [y [Hy My]]; [lia|]. exists y. split; [right; exact Hy|exact My].
          - exists x. split; [left; reflexivity|lia]. }
        destruct Hex as [x [Hin Mx]]. apply Exists_exists. exists (decode reg (S f) x). split; [apply in_map; exact Hin|].
        apply H; [exact Hin|apply Ht; exact Hin|exact Mx].
    - apply dec_custom_strict; [exact Hreg|]. intros t k Hpt Hk. apply (decode_safe reg Hreg f t k Hpt). lia.
  Qed.
End Main.
