(* E1 codec, C01: the round trip for the WHOLE universe of descriptors: every reflection-driven constructor and all
   eight hand-written codecs, any registry, any well-formed value (rwf), with rest-independence.
   Induction on the size of the value (the descriptor does not decrease through Variant payloads and extension
   object bodies); the nesting budget of the decoder only has to exceed the length of the encoding. *)
From Coq Require Import NArith ZArith List Bool Lia.
From Coq.Strings Require Import Byte.
From Opcua Require Import Model.CodecTypes Model.Codec Model.CodecWf Model.CodecWfAll Proofs.CodecBase Proofs.CodecRoundtrip
  Proofs.CodecRT Proofs.CodecSplit Proofs.CodecCustomsA Proofs.CodecCustomsB Proofs.CodecCustomsC Proofs.CodecCustomsD.
Import ListNotations.
Open Scope Z_scope.

(* ------------------------------------------------------------------ size of a value tree *)
Fixpoint vsize (v : val) : nat :=
  let lsize := fix go (l : list val) : nat := match l with [] => 0%nat | x :: r => (vsize x + go r)%nat end in
  let osize := fun (o : option val) => match o with None => 0%nat | Some x => vsize x end in
  S (match v with
     | VSlice (Some l) => lsize l
     | VPtr o => osize o
     | VStruct l => lsize l
     | VNodeID _ _ _ _ g => osize g
     | VExpNodeID n _ _ => osize n
     | VDiag _ _ _ _ _ _ _ i => osize i
     | VDataValue _ x _ _ _ _ _ => osize x
     | VVariant _ _ _ _ p => osize p
     | VExtObj _ t b => (osize t + osize b)%nat
     | _ => 0%nat
     end).

Definition lsize (l : list val) : nat := fold_right (fun x a => (vsize x + a)%nat) 0%nat l.

Lemma vsize_slice : forall l, vsize (VSlice (Some l)) = S (lsize l).
Proof.
  intros l. change (vsize (VSlice (Some l))) with
    (S ((fix go (l : list val) : nat := match l with [] => 0%nat | x :: r => (vsize x + go r)%nat end) l)).
  apply f_equal. induction l as [|x r IH]; [reflexivity|]. cbn [lsize fold_right]. fold (lsize r). rewrite <- IH. reflexivity.
Qed.
Lemma vsize_struct : forall l, vsize (VStruct l) = S (lsize l).
Proof.
  intros l. change (vsize (VStruct l)) with
    (S ((fix go (l : list val) : nat := match l with [] => 0%nat | x :: r => (vsize x + go r)%nat end) l)).
  apply f_equal. induction l as [|x r IH]; [reflexivity|]. cbn [lsize fold_right]. fold (lsize r). rewrite <- IH. reflexivity.
Qed.
Lemma lsize_in : forall l x, In x l -> (vsize x <= lsize l)%nat.
Proof.
  induction l as [|y r IH]; intros x Hin; [destruct Hin|]. cbn [lsize fold_right]. fold (lsize r).
  destruct Hin as [->|Hin]; [lia|]. specialize (IH x Hin). lia.
Qed.

Lemma vsize_leaves : forall p x, In x (leaves p) -> (vsize x <= vsize p)%nat.
Proof.
  induction p using val_ind'; intros x Hin;
    try (cbn [leaves] in Hin; destruct Hin as [<-|[]]; apply le_n).
  - destruct Hin.
  - rewrite leaves_slice in Hin. apply in_flat_map in Hin. destruct Hin as [y [Hy Hx]].
    rewrite Forall_forall in H. specialize (H y Hy x Hx). rewrite vsize_slice. pose proof (lsize_in l y Hy). lia.
Qed.

(* ------------------------------------------------------------------ named versions of the nested fixes *)
Definition rwf_struct (reg : list (Z * Z * ty)) : list ty -> list val -> bool :=
  fix go (fs : list ty) (vs : list val) {struct vs} : bool :=
    match fs, vs with
    | [], [] => true
    | f :: fs', x :: vs' => rwf reg f x && go fs' vs'
    | _, _ => false
    end.
Definition rnorm_struct (reg : list (Z * Z * ty)) : list ty -> list val -> list val :=
  fix go (fs : list ty) (vs : list val) {struct vs} : list val :=
    match fs, vs with
    | f :: fs', x :: vs' => rnorm reg f x :: go fs' vs'
    | _, _ => []
    end.
Lemma rwf_list_forall : forall reg e l,
  (fix go (l : list val) : bool := match l with [] => true | x :: r => rwf reg e x && go r end) l = forallb (rwf reg e) l.
Proof. intros reg e l. induction l as [|x r IH]; [reflexivity|]. cbn [forallb]. rewrite <- IH. reflexivity. Qed.
Lemma rnorm_list_map : forall reg e l,
  (fix go (l : list val) : list val := match l with [] => [] | x :: r => rnorm reg e x :: go r end) l = map (rnorm reg e) l.
Proof. intros reg e l. induction l as [|x r IH]; [reflexivity|]. cbn [map]. rewrite <- IH. reflexivity. Qed.

Definition leaf_ty (t : ty) : bool :=
  match t with
  | TSlice _ | TPtr _ | TStruct _ => false
  | TCustom CGUID | TCustom CLocText => true
  | TCustom _ => false
  | _ => true
  end.
Lemma rwf_leaf : forall reg t v, leaf_ty t = true ->
  rwf reg t v = gwf t v /\ rnorm reg t v = norm t v /\ generic_ty t = true.
Proof.
  intros reg t v H. destruct t; try discriminate; try (destruct v; repeat split; reflexivity).
  destruct c; try discriminate; destruct v; repeat split; reflexivity.
Qed.

Lemma RTb_zero : forall A m k e (d d' : dec A) x, RTb m k e d x -> RTb m 0 e d' x.
Proof. intros A m k e d d' x [bs [E [L _]]]. exists bs. split; [exact E|]. split; [exact L|]. intros Hl. lia. Qed.

(* ------------------------------------------------------------------ nesting depth of sub-values *)
Definition ldepth (l : list val) : nat := fold_right (fun x a => Nat.max (vdepth x) a) 0%nat l.
Lemma vdepth_slice : forall l, vdepth (VSlice (Some l)) = ldepth l.
Proof.
  intros l. change (vdepth (VSlice (Some l))) with
    ((fix go (l : list val) : nat := match l with [] => 0%nat | x :: r => Nat.max (vdepth x) (go r) end) l).
  induction l as [|x r IH]; [reflexivity|]. cbn [ldepth fold_right]. fold (ldepth r). rewrite <- IH. reflexivity.
Qed.
Lemma vdepth_struct : forall l, vdepth (VStruct l) = ldepth l.
Proof.
  intros l. change (vdepth (VStruct l)) with
    ((fix go (l : list val) : nat := match l with [] => 0%nat | x :: r => Nat.max (vdepth x) (go r) end) l).
  induction l as [|x r IH]; [reflexivity|]. cbn [ldepth fold_right]. fold (ldepth r). rewrite <- IH. reflexivity.
Qed.
Lemma ldepth_in : forall l x, In x l -> (vdepth x <= ldepth l)%nat.
Proof.
  induction l as [|y r IH]; intros x Hin; [destruct Hin|]. cbn [ldepth fold_right]. fold (ldepth r).
  destruct Hin as [->|Hin]; [lia|]. specialize (IH x Hin). lia.
Qed.
Lemma vdepth_leaves : forall p x, In x (leaves p) -> (vdepth x <= vdepth p)%nat.
Proof.
  induction p using val_ind'; intros x Hin;
    try (cbn [leaves] in Hin; destruct Hin as [<-|[]]; apply le_n).
  - destruct Hin.
  - rewrite leaves_slice in Hin. apply in_flat_map in Hin. destruct Hin as [y [Hy Hx]].
    rewrite Forall_forall in H. specialize (H y Hy x Hx). rewrite vdepth_slice. pose proof (ldepth_in l y Hy). lia.
Qed.

(* decode at f levels left = one level of ua.decode over what is nested further down *)
Definition lrec (reg : list (Z * Z * ty)) (f : nat) : ty -> dec val :=
  match f with O => fun _ => fail EOther | S f' => decode reg f' end.
Definition lallow (f : nat) : bool := match f with O => false | S _ => true end.
Lemma decode_eq : forall reg f, decode reg f = dec_level reg (lrec reg f) (lallow f).
Proof. intros reg [|f]; reflexivity. Qed.

Section All.
  Variable reg : list (Z * Z * ty).

  (* v round-trips through the decoder with f nesting levels left *)
  Definition RTd (f : nat) (t : ty) (v : val) : Prop :=
    forall k, RTb (minsize t) k (encode reg t v) (decode reg f t) (rnorm reg t v).

  Lemma generic_RTd : forall f t v, leaf_ty t = true -> rwf reg t v = true -> RTd f t v.
  Proof.
    intros f t v Hl Hw k. destruct (rwf_leaf reg t v Hl) as [E1 [E2 Hg]]. rewrite E1 in Hw. rewrite E2.
    destruct (roundtrip_generic reg 0 t Hg v Hw) as [bs [E [L D]]].
    exists bs. split; [exact E|]. split; [exact L|]. intros _ rest. specialize (D rest).
    (* leaf descriptors do not look at the nesting level *)
    replace (decode reg f t) with (decode reg 1 t); [exact D|].
    rewrite !decode_eq. destruct t; try discriminate; try reflexivity. destruct c; try discriminate; reflexivity.
  Qed.

  Lemma RTb_struct : forall k (D : ty -> dec val) fs vs,
    (forall t x, In x vs -> rwf reg t x = true -> RTb (minsize t) k (encode reg t x) (D t) (rnorm reg t x)) ->
    rwf_struct reg fs vs = true ->
    RTb (minsize (TStruct fs)) k (enc_struct (encode reg) fs vs) (dec_fields (map D fs)) (rnorm_struct reg fs vs).
  Proof.
    intros k D fs. induction fs as [|t fs' IH]; intros vs Hrec Hw.
    - destruct vs; [|discriminate]. cbn. apply RTb_ret.
    - destruct vs as [|x vs']; [discriminate|]. cbn [rwf_struct] in Hw. fold (rwf_struct reg) in Hw.
      apply andb_true in Hw. destruct Hw as [Hx Hr].
      cbn [enc_struct map dec_fields rnorm_struct]. fold (enc_struct (encode reg)). fold (rnorm_struct reg).
      eapply RTb_weaken; [|instantiate (1 := (minsize t + minsize (TStruct fs'))%nat); cbn [minsize fold_right]; lia|apply le_n].
      eapply RTb_bind; [apply Hrec; [left; reflexivity|exact Hx]|].
      apply (RTb_fmap _ _ _ _ _ _ (cons (rnorm reg t x))). apply IH; [|exact Hr].
      intros t' x' Hin. apply Hrec. right. exact Hin.
  Qed.

  Lemma variant_ty_minsize : forall tid, (1 <= minsize (variant_ty tid))%nat.
  Proof.
    intros tid. destruct tid as [|p|p]; try (cbn; lia).
    do 5 (destruct p as [p|p|]; try (cbn; lia)).
  Qed.

  Theorem roundtrip_depth : forall n t v, (vsize v < n)%nat -> rwf reg t v = true ->
    forall f, (vdepth v <= f)%nat -> RTd f t v.
  Proof.
    induction n as [|n IHn]; intros t v Hn Hw f Hd; [lia|].
    assert (IH : forall t' v', (vsize v' < n)%nat -> rwf reg t' v' = true -> forall f', (vdepth v' <= f')%nat ->
                   forall k, RTb (minsize t') k (encode reg t' v') (decode reg f' t') (rnorm reg t' v')).
    { intros t' v' Hs Hw' f' Hd' k. apply (IHn t' v' Hs Hw' f' Hd'). }
    destruct t.
    1-6: (match goal with |- RTd _ ?t _ => apply (generic_RTd f t v eq_refl Hw) end).
    - (* slice *)
      intros k. destruct v; try discriminate. destruct l as [l|].
      + change (rwf reg (TSlice t) (VSlice (Some l))) with
          (Nat.leb 1 (minsize t) && (zlen l <=? max_int32) &&
           (fix go (l : list val) : bool := match l with [] => true | x :: r => rwf reg t x && go r end) l) in Hw.
        rewrite rwf_list_forall in Hw. bool_hyps. apply Nat.leb_le in H.
        rewrite forallb_forall in H0.
        assert (Hall : Forall (fun x => RTb (minsize t) k (encode reg t x) (decode reg f t) (rnorm reg t x)) l).
        { apply Forall_forall. intros x Hx. apply IH; [|apply H0; exact Hx|].
          - rewrite vsize_slice in Hn. pose proof (lsize_in l x Hx). lia.
          - rewrite vdepth_slice in Hd. pose proof (ldepth_in l x Hx). lia. }
        destruct (RTb_list _ _ _ _ _ _ Hall) as [bs [E [L D]]].
        change (encode reg (TSlice t) (VSlice (Some l)))
          with (if max_int32 <? zlen l then EErr else eapp (EOk (le 4 (zlen l))) (enc_list (encode reg t) l)).
        destruct (max_int32 <? zlen l) eqn:El; [apply Z.ltb_lt in El; lia|].
        rewrite E. cbn [eapp]. exists (le 4 (zlen l) ++ bs). split; [reflexivity|].
        split; [cbn [minsize]; rewrite app_length, le_length; lia|].
        intros Hl rest. rewrite app_length, le_length in Hl. cbn [rnorm]. rewrite rnorm_list_map. rewrite <- app_assoc.
        rewrite decode_eq.
        change (dec_level reg (lrec reg f) (lallow f) (TSlice t)) with
          (dec_slice (match t with TPtr x => 8 + tsize x | TCustom _ => 8 | _ => tsize t end)%N (dec_level reg (lrec reg f) (lallow f) t)).
        rewrite <- decode_eq.
        unfold dec_slice. unfold zlen in *.
        eapply decodes_bind; [apply decodes_read_u; rewrite pow8_4; unfold max_int32 in *; lia|].
        replace (Z.of_nat (length l) =? null32) with false by (symmetry; apply Z.eqb_neq; unfold null32, max_int32 in *; lia).
        rewrite El. eapply decodes_bind; [apply decodes_remaining|].
        replace (blen (bs ++ rest) <? Z.of_nat (length l)) with false.
        2:{ symmetry. apply Z.ltb_ge. unfold blen. rewrite app_length. nia. }
        eapply decodes_bind; [apply decodes_tick|]. rewrite Nat2Z.id.
        eapply decodes_bind; [apply D; lia|apply decodes_ret].
      + eapply RTb_prim; [reflexivity|cbn [minsize]; rewrite le_length; lia|]. intros rest. cbn [rnorm].
        rewrite decode_eq.
        change (dec_level reg (lrec reg f) (lallow f) (TSlice t)) with
          (dec_slice (match t with TPtr x => 8 + tsize x | TCustom _ => 8 | _ => tsize t end)%N (dec_level reg (lrec reg f) (lallow f) t)).
        unfold dec_slice.
        eapply decodes_bind; [apply decodes_read_u; rewrite pow8_4; unfold null32; lia|].
        rewrite Z.eqb_refl. apply decodes_ret.
    - (* pointer *)
      intros k. destruct v; try discriminate. destruct p as [x|]; [|discriminate].
      change (rwf reg (TPtr t) (VPtr (Some x))) with (ptr_elem_ok t && rwf reg t x) in Hw.
      apply andb_true in Hw. destruct Hw as [He Hx].
      assert (Hs : (vsize x < n)%nat) by (cbn [vsize] in Hn; lia).
      assert (Hdx : (vdepth x <= f)%nat) by (cbn [vdepth] in Hd; exact Hd).
      pose proof (IH t x Hs Hx f Hdx k) as Hr. cbn [encode minsize rnorm].
      rewrite decode_eq in *.
      change (dec_level reg (lrec reg f) (lallow f) (TPtr t)) with (dec_ptr t (dec_level reg (lrec reg f) (lallow f) t)).
      unfold dec_ptr. destruct t; try discriminate;
        (apply RTb_tick; apply (RTb_fmap _ _ _ _ _ _ (fun v => VPtr (Some v))); exact Hr).
    - (* struct *)
      intros k. destruct v; try discriminate.
      change (rwf reg (TStruct fs) (VStruct fs0)) with (rwf_struct reg fs fs0) in Hw.
      change (encode reg (TStruct fs) (VStruct fs0)) with (enc_struct (encode reg) fs fs0).
      change (rnorm reg (TStruct fs) (VStruct fs0)) with (VStruct (rnorm_struct reg fs fs0)).
      rewrite decode_eq.
      change (dec_level reg (lrec reg f) (lallow f) (TStruct fs)) with
        (bind (dec_fields (map (dec_level reg (lrec reg f) (lallow f)) fs)) (fun vs => ret (VStruct vs))).
      rewrite <- decode_eq.
      apply (RTb_fmap _ _ _ _ _ _ VStruct). apply RTb_struct; [|exact Hw].
      intros t x Hin Hwx. apply IH; [|exact Hwx|].
      + rewrite vsize_struct in Hn. pose proof (lsize_in fs0 x Hin). lia.
      + rewrite vdepth_struct in Hd. pose proof (ldepth_in fs0 x Hin). lia.
    - (* hand-written codecs *)
      destruct c.
      + (* Variant *)
        intros k. destruct v; try discriminate. cbn [vdepth] in Hd. destruct f as [|f]; [lia|].
        change (decode reg (S f) (TCustom CVariant)) with (dec_variant (decode reg f)).
        eapply RTb_weaken; [apply (RTb_variant reg (decode reg f) k); [exact Hw|]|apply le_n|lia].
        intros p x Ev Hin Hwx. subst value.
        eapply RTb_weaken; [apply IH; [|exact Hwx|]|apply variant_ty_minsize|apply le_n].
        * pose proof (vsize_leaves p x Hin). cbn [vsize] in Hn. lia.
        * pose proof (vdepth_leaves p x Hin). lia.
      + (* DataValue *)
        intros k. destruct v; try discriminate. cbn [vdepth] in Hd. destruct f as [|f]; [lia|].
        change (decode reg (S f) (TCustom CDataValue)) with (dec_datavalue (decode reg f)).
        eapply RTb_weaken; [apply (RTb_datavalue reg (decode reg f) k); [exact Hw|]|apply le_n|lia].
        intros x Ev Hb Hwx. subst value. rewrite Hb in Hd.
        apply (IH (TCustom CVariant)); [|exact Hwx|lia]. cbn [vsize] in Hn. lia.
      + (* DiagnosticInfo *)
        intros k. destruct v; try discriminate. cbn [vdepth] in Hd. destruct f as [|f]; [lia|].
        change (decode reg (S f) (TCustom CDiagInfo)) with (dec_diag (decode reg f)).
        eapply RTb_weaken; [apply (RTb_diag reg (decode reg f) k); [exact Hw|]|apply le_n|lia].
        intros x Ev Hb Hwx. subst inner. rewrite Hb in Hd.
        apply (IH (TCustom CDiagInfo)); [|exact Hwx|lia]. cbn [vsize] in Hn. lia.
      + match goal with |- RTd _ ?t _ => apply (generic_RTd f t v eq_refl Hw) end.
      + (* NodeID *)
        intros k. rewrite decode_eq. change (dec_level reg (lrec reg f) (lallow f) (TCustom CNodeID)) with dec_nodeid.
        destruct v; try discriminate. apply RTb_nodeid. exact Hw.
      + (* ExpandedNodeID *)
        intros k. rewrite decode_eq. change (dec_level reg (lrec reg f) (lallow f) (TCustom CExpNodeID)) with dec_expnodeid.
        destruct v; try discriminate. apply RTb_expnodeid. exact Hw.
      + (* ExtensionObject *)
        intros k. destruct v; try discriminate.
        * destruct p; [discriminate|]. cbn [vdepth] in Hd. destruct f as [|f]; [lia|].
          change (decode reg (S f) (TCustom CExtObj)) with (dec_extobj reg (decode reg f)).
          eapply RTb_weaken; [apply (RTb_extobj_nil reg (decode reg f) k)|apply le_n|lia].
        * destruct tid as [tv|]; [|discriminate]. cbn [vdepth] in Hd. destruct f as [|f]; [lia|].
          change (decode reg (S f) (TCustom CExtObj)) with (dec_extobj reg (decode reg f)).
          eapply RTb_weaken; [apply (RTb_extobj reg (decode reg f) k); [exact Hw|]|apply le_n|lia].
          intros bt bv Eb E0 Ebt Hwb. subst body. rewrite E0 in Hd.
          eapply RTb_weaken; [apply IH; [|exact Hwb|]|lia|apply le_n]; cbn [vsize] in Hn; lia.
      + match goal with |- RTd _ ?t _ => apply (generic_RTd f t v eq_refl Hw) end.
  Qed.

  Theorem roundtrip_all : forall t v f, rwf reg t v = true -> (vdepth v <= f)%nat -> RTd f t v.
  Proof. intros t v f Hw Hd. apply (roundtrip_depth (S (vsize v)) t v (le_n _) Hw f Hd). Qed.
End All.
