(* Engine E7, C21: no client operation panics, for every response shape, provided each response-dependent site
   carries a guard that is sufficient for the way the site is used.  The provisos are decided by computation on the
   generated table in Props/C21.v. *)
From Coq Require Import List String Bool Arith Lia.
From Opcua Require Import Model.ClientGuards Model.ClientOps.
Import ListNotations.
Open Scope string_scope.
Open Scope list_scope.
Open Scope nat_scope.

(* What a site needs from its guard. *)
Inductive need :=
| NeedNonEmpty                 (* X[0] *)
| NeedCover (rhs : string)     (* X[0..n-1] where n is denoted by the text rhs *)
| NeedCommaOk
| NeedReset.                   (* handleAcks: res[i] for i over the (possibly reset) pending list *)

Definition sufficient (n : need) (g : guard) : bool :=
  match n, g with
  | NeedNonEmpty, GLenEq0Ret => true
  | NeedNonEmpty, GLenNeConstRet (S _) => true
  | NeedNonEmpty, GLenLtConstRet (S _) => true
  | NeedCover r, GLenNeRet r' => String.eqb r r'
  | NeedCover r, GLenLtRet r' => String.eqb r r'
  | NeedCommaOk, GCommaOk => true
  | NeedReset, GResetOnMismatch => true
  | _, _ => false
  end.

Lemma index0_safe g len rhs : sufficient NeedNonEmpty g = true -> index_site g len 0 rhs <> Boom.
Proof.
  unfold index_site. intros Hs.
  destruct g as [| |r|[|n]| |r|r|[|n]| | |]; cbn in Hs; try discriminate; cbn [guard_leaves].
  - destruct (negb (len =? S n)) eqn:E; [discriminate|]. apply negb_false_iff, Nat.eqb_eq in E. subst.
    cbn. discriminate.
  - destruct (len =? 0) eqn:E; [discriminate|]. apply Nat.eqb_neq in E.
    destruct (0 <? len) eqn:E2; [discriminate|]. apply Nat.ltb_ge in E2. lia.
  - destruct (len <? S n) eqn:E; [discriminate|]. apply Nat.ltb_ge in E.
    destruct (0 <? len) eqn:E2; [discriminate|]. apply Nat.ltb_ge in E2. lia.
Qed.

(* a cover guard compared with the very number of indices used *)
Lemma range_safe g r len n : sufficient (NeedCover r) g = true -> range_site g len n n <> Boom.
Proof.
  unfold range_site. intros Hs.
  destruct g as [| |r'|k| |r'|r'|k| | |]; cbn in Hs; try discriminate; cbn [guard_leaves].
  - destruct (negb (len =? n)) eqn:E; [discriminate|]. apply negb_false_iff, Nat.eqb_eq in E. subst.
    rewrite Nat.leb_refl. discriminate.
  - destruct (len <? n) eqn:E; [discriminate|]. apply Nat.ltb_ge in E.
    destruct (n <=? len) eqn:E2; [discriminate|]. apply Nat.leb_gt in E2. lia.
Qed.

Lemma index_cover_safe g r len i n : sufficient (NeedCover r) g = true -> i < n -> index_site g len i n <> Boom.
Proof.
  unfold index_site. intros Hs Hi.
  destruct g as [| |r'|k| |r'|r'|k| | |]; cbn in Hs; try discriminate; cbn [guard_leaves].
  - destruct (negb (len =? n)) eqn:E; [discriminate|]. apply negb_false_iff, Nat.eqb_eq in E. subst.
    destruct (i <? n) eqn:E2; [discriminate|]. apply Nat.ltb_ge in E2. lia.
  - destruct (len <? n) eqn:E; [discriminate|]. apply Nat.ltb_ge in E.
    destruct (i <? len) eqn:E2; [discriminate|]. apply Nat.ltb_ge in E2. lia.
Qed.

Lemma assert_safe g b : sufficient NeedCommaOk g = true -> assert_site g b <> Boom.
Proof.
  unfold assert_site. destruct g; cbn; try discriminate. intros _. destruct b; discriminate.
Qed.

Lemma seq_step_safe s k : s <> Boom -> k <> Panic -> seq_step s k <> Panic.
Proof. destruct s; cbn; intros; try assumption; try discriminate. congruence. Qed.

Lemma with_handler_safe k body : body <> Panic -> with_handler k body <> Panic.
Proof. destruct k, body; cbn; intros; congruence. Qed.

(* --- per operation ---------------------------------------------------------------------------------------- *)

Lemma helper_tail_safe ga h v : sufficient NeedCommaOk ga = true -> helper_tail ga h v <> Panic.
Proof.
  intros Ha. destruct h; cbn [helper_tail variant_int]; try discriminate;
    apply seq_step_safe; try discriminate; apply assert_safe; exact Ha.
Qed.

Lemma node_helper_safe g0 ga h k nres d :
  sufficient NeedNonEmpty g0 = true -> sufficient NeedCommaOk ga = true -> node_helper g0 ga h k nres d <> Panic.
Proof.
  intros H0 Ha. unfold node_helper, attribute. destruct (send_ok k); [|discriminate].
  apply seq_step_safe; [apply index0_safe; exact H0|].
  destruct (dv_good d); [apply helper_tail_safe; exact Ha | discriminate].
Qed.

Lemma browse_next_safe g : sufficient NeedNonEmpty g = true ->
  forall nexts n cp, browse_next g n cp nexts <> Panic.
Proof.
  intros Hg. induction nexts as [|[[k n'] cp'] rest IH]; intros n cp; cbn [browse_next];
    (apply seq_step_safe; [apply index0_safe; exact Hg|]).
  - destruct cp; discriminate.
  - destruct cp; [|discriminate]. destruct (send_ok k); [apply IH | discriminate].
Qed.

Lemma references_safe g first nexts : sufficient NeedNonEmpty g = true -> references g first nexts <> Panic.
Proof.
  intros Hg. destruct first as [[k n] cp]. unfold references. destruct (send_ok k); [|discriminate].
  apply browse_next_safe; exact Hg.
Qed.

Lemma call_safe g k n : sufficient NeedNonEmpty g = true -> call g k n <> Panic.
Proof.
  intros Hg. unfold call. destruct (send_ok k); [|discriminate].
  apply seq_step_safe; [apply index0_safe; exact Hg | discriminate].
Qed.

Lemma translate_safe gr gt k nres st nt :
  sufficient NeedNonEmpty gr = true -> sufficient NeedNonEmpty gt = true -> translate gr gt k nres st nt <> Panic.
Proof.
  intros Hr Ht. unfold translate. apply with_handler_safe.
  apply seq_step_safe; [apply index0_safe; exact Hr|].
  destruct st; [|discriminate]. apply seq_step_safe; [apply index0_safe; exact Ht | discriminate].
Qed.

Lemma monitor_items_safe g r k ni nr : sufficient (NeedCover r) g = true -> monitor_items g k ni nr <> Panic.
Proof.
  intros Hg. unfold monitor_items. destruct (send_ok k); [|discriminate].
  apply seq_step_safe; [eapply range_safe; exact Hg | discriminate].
Qed.

Lemma modify_loop_safe g r nmod nres : sufficient (NeedCover r) g = true ->
  forall oks i, i + List.length oks <= nres -> modify_loop g nmod nres i oks <> Panic.
Proof.
  intros Hg. induction oks as [|ok rest IH]; intros i Hi; cbn [modify_loop]; [discriminate|].
  cbn [List.length] in Hi. destruct ok.
  - apply seq_step_safe; [eapply index_cover_safe; [exact Hg | lia] | apply IH; lia].
  - apply IH; lia.
Qed.

Lemma modify_items_safe g r k nmod oks : sufficient (NeedCover r) g = true -> modify_items g k nmod oks <> Panic.
Proof.
  intros Hg. unfold modify_items. destruct (send_ok k); [|discriminate].
  destruct (guard_leaves g nmod (List.length oks)); [discriminate|].
  eapply modify_loop_safe; [exact Hg | lia].
Qed.

Lemma cancel_safe g k n st : sufficient NeedNonEmpty g = true -> cancel g k n st <> Panic.
Proof.
  intros Hg. unfold cancel. destruct (send_ok k); [|discriminate].
  apply seq_step_safe; [apply index0_safe; exact Hg | destruct st; discriminate].
Qed.

Lemma simple_safe k : simple k <> Panic.
Proof. unfold simple. destruct (send_ok k); discriminate. Qed.

Lemma subscribe_safe k z : subscribe k z <> Panic.
Proof. unfold subscribe. destruct (send_ok k); [destruct z|]; discriminate. Qed.

Lemma add_monitor_items_safe gm gt r1 r2 k ni oks :
  sufficient (NeedCover r1) gm = true -> sufficient (NeedCover r2) gt = true ->
  add_monitor_items gm gt k ni oks <> Panic.
Proof.
  intros Hm Ht. unfold add_monitor_items.
  pose proof (monitor_items_safe gm r1 k ni (List.length oks) Hm) as H.
  destruct (monitor_items gm k ni (List.length oks)); [|discriminate|congruence].
  apply seq_step_safe; [eapply range_safe; exact Ht|]. destruct (forallb _ oks); discriminate.
Qed.

Lemma handle_acks_safe g pending nres retry : sufficient NeedReset g = true -> fst (handle_acks g pending nres retry) <> Boom.
Proof.
  destruct g; cbn; try discriminate. intros _. unfold range_site. cbn [guard_leaves].
  destruct (pending =? nres) eqn:E.
  - apply Nat.eqb_eq in E. subst. rewrite Nat.leb_refl. discriminate.
  - cbn. discriminate.
Qed.

Lemma publish_one_safe g pending r : sufficient NeedReset g = true -> publish_one g pending r <> PubPanic.
Proof.
  intros Hg. unfold publish_one. destruct (p_kind r); try discriminate.
  pose proof (handle_acks_safe g pending (p_nacks r) (p_retry r) Hg) as H.
  destruct (handle_acks g pending (p_nacks r) (p_retry r)) as [s pend]. cbn in H.
  destruct s; try congruence; destruct (p_known r); discriminate.
Qed.

Lemma publish_loop_safe g : sufficient NeedReset g = true ->
  forall rs pending acc, publish_loop g pending rs acc <> None.
Proof.
  intros Hg. induction rs as [|r rest IH]; intros pending acc; cbn [publish_loop]; [discriminate|].
  pose proof (publish_one_safe g pending r Hg) as H.
  destruct (publish_one g pending r); [apply IH | discriminate | congruence].
Qed.

Lemma transfer_step_safe g r t nsubs inv : sufficient (NeedCover r) g = true -> transfer_step g t nsubs inv <> None.
Proof.
  intros Hg. unfold transfer_step. destruct t; try discriminate.
  pose proof (range_safe g r nsubs (List.length inv) Hg) as H.
  destruct (range_site g nsubs (List.length inv) (List.length inv)); try discriminate. congruence.
Qed.

Lemma recreate_items_safe g r k ni oks : sufficient (NeedCover r) g = true -> recreate_items g k ni oks <> Panic.
Proof.
  intros Hg. unfold recreate_items. destruct (send_ok k); [|discriminate].
  pose proof (range_safe g r (List.length oks) ni Hg) as H.
  destruct (range_site g (List.length oks) ni ni); try congruence; destruct (forallb _ oks); discriminate.
Qed.

Lemma reconnect_safe gs gi r1 r2 t nsubs inv k ni oks :
  sufficient (NeedCover r1) gs = true -> sufficient (NeedCover r2) gi = true ->
  reconnect gs gi t nsubs inv k ni oks <> Panic.
Proof.
  intros Hs Hi. unfold reconnect.
  pose proof (transfer_step_safe gs r1 t nsubs inv Hs) as H.
  destruct (transfer_step gs t nsubs inv) as [[|n]|]; try congruence; try discriminate.
  pose proof (recreate_items_safe gi r2 k ni oks Hi) as H2.
  destruct (recreate_items gi k ni oks); congruence || discriminate.
Qed.

Lemma connect_shape_safe g0 ga kc kr nres d :
  sufficient NeedNonEmpty g0 = true -> sufficient NeedCommaOk ga = true -> connect_shape g0 ga kc kr nres d <> Panic.
Proof.
  intros H0 Ha. unfold connect_shape. destruct (send_ok kc); [|discriminate]. apply node_helper_safe; assumption.
Qed.

(* --- the converse: an unguarded site does panic (the models are not vacuously safe) ------------------------------ *)
Lemma monitor_items_unguarded_panics : monitor_items GNone KExpected 2 1 = Panic.
Proof. reflexivity. Qed.
Lemma cancel_unguarded_panics : cancel GNone KExpected 0 true = Panic.
Proof. reflexivity. Qed.
Lemma browse_name_unguarded_panics :
  node_helper GLenEq0Ret GNone HBrowseName KExpected 1 {| dv_value := VStrArr; dv_good := true |} = Panic.
Proof. reflexivity. Qed.
Lemma transfer_unguarded_panics : transfer_step GNone TOk 1 [false; false] = None.
Proof. reflexivity. Qed.

(* --- every site of the generated table is accounted for --------------------------------------------------------- *)

(* Role of a site: [Internal why] = its operands do not depend on the response (why it cannot fail is stated);
   [Resp n] = it consumes response data and needs a guard sufficient for n; it is modelled in Model/ClientOps.v. *)
Inductive role := Internal (why : string) | Resp (n : need).

Open Scope string_scope.
Definition roles : list (string * string * role) := [
  ("SelectEndpoint", "endpoints[0]", Resp NeedNonEmpty);
  ("bySecurityLevel.Swap", "a[i]", Internal "sort.Interface contract: 0 <= i,j < Len()");
  ("bySecurityLevel.Swap", "a[j]", Internal "sort.Interface contract");
  ("bySecurityLevel.Less", "a[i]", Internal "sort.Interface contract");
  ("bySecurityLevel.Less", "a[j]", Internal "sort.Interface contract");
  ("Client.monitor", "res.Results[i]", Internal "i ranges over res.Results itself");
  ("Client.monitor", "subIDs[i]", Resp (NeedCover "len(res.Results)"));
  ("Client.State", "c.atomicState.Load().(ConnState)", Internal "only ConnState values are stored (NewClient, setState)");
  ("Client.Namespaces", "c.atomicNamespaces.Load().([]string)", Internal "only []string values are stored (NewClient, setNamespaces)");
  ("Client.publishTimeout", "c.atomicPublishTimeout.Load().(time.Duration)", Internal "only time.Duration values are stored");
  ("Client.SecureChannel", "c.atomicSechan.Load().(*uasc.SecureChannel)", Internal "comma-ok");
  ("Client.Session", "c.atomicSession.Load().(*Session)", Internal "comma-ok");
  ("cloneReadRequest", "rvs[i]", Internal "rvs is made with len(req.NodesToRead), i ranges over req.NodesToRead");
  ("cloneBrowseRequest", "descs[i]", Internal "descs is made with len(req.NodesToBrowse), i ranges over it");
  ("Client.Read", "dv.Value.Value()", Internal "guarded by dv.Value == nil; DataValue.Decode always allocates Value");
  ("Client.Read", "val.(*ua.ExtensionObject)", Resp NeedCommaOk);
  ("Client.Call", "res.Results[0]", Resp NeedNonEmpty);
  ("Client.NamespaceArray", "v.Value().([]string)", Resp NeedCommaOk);
  ("Client.NamespaceArray", "v.Value()", Internal "DataValue.Decode always allocates Value: v is not nil when err == nil");
  ("Client.NamespaceArray", "v.Type()", Internal "same");
  ("Client.handleAcks_NeedsSubMuxLock", "res[i]", Resp NeedReset);
  ("Node.NodeClass", "v.Int()", Internal "DataValue.Decode always allocates Value; Variant.Int checks the array flag");
  ("Node.BrowseName", "v.Value().(*ua.QualifiedName)", Resp NeedCommaOk);
  ("Node.BrowseName", "v.Value()", Internal "v not nil (DataValue.Decode)");
  ("Node.Description", "v.Value().(*ua.LocalizedText)", Resp NeedCommaOk);
  ("Node.Description", "v.Value()", Internal "v not nil (DataValue.Decode)");
  ("Node.DisplayName", "v.Value().(*ua.LocalizedText)", Resp NeedCommaOk);
  ("Node.DisplayName", "v.Value()", Internal "v not nil (DataValue.Decode)");
  ("Node.AccessLevel", "v.Value().(uint8)", Resp NeedCommaOk);
  ("Node.AccessLevel", "v.Value()", Internal "v not nil (DataValue.Decode)");
  ("Node.UserAccessLevel", "v.Value().(uint8)", Resp NeedCommaOk);
  ("Node.UserAccessLevel", "v.Value()", Internal "v not nil (DataValue.Decode)");
  ("Node.Attribute", "res.Results[0]", Resp NeedNonEmpty);
  ("Node.browseNext", "results[0]", Resp NeedNonEmpty);
  ("Node.TranslateBrowsePathsToNodeIDs", "req.BrowsePaths[0]", Internal "req is built in the function with one browse path");
  ("Node.TranslateBrowsePathsToNodeIDs", "i.(*ua.TranslateBrowsePathsToNodeIDsResponse)", Resp NeedCommaOk);
  ("Node.TranslateBrowsePathsToNodeIDs", "resp.Results[0]", Resp NeedNonEmpty);
  ("Node.TranslateBrowsePathsToNodeIDs", "resp.Results[0].Targets[0]", Resp NeedNonEmpty);
  ("Subscription.delete", "res.Results[0]", Resp NeedNonEmpty);
  ("Subscription.Monitor", "res.Results[i]", Resp (NeedCover "len(items)"));
  ("Subscription.ModifyMonitoredItems", "req.ItemsToModify[i]", Resp (NeedCover "len(res.Results)"));
  ("Subscription.Stats", "v.Value().([]*ua.ExtensionObject)", Resp NeedCommaOk);
  ("Subscription.Stats", "v.Value()", Internal "guarded by v == nil");
  ("Subscription.Stats", "eo.Value.(*ua.SubscriptionDiagnosticsDataType)", Resp NeedCommaOk);
  ("Subscription.recreate_monitoredItems", "res.Results[i]", Resp (NeedCover "len(items)"));
  ("Subscription.AddNodeIDs", "requests[i]", Internal "requests is made with len(nodes), i ranges over nodes");
  ("Subscription.AddMonitorItems", "nodes[i]", Internal "len(nodes) = len(toAdd) (one append per node) and toAdd[i] is guarded");
  ("Subscription.AddMonitorItems", "toAdd[i]", Resp (NeedCover "len(resp.Results)"));
  ("parseNodeSlice", "nodeIDs[i]", Internal "nodeIDs is made with len(nodes), i ranges over nodes");
  ("SecureChannel.NewSessionSignature", "remoteX509Cert.PublicKey.(*rsa.PublicKey)", Resp NeedCommaOk);
  ("SecureChannel.VerifySessionSignature", "remoteX509Cert.PublicKey.(*rsa.PublicKey)", Resp NeedCommaOk);
  ("SecureChannel.EncryptUserPassword", "remoteX509Cert.PublicKey.(*rsa.PublicKey)", Resp NeedCommaOk);
  ("SecureChannel.NewUserTokenSignature", "remoteX509Cert.PublicKey.(*rsa.PublicKey)", Resp NeedCommaOk)
].

Fixpoint role_of (rs : list (string * string * role)) (f e : string) : option role :=
  match rs with
  | [] => None
  | (f', e', r) :: rest => if String.eqb f f' && String.eqb e e' then Some r else role_of rest f e
  end.

(* a site of the generated table is fine if it is known and, when it consumes response data, sufficiently guarded *)
Definition site_ok (s : site) : bool :=
  match role_of roles (s_func s) (s_expr s) with
  | None => false
  | Some (Internal _) => true
  | Some (Resp n) => sufficient n (s_guard s)
  end.

(* every response-consuming site of the role table still exists in the code *)
Definition role_present (tbl : list site) (x : string * string * role) : bool :=
  let '(f, e, r) := x in
  match r with
  | Internal _ => true
  | Resp _ => existsb (fun s => String.eqb (s_func s) f && String.eqb (s_expr s) e) tbl
  end.

Definition table_ok (tbl : list site) : bool := forallb site_ok tbl && forallb (role_present tbl) roles.
