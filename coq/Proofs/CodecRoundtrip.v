(* E1 codec, C01: encode then decode gives back the (normalised) value and consumes exactly the encoding, for the
   reflection-driven part of the universe and the GUID / LocalizedText codecs. *)
From Coq Require Import NArith ZArith List Bool Lia.
From Coq.Strings Require Import Byte.
From Opcua Require Import Model.CodecTypes Model.Codec Model.CodecWf Proofs.CodecBase.
Import ListNotations.
Open Scope Z_scope.
Ltac Zify.zify_post_hook ::= Z.to_euclidean_division_equations.

Lemma pow8_1 : pow8 1 = 256. Proof. reflexivity. Qed.
Lemma pow8_2 : pow8 2 = 65536. Proof. reflexivity. Qed.
Lemma pow8_4 : pow8 4 = 4294967296. Proof. reflexivity. Qed.
Lemma pow8_8 : pow8 8 = 18446744073709551616. Proof. reflexivity. Qed.

Lemma andb_true : forall a b, a && b = true -> a = true /\ b = true.
Proof. intros a b H. apply andb_true_iff in H. exact H. Qed.

Ltac bool_hyps :=
  repeat match goal with
         | H : _ && _ = true |- _ => apply andb_true in H; destruct H
         | H : (_ <=? _) = true |- _ => apply Z.leb_le in H
         | H : (_ <? _) = true |- _ => apply Z.ltb_lt in H
         end.

(* ------------------------------------------------------------------ primitives *)
Lemma rt_string : forall s rest, str_ok s = true ->
  exists bs, enc_string s = EOk bs /\ (4 <= length bs)%nat /\ decodes read_string (bs ++ rest) s rest.
Proof.
  intros s rest Hs. unfold str_ok in Hs. apply Z.leb_le in Hs. unfold enc_string.
  destruct s as [|b s'].
  - eexists. split; [reflexivity|]. split; [rewrite le_length; lia|].
    unfold read_string, read_bytes. eapply decodes_bind.
    + eapply decodes_bind; [apply decodes_read_u; rewrite pow8_4; unfold null32; lia|].
      cbn [Z.eqb orb null32]. replace ((null32 =? 0) || (null32 =? null32)) with true by reflexivity. apply decodes_ret.
    + apply decodes_ret.
  - set (s := b :: s') in *. destruct (max_int32 <? blen s) eqn:E; [apply Z.ltb_lt in E; lia|].
    eexists. split; [reflexivity|]. split; [rewrite app_length, le_length; lia|].
    assert (Hl : 1 <= blen s) by (unfold blen, s; cbn [length]; lia).
    unfold read_string, read_bytes. rewrite <- app_assoc. eapply decodes_bind.
    + eapply decodes_bind; [apply decodes_read_u; rewrite pow8_4; unfold max_int32 in *; lia|].
      replace ((blen s =? 0) || (blen s =? null32)) with false.
      2:{ symmetry. apply orb_false_iff. split; apply Z.eqb_neq; unfold null32, max_int32 in *; lia. }
      eapply decodes_bind; [apply decodes_read_n|apply decodes_ret].
    + cbn beta iota. eapply decodes_bind; [apply decodes_tick|apply decodes_ret].
Qed.

Lemma rt_time : forall t rest, time_ok t = true ->
  exists bs, enc_time t = EOk bs /\ length bs = 8%nat /\ decodes read_time (bs ++ rest) (norm_time t) rest.
Proof.
  intros t rest Ht. unfold enc_time. destruct t as [ns|].
  - unfold time_ok in Ht. bool_hyps. eexists. split; [reflexivity|]. split; [apply le_length|].
    unfold read_time. eapply decodes_bind.
    + apply decodes_read_n'. unfold blen. rewrite le_length. reflexivity.
    + cbv zeta. rewrite unle_le. cbn [norm_time]. cbv zeta. set (q := ns / 100) in *.
      assert (Hs : to_signed 8 ((q + time_offset) mod pow8 8) = q + time_offset).
      { apply to_signed_mod; [lia|]. rewrite pow8_8. lia. }
      assert (Hz : ((q + time_offset) mod pow8 8 =? 0) = (q + time_offset =? 0)).
      { destruct (q + time_offset =? 0) eqn:E.
        - apply Z.eqb_eq in E. rewrite E. reflexivity.
        - apply Z.eqb_neq in E. apply Z.eqb_neq. intros Hm. rewrite Hm in Hs. cbn in Hs. lia. }
      rewrite Hz. destruct (q + time_offset =? 0); [cbn [orb]; apply decodes_ret|]. cbn [orb]. rewrite Hs.
      replace ((q + time_offset - time_offset) * 100) with (q * 100) by lia.
      destruct (q * 100 =? zero_time_ns); apply decodes_ret.
  - eexists. split; [reflexivity|]. split; [apply le_length|].
    unfold read_time. eapply decodes_bind.
    + apply decodes_read_n'. unfold blen. rewrite le_length. reflexivity.
    + cbv zeta. rewrite unle_le. cbn. apply decodes_ret.
Qed.

Lemma is_nan_qnan : forall w, (w = 4 \/ w = 8)%nat -> is_nan w (qnan w) = true.
Proof. intros w [->| ->]; reflexivity. Qed.
Lemma canon_idem : forall w z, (w = 4 \/ w = 8)%nat -> canon_float w (canon_float w z) = canon_float w z.
Proof.
  intros w z Hw. unfold canon_float. destruct (is_nan w z) eqn:E; [rewrite is_nan_qnan by exact Hw; reflexivity|].
  rewrite E. reflexivity.
Qed.
Lemma canon_range : forall w z, (w = 4 \/ w = 8)%nat -> 0 <= z < pow8 w -> 0 <= canon_float w z < pow8 w.
Proof.
  intros w z Hw Hz. unfold canon_float. destruct (is_nan w z); [|exact Hz].
  destruct Hw as [->| ->]; [rewrite pow8_4|rewrite pow8_8]; unfold qnan, f32qnan, f64qnan; lia.
Qed.

(* ------------------------------------------------------------------ lists *)
Definition enc_list (f : val -> eres) : list val -> eres :=
  fix go (l : list val) : eres := match l with [] => EOk [] | x :: r => eapp (f x) (go r) end.

Definition rt_at (d : dec val) (f : val -> eres) (nm : val -> val) (m : nat) (x : val) : Prop :=
  exists bs, f x = EOk bs /\ (m <= length bs)%nat /\ forall rest, decodes d (bs ++ rest) (nm x) rest.

Lemma rt_list : forall d f nm m l, Forall (rt_at d f nm m) l ->
  exists bs, enc_list f l = EOk bs /\ (m * length l <= length bs)%nat /\
             forall rest, decodes (dec_n d (length l)) (bs ++ rest) (map nm l) rest.
Proof.
  intros d f nm m l H. induction H as [|x r [bx [Ex [Lx Dx]]] _ [br [Er [Lr Dr]]]].
  - exists []. cbn. split; [reflexivity|]. split; [lia|]. intros rest. apply decodes_ret.
  - exists (bx ++ br). cbn [enc_list]. fold (enc_list f). rewrite Ex, Er. cbn [eapp].
    split; [reflexivity|]. split; [rewrite app_length; cbn [length]; lia|].
    intros rest. cbn [length dec_n map]. rewrite <- app_assoc.
    eapply decodes_bind; [apply Dx|]. eapply decodes_bind; [apply Dr|]. apply decodes_ret.
Qed.

Definition enc_struct (enc : ty -> val -> eres) : list ty -> list val -> eres :=
  fix go (fs : list ty) (vs : list val) {struct vs} : eres :=
    match fs, vs with
    | [], [] => EOk []
    | f :: fs', x :: vs' => eapp (enc f x) (go fs' vs')
    | _, _ => EIllTyped
    end.
Definition gwf_struct : list ty -> list val -> bool :=
  fix go (fs : list ty) (vs : list val) {struct vs} : bool :=
    match fs, vs with
    | [], [] => true
    | f :: fs', x :: vs' => gwf f x && go fs' vs'
    | _, _ => false
    end.
Definition norm_struct : list ty -> list val -> list val :=
  fix go (fs : list ty) (vs : list val) {struct vs} : list val :=
    match fs, vs with
    | f :: fs', x :: vs' => norm f x :: go fs' vs'
    | _, _ => []
    end.

Lemma gwf_list_forall : forall e l,
  (fix go (l : list val) : bool := match l with [] => true | x :: r => gwf e x && go r end) l = forallb (gwf e) l.
Proof. intros e l. induction l as [|x r IH]; [reflexivity|]. cbn [forallb]. rewrite <- IH. reflexivity. Qed.
Lemma norm_list_map : forall e l,
  (fix go (l : list val) : list val := match l with [] => [] | x :: r => norm e x :: go r end) l = map (norm e) l.
Proof. intros e l. induction l as [|x r IH]; [reflexivity|]. cbn [map]. rewrite <- IH. reflexivity. Qed.

Section RT.
  Variable reg : list (Z * Z * ty).
  Variable f : nat.

  Definition RT (t : ty) (v : val) : Prop :=
    exists bs, encode reg t v = EOk bs /\ (minsize t <= length bs)%nat /\
               forall rest, decodes (decode reg (S f) t) (bs ++ rest) (norm t v) rest.

  Lemma rt_struct : forall fs, Forall (fun t => forall v, gwf t v = true -> RT t v) fs ->
    forall vs, gwf_struct fs vs = true ->
    exists bs, enc_struct (encode reg) fs vs = EOk bs /\ (minsize (TStruct fs) <= length bs)%nat /\
               forall rest, decodes (dec_fields (map (decode reg (S f)) fs)) (bs ++ rest) (norm_struct fs vs) rest.
  Proof.
    intros fs H. induction H as [|t fs' Ht _ IH]; intros vs Hw.
    - destruct vs; [|discriminate]. exists []. cbn. split; [reflexivity|]. split; [lia|]. intros rest. apply decodes_ret.
    - destruct vs as [|x vs']; [discriminate|]. cbn [gwf_struct] in Hw. fold gwf_struct in Hw.
      apply andb_true in Hw. destruct Hw as [Hx Hr].
      destruct (Ht x Hx) as [bx [Ex [Lx Dx]]]. destruct (IH vs' Hr) as [br [Er [Lr Dr]]].
      exists (bx ++ br). cbn [enc_struct]. fold (enc_struct (encode reg)). rewrite Ex, Er. cbn [eapp].
      split; [reflexivity|]. split.
      + cbn [minsize fold_right] in *. rewrite app_length. lia.
      + intros rest. cbn [map dec_fields norm_struct]. fold norm_struct. rewrite <- app_assoc.
        eapply decodes_bind; [apply Dx|]. eapply decodes_bind; [apply Dr|]. apply decodes_ret.
  Qed.

  Lemma le1_bool : forall b : bool, [if b then x01 else x00] = le 1 (if b then 1 else 0).
  Proof. intros []; reflexivity. Qed.

  Theorem roundtrip_generic : forall t, generic_ty t = true -> forall v, gwf t v = true -> RT t v.
  Proof.
    induction t using ty_ind'; intros Hg v Hw.
    - (* bool *)
      destruct v; try discriminate. unfold RT. cbn [encode minsize norm]. rewrite le1_bool.
      eexists. split; [reflexivity|]. split; [rewrite le_length; lia|]. intros rest.
      cbn [decode]. eapply decodes_bind; [apply decodes_read_u; rewrite pow8_1; destruct b; lia|].
      destruct b; apply decodes_ret.
    - (* int *)
      destruct v; try discriminate. cbn [gwf] in Hw. apply andb_true in Hw. destruct Hw as [Hwd Hz].
      assert (Hw1 : (1 <= w)%nat).
      { unfold width_ok in Hwd. destruct w as [|w]; [discriminate|lia]. }
      unfold RT. cbn [encode minsize norm]. eexists. split; [reflexivity|]. split; [rewrite le_length; lia|].
      intros rest. cbn [decode]. unfold int_ok in Hz. destruct s; bool_hyps.
      + eapply decodes_bind; [apply decodes_read_i; [exact Hw1|lia]|]. apply decodes_ret.
      + eapply decodes_bind; [apply decodes_read_u; lia|]. apply decodes_ret.
    - (* float *)
      destruct v; try discriminate. cbn [gwf] in Hw. unfold float_ok in Hw. bool_hyps.
      assert (Hw4 : (w = 4 \/ w = 8)%nat).
      { apply orb_true_iff in H. destruct H as [H|H]; apply Nat.eqb_eq in H; auto. }
      unfold RT. cbn [encode minsize norm]. eexists. split; [reflexivity|]. split; [rewrite le_length; lia|].
      intros rest. cbn [decode].
      eapply decodes_bind; [apply decodes_read_u; apply canon_range; [exact Hw4|lia]|].
      rewrite canon_idem by exact Hw4. apply decodes_ret.
    - (* string *)
      destruct v; try discriminate. cbn [gwf] in Hw. unfold RT. cbn [encode minsize norm].
      destruct (rt_string s [] Hw) as [bs [E [L _]]]. exists bs. split; [exact E|]. split; [exact L|].
      intros rest. destruct (rt_string s rest Hw) as [bs' [E' [_ D]]]. rewrite E in E'. inversion E'; subst bs'.
      cbn [decode]. eapply decodes_bind; [exact D|apply decodes_ret].
    - (* time *)
      destruct v; try discriminate. cbn [gwf] in Hw. unfold RT. cbn [encode minsize norm].
      destruct (rt_time t [] Hw) as [bs [E [L _]]]. exists bs. split; [exact E|]. split; [lia|].
      intros rest. destruct (rt_time t rest Hw) as [bs' [E' [_ D]]]. rewrite E in E'. inversion E'; subst bs'.
      cbn [decode]. eapply decodes_bind; [exact D|apply decodes_ret].
    - (* []byte *)
      destruct v; try discriminate. unfold RT. cbn [encode minsize norm decode]. destruct b as [d|].
      + cbn [gwf] in Hw. unfold str_ok in Hw. apply Z.leb_le in Hw. unfold enc_bytestring.
        destruct (max_int32 <? blen d) eqn:E; [apply Z.ltb_lt in E; lia|].
        eexists. split; [reflexivity|]. split; [rewrite app_length, le_length; lia|].
        intros rest. rewrite <- app_assoc. unfold dec_bytes.
        assert (Hd : 0 <= blen d) by (unfold blen; lia).
        eapply decodes_bind; [apply decodes_read_u; rewrite pow8_4; unfold max_int32 in *; lia|].
        replace (blen d =? null32) with false by (symmetry; apply Z.eqb_neq; unfold null32, max_int32 in *; lia).
        rewrite E. eapply decodes_bind; [apply decodes_remaining|].
        replace (blen (d ++ rest) <? blen d) with false.
        2:{ symmetry. apply Z.ltb_ge. unfold blen. rewrite app_length. lia. }
        eapply decodes_bind; [apply decodes_read_n|apply decodes_ret].
      + eexists. split; [reflexivity|]. split; [rewrite le_length; lia|]. intros rest. unfold dec_bytes.
        eapply decodes_bind; [apply decodes_read_u; rewrite pow8_4; unfold null32; lia|].
        rewrite Z.eqb_refl. apply decodes_ret.
    - (* slice *)
      cbn [generic_ty] in Hg. destruct v; try discriminate. destruct l as [l|].
      + cbn [gwf] in Hw. rewrite gwf_list_forall in Hw. bool_hyps. apply Nat.leb_le in H.
        assert (Hall : Forall (rt_at (decode reg (S f) t) (encode reg t) (norm t) (minsize t)) l).
        { apply Forall_forall. intros x Hx. rewrite forallb_forall in H0. destruct (IHt Hg x (H0 x Hx)) as [bs [E [L D]]].
          exists bs. auto. }
        destruct (rt_list _ _ _ _ _ Hall) as [bs [E [L D]]].
        unfold RT. change (encode reg (TSlice t) (VSlice (Some l)))
          with (if max_int32 <? zlen l then EErr else eapp (EOk (le 4 (zlen l))) (enc_list (encode reg t) l)).
        destruct (max_int32 <? zlen l) eqn:El; [apply Z.ltb_lt in El; lia|].
        rewrite E. cbn [eapp]. eexists. split; [reflexivity|]. split; [cbn [minsize]; rewrite app_length, le_length; lia|].
        intros rest. cbn [norm]. rewrite norm_list_map. rewrite <- app_assoc.
        change (decode reg (S f) (TSlice t)) with
          (dec_slice (match t with TPtr x => 8 + tsize x | TCustom _ => 8 | _ => tsize t end)%N (decode reg (S f) t)).
        unfold dec_slice. unfold zlen in *.
        eapply decodes_bind; [apply decodes_read_u; rewrite pow8_4; unfold max_int32 in *; lia|].
        replace (Z.of_nat (length l) =? null32) with false by (symmetry; apply Z.eqb_neq; unfold null32, max_int32 in *; lia).
        rewrite El. eapply decodes_bind; [apply decodes_remaining|].
        replace (blen (bs ++ rest) <? Z.of_nat (length l)) with false.
        2:{ symmetry. apply Z.ltb_ge. unfold blen. rewrite app_length. nia. }
        eapply decodes_bind; [apply decodes_tick|]. rewrite Nat2Z.id.
        eapply decodes_bind; [apply D|apply decodes_ret].
      + unfold RT. cbn [encode minsize norm]. eexists. split; [reflexivity|]. split; [rewrite le_length; lia|].
        intros rest.
        change (decode reg (S f) (TSlice t)) with
          (dec_slice (match t with TPtr x => 8 + tsize x | TCustom _ => 8 | _ => tsize t end)%N (decode reg (S f) t)).
        unfold dec_slice.
        eapply decodes_bind; [apply decodes_read_u; rewrite pow8_4; unfold null32; lia|].
        rewrite Z.eqb_refl. apply decodes_ret.
    - (* pointer *)
      cbn [generic_ty] in Hg. destruct v; try discriminate. destruct p as [x|]; [|discriminate].
      cbn [gwf] in Hw. apply andb_true in Hw. destruct Hw as [He Hx].
      destruct (IHt Hg x Hx) as [bs [E [L D]]]. unfold RT. cbn [encode minsize norm].
      exists bs. split; [exact E|]. split; [exact L|]. intros rest.
      change (decode reg (S f) (TPtr t)) with (dec_ptr t (decode reg (S f) t)).
      unfold dec_ptr. destruct t; try discriminate;
        (eapply decodes_bind; [apply decodes_tick|]; eapply decodes_bind; [apply D|apply decodes_ret]).
    - (* struct *)
      cbn [generic_ty] in Hg. destruct v; try discriminate.
      assert (Hfs : Forall (fun t => forall v, gwf t v = true -> RT t v) fs).
      { apply Forall_forall. intros t Hin. rewrite Forall_forall in H. rewrite forallb_forall in Hg. apply H; auto. }
      change (gwf (TStruct fs) (VStruct fs0)) with (gwf_struct fs fs0) in Hw.
      destruct (rt_struct fs Hfs fs0 Hw) as [bs [E [L D]]].
      unfold RT. change (encode reg (TStruct fs) (VStruct fs0)) with (enc_struct (encode reg) fs fs0).
      exists bs. split; [exact E|]. split; [exact L|]. intros rest.
      change (norm (TStruct fs) (VStruct fs0)) with (VStruct (norm_struct fs fs0)).
      change (decode reg (S f) (TStruct fs)) with
        (bind (dec_fields (map (decode reg (S f)) fs)) (fun vs => ret (VStruct vs))).
      eapply decodes_bind; [apply D|apply decodes_ret].
    - (* hand-written codecs: GUID and LocalizedText *)
      destruct c; try discriminate.
      + (* LocalizedText *)
        destruct v; try discriminate. cbn [gwf] in Hw.
        apply andb_true in Hw; destruct Hw as [Hw Hb1]. apply andb_true in Hw; destruct Hw as [Hw Hb0].
        apply andb_true in Hw; destruct Hw as [Hw Htx]. apply andb_true in Hw; destruct Hw as [Hmk Hlc].
        unfold byte_ok in Hmk. apply andb_true in Hmk; destruct Hmk as [Hm0 Hm1].
        apply Z.leb_le in Hm0. apply Z.ltb_lt in Hm1.
        unfold RT. cbn [encode minsize cminsize norm]. unfold enc_loctext.
        assert (Hm : [byte_of_Z mask] = le 1 mask) by reflexivity. rewrite Hm.
        destruct (rt_string locale [] Hlc) as [bl [El [_ _]]]. destruct (rt_string text [] Htx) as [bt [Et [_ _]]].
        destruct (bit mask 0) eqn:B0; destruct (bit mask 1) eqn:B1; cbn [orb] in Hb0, Hb1;
          rewrite ?El, ?Et; cbn [eapp]; eexists; (split; [reflexivity|]); (split; [rewrite app_length, le_length; lia|]); intros rest;
          cbn [decode dec_custom]; unfold dec_loctext;
          (eapply decodes_bind; [apply decodes_tick|]);
          repeat rewrite <- app_assoc;
          (eapply decodes_bind; [apply decodes_read_u; rewrite pow8_1; lia|]); rewrite B0, B1.
        * destruct (rt_string locale (bt ++ rest) Hlc) as [bl' [El' [_ Dl]]]. rewrite El in El'. inversion El'; subst bl'.
          destruct (rt_string text rest Htx) as [bt' [Et' [_ Dt]]]. rewrite Et in Et'. inversion Et'; subst bt'.
          rewrite ?app_nil_r; cbn [app].
          eapply decodes_bind; [apply Dl|]. eapply decodes_bind; [apply Dt|]. apply decodes_ret.
        * destruct text; [|discriminate].
          destruct (rt_string locale rest Hlc) as [bl' [El' [_ Dl]]]. rewrite El in El'. inversion El'; subst bl'.
          rewrite ?app_nil_r; cbn [app].
          eapply decodes_bind; [apply Dl|]. eapply decodes_bind; [apply decodes_ret|]. apply decodes_ret.
        * destruct locale; [|discriminate].
          destruct (rt_string text rest Htx) as [bt' [Et' [_ Dt]]]. rewrite Et in Et'. inversion Et'; subst bt'.
          rewrite ?app_nil_r; cbn [app].
          eapply decodes_bind; [apply decodes_ret|]. eapply decodes_bind; [apply Dt|]. apply decodes_ret.
        * destruct locale; [|discriminate]. destruct text; [|discriminate]. cbn [app].
          eapply decodes_bind; [apply decodes_ret|]. eapply decodes_bind; [apply decodes_ret|]. apply decodes_ret.
      + (* GUID *)
        destruct v; try discriminate. cbn [gwf] in Hw. unfold int_ok in Hw. bool_hyps. apply Nat.eqb_eq in H0.
        unfold RT. cbn [encode minsize cminsize norm]. unfold enc_guid.
        eexists. split; [reflexivity|]. split; [rewrite !app_length, !le_length; lia|]. intros rest.
        cbn [decode dec_custom]. unfold dec_guid. repeat rewrite <- app_assoc.
        eapply decodes_bind; [apply decodes_tick|].
        eapply decodes_bind; [apply decodes_read_u; lia|].
        eapply decodes_bind; [apply decodes_read_u; lia|].
        eapply decodes_bind; [apply decodes_read_u; lia|].
        eapply decodes_bind; [apply decodes_read_n'; unfold blen; rewrite H0; reflexivity|]. apply decodes_ret.
  Qed.
End RT.
