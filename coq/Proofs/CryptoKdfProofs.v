(* CryptoKdfProofs.v — generateKeys computes slices of RFC 5246's P_hash, for every length (no fuel in the
   statement); the key assignment of a canonical newXSymmetric is the Part 6 table and is direction-separated. *)
From Coq Require Import ZArith Bool Lia.
From Coq Require Import List.
From Coq.Strings Require Import Byte.
From Opcua Require Import Model.ChunkBytes Model.CryptoKdf Proofs.ChunkBytesProofs.
Import ListNotations.
Open Scope Z_scope.

Section PHash.
Variable h : bytes -> bytes.
Variable hl : Z.
Hypothesis Hhl : 0 < hl.
Hypothesis Hlen : forall m, zlen (h m) = hl.
Variable seed : bytes.

Lemma p_hash_S n : p_hash h seed (S n) = p_hash h seed n ++ p_block h seed (S n).
Proof.
  unfold p_hash. rewrite seq_S, flat_map_app. cbn [flat_map]. rewrite app_nil_r. reflexivity.
Qed.

Lemma zlen_p_hash n : zlen (p_hash h seed n) = Z.of_nat n * hl.
Proof.
  induction n as [|n IH]; [reflexivity|].
  rewrite p_hash_S, zlen_app, IH. unfold p_block. rewrite Hlen. lia.
Qed.

Lemma p_hash_prefix j k : exists r, p_hash h seed (j + k) = p_hash h seed j ++ r.
Proof.
  induction k as [|k [r IH]].
  - exists []. rewrite Nat.add_0_r, app_nil_r. reflexivity.
  - exists (r ++ p_block h seed (S (j + k))). rewrite Nat.add_succ_r, p_hash_S, IH, app_assoc. reflexivity.
Qed.

(* a slice that lies inside a prefix does not depend on what follows *)
Lemma slice_prefix (l r : bytes) off len :
  0 <= off -> 0 <= len -> off + len <= zlen l ->
  ztake len (zdrop off (l ++ r)) = ztake len (zdrop off l).
Proof.
  intros Ho Hl Hb. destruct (split_at off l ltac:(lia)) as (a & b & -> & Ha).
  rewrite <- app_assoc. rewrite !zdrop_app_exact by exact Ha.
  rewrite zlen_app in Hb.
  destruct (split_at len b ltac:(lia)) as (c & d & -> & Hc).
  rewrite <- app_assoc. rewrite !ztake_app_exact by exact Hc. reflexivity.
Qed.

Lemma slice_p_hash n1 n2 off len :
  0 <= off -> 0 <= len -> off + len <= Z.of_nat n1 * hl -> off + len <= Z.of_nat n2 * hl ->
  ztake len (zdrop off (p_hash h seed n1)) = ztake len (zdrop off (p_hash h seed n2)).
Proof.
  intros Ho Hl H1 H2.
  destruct (Nat.le_ge_cases n1 n2) as [Hle|Hle].
  - replace n2 with (n1 + (n2 - n1))%nat by lia. destruct (p_hash_prefix n1 (n2 - n1)) as [r ->].
    symmetry. apply slice_prefix; try assumption. rewrite zlen_p_hash. exact H1.
  - replace n1 with (n2 + (n1 - n2))%nat by lia. destruct (p_hash_prefix n2 (n1 - n2)) as [r ->].
    apply slice_prefix; try assumption. rewrite zlen_p_hash. exact H2.
Qed.

(* the loop: after j iterations p = first j blocks and a = A(j+1); it stops with enough blocks *)
Lemma gen_loop_spec total : forall fuel j,
  total <= zlen (p_hash h seed j) + Z.of_nat fuel ->
  exists j', gen_loop fuel h seed total (p_hash h seed j) (A_iter h seed (S j)) = Some (p_hash h seed j')
             /\ total <= zlen (p_hash h seed j').
Proof.
  induction fuel as [|f IH]; intros j Hf.
  - exists j. cbn [gen_loop]. replace (total <=? zlen (p_hash h seed j)) with true by (symmetry; apply Z.leb_le; lia).
    split; [reflexivity | lia].
  - cbn [gen_loop]. destruct (Z.leb_spec total (zlen (p_hash h seed j))) as [Hle|Hgt].
    + exists j. split; [reflexivity | exact Hle].
    + replace (p_hash h seed j ++ h (A_iter h seed (S j) ++ seed)) with (p_hash h seed (S j))
        by (rewrite p_hash_S; reflexivity).
      change (h (A_iter h seed (S j))) with (A_iter h seed (S (S j))).
      apply IH. rewrite !zlen_p_hash in *. lia.
Qed.

Theorem generate_keys_spec sl el bl :
  0 <= sl -> 0 <= el -> 0 <= bl ->
  generate_keys h seed sl el bl =
  Ok (mkDerived (prf h seed sl 0) (prf h seed el sl) (prf h seed bl (sl + el))).
Proof.
  intros Hs He Hb. unfold generate_keys.
  replace ((sl <? 0) || (el <? 0) || (bl <? 0)) with false
    by (symmetry; rewrite !orb_false_iff; repeat split; apply Z.ltb_ge; assumption).
  destruct (gen_loop_spec (sl + el + bl) (S (Z.to_nat (sl + el + bl))) 0) as (j' & Hloop & Hj').
  { change (zlen (p_hash h seed 0)) with 0. lia. }
  change (p_hash h seed 0) with (@nil byte) in Hloop. change (A_iter h seed 1) with (h seed) in Hloop.
  rewrite Hloop. rewrite zlen_p_hash in Hj'.
  assert (Hn : forall x, 0 <= x -> x <= Z.of_nat (Z.to_nat x) * hl) by (intros x Hx; nia).
  assert (E1 : ztake sl (p_hash h seed j') = prf h seed sl 0).
  { unfold prf. replace (ztake sl (p_hash h seed j')) with (ztake sl (zdrop 0 (p_hash h seed j')))
      by (rewrite zdrop_neg by lia; reflexivity).
    apply slice_p_hash; try lia. rewrite Z.add_0_l. apply Hn. lia. }
  assert (E2 : ztake el (zdrop sl (p_hash h seed j')) = prf h seed el sl).
  { unfold prf. apply slice_p_hash; try lia. apply Hn. lia. }
  assert (E3 : ztake bl (zdrop (sl + el) (p_hash h seed j')) = prf h seed bl (sl + el)).
  { unfold prf. apply slice_p_hash; try lia. apply Hn. lia. }
  rewrite E1, E2, E3. reflexivity.
Qed.

Lemma zlen_prf len off : 0 <= len -> 0 <= off -> zlen (prf h seed len off) = len.
Proof.
  intros Hl Ho. unfold prf. rewrite zlen_ztake; [reflexivity|].
  rewrite zlen_zdrop; rewrite zlen_p_hash; nia.
Qed.
End PHash.

(* ---------------------------------------------------------------------------------------------- *)
(* a canonical row gives the Part 6 key table *)
Section Rows.
Variable hm : hash_id -> bytes -> bytes -> bytes.
Variable hlen : hash_id -> Z.
Hypothesis Hpos : forall H, 0 < hlen H.
Hypothesis Hlen : forall H k m, zlen (hm H k m) = hlen H.

Theorem canonical_keys name file H sl el bits ln rn :
  0 <= sl -> 0 <= el ->
  sym_keys_of hm (spec_row name file H sl el bits) ln rn =
  Ok (mkSymKeys
        (prf (hm H rn) ln el sl)             (* own encrypting key : secret = peer nonce, seed = own nonce *)
        (prf (hm H rn) ln 16 (sl + el))      (* own initialisation vector *)
        (prf (hm H ln) rn el sl)             (* peer's encrypting key, used to decrypt *)
        (prf (hm H ln) rn 16 (sl + el))
        (prf (hm H rn) ln sl 0)              (* own signing key *)
        (prf (hm H ln) rn sl 0)).            (* peer's signing key, used to verify *)
Proof.
  intros Hs He. unfold sym_keys_of, derive. cbn [spec_row sk_local sk_remote ks_hash ks_secret ks_seed nonce_of
    sk_siglen sk_enclen sk_blocklen sk_enc_key sk_enc_iv sk_dec_key sk_dec_iv sk_sign_key sk_verify_key].
  rewrite (generate_keys_spec (hm H ln) (hlen H) (Hpos H) (Hlen H ln) rn) by lia.
  rewrite (generate_keys_spec (hm H rn) (hlen H) (Hpos H) (Hlen H rn) ln) by lia.
  reflexivity.
Qed.

(* what one side uses to send is what the other side uses to receive, in both directions *)
Theorem canonical_directions name file H sl el bits cn sn kc ks :
  0 <= sl -> 0 <= el ->
  sym_keys_of hm (spec_row name file H sl el bits) cn sn = Ok kc ->     (* client: local = client nonce *)
  sym_keys_of hm (spec_row name file H sl el bits) sn cn = Ok ks ->     (* server: local = server nonce *)
  k_enc_key kc = k_dec_key ks /\ k_enc_iv kc = k_dec_iv ks /\ k_sign_key kc = k_verify_key ks /\
  k_enc_key ks = k_dec_key kc /\ k_enc_iv ks = k_dec_iv kc /\ k_sign_key ks = k_verify_key kc.
Proof.
  intros Hs He Hc Hsv. rewrite canonical_keys in Hc, Hsv by assumption.
  injection Hc as <-. injection Hsv as <-. cbn. repeat split.
Qed.
End Rows.
