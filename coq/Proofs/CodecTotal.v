(* E1 codec, C02: the decoder never panics and never runs out of fuel (= nesting depth) on inputs shorter than the
   fuel; what it leaves unread is a suffix no longer than the input. For every descriptor, every registry. *)
From Coq Require Import NArith ZArith List Bool Lia.
From Coq.Strings Require Import Byte.
From Opcua Require Import Model.CodecTypes Model.Codec Model.CodecWf.
Import ListNotations.
Open Scope Z_scope.

(* a result is fine w.r.t. the input bs: no Panic, no OutOfFuel, rest not longer than the input *)
Definition fine {A} (bs : bytes) (r : res A) : Prop :=
  match r with
  | Ok _ rest _ => (length rest <= length bs)%nat
  | Err _ _ => True
  | Panic _ => False
  | OutOfFuel => False
  end.
(* ... and at least one byte was consumed *)
Definition fine1 {A} (bs : bytes) (r : res A) : Prop :=
  match r with
  | Ok _ rest _ => (length rest < length bs)%nat
  | Err _ _ => True
  | Panic _ => False
  | OutOfFuel => False
  end.

Definition res_is_err {A} (r : res A) : bool := match r with Err _ _ => true | _ => false end.

Definition safe_on {A} (n : nat) (d : dec A) : Prop := forall bs, (length bs <= n)%nat -> fine bs (d bs).
Definition strict_on {A} (n : nat) (d : dec A) : Prop := forall bs, (length bs <= n)%nat -> fine1 bs (d bs).

Lemma fine_add_al : forall A bs n (r : res A), fine bs r -> fine bs (add_al n r).
Proof. intros A bs n [a rest al|e al|al|]; cbn; auto. Qed.
Lemma fine1_add_al : forall A bs n (r : res A), fine1 bs r -> fine1 bs (add_al n r).
Proof. intros A bs n [a rest al|e al|al|]; cbn; auto. Qed.

Lemma strict_safe : forall A n (d : dec A), strict_on n d -> safe_on n d.
Proof.
  intros A n d H bs Hl. specialize (H bs Hl). destruct (d bs); cbn in *; auto. lia.
Qed.

Lemma safe_le : forall A n m (d : dec A), safe_on n d -> (m <= n)%nat -> safe_on m d.
Proof. intros A n m d H Hm bs Hl. apply H. lia. Qed.

Lemma safe_ret : forall A n (a : A), safe_on n (ret a).
Proof. intros A n a bs _. cbn. lia. Qed.
Lemma safe_fail : forall A n e, safe_on n (@fail A e).
Proof. intros A n e bs _. exact I. Qed.
Lemma safe_tick : forall n k, safe_on n (tick k).
Proof. intros n k bs _. cbn. lia. Qed.
Lemma safe_remaining : forall n, safe_on n remaining.
Proof. intros n bs _. cbn. lia. Qed.

Lemma safe_bind : forall A B n (m : dec A) (f : A -> dec B),
  safe_on n m -> (forall a, safe_on n (f a)) -> safe_on n (bind m f).
Proof.
  intros A B n m f Hm Hf bs Hl. unfold bind. specialize (Hm bs Hl).
  destruct (m bs) as [a rest al|e al|al|] eqn:E; cbn in Hm; try exact I; try contradiction.
  apply fine_add_al. assert (Hr : (length rest <= n)%nat) by lia.
  specialize (Hf a rest Hr). destruct (f a rest); cbn in *; auto. lia.
Qed.

(* after a strict step the continuation only needs to be safe on strictly shorter inputs *)
Lemma safe_bind_strict : forall A B n (m : dec A) (f : A -> dec B),
  strict_on n m -> (forall a k, (k < n)%nat -> safe_on k (f a)) -> safe_on n (bind m f).
Proof.
  intros A B n m f Hm Hf bs Hl. unfold bind. specialize (Hm bs Hl).
  destruct (m bs) as [a rest al|e al|al|] eqn:E; cbn in Hm; try exact I; try contradiction.
  apply fine_add_al. assert (Hr : (length rest < n)%nat) by lia.
  specialize (Hf a (length rest) Hr rest (le_n _)). destruct (f a rest); cbn in *; auto. lia.
Qed.

Lemma strict_bind_l : forall A B n (m : dec A) (f : A -> dec B),
  strict_on n m -> (forall a, safe_on n (f a)) -> strict_on n (bind m f).
Proof.
  intros A B n m f Hm Hf bs Hl. unfold bind. specialize (Hm bs Hl).
  destruct (m bs) as [a rest al|e al|al|] eqn:E; cbn in Hm; try exact I; try contradiction.
  apply fine1_add_al. assert (Hr : (length rest <= n)%nat) by lia.
  specialize (Hf a rest Hr). destruct (f a rest); cbn in *; auto. lia.
Qed.

Lemma strict_bind_r : forall A B n (m : dec A) (f : A -> dec B),
  safe_on n m -> (forall a, strict_on n (f a)) -> strict_on n (bind m f).
Proof.
  intros A B n m f Hm Hf bs Hl. unfold bind. specialize (Hm bs Hl).
  destruct (m bs) as [a rest al|e al|al|] eqn:E; cbn in Hm; try exact I; try contradiction.
  apply fine1_add_al. assert (Hr : (length rest <= n)%nat) by lia.
  specialize (Hf a rest Hr). destruct (f a rest); cbn in *; auto. lia.
Qed.

Lemma unle_nonneg : forall bs, 0 <= unle bs.
Proof.
  induction bs as [|b r IH]; cbn [unle]; [lia|].
  unfold Z_of_byte. pose proof (N2Z.is_nonneg (Byte.to_N b)). lia.
Qed.

Lemma read_n_strict : forall n k, 1 <= k -> strict_on n (read_n k).
Proof.
  intros n k Hk bs _. unfold read_n.
  destruct (k <? 0) eqn:E0; [apply Z.ltb_lt in E0; lia|].
  destruct (blen bs <? k) eqn:E1; [exact I|]. cbn.
  apply Z.ltb_ge in E1. unfold blen in E1. rewrite skipn_length. lia.
Qed.
Lemma read_n_safe : forall n k, 0 <= k -> safe_on n (read_n k).
Proof.
  intros n k Hk bs _. unfold read_n.
  destruct (k <? 0) eqn:E0; [apply Z.ltb_lt in E0; lia|].
  destruct (blen bs <? k) eqn:E1; [exact I|]. cbn. rewrite skipn_length. lia.
Qed.

Lemma read_u_strict : forall n w, (1 <= w)%nat -> strict_on n (read_u w).
Proof.
  intros n w Hw. unfold read_u. apply strict_bind_l; [apply read_n_strict; lia|]. intros a. apply safe_ret.
Qed.
Lemma read_i_strict : forall n w, (1 <= w)%nat -> strict_on n (read_i w).
Proof.
  intros n w Hw. unfold read_i. apply strict_bind_l; [apply read_n_strict; lia|]. intros a. apply safe_ret.
Qed.
Lemma read_u_safe : forall n w, safe_on n (read_u w).
Proof.
  intros n w. unfold read_u. apply safe_bind; [apply read_n_safe; lia|]. intros a. apply safe_ret.
Qed.
Lemma read_i_safe : forall n w, safe_on n (read_i w).
Proof.
  intros n w. unfold read_i. apply safe_bind; [apply read_n_safe; lia|]. intros a. apply safe_ret.
Qed.
Lemma read_byte_strict : forall n, strict_on n read_byte.
Proof. intros n. apply read_u_strict. lia. Qed.

(* read_u yields a non-negative number: needed for read_n of a decoded length *)
Lemma read_u_nonneg : forall w bs a rest al, read_u w bs = Ok a rest al -> 0 <= a.
Proof.
  intros w bs a rest al H. unfold read_u, bind, read_n in H.
  destruct (Z.of_nat w <? 0); [discriminate|]. destruct (blen bs <? Z.of_nat w); [discriminate|].
  cbn in H. inversion H; subst. apply unle_nonneg.
Qed.

(* bind with access to the fact that the value came out of read_u *)
Lemma strict_bind_read_u : forall B n w (f : Z -> dec B), (1 <= w)%nat ->
  (forall a, 0 <= a -> safe_on n (f a)) -> strict_on n (bind (read_u w) f).
Proof.
  intros B n w f Hw Hf bs Hl. unfold bind.
  pose proof (read_u_strict n w Hw bs Hl) as Hm.
  destruct (read_u w bs) as [a rest al|e al|al|] eqn:E; cbn in Hm; try exact I; try contradiction.
  apply fine1_add_al. assert (Hr : (length rest <= n)%nat) by lia.
  specialize (Hf a (read_u_nonneg _ _ _ _ _ E) rest Hr). destruct (f a rest); cbn in *; auto. lia.
Qed.

Lemma read_bytes_strict : forall n, strict_on n read_bytes.
Proof.
  intros n. unfold read_bytes. apply strict_bind_read_u; [lia|]. intros a Ha.
  destruct ((a =? 0) || (a =? null32)); [apply safe_ret|].
  apply safe_bind; [apply read_n_safe; exact Ha|]. intros d. apply safe_ret.
Qed.
Lemma read_string_strict : forall n, strict_on n read_string.
Proof.
  intros n. unfold read_string. apply strict_bind_l; [apply read_bytes_strict|].
  intros [d|]; [|apply safe_ret]. apply safe_bind; [apply safe_tick|]. intros _. apply safe_ret.
Qed.
Lemma read_time_strict : forall n, strict_on n read_time.
Proof.
  intros n. unfold read_time. apply strict_bind_l; [apply read_n_strict; lia|].
  intros d. cbv zeta. destruct (unle d =? 0); [apply safe_ret|].
  destruct ((to_signed 8 (unle d) - time_offset) * 100 =? zero_time_ns); apply safe_ret.
Qed.

Lemma dec_n_safe : forall A n (d : dec A) k, safe_on n d -> safe_on n (dec_n d k).
Proof.
  intros A n d k Hd. induction k as [|k IH]; cbn [dec_n]; [apply safe_ret|].
  apply safe_bind; [exact Hd|]. intros x. apply safe_bind; [exact IH|]. intros r. apply safe_ret.
Qed.

Lemma dec_fields_safe : forall n ds, Forall (safe_on n) ds -> safe_on n (dec_fields ds).
Proof.
  intros n ds H. induction H as [|d r Hd Hr IH]; cbn [dec_fields]; [apply safe_ret|].
  apply safe_bind; [exact Hd|]. intros x. apply safe_bind; [exact IH|]. intros xs. apply safe_ret.
Qed.

Lemma if_safe : forall A n (b : bool) (x y : dec A), safe_on n x -> safe_on n y -> safe_on n (if b then x else y).
Proof. intros A n [|] x y; auto. Qed.

Lemma dec_slice_strict : forall n sz d, safe_on n d -> strict_on n (dec_slice sz d).
Proof.
  intros n sz d Hd. unfold dec_slice. apply strict_bind_read_u; [lia|]. intros a Ha.
  destruct (a =? null32); [apply safe_ret|]. destruct (max_int32 <? a); [apply safe_fail|].
  apply safe_bind; [apply safe_remaining|]. intros r. destruct (r <? a); [apply safe_fail|].
  apply safe_bind; [apply safe_tick|]. intros _.
  apply safe_bind; [apply dec_n_safe; exact Hd|]. intros l. apply safe_ret.
Qed.

Lemma dec_bytes_strict : forall n, strict_on n dec_bytes.
Proof.
  intros n. unfold dec_bytes. apply strict_bind_read_u; [lia|]. intros a Ha.
  destruct (a =? null32); [apply safe_ret|]. destruct (max_int32 <? a); [apply safe_fail|].
  apply safe_bind; [apply safe_remaining|]. intros r. destruct (r <? a); [apply safe_fail|].
  apply safe_bind; [apply read_n_safe; exact Ha|]. intros d. apply safe_ret.
Qed.

Lemma dec_guid_safe : forall n, safe_on n dec_guid.
Proof.
  intros n. unfold dec_guid. apply safe_bind; [apply safe_tick|]. intros _.
  apply safe_bind; [apply read_u_safe|]. intros d1.
  apply safe_bind; [apply read_u_safe|]. intros d2.
  apply safe_bind; [apply read_u_safe|]. intros d3.
  apply safe_bind; [apply read_n_safe; lia|]. intros d4. apply safe_ret.
Qed.

Ltac safe_step :=
  first [ apply safe_ret | apply safe_fail | apply safe_tick | apply read_u_safe | apply read_i_safe
        | apply (strict_safe _ _ _ (read_bytes_strict _)) | apply (strict_safe _ _ _ (read_string_strict _))
        | apply (strict_safe _ _ _ (read_time_strict _)) | apply dec_guid_safe
        | apply (strict_safe _ _ _ (read_byte_strict _)) ].

Lemma dec_nodeid_strict : forall n, strict_on n dec_nodeid.
Proof.
  intros n. unfold dec_nodeid. apply strict_bind_r; [apply safe_tick|]. intros _.
  apply strict_bind_l; [apply read_byte_strict|]. intros mask. cbv zeta.
  repeat match goal with |- safe_on _ (if ?c then _ else _) => destruct c end;
    repeat (first [safe_step | apply safe_bind; [|intros ?]]).
Qed.

Lemma dec_expnodeid_strict : forall n, strict_on n dec_expnodeid.
Proof.
  intros n. unfold dec_expnodeid. apply strict_bind_r; [apply safe_tick|]. intros _.
  apply strict_bind_l; [apply dec_nodeid_strict|]. intros nid. cbv zeta.
  apply safe_bind; [apply if_safe; safe_step|]. intros uri.
  apply safe_bind; [apply if_safe; safe_step|]. intros srv. apply safe_ret.
Qed.

Lemma dec_loctext_strict : forall n, strict_on n dec_loctext.
Proof.
  intros n. unfold dec_loctext. apply strict_bind_r; [apply safe_tick|]. intros _.
  apply strict_bind_l; [apply read_byte_strict|]. intros mask.
  apply safe_bind; [apply if_safe; safe_step|]. intros l.
  apply safe_bind; [apply if_safe; safe_step|]. intros t. apply safe_ret.
Qed.

(* descriptors on which ua.decode does not panic by construction of the type: no pointer to pointer / pointer to a
   hand-written codec (decode(b, val.Elem()) would dereference a nil pointer) *)
Fixpoint ptr_ok (t : ty) : bool :=
  match t with
  | TSlice e => ptr_ok e
  | TPtr e => match e with TPtr _ | TCustom _ => false | _ => ptr_ok e end
  | TStruct fs => forallb ptr_ok fs
  | _ => true
  end.

(* registry entries are struct descriptors (TypeRegistry.New does reflect.New(typ.Elem())) that are ptr_ok *)
Definition reg_ok (reg : list (Z * Z * ty)) : bool :=
  forallb (fun r => match snd r with TStruct _ => ptr_ok (snd r) | _ => false end) reg.

Lemma lookup_reg_ok : forall reg tid t, reg_ok reg = true -> lookup_expnodeid reg tid = Some t -> ptr_ok (TPtr t) = true.
Proof.
  intros reg tid t Hreg H. unfold lookup_expnodeid, lookup_nodeid, lookup in H.
  assert (Hf : forall p r, find p reg = Some r -> ptr_ok (TPtr (snd r)) = true).
  { intros p r Hfind. apply find_some in Hfind. destruct Hfind as [Hin _].
    unfold reg_ok in Hreg. rewrite forallb_forall in Hreg. specialize (Hreg r Hin).
    destruct (snd r); try discriminate. exact Hreg. }
  destruct tid; try discriminate. destruct nid as [nv|]; try discriminate. destruct nv; try discriminate.
  repeat match type of H with
         | (if ?c then _ else _) = _ => destruct c
         | match find ?p reg with _ => _ end = _ => destruct (find p reg) eqn:Ef; [apply Hf in Ef|]
         end; try discriminate; inversion H; subst; assumption.
Qed.

Lemma variant_ty_ptr_ok : forall tid, ptr_ok (variant_ty tid) = true.
Proof.
  intros tid. destruct tid as [|p|p]; try reflexivity.
  do 5 (destruct p as [p|p|]; try reflexivity).
Qed.

Section Rec.
  Variable reg : list (Z * Z * ty).
  Variable rec : ty -> dec val.
  Variable n : nat.
  (* the decoder one level down is safe on every strictly shorter input *)
  Hypothesis Hreg : reg_ok reg = true.
  Hypothesis Hrec : forall t k, ptr_ok t = true -> (k < n)%nat -> safe_on k (rec t).

  Lemma dec_builtin_below : forall tid k, (k < n)%nat -> safe_on k (dec_builtin rec tid).
  Proof.
    intros tid k Hk. unfold dec_builtin. destruct (tid =? 15); [|apply Hrec; [apply variant_ty_ptr_ok|exact Hk]].
    apply safe_bind; [safe_step|]. intros b. apply safe_ret.
  Qed.

  Lemma dec_dim_safe : forall k, safe_on k dec_dim.
  Proof.
    intros k. unfold dec_dim. apply safe_bind; [safe_step|]. intros d. destruct (d <? 1); safe_step.
  Qed.

  Lemma dec_variant_safe : safe_on n (dec_variant rec).
  Proof.
    unfold dec_variant. apply safe_bind; [apply safe_tick|]. intros _.
    apply safe_bind_strict; [apply read_byte_strict|]. intros mask k Hk. cbv zeta.
    destruct (mask mod 64 =? 0); [apply safe_ret|].
    destruct (25 <? mask mod 64); [apply safe_fail|].
    destruct (negb (bit mask 7)).
    { apply safe_bind; [apply dec_builtin_below; exact Hk|]. intros v. apply safe_ret. }
    apply safe_bind; [safe_step|]. intros alen.
    destruct (max_variant_array_length <? alen); [apply safe_fail|].
    destruct (alen <? -1); [apply safe_fail|].
    apply safe_bind; [apply safe_remaining|]. intros rem. destruct (rem <? alen); [apply safe_fail|].
    apply safe_bind.
    { destruct (alen =? -1); [apply safe_ret|].
      apply safe_bind; [apply safe_tick|]. intros _.
      apply safe_bind; [apply dec_n_safe; apply dec_builtin_below; exact Hk|]. intros l. apply safe_ret. }
    intros vals. apply safe_bind.
    { destruct (bit mask 6); [|apply safe_ret].
      apply safe_bind; [safe_step|]. intros dl. destruct ((dl <? 0) || (max_variant_array_dimensions <? dl)); [apply safe_fail|].
      apply safe_bind; [apply safe_remaining|]. intros r. destruct (r / 4 <? dl); [apply safe_fail|].
      apply safe_bind; [apply safe_tick|]. intros _.
      apply safe_bind; [apply dec_n_safe; apply dec_dim_safe|]. intros ds. apply safe_ret. }
    intros [dl ds].
    destruct ((0 <? dl) && negb match dims_product ds 1 with Some c => c =? alen | None => false end) eqn:Echk;
      [apply safe_fail|].
    destruct (dl <? 2) eqn:Edl; [apply safe_ret|].
    destruct vals as [l|]; [apply safe_bind; [apply safe_tick|]; intros _; apply safe_ret|apply safe_ret].
  Qed.

  Lemma dec_datavalue_safe : safe_on n (dec_datavalue rec).
  Proof.
    unfold dec_datavalue. apply safe_bind; [apply safe_tick|]. intros _.
    apply safe_bind_strict; [apply read_byte_strict|]. intros mask k Hk.
    apply safe_bind.
    { destruct (bit mask 0); [apply Hrec; [reflexivity|exact Hk]|]. apply safe_bind; [apply safe_tick|]. intros _. apply safe_ret. }
    intros v. repeat (apply safe_bind; [apply if_safe; safe_step|]; intros ?). apply safe_ret.
  Qed.

  Lemma dec_diag_safe : safe_on n (dec_diag rec).
  Proof.
    unfold dec_diag. apply safe_bind; [apply safe_tick|]. intros _.
    apply safe_bind_strict; [apply read_byte_strict|]. intros mask k Hk.
    do 6 (apply safe_bind; [apply if_safe; safe_step|]; intros ?).
    apply safe_bind; [|intros inner; apply safe_ret].
    destruct (bit mask 6); [|apply safe_ret].
    apply safe_bind; [apply Hrec; [reflexivity|exact Hk]|]. intros i. apply safe_ret.
  Qed.

  Lemma run_sub_safe : forall A (d : dec A) body k, (length body < n)%nat -> (forall j, (j < n)%nat -> safe_on j d) ->
    safe_on k (run_sub d body).
  Proof.
    intros A d body k Hb Hd bs Hl. unfold run_sub.
    specialize (Hd (length body) Hb body (le_n _)). destruct (d body); cbn in *; auto.
  Qed.

  (* read_n returns a prefix of the input *)
  Lemma read_n_len : forall k bs d rest al, read_n k bs = Ok d rest al -> (length d <= length bs)%nat.
  Proof.
    intros k bs d rest al H. unfold read_n in H. destruct (k <? 0); [discriminate|].
    destruct (blen bs <? k); [discriminate|]. inversion H; subst. rewrite firstn_length. lia.
  Qed.

  Lemma dec_extobj_safe : safe_on n (dec_extobj reg rec).
  Proof.
    unfold dec_extobj. apply safe_bind; [apply safe_tick|]. intros _.
    apply safe_bind_strict; [apply dec_expnodeid_strict|]. intros tid k Hk.
    apply safe_bind; [safe_step|]. intros mask.
    destruct (mask =? 0); [apply safe_ret|].
    intros bs Hl. unfold bind at 1.
    pose proof (read_u_safe k 4 bs Hl) as Hu.
    destruct (read_u 4 bs) as [len rest al|e al|al|] eqn:Eu; cbn in Hu; try exact I; try contradiction.
    apply fine_add_al.
    assert (Hlen : 0 <= len) by (eapply read_u_nonneg; exact Eu).
    destruct ((len =? 0) || (len =? null32)); [cbn; lia|].
    unfold bind at 1.
    pose proof (read_n_safe k len Hlen rest ltac:(lia)) as Hn.
    destruct (read_n len rest) as [body rest2 al2|e2 al2|al2|] eqn:En; cbn in Hn; try exact I; try contradiction.
    apply fine_add_al.
    assert (Hbody : (length body < n)%nat) by (apply read_n_len in En; lia).
    assert (Hsub : forall t, ptr_ok t = true -> fine bs (bind (run_sub (rec t) body) (fun v => ret (VExtObj mask (Some tid) (Some v))) rest2)).
    { intros t Ht. unfold bind. pose proof (run_sub_safe val (rec t) body k Hbody (fun j => Hrec t j Ht) rest2 ltac:(lia)) as Hs.
      destruct (run_sub (rec t) body rest2) as [v r3 al3|e3 al3|al3|]; cbn in Hs; try exact I; try contradiction.
      cbn. lia. }
    destruct (mask =? 2); [apply Hsub; reflexivity|].
    destruct (lookup_expnodeid reg tid) as [t|] eqn:El; [apply Hsub; eapply lookup_reg_ok; eassumption|]. cbn. lia.
  Qed.

  Lemma dec_custom_safe : forall c, safe_on n (dec_custom reg rec c).
  Proof.
    intros [] ; cbn [dec_custom].
    - apply dec_variant_safe.
    - apply dec_datavalue_safe.
    - apply dec_diag_safe.
    - apply strict_safe, dec_loctext_strict.
    - apply strict_safe, dec_nodeid_strict.
    - apply strict_safe, dec_expnodeid_strict.
    - apply dec_extobj_safe.
    - apply dec_guid_safe.
  Qed.
End Rec.

(* ------------------------------------------------------------------ the decoder *)

Section Main.
  Variable reg : list (Z * Z * ty).
  Hypothesis Hreg : reg_ok reg = true.

  Lemma dec_ptr_safe : forall n e d, ptr_ok (TPtr e) = true -> safe_on n d -> safe_on n (dec_ptr e d).
  Proof.
    intros n e d He Hd. unfold dec_ptr. destruct e; try discriminate;
      (apply safe_bind; [apply safe_tick|]; intros _; apply safe_bind; [exact Hd|]; intros v; apply safe_ret).
  Qed.

  Lemma ptr_ok_elem : forall e, ptr_ok (TPtr e) = true -> ptr_ok e = true.
  Proof. intros e H. destruct e; try discriminate; try reflexivity; exact H. Qed.

  (* one nesting level: if what is nested further down is safe on every strictly shorter input, this level is safe *)
  Lemma dec_level_safe : forall rec allow n, (forall t k, ptr_ok t = true -> (k < n)%nat -> safe_on k (rec t)) ->
    forall t, ptr_ok t = true -> safe_on n (dec_level reg rec allow t).
  Proof.
    intros rec allow n Hrec t. induction t using ty_ind'; intros Ht; cbn [dec_level].
    - apply safe_bind; [safe_step|]. intros b. apply safe_ret.
    - apply safe_bind; [destruct s; safe_step|]. intros z. apply safe_ret.
    - apply safe_bind; [safe_step|]. intros z. apply safe_ret.
    - apply safe_bind; [safe_step|]. intros z. apply safe_ret.
    - apply safe_bind; [safe_step|]. intros z. apply safe_ret.
    - apply strict_safe, dec_bytes_strict.
    - apply strict_safe, dec_slice_strict. apply IHt. exact Ht.
    - apply dec_ptr_safe; [exact Ht|]. apply IHt. apply ptr_ok_elem. exact Ht.
    - apply safe_bind; [|intros vs; apply safe_ret]. apply dec_fields_safe.
      cbn [ptr_ok] in Ht. rewrite forallb_forall in Ht.
      rewrite Forall_forall in H. apply Forall_forall. intros d Hd. apply in_map_iff in Hd.
      destruct Hd as [x [Hx Hin]]. subst d. apply H; [exact Hin|]. apply Ht. exact Hin.
    - destruct (nested c && negb allow).
      + apply safe_bind; [apply safe_tick|]. intros _. apply safe_fail.
      + apply dec_custom_safe; [exact Hreg|exact Hrec].
  Qed.

  (* main invariant: whatever nesting levels are left, every input is decoded without Panic / OutOfFuel: the nesting
     limit turns what used to be unbounded recursion into an error *)
  Theorem decode_safe : forall f t n, ptr_ok t = true -> safe_on n (decode reg f t).
  Proof.
    induction f as [|f IHf]; intros t n Ht; cbn [decode].
    - apply dec_level_safe; [|exact Ht]. intros t' k _ _. apply safe_fail.
    - apply dec_level_safe; [|exact Ht]. intros t' k Ht' _. apply IHf. exact Ht'.
  Qed.
End Main.

(* ------------------------------------------------------------------ the nesting limit *)
Lemma read_byte_cons : forall b r, read_byte (b :: r) = Ok (Z_of_byte b + 256 * 0) r 0.
Proof.
  intros b r. unfold read_byte, read_u, bind, read_n. cbn [Z.of_nat Z.ltb Z.compare Pos.of_succ_nat].
  replace (blen (b :: r) <? 1) with false.
  2:{ symmetry. apply Z.ltb_ge. unfold blen. cbn [length]. lia. }
  cbn. reflexivity.
Qed.

Section Deep.
  Variable reg : list (Z * Z * ty).
  (* a chain of scalar Variants of type Variant (mask 0x18) one longer than the levels left is rejected with an error
     after f + 1 steps (before the fix of ua.MaxNestingLevel: unbounded recursion, Go's stack overflow) *)
  Lemma deep_variant : forall f bs, res_is_err (decode reg f (TCustom CVariant) (repeat x18 f ++ bs)) = true.
  Proof.
    induction f as [|f IH]; intros bs; [reflexivity|].
    cbn [repeat app]. cbn [decode dec_level nested andb negb dec_custom]. unfold dec_variant.
    unfold bind at 1. cbn [tick]. unfold bind at 1. rewrite read_byte_cons.
    cbn -[decode dec_n]. unfold dec_builtin. cbn -[decode]. unfold bind at 1.
    specialize (IH bs). destruct (decode reg f (TCustom CVariant) (repeat x18 f ++ bs)); try discriminate. reflexivity.
  Qed.
End Deep.

(* ------------------------------------------------------------------ soundness side condition of the decodeSlice guard *)
(* every slice in the descriptor has elements of at least one byte: "n > remaining bytes" cannot be a valid array *)
Fixpoint slices_ok (t : ty) : bool :=
  match t with
  | TSlice e => Nat.leb 1 (minsize e) && slices_ok e
  | TPtr e => slices_ok e
  | TStruct fs => forallb slices_ok fs
  | _ => true
  end.
