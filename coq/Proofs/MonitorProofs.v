(* MonitorProofs.v — C28: delivered NodeID is the registered node (all schedules, drops allowed); after quiescence the
   last delivered value is the current value (all schedules without consumer-side drops). *)
From Coq Require Import NArith ZArith Bool List Lia.
From Opcua Require Import Model.Monitor.
Import ListNotations.
Open Scope N_scope.

(* ---- newest value for a handle in an age-ordered list ---- *)
Fixpoint lastv (h : N) (l : list hv) : option Z :=
  match l with
  | [] => None
  | e :: r => match lastv h r with
              | Some w => Some w
              | None => if N.eqb (fst e) h then Some (snd e) else None
              end
  end.

Lemma lastv_app : forall h l1 l2,
  lastv h (l1 ++ l2) = match lastv h l2 with Some w => Some w | None => lastv h l1 end.
Proof.
  intros h l1 l2. induction l1 as [|e r IH]; cbn [app lastv].
  - destruct (lastv h l2); reflexivity.
  - rewrite IH. destruct (lastv h l2); reflexivity.
Qed.

Lemma lastv_in : forall h l w, lastv h l = Some w -> exists e, In e l /\ fst e = h /\ snd e = w.
Proof.
  intros h l. induction l as [|a r IH]; intros w H; [discriminate|]. cbn [lastv] in H.
  destruct (lastv h r) as [w1|] eqn:E.
  - inversion H; subst. destruct (IH _ eq_refl) as [e [I [F S]]]. exists e. split; [right; exact I|auto].
  - destruct (N.eqb (fst a) h) eqn:E2; [|discriminate]. inversion H; subst. apply N.eqb_eq in E2.
    exists a. split; [left; reflexivity|auto].
Qed.

Lemma lastv_some : forall h l, (exists e, In e l /\ fst e = h) -> exists w, lastv h l = Some w.
Proof.
  intros h l. induction l as [|a r IH]; intros [x [I F]]; [destruct I|]. cbn [lastv].
  destruct (lastv h r) as [w1|] eqn:E; [eexists; reflexivity|].
  destruct I as [I|I].
  - subst x. rewrite F, N.eqb_refl. eexists; reflexivity.
  - destruct (IH (ex_intro _ x (conj I F))) as [w Hw]. discriminate.
Qed.

Lemma lastv_none : forall h l, (forall e, In e l -> fst e <> h) -> lastv h l = None.
Proof.
  intros h l H. destruct (lastv h l) as [w|] eqn:E; [|reflexivity].
  destruct (lastv_in _ _ _ E) as [e [I [F _]]]. exfalso. exact (H e I F).
Qed.

Lemma lastv_const : forall h l c, (forall e, In e l -> snd e = c) -> (exists e, In e l /\ fst e = h) -> lastv h l = Some c.
Proof.
  intros h l c Hc Hex. destruct (lastv_some h l Hex) as [w Hw]. rewrite Hw.
  destruct (lastv_in _ _ _ Hw) as [e [I [_ S]]]. rewrite <- S. f_equal. apply Hc. exact I.
Qed.

Lemma lastv_filter_other : forall h k l, k <> h ->
  lastv k (filter (fun e : hv => negb (N.eqb (fst e) h)) l) = lastv k l.
Proof.
  intros h k l Hne. induction l as [|a r IH]; [reflexivity|]. cbn [filter lastv].
  destruct (N.eqb (fst a) h) eqn:E; cbn [negb].
  - rewrite IH. apply N.eqb_eq in E. destruct (lastv k r); [reflexivity|].
    destruct (N.eqb (fst a) k) eqn:E2; [apply N.eqb_eq in E2; congruence|reflexivity].
  - cbn [lastv]. rewrite IH. reflexivity.
Qed.

Lemma lastv_pq_set : forall k pq h v, lastv k (pq_set pq h v) = lastv k (pq ++ [(h, v)]).
Proof.
  intros k pq h v. unfold pq_set. rewrite !lastv_app. cbn [lastv fst snd].
  destruct (N.eqb h k) eqn:E; [reflexivity|]. apply lastv_filter_other. intro H. subst. rewrite N.eqb_refl in E. discriminate.
Qed.

Lemma lastv_collect : forall k (A B : list hv) pq h v r,
  lastv k (A ++ B ++ pq_set pq h v ++ r) = lastv k (A ++ B ++ pq ++ (h, v) :: r).
Proof.
  intros k A B pq h v r.
  assert (E : lastv k (pq_set pq h v ++ r) = lastv k (pq ++ (h, v) :: r)).
  { change ((h, v) :: r) with ([(h, v)] ++ r). rewrite app_assoc. rewrite !(lastv_app k _ r). rewrite lastv_pq_set. reflexivity. }
  rewrite (lastv_app k A), (lastv_app k B), E. rewrite (lastv_app k A (B ++ _)), (lastv_app k B (pq ++ _)). reflexivity.
Qed.

(* ---- lookups ---- *)
Lemma lookup_in : forall l h n, lookup l h = Some n -> In (h, n) l.
Proof.
  induction l as [|[k m] r IH]; intros h n H; [discriminate|]. cbn [lookup] in H.
  destruct (N.eqb k h) eqn:E; [apply N.eqb_eq in E; inversion H; subst; left; reflexivity|right; apply IH; exact H].
Qed.

Lemma in_lookup : forall l h n, NoDup (map fst l) -> In (h, n) l -> lookup l h = Some n.
Proof.
  induction l as [|[k m] r IH]; intros h n Hnd Hin; [destruct Hin|]. cbn [lookup]. cbn [map fst] in Hnd.
  inversion Hnd as [|? ? Hni Hnd']; subst. destruct Hin as [Hin|Hin].
  - inversion Hin; subst. rewrite N.eqb_refl. reflexivity.
  - destruct (N.eqb k h) eqn:E; [|apply IH; assumption].
    apply N.eqb_eq in E. subst k. exfalso. apply Hni. apply (in_map fst) in Hin. exact Hin.
Qed.

Lemma lookup_filter : forall l h k n, lookup (filter (fun hn : N * N => negb (N.eqb (fst hn) h)) l) k = Some n ->
  k <> h /\ lookup l k = Some n.
Proof.
  induction l as [|[a m] r IH]; intros h k n H; [discriminate|]. cbn [filter fst] in H.
  destruct (N.eqb a h) eqn:E; cbn [negb] in H.
  - destruct (IH _ _ _ H) as [Hne Hl]. split; [exact Hne|]. cbn [lookup].
    apply N.eqb_eq in E. subst a. destruct (N.eqb h k) eqn:E2; [apply N.eqb_eq in E2; congruence|exact Hl].
  - cbn [lookup] in *. destruct (N.eqb a k) eqn:E2.
    + apply N.eqb_eq in E2. subst a. split; [intro; subst; rewrite N.eqb_refl in E; discriminate|exact H].
    + apply IH. exact H.
Qed.

Lemma nodup_filter_fst : forall (l : list (N * N)) f, NoDup (map fst l) -> NoDup (map fst (filter f l)).
Proof.
  induction l as [|a r IH]; intros f H; [constructor|]. cbn [map] in H. inversion H as [|? ? Hni Hnd]; subst.
  cbn [filter]. destruct (f a); [|apply IH; exact Hnd]. cbn [map]. constructor; [|apply IH; exact Hnd].
  intro Hin. apply Hni. apply in_map_iff in Hin. destruct Hin as [x [Hx Hi]]. apply filter_In in Hi.
  apply in_map_iff. exists x. split; [exact Hx|apply Hi].
Qed.

Lemma notifs_handle : forall items st n e, In e (notifs_for items st n) -> In (fst e, n) items /\ snd e = sget st n.
Proof.
  intros items st n e H. unfold notifs_for in H. apply in_map_iff in H. destruct H as [[h m] [He Hf]].
  apply filter_In in Hf. destruct Hf as [Hi Hm]. cbn in Hm. apply N.eqb_eq in Hm. subst. cbn. auto.
Qed.

Lemma notifs_has : forall items st n h, In (h, n) items -> In (h, sget st n) (notifs_for items st n).
Proof.
  intros items st n h H. unfold notifs_for. apply in_map_iff. exists (h, n). split; [reflexivity|].
  apply filter_In. split; [exact H|]. cbn. apply N.eqb_refl.
Qed.

(* ---- deliveries ---- *)
Definition found (items : list (N * N)) (m : list hv) : list (N * N * Z) :=
  flat_map (fun e => match lookup items (fst e) with Some n => [(fst e, n, snd e)] | None => [] end) m.

Lemma deliver_fold : forall items m d er,
  fst (fold_left (deliver_one items) m (d, er)) = d ++ found items m.
Proof.
  intros items m. induction m as [|e r IH]; intros d er; cbn [fold_left found flat_map].
  - rewrite app_nil_r. reflexivity.
  - unfold deliver_one at 2. cbn [fst snd]. destruct (lookup items (fst e)) as [n|].
    + rewrite IH. rewrite <- app_assoc. reflexivity.
    + rewrite IH. reflexivity.
Qed.

Definition dv (l : list (N * N * Z)) : list hv := map (fun d => (fst (fst d), snd d)) l.

Lemma lastv_found : forall items m k n, lookup items k = Some n -> lastv k (dv (found items m)) = lastv k m.
Proof.
  intros items m k n Hk. induction m as [|e r IH]; [reflexivity|]. cbn [found flat_map].
  fold (found items r). unfold dv. rewrite map_app. fold (dv (found items r)). rewrite lastv_app, IH. cbn [lastv].
  destruct (lastv k r); [reflexivity|].
  destruct (lookup items (fst e)) as [m0|] eqn:El; cbn [map lastv fst snd].
  - reflexivity.
  - destruct (N.eqb (fst e) k) eqn:E; [|reflexivity]. apply N.eqb_eq in E. rewrite E in El. congruence.
Qed.

Lemma lastd_dv : forall h l, lastv h (dv l) = option_map snd (lastd h l).
Proof.
  intros h l. induction l as [|d r IH]; [reflexivity|]. cbn [dv map lastv lastd]. fold (dv r). rewrite IH.
  destruct (lastd h r); cbn [option_map]; [reflexivity|]. cbn [fst snd].
  destruct (N.eqb (fst (fst d)) h); reflexivity.
Qed.

Lemma lastd_in : forall h l n v, lastd h l = Some (n, v) -> In (h, n, v) l.
Proof.
  intros h l. induction l as [|d r IH]; intros n v H; [discriminate|]. cbn [lastd] in H.
  destruct (lastd h r) as [x|] eqn:E.
  - inversion H; subst. right. apply IH. reflexivity.
  - destruct (N.eqb (fst (fst d)) h) eqn:E2; [|discriminate]. apply N.eqb_eq in E2. inversion H; subst.
    left. destruct d as [[a b] c]. reflexivity.
Qed.

(* ---- invariants ---- *)
Definition pipe (s : mstate) : list hv := dv (m_deliv s) ++ concat (m_msgs s) ++ m_pq s ++ m_nch s.

Record minv (s : mstate) : Prop := {
  v_nodup : NoDup (map fst (m_reg s));
  v_fresh : forall h n, In (h, n) (m_reg s) -> h <= m_next s;
  v_items : forall h n, In (h, n) (m_items s) -> In (h, n) (m_reg s);
  v_deliv : forall h n v, In (h, n, v) (m_deliv s) -> In (h, n) (m_reg s) }.

Lemma nodup_items : forall s, minv s -> NoDup (map fst (m_items s)) -> True. Proof. auto. Qed.

Lemma minv_init : minv minit.
Proof. constructor; cbn; try constructor; intros; contradiction. Qed.

Lemma minv_step : forall s e, minv s -> minv (mstep s e).
Proof.
  intros s e [Hnd Hfr Hit Hde]. destruct e; cbn [mstep].
  - constructor; cbn; assumption.
  - destruct (existsb _ _); constructor; cbn; assumption.
  - constructor; cbn [m_reg m_next m_items m_deliv map fst].
    + constructor; [|exact Hnd]. intro Hin. apply in_map_iff in Hin. destruct Hin as [[h m] [Hf Hi]]. cbn in Hf. subst h.
      specialize (Hfr _ _ Hi). lia.
    + intros h m [H|H]; [inversion H; subst; lia|specialize (Hfr _ _ H); lia].
    + intros h m [H|H]; [left; exact H|right; apply Hit; exact H].
    + intros h m v H. right. apply (Hde _ _ _ H).
  - destruct (existsb _ _); constructor; cbn; assumption.
  - constructor; cbn [m_reg m_next m_items m_deliv]; try assumption.
    intros h0 n H. apply filter_In in H. apply Hit. apply H.
  - destruct (m_nch s) as [|[h v] r]; constructor; cbn; assumption.
  - destruct (m_pq s); constructor; cbn; assumption.
  - destruct (m_msgs s) as [|m r]; [constructor; assumption|].
    destruct (fold_left (deliver_one (m_items s)) m (m_deliv s, m_errs s)) as [d er] eqn:E.
    assert (Hd : d = m_deliv s ++ found (m_items s) m).
    { rewrite <- (deliver_fold (m_items s) m (m_deliv s) (m_errs s)). rewrite E. reflexivity. }
    constructor; cbn [m_reg m_next m_items m_deliv]; try assumption.
    intros h n v H. subst d. apply in_app_or in H. destruct H as [H|H]; [apply (Hde _ _ _ H)|].
    unfold found in H. apply in_flat_map in H. destruct H as [x [_ Hx]].
    destruct (lookup (m_items s) (fst x)) as [n0|] eqn:El; [|destruct Hx].
    destruct Hx as [Hx|[]]. inversion Hx; subst. apply Hit. apply lookup_in. exact El.
  - destruct (m_msgs s); constructor; cbn; assumption.
Qed.

Lemma minv_run_from : forall evs s, minv s -> minv (fold_left mstep evs s).
Proof. induction evs as [|e r IH]; intros s H; cbn [fold_left]; [exact H|]. apply IH. apply minv_step. exact H. Qed.

(* every DataChangeMessage carries the node that was registered for its client handle; a handle names one node only *)
Theorem delivered_node_is_registered : forall evs h n v,
  In (h, n, v) (m_deliv (mrun evs)) ->
  In (h, n) (m_reg (mrun evs)) /\ (forall n', In (h, n') (m_reg (mrun evs)) -> n' = n).
Proof.
  intros evs h n v H. destruct (minv_run_from evs minit minv_init) as [Hnd _ _ Hde].
  specialize (Hde _ _ _ H). split; [exact Hde|]. intros n' H'.
  pose proof (in_lookup _ _ _ Hnd Hde) as E1. pose proof (in_lookup _ _ _ Hnd H') as E2. congruence.
Qed.

(* ---- convergence ---- *)
Definition fresh_items (s : mstate) : Prop := NoDup (map fst (m_items s)).

Definition cinv (s : mstate) : Prop :=
  forall h n, lookup (m_items s) h = Some n ->
    In h (m_pinit s) \/ In n (m_dirty s) \/ lastv h (pipe s) = Some (sget (m_store s) n).

Lemma items_nodup_step : forall s e, minv s -> fresh_items s -> fresh_items (mstep s e).
Proof.
  intros s e Hm Hf. unfold fresh_items in *. destruct e; cbn [mstep]; try assumption.
  - destruct (existsb _ _); assumption.
  - cbn [m_items map fst]. constructor; [|exact Hf]. intro Hin. apply in_map_iff in Hin.
    destruct Hin as [[h m] [Hx Hi]]. cbn in Hx. subst h. pose proof (v_fresh s Hm _ _ (v_items s Hm _ _ Hi)). lia.
  - destruct (existsb _ _); assumption.
  - cbn [m_items]. apply nodup_filter_fst. exact Hf.
  - destruct (m_nch s) as [|[h v] r]; assumption.
  - destruct (m_pq s); assumption.
  - destruct (m_msgs s) as [|m r]; [assumption|]. destruct (fold_left _ _ _). assumption.
  - destruct (m_msgs s); assumption.
Qed.

Lemma in_filter_neq : forall (l : list N) k h, In k l -> k <> h -> In k (filter (fun m => negb (N.eqb m h)) l).
Proof.
  intros l k h Hin Hne. apply filter_In. split; [exact Hin|]. destruct (N.eqb k h) eqn:E; [apply N.eqb_eq in E; congruence|reflexivity].
Qed.

Lemma cinv_step : forall s e, minv s -> fresh_items s -> is_drop e = false -> cinv s -> cinv (mstep s e).
Proof.
  intros s e Hm Hf Hnd Hc. unfold cinv in *. destruct e; cbn [mstep]; try discriminate.
  - (* MWrite *)
    cbn [m_items m_pinit m_dirty m_store]. intros h m Hl. destruct (Hc _ _ Hl) as [H|[H|H]].
    + left; exact H.
    + right; left; right; exact H.
    + destruct (N.eq_dec n m) as [E|E]; [subst; right; left; left; reflexivity|].
      right; right. unfold pipe in *. cbn [m_deliv m_msgs m_pq m_nch]. rewrite H. unfold sset. cbn [sget].
      destruct (N.eqb n m) eqn:E2; [apply N.eqb_eq in E2; congruence|reflexivity].
  - (* MNotify *)
    destruct (existsb (N.eqb n) (m_dirty s)) eqn:Ed; [|exact Hc].
    cbn [m_items m_pinit m_dirty m_store]. intros h m Hl. unfold pipe. cbn [m_deliv m_msgs m_pq m_nch].
    destruct (N.eq_dec m n) as [E|E].
    + subst m. right; right. rewrite !app_assoc. rewrite lastv_app.
      rewrite (lastv_const h (notifs_for (m_items s) (m_store s) n) (sget (m_store s) n)); [reflexivity| |].
      * intros x Hx. apply (notifs_handle _ _ _ _ Hx).
      * exists (h, sget (m_store s) n). split; [apply notifs_has; apply lookup_in; exact Hl|reflexivity].
    + destruct (Hc _ _ Hl) as [H|[H|H]].
      * left; exact H.
      * right; left. apply in_filter_neq; assumption.
      * right; right. rewrite !app_assoc. rewrite lastv_app. rewrite lastv_none.
        -- unfold pipe in H. rewrite !app_assoc in H. exact H.
        -- intros x Hx Hfx. destruct (notifs_handle _ _ _ _ Hx) as [Hi _]. rewrite Hfx in Hi.
           rewrite (in_lookup _ _ _ Hf Hi) in Hl. congruence.
  - (* MAdd *)
    cbn [m_items m_pinit m_dirty m_store]. intros h m Hl. cbn [lookup] in Hl.
    destruct (N.eqb (m_next s + 1) h) eqn:E.
    + apply N.eqb_eq in E. left. left. exact E.
    + destruct (Hc _ _ Hl) as [H|[H|H]]; [left; right; exact H|right; left; exact H|right; right; exact H].
  - (* MInit *)
    destruct (existsb (N.eqb h) (m_pinit s)) eqn:Ed; [|exact Hc].
    cbn [m_items m_pinit m_dirty m_store]. intros k m Hl. unfold pipe. cbn [m_deliv m_msgs m_pq m_nch].
    destruct (lookup (m_items s) h) as [n|] eqn:Eh.
    + destruct (N.eq_dec m n) as [E|E].
      * subst m. right; right. rewrite !app_assoc. rewrite lastv_app.
        rewrite (lastv_const k (notifs_for (m_items s) (m_store s) n) (sget (m_store s) n)); [reflexivity| |].
        -- intros x Hx. apply (notifs_handle _ _ _ _ Hx).
        -- exists (k, sget (m_store s) n). split; [apply notifs_has; apply lookup_in; exact Hl|reflexivity].
      * destruct (Hc _ _ Hl) as [H|[H|H]].
        -- left. apply in_filter_neq; [exact H|]. intro; subst k. congruence.
        -- right; left; exact H.
        -- right; right. rewrite !app_assoc. rewrite lastv_app. rewrite lastv_none.
           ++ unfold pipe in H. rewrite !app_assoc in H. exact H.
           ++ intros x Hx Hfx. destruct (notifs_handle _ _ _ _ Hx) as [Hi _]. rewrite Hfx in Hi.
              rewrite (in_lookup _ _ _ Hf Hi) in Hl. congruence.
    + rewrite app_nil_r. destruct (Hc _ _ Hl) as [H|[H|H]].
      * left. apply in_filter_neq; [exact H|]. intro; subst k. congruence.
      * right; left; exact H.
      * right; right; exact H.
  - (* MRemove *)
    cbn [m_items m_pinit m_dirty m_store]. intros k m Hl. apply lookup_filter in Hl. destruct Hl as [_ Hl].
    destruct (Hc _ _ Hl) as [H|[H|H]]; [left; exact H|right; left; exact H|right; right; exact H].
  - (* MCollect *)
    destruct (m_nch s) as [|[h v] r] eqn:En; [exact Hc|].
    cbn [m_items m_pinit m_dirty m_store]. intros k m Hl. destruct (Hc _ _ Hl) as [H|[H|H]]; [left; exact H|right; left; exact H|].
    right; right. unfold pipe in *. cbn [m_deliv m_msgs m_pq m_nch]. rewrite En in H. rewrite <- H.
    apply lastv_collect.
  - (* MPublish *)
    destruct (m_pq s) as [|a q] eqn:Ep; [exact Hc|].
    cbn [m_items m_pinit m_dirty m_store]. intros k m Hl. destruct (Hc _ _ Hl) as [H|[H|H]]; [left; exact H|right; left; exact H|].
    right; right. unfold pipe in *. cbn [m_deliv m_msgs m_pq m_nch]. rewrite Ep in H. rewrite <- H.
    rewrite concat_app. cbn [concat]. rewrite app_nil_r. cbn [app]. rewrite <- !app_assoc. reflexivity.
  - (* MDeliver *)
    destruct (m_msgs s) as [|m r] eqn:Em; [exact Hc|].
    destruct (fold_left (deliver_one (m_items s)) m (m_deliv s, m_errs s)) as [d er] eqn:E.
    assert (Hd : d = m_deliv s ++ found (m_items s) m).
    { rewrite <- (deliver_fold (m_items s) m (m_deliv s) (m_errs s)). rewrite E. reflexivity. }
    cbn [m_items m_pinit m_dirty m_store]. intros k n Hl. destruct (Hc _ _ Hl) as [H|[H|H]]; [left; exact H|right; left; exact H|].
    right; right. unfold pipe in *. cbn [m_deliv m_msgs m_pq m_nch]. rewrite Em in H. rewrite <- H. subst d.
    cbn [concat]. unfold dv at 1. rewrite map_app. fold (dv (m_deliv s)). fold (dv (found (m_items s) m)).
    rewrite <- !app_assoc.
    rewrite (lastv_app k (dv (m_deliv s))). rewrite (lastv_app k (dv (m_deliv s)) (m ++ _)).
    rewrite (lastv_app k (dv (found (m_items s) m))). rewrite (lastv_app k m).
    rewrite (lastv_found _ m k n Hl). reflexivity.
Qed.

Lemma cinv_init : cinv minit.
Proof. intros h n H. discriminate. Qed.

Lemma run_invs : forall evs s, minv s -> fresh_items s -> cinv s -> forallb (fun e => negb (is_drop e)) evs = true ->
  let s' := fold_left mstep evs s in minv s' /\ fresh_items s' /\ cinv s'.
Proof.
  induction evs as [|e r IH]; intros s Hm Hf Hc Hd; cbn [fold_left]; [auto|].
  cbn [forallb] in Hd. apply andb_prop in Hd. destruct Hd as [He Hr].
  apply IH; [apply minv_step; exact Hm|apply items_nodup_step; assumption| |exact Hr].
  apply cinv_step; try assumption. destruct (is_drop e); [discriminate|reflexivity].
Qed.

(* once writes have stopped and everything in flight has been delivered, and the consumer never dropped a
   notification, the last DataChangeMessage of every monitored handle names its node and carries the node's current value *)
Theorem converges_without_drop : forall evs,
  forallb (fun e => negb (is_drop e)) evs = true -> quiescent (mrun evs) = true ->
  forall h n, lookup (m_items (mrun evs)) h = Some n ->
  last_delivered (mrun evs) h = Some (n, sget (m_store (mrun evs)) n).
Proof.
  intros evs Hd Hq h n Hl.
  destruct (run_invs evs minit minv_init (NoDup_nil _) cinv_init Hd) as [Hm [Hf Hc]].
  fold (mrun evs) in Hm, Hf, Hc. set (s := mrun evs) in *.
  unfold quiescent in Hq.
  destruct (m_dirty s) eqn:E1; [|discriminate]. destruct (m_pinit s) eqn:E2; [|discriminate].
  destruct (m_nch s) eqn:E3; [|discriminate]. destruct (m_pq s) eqn:E4; [|discriminate].
  destruct (m_msgs s) eqn:E5; [|discriminate].
  destruct (Hc _ _ Hl) as [H|[H|H]]; [rewrite E2 in H; destruct H|rewrite E1 in H; destruct H|].
  unfold pipe in H. rewrite E3, E4, E5 in H. cbn [concat app] in H. rewrite app_nil_r in H.
  rewrite lastd_dv in H. unfold last_delivered. destruct (lastd h (m_deliv s)) as [[n' v]|] eqn:El; [|discriminate].
  cbn in H. inversion H; subst v. f_equal. f_equal.
  apply lastd_in in El. pose proof (v_deliv s Hm _ _ _ El) as Hr1.
  pose proof (v_items s Hm _ _ (lookup_in _ _ _ Hl)) as Hr2.
  pose proof (in_lookup _ _ _ (v_nodup s Hm) Hr1) as L1. pose proof (in_lookup _ _ _ (v_nodup s Hm) Hr2) as L2. congruence.
Qed.
