(* E1 codec: the nesting budget is only a budget: if decoding with budget f does not run out of fuel, every larger
   budget gives the same result (value, rest, allocation).  So "decode reg d t bs <> OutOfFuel" reads "the nesting
   depth of the input is below d", and results stated for one sufficient budget hold for Go's unbounded recursion. *)
From Coq Require Import NArith ZArith List Bool Lia.
From Coq.Strings Require Import Byte.
From Opcua Require Import Model.CodecTypes Model.Codec.
Import ListNotations.
Open Scope Z_scope.

Definition lef {A} (d d' : dec A) : Prop := forall bs, d bs = OutOfFuel \/ d bs = d' bs.

Lemma lef_refl : forall A (d : dec A), lef d d.
Proof. intros A d bs. right. reflexivity. Qed.

Lemma lef_bind : forall A B (m m' : dec A) (f f' : A -> dec B),
  lef m m' -> (forall x, lef (f x) (f' x)) -> lef (bind m f) (bind m' f').
Proof.
  intros A B m m' f f' Hm Hf bs. unfold bind. destruct (Hm bs) as [E|E]; [rewrite E; left; reflexivity|].
  rewrite <- E. destruct (m bs) as [x r al|e al|al|]; try (right; reflexivity).
  destruct (Hf x r) as [E2|E2]; [rewrite E2; left; reflexivity|rewrite E2; right; reflexivity].
Qed.

Lemma lef_dec_n : forall A (d d' : dec A) n, lef d d' -> lef (dec_n d n) (dec_n d' n).
Proof.
  intros A d d' n H. induction n as [|n IH]; cbn [dec_n]; [apply lef_refl|].
  apply lef_bind; [exact H|]. intros x. apply lef_bind; [exact IH|]. intros r. apply lef_refl.
Qed.

Lemma lef_run_sub : forall A (d d' : dec A) body, lef d d' -> lef (run_sub d body) (run_sub d' body).
Proof.
  intros A d d' body H bs. unfold run_sub. destruct (H body) as [E|E]; [rewrite E; left; reflexivity|].
  rewrite E. right. reflexivity.
Qed.

Lemma lef_fields : forall (D D' : ty -> dec val) fs, Forall (fun t => lef (D t) (D' t)) fs ->
  lef (dec_fields (map D fs)) (dec_fields (map D' fs)).
Proof.
  intros D D' fs H. induction H as [|t r Ht _ IH]; cbn [map dec_fields]; [apply lef_refl|].
  apply lef_bind; [exact Ht|]. intros x. apply lef_bind; [exact IH|]. intros xs. apply lef_refl.
Qed.

Ltac lef_tac Hrec :=
  repeat first
    [ apply lef_refl
    | apply Hrec
    | apply lef_dec_n
    | apply lef_run_sub
    | apply lef_bind; [|intros ?]
    | match goal with
      | |- lef (if ?c then _ else _) (if ?c then _ else _) => destruct c
      | |- lef (match ?x with Some _ => _ | None => _ end) (match ?x with Some _ => _ | None => _ end) => destruct x
      | |- lef (let '(_, _) := ?p in _) _ => destruct p
      end ].

Section Rec.
  Variable reg : list (Z * Z * ty).
  Variables rec rec' : ty -> dec val.
  Hypothesis Hrec : forall t, lef (rec t) (rec' t).

  Lemma lef_custom : forall c, lef (dec_custom reg rec c) (dec_custom reg rec' c).
  Proof.
    intros c. destruct c; cbn [dec_custom];
      unfold dec_variant, dec_datavalue, dec_diag, dec_extobj, dec_builtin; lef_tac Hrec.
  Qed.
End Rec.

Section Main.
  Variable reg : list (Z * Z * ty).

  Theorem decode_fuel_step : forall f t, lef (decode reg f t) (decode reg (S f) t).
  Proof.
    induction f as [|f IHf]; intros t; [intros bs; left; reflexivity|].
    induction t using ty_ind'; try apply lef_refl.
    - (* slice *)
      change (decode reg (S f) (TSlice t)) with
        (dec_slice (match t with TPtr x => 8 + tsize x | TCustom _ => 8 | _ => tsize t end)%N (decode reg (S f) t)).
      change (decode reg (S (S f)) (TSlice t)) with
        (dec_slice (match t with TPtr x => 8 + tsize x | TCustom _ => 8 | _ => tsize t end)%N (decode reg (S (S f)) t)).
      unfold dec_slice. lef_tac IHt.
    - change (decode reg (S f) (TPtr t)) with (dec_ptr t (decode reg (S f) t)).
      change (decode reg (S (S f)) (TPtr t)) with (dec_ptr t (decode reg (S (S f)) t)).
      unfold dec_ptr. destruct t; lef_tac IHt.
    - change (decode reg (S f) (TStruct fs)) with (bind (dec_fields (map (decode reg (S f)) fs)) (fun vs => ret (VStruct vs))).
      change (decode reg (S (S f)) (TStruct fs)) with (bind (dec_fields (map (decode reg (S (S f))) fs)) (fun vs => ret (VStruct vs))).
      apply lef_bind; [apply lef_fields; exact H|intros vs; apply lef_refl].
    - change (decode reg (S f) (TCustom c)) with (dec_custom reg (decode reg f) c).
      change (decode reg (S (S f)) (TCustom c)) with (dec_custom reg (decode reg (S f)) c).
      apply lef_custom. exact IHf.
  Qed.

  Theorem decode_fuel_mono : forall k f t bs, decode reg f t bs <> OutOfFuel -> decode reg (f + k) t bs = decode reg f t bs.
  Proof.
    induction k as [|k IH]; intros f t bs H; [rewrite Nat.add_0_r; reflexivity|].
    replace (f + S k)%nat with (S f + k)%nat by lia.
    destruct (decode_fuel_step f t bs) as [E|E]; [contradiction|].
    rewrite IH; [symmetry; exact E|rewrite <- E; exact H].
  Qed.
End Main.
