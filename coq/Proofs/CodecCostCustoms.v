(* E1 codec, C02: allocation bounds of the eight hand-written decoders (see Proofs/CodecCost.v). *)
From Coq Require Import NArith ZArith List Bool Lia ZifyN ZifyNat ZifyBool.
From Coq.Strings Require Import Byte.
From Opcua Require Import Model.CodecTypes Model.Codec Model.CodecWf Proofs.CodecTotal Proofs.CodecCost.
Import ListNotations.
Open Scope N_scope.

Section Customs.
  Variable L : N.

  Ltac lenL := match goal with |- ln ?r <= L => unfold ln in *; lia end.

  (* one step of a chain: m has a bound that holds on every input *)
  Ltac step lem :=
    eapply bnd_at_bind; [apply lem; lenL|]; let x := fresh "x" in let r := fresh "r" in let al := fresh "al" in
    let E := fresh "E" in let Lr := fresh "Lr" in intros x r al E Lr.
  Ltac fin := apply (bnd_ret L); lenL.

  Lemma dec_guid_bnd : forall a e, bnd L a 32 e true dec_guid.
  Proof.
    intros a e. unfold bnd. intros bs HL. unfold dec_guid.
    eapply bnd_at_mono; [|apply N.le_refl| | |].
    - step (bnd_tick L a e 32). step (read_u_bnd L a e 4). step (read_u_bnd L a e 2). step (read_u_bnd L a e 2).
      step (read_n_bnd L a e 8). fin.
    - lia.
    - apply N.le_refl.
    - reflexivity.
  Qed.

  Lemma opt_bnd : forall A a e s (b : bool) (d : dec A) dflt, bnd L a 0 e s d -> bnd L a 0 e false (if b then d else ret dflt).
  Proof.
    intros A a e s b d dflt H. destruct b; [|apply bnd_ret].
    eapply bnd_mono; [exact H|apply N.le_refl|apply N.le_refl|apply N.le_refl|discriminate].
  Qed.

  Lemma dec_nodeid_bnd : forall a e, bnd L a 80 e true dec_nodeid.
  Proof.
    intros a e. unfold bnd. intros bs HL. unfold dec_nodeid.
    eapply bnd_at_mono; [|apply N.le_refl| |apply N.le_refl|].
    - step (bnd_tick L a e 48). step (read_byte_bnd L a e). cbv zeta.
      eapply bnd_at_mono with (a := a) (c := 32) (e := e) (s := false);
        [|apply N.le_refl|apply N.le_refl|apply N.le_refl|intros H; exact H].
      destruct (x0 mod 16 =? 0)%Z;
        [eapply bnd_at_mono; [step (read_byte_bnd L a e); fin|apply N.le_refl|lia|apply N.le_refl|discriminate]|].
      destruct (x0 mod 16 =? 1)%Z;
        [eapply bnd_at_mono; [step (read_byte_bnd L a e); step (read_u_bnd L a e 2); fin|apply N.le_refl|lia|apply N.le_refl|discriminate]|].
      destruct (x0 mod 16 =? 2)%Z;
        [eapply bnd_at_mono; [step (read_u_bnd L a e 2); step (read_u_bnd L a e 4); fin|apply N.le_refl|lia|apply N.le_refl|discriminate]|].
      destruct (x0 mod 16 =? 4)%Z;
        [eapply bnd_at_mono; [step (read_u_bnd L a e 2); step (dec_guid_bnd a e); fin|apply N.le_refl|lia|apply N.le_refl|discriminate]|].
      destruct ((x0 mod 16 =? 3)%Z || (x0 mod 16 =? 5)%Z);
        [eapply bnd_at_mono; [step (read_u_bnd L a e 2); step (read_bytes_bnd L a e); fin|apply N.le_refl|lia|apply N.le_refl|discriminate]|].
      unfold bnd_at, fail. lia.
    - lia.
    - reflexivity.
  Qed.

  Ltac mono_to c0 := eapply bnd_at_mono with (c := c0); [|apply N.le_refl| |apply N.le_refl|].

  Lemma dec_expnodeid_bnd : forall a e, 1 <= a -> bnd L a 112 e true dec_expnodeid.
  Proof.
    intros a e Ha. unfold bnd. intros bs HL. unfold dec_expnodeid.
    eapply bnd_at_mono; [|apply N.le_refl| |apply N.le_refl|].
    - step (bnd_tick L a e 32). step (dec_nodeid_bnd a e). cbv zeta.
      step (opt_bnd _ a e true (bit (nodeid_mask x0) 7) read_string [] (read_string_bnd L a e Ha)).
      step (opt_bnd _ a e true (bit (nodeid_mask x0) 6) (read_u 4) 0%Z (read_u_bnd L a e 4)). fin.
    - lia.
    - reflexivity.
  Qed.

  Lemma dec_loctext_bnd : forall a e, 1 <= a -> bnd L a 40 e true dec_loctext.
  Proof.
    intros a e Ha. unfold bnd. intros bs HL. unfold dec_loctext.
    eapply bnd_at_mono; [|apply N.le_refl| |apply N.le_refl|].
    - step (bnd_tick L a e 40). step (read_byte_bnd L a e).
      step (opt_bnd _ a e true (bit x0 0) read_string [] (read_string_bnd L a e Ha)).
      step (opt_bnd _ a e true (bit x0 1) read_string [] (read_string_bnd L a e Ha)). fin.
    - lia.
    - reflexivity.
  Qed.

  (* ------------------------------------------------------------------ the recursive ones *)
  Variable reg : list (Z * Z * ty).
  Variable rec : ty -> dec val.
  (* the decoder one nesting level down: rate ar, constant cr, slack er *)
  Variables ar cr er : N.
  Variable okt : ty -> Prop.
  Hypothesis Hrec : forall t, okt t -> bnd L ar cr er (Nat.leb 1 (minsize t)) (rec t).
  Hypothesis Har : 1 <= ar.

  Lemma dec_diag_bnd : okt (TCustom CDiagInfo) -> bnd L ar (48 + cr) er true (dec_diag rec).
  Proof.
    intros Hok. unfold bnd. intros bs HL. unfold dec_diag.
    eapply bnd_at_mono; [|apply N.le_refl| |apply N.le_refl|].
    - step (bnd_tick L ar er 48). step (read_byte_bnd L ar er).
      step (opt_bnd _ ar er true (bit x0 0) (read_i 4) 0%Z (read_i_bnd L ar er 4)).
      step (opt_bnd _ ar er true (bit x0 1) (read_i 4) 0%Z (read_i_bnd L ar er 4)).
      step (opt_bnd _ ar er true (bit x0 3) (read_i 4) 0%Z (read_i_bnd L ar er 4)).
      step (opt_bnd _ ar er true (bit x0 2) (read_i 4) 0%Z (read_i_bnd L ar er 4)).
      step (opt_bnd _ ar er true (bit x0 4) read_string [] (read_string_bnd L ar er Har)).
      step (opt_bnd _ ar er true (bit x0 5) (read_u 4) 0%Z (read_u_bnd L ar er 4)).
      eapply bnd_at_bind; [|intros x7 r7 al7 E7 Lr7; fin].
      instantiate (1 := false). instantiate (1 := cr).
      destruct (bit x0 6); [|eapply bnd_at_mono; [fin|apply N.le_refl|apply N.le_0_l|apply N.le_refl|auto]].
      eapply bnd_at_mono; [eapply bnd_at_bind; [apply (Hrec _ Hok); lenL|intros i ri ali Ei Lri; fin]|apply N.le_refl|lia|apply N.le_refl|discriminate].
    - lia.
    - reflexivity.
  Qed.

  Lemma dec_datavalue_bnd : okt (TCustom CVariant) -> bnd L ar (136 + cr) er true (dec_datavalue rec).
  Proof.
    intros Hok. unfold bnd. intros bs HL. unfold dec_datavalue.
    eapply bnd_at_mono; [|apply N.le_refl| |apply N.le_refl|].
    - step (bnd_tick L ar er 80). step (read_byte_bnd L ar er).
      eapply bnd_at_bind.
      { instantiate (1 := false). instantiate (1 := 56 + cr).
        destruct (bit x0 0).
        - eapply bnd_at_mono; [apply (Hrec _ Hok); lenL|apply N.le_refl|lia|apply N.le_refl|discriminate].
        - eapply bnd_at_mono; [step (bnd_tick L ar er 56); fin|apply N.le_refl|lia|apply N.le_refl|discriminate]. }
      intros v rv alv Ev Lrv.
      step (opt_bnd _ ar er true (bit x0 1) (read_u 4) 0%Z (read_u_bnd L ar er 4)).
      step (opt_bnd _ ar er true (bit x0 2) read_time None (read_time_bnd L ar er)).
      step (opt_bnd _ ar er true (bit x0 4) (read_u 2) 0%Z (read_u_bnd L ar er 2)).
      step (opt_bnd _ ar er true (bit x0 3) read_time None (read_time_bnd L ar er)).
      step (opt_bnd _ ar er true (bit x0 5) (read_u 2) 0%Z (read_u_bnd L ar er 2)). fin.
    - lia.
    - reflexivity.
  Qed.

  (* ------------------------------------------------------------------ Variant *)
  Lemma variant_elsize_le : forall tid, variant_elsize tid <= 88.
  Proof.
    intros tid. destruct tid as [|p|p]; try (vm_compute; discriminate).
    do 5 (destruct p as [p|p|]; try (vm_compute; discriminate)).
  Qed.
  Lemma variant_ty_min1 : forall tid, Nat.leb 1 (minsize (variant_ty tid)) = true.
  Proof.
    intros tid. destruct tid as [|p|p]; try reflexivity.
    do 5 (destruct p as [p|p|]; try reflexivity).
  Qed.

  Hypothesis Hvt : forall tid, okt (variant_ty tid).

  Lemma dec_builtin_bnd : forall tid, bnd L ar cr er true (dec_builtin rec tid).
  Proof.
    intros tid. unfold dec_builtin. destruct (tid =? 15)%Z.
    - unfold bnd. intros bs HL. eapply bnd_at_mono; [step (read_bytes_bnd L ar er); fin|apply N.le_refl|apply N.le_0_l|apply N.le_refl|reflexivity].
    - pose proof (Hrec _ (Hvt tid)) as H. rewrite variant_ty_min1 in H. exact H.
  Qed.

  Lemma dec_dim_bnd : forall a e, bnd L a 0 e true dec_dim.
  Proof.
    intros a e. unfold bnd. intros bs HL. unfold dec_dim.
    eapply bnd_at_mono; [step (read_i_bnd L a e 4)|apply N.le_refl|apply N.le_refl|apply N.le_refl|reflexivity].
    destruct (x <? 1)%Z; [unfold bnd_at, fail; lia|fin].
  Qed.

  Definition dims_dec (mask : Z) : dec (Z * list Z) :=
    if bit mask 6 then
      dl <- read_i 4 ;;
      if ((dl <? 0) || (max_variant_array_dimensions <? dl))%Z then fail EOther
      else r <- remaining ;;
           if (r / 4 <? dl)%Z then fail EEOF
           else tick (Z.to_N (4 * dl)) ;;;
                ds <- dec_n dec_dim (Z.to_nat dl) ;; ret (dl, ds)
    else ret (0%Z, []).

  Lemma dims_dec_bnd : forall a e mask, bnd L (a + 4) 0 e false (dims_dec mask).
  Proof.
    intros a e mask. unfold bnd. intros bs HL. unfold dims_dec. destruct (bit mask 6); [|fin].
    eapply bnd_at_mono; [|apply N.le_refl| |apply N.le_refl|discriminate]; [|shelve].
    step (read_i_bnd L (a + 4) e 4).
    destruct ((x <? 0) || (max_variant_array_dimensions <? x))%Z eqn:E0; [unfold bnd_at, fail; lia|].
    apply orb_false_iff in E0. destruct E0 as [E0 Emd]. apply Z.ltb_ge in E0, Emd.
    eapply bnd_at_bind; [apply (bnd_remaining L); lenL|]. intros rr r' al' E' _. inversion E'; subst rr r' al'. clear E'.
    destruct (blen r / 4 <? x)%Z eqn:E1; [unfold bnd_at, fail; lia|]. apply Z.ltb_ge in E1.
    assert (HLr : ln r <= L) by lenL.
    assert (Hdn : bnd L a 0 e false (bind (dec_n dec_dim (Z.to_nat x)) (fun ds => ret (x, ds)))).
    { apply (bnd_bind L _ _ a 0 0 e false false); [apply (dec_n_bnd L _ a e true); apply dec_dim_bnd|]. intros ds. apply bnd_ret. }
    eapply bnd_at_mono; [apply (bnd_upfront_at _ a e false 4 0 (Z.to_N (4 * x))); [apply (Hdn r HLr)| |]|lia|apply N.le_refl|lia|auto].
    - intros y ry aly Ey. pose proof (dec_n_ret_used L _ _ a 0 e dec_dim (Z.to_nat x) _ (dec_dim_bnd a e) r y ry aly HLr Ey) as Hu.
      unfold ln. lia.
    - unfold ln, blen in *. lia.
    - intros H; exact H.
    Unshelve. all: try exact false. all: try lia.
  Qed.

  (* what a successful dims_dec tells: the count is non-negative, four bytes were consumed per dimension, 4 * count <= L *)
  Lemma dims_dec_ok : forall mask bs dl ds r al, ln bs <= L -> dims_dec mask bs = Ok (dl, ds) r al ->
    (0 <= dl)%Z /\ Z.to_N dl <= ln bs - ln r /\ Z.to_N dl <= 32.
  Proof.
    intros mask bs dl ds r al HL E. unfold dims_dec in E. destruct (bit mask 6).
    2:{ inversion E; subst. cbn. split; [lia|split; [apply N.le_0_l|lia]]. }
    unfold bind at 1 in E. pose proof (read_i_bnd L 0 0 4 bs HL) as Hi. unfold bnd_at in Hi.
    destruct (read_i 4 bs) as [x r1 al1|? ?|?|] eqn:Ei; try discriminate. destruct Hi as [Li _]. cbn [sb Nat.leb] in Li.
    destruct ((x <? 0) || (max_variant_array_dimensions <? x))%Z eqn:E0; [cbn in E; discriminate|].
    apply orb_false_iff in E0. destruct E0 as [E0 Emd]. apply Z.ltb_ge in E0, Emd. unfold max_variant_array_dimensions in Emd.
    unfold bind at 1 in E. cbn [remaining] in E.
    destruct (blen r1 / 4 <? x)%Z eqn:E1; [cbn in E; discriminate|]. apply Z.ltb_ge in E1.
    unfold bind at 1 in E. cbn [tick] in E.
    destruct (bind (dec_n dec_dim (Z.to_nat x)) (fun ds => ret (x, ds)) r1) as [y ry aly|? ?|?|] eqn:Ey; cbn in E; try discriminate.
    assert (HL1 : ln r1 <= L) by lenL.
    pose proof (dec_n_ret_used L _ _ 0 0 0 dec_dim (Z.to_nat x) _ (dec_dim_bnd 0 0) r1 y ry aly HL1 Ey) as Hu.
    inversion E; subst. unfold bind in Ey. destruct (dec_n dec_dim (Z.to_nat x) r1); cbn in Ey; try discriminate.
    inversion Ey; subst. unfold ln, blen in *. split; [lia|]. split; lia.
  Qed.

  Definition vals_dec (tid alen : Z) : dec (option (list val)) :=
    if (alen =? -1)%Z then ret None
    else tick (Z.to_N alen * variant_elsize tid) ;;;
         l <- dec_n (dec_builtin rec tid) (Z.to_nat alen) ;; ret (Some l).

  Definition KV : N := 65535 * 88.

  Lemma vals_dec_bnd : forall tid alen bs, ln bs <= L -> (alen <= blen bs)%Z ->
    bnd_at (ar + cr + 88) 0 (er + cr) false (vals_dec tid alen) bs.
  Proof.
    intros tid alen bs HL Ha. unfold vals_dec. destruct (alen =? -1)%Z eqn:E1; [fin|]. apply Z.eqb_neq in E1.
    pose proof (bnd_absorb L _ ar cr er _ (dec_builtin_bnd tid)) as Hb.
    assert (Hdn : bnd L (ar + cr) 0 (er + cr) false (bind (dec_n (dec_builtin rec tid) (Z.to_nat alen)) (fun l => ret (Some l)))).
    { apply (bnd_bind L _ _ (ar + cr) 0 0 (er + cr) false false); [apply (dec_n_bnd L _ _ _ true); exact Hb|]. intros l. apply bnd_ret. }
    pose proof (variant_elsize_le tid) as Hve.
    eapply bnd_at_mono; [apply (bnd_upfront_at _ (ar + cr) (er + cr) false (variant_elsize tid) 0
                                  (Z.to_N alen * variant_elsize tid)); [apply (Hdn bs HL)| |]|lia|apply N.le_refl|lia|auto].
    - intros y ry aly Ey. pose proof (dec_n_ret_used L _ _ _ _ _ (dec_builtin rec tid) (Z.to_nat alen) _ Hb bs y ry aly HL Ey) as Hu.
      rewrite (N.mul_comm (Z.to_N alen)). apply N.mul_le_mono_l. unfold ln. lia.
    - rewrite N.add_0_r, (N.mul_comm (Z.to_N alen)). apply N.mul_le_mono_l. unfold ln, blen in *. lia.
  Qed.

  Lemma vals_dec_ok : forall tid alen bs vals r al, ln bs <= L -> vals_dec tid alen bs = Ok vals r al ->
    match vals with None => True | Some l => Z.to_N alen <= ln bs - ln r end.
  Proof.
    intros tid alen bs vals r al HL E. unfold vals_dec in E. destruct (alen =? -1)%Z; [inversion E; exact I|].
    unfold bind at 1 in E. cbn [tick] in E.
    destruct (bind (dec_n (dec_builtin rec tid) (Z.to_nat alen)) (fun l => ret (Some l)) bs) as [y ry aly|? ?|?|] eqn:Ey; cbn in E; try discriminate.
    pose proof (bnd_absorb L _ ar cr er _ (dec_builtin_bnd tid)) as Hb.
    pose proof (dec_n_ret_used L _ _ _ _ _ (dec_builtin rec tid) (Z.to_nat alen) _ Hb bs y ry aly HL Ey) as Hu.
    inversion E; subst. unfold bind in Ey. destruct (dec_n (dec_builtin rec tid) (Z.to_nat alen) bs); cbn in Ey; try discriminate.
    inversion Ey; subst. unfold ln. lia.
  Qed.

  Lemma dec_variant_bnd : bnd L (ar + cr + 956) (56 + cr) (er + cr) true (dec_variant rec).
  Proof.
    unfold bnd. intros bs HL. unfold dec_variant.
    set (A := ar + cr + 956). set (E := er + cr).
    eapply bnd_at_mono with (a := A) (e := E); [|apply N.le_refl| |apply N.le_refl|].
    - step (bnd_tick L A E 56). step (read_byte_bnd L A E). cbv zeta.
      eapply bnd_at_mono with (a := A) (c := cr) (e := E) (s := false);
        [|apply N.le_refl|apply N.le_refl|apply N.le_refl|intros H; exact H].
      destruct (x0 mod 64 =? 0)%Z; [eapply bnd_at_mono; [fin|apply N.le_refl|apply N.le_0_l|apply N.le_refl|auto]|].
      destruct (25 <? x0 mod 64)%Z; [unfold bnd_at, fail; lia|].
      destruct (negb (bit x0 7)).
      { eapply bnd_at_mono; [eapply bnd_at_bind; [apply (dec_builtin_bnd (x0 mod 64)); lenL|intros v rv alv Ev Lrv; fin]
                            |unfold A; lia|lia|unfold E; lia|discriminate]. }
      eapply bnd_at_mono with (c := 0 + (0 + (0 + 0))) (s := true || (false || (false || false))); [|apply N.le_refl|apply N.le_0_l|apply N.le_refl|auto].
      step (read_i_bnd L A E 4).
      destruct (max_variant_array_length <? x1)%Z eqn:Emax; [unfold bnd_at, fail; lia|]. apply Z.ltb_ge in Emax.
      destruct (x1 <? -1)%Z eqn:Emin; [unfold bnd_at, fail; lia|]. apply Z.ltb_ge in Emin.
      (* the array length is compared with the remaining bytes before anything is allocated *)
      eapply bnd_at_bind; [apply (bnd_remaining L); lenL|]. intros rem r1' al1' E1' _. inversion E1'; subst rem r1' al1'. clear E1'.
      destruct (blen r1 <? x1)%Z eqn:Erem; [unfold bnd_at, fail; lia|]. apply Z.ltb_ge in Erem.
      change (bnd_at A (0 + 0) E (false || false)
                (bind (vals_dec (x0 mod 64) x1) (fun vals => bind (dims_dec x0) (fun dd =>
                   let '(dl, ds) := dd in
                   if (0 <? dl)%Z && negb (match dims_product ds 1 with Some c => (c =? x1)%Z | None => false end) then fail EOther
                   else if (dl <? 2)%Z then ret (VVariant x0 x1 dl ds (Some (VSlice vals)))
                   else match vals with
                        | Some l => tick (24 * Z.to_N x1 * Z.to_N dl + 3 * Z.to_N dl * Z.to_N dl) ;;;
                                    ret (VVariant x0 x1 dl ds (Some (split (map Z.to_nat ds) l)))
                        | None => ret (VVariant x0 x1 dl ds (Some (split (map Z.to_nat ds) [])))
                        end))) r1).
      assert (HLr1 : ln r1 <= L) by lenL.
      (* elements: rate ar + cr + 88; then the continuation, whose constant is at most 768 per element byte (<= 32 dimensions) *)
      eapply bnd_at_mono; [apply (bnd_at_bind_post _ _ (ar + cr + 88 + 4 + 96) 768 0 0 E false false)|unfold A; lia|lia|apply N.le_refl|auto].
      + eapply bnd_at_mono; [apply (vals_dec_bnd (x0 mod 64) x1 r1 HLr1 Erem)|lia|apply N.le_refl|apply N.le_refl|auto].
      + intros vals rv alv Ev Lrv. pose proof (vals_dec_ok _ _ _ _ _ _ HLr1 Ev) as Hv.
        assert (HLrv : ln rv <= L) by lenL.
        set (cV := match vals with Some _ => 768 * Z.to_N x1 | None => 0 end).
        eapply bnd_at_mono with (c := cV + 0); [|apply N.le_refl| |apply N.le_refl|intros H; exact H].
        2:{ unfold cV. destruct vals; [|apply N.le_0_l]. rewrite N.add_0_r, N.add_0_r. apply N.mul_le_mono_l. exact Hv. }
        (* dimensions: rate + 4; then the reshaping: 3 d^2 <= 96 d for d <= 32 dimensions, 24 n d <= 768 n *)
        eapply bnd_at_mono; [apply (bnd_at_bind_post _ _ (ar + cr + 88 + 4) 96 0 cV E false false)|lia|lia|apply N.le_refl|auto].
        * eapply bnd_at_mono; [apply (dims_dec_bnd (ar + cr + 88) E x0 rv HLrv)|lia|apply N.le_refl|apply N.le_refl|auto].
        * intros [dl ds] rd ald Ed Lrd. destruct (dims_dec_ok _ _ _ _ _ _ HLrv Ed) as [Hdl0 [Hdlu HdlL]].
          assert (HLrd : ln rd <= L) by lenL.
          destruct ((0 <? dl)%Z && negb (match dims_product ds 1 with Some c => (c =? x1)%Z | None => false end));
            [unfold bnd_at, fail; lia|].
          destruct (dl <? 2)%Z; [eapply bnd_at_mono; [fin|apply N.le_refl|apply N.le_0_l|apply N.le_refl|auto]|].
          destruct vals as [l|]; [|eapply bnd_at_mono; [fin|apply N.le_refl|apply N.le_0_l|apply N.le_refl|auto]].
          eapply bnd_at_mono; [step (bnd_tick L (ar + cr + 88 + 4) E (24 * Z.to_N x1 * Z.to_N dl + 3 * Z.to_N dl * Z.to_N dl)); fin
                              |apply N.le_refl| |apply N.le_refl|auto].
          unfold cV. set (d := Z.to_N dl) in *. set (n := Z.to_N x1) in *. set (u := ln rv - ln rd) in *.
          assert (H1 : 24 * n * d <= 768 * n).
          { replace (24 * n * d) with (24 * d * n) by lia. apply N.mul_le_mono_r. lia. }
          assert (H2 : 3 * d * d <= 96 * u).
          { apply N.le_trans with (96 * d); [replace (3 * d * d) with (3 * d * d) by reflexivity; apply N.mul_le_mono_r; lia|].
            apply N.mul_le_mono_l. exact Hdlu. }
          lia.
    - lia.
    - reflexivity.
  Qed.

  (* ------------------------------------------------------------------ ExtensionObject *)
  Hypothesis Hxml : okt xml_body_ty.
  Hypothesis Hlk : forall tid t, lookup_expnodeid reg tid = Some t -> okt (TPtr t).

  Lemma run_sub_bnd_at : forall a bt body r, okt bt -> ln body <= L ->
    bnd_at a (ar * ln body + cr) er false (run_sub (rec bt) body) r.
  Proof.
    intros a bt body r Hok Hb. pose proof (Hrec bt Hok body Hb) as H. unfold bnd_at in *. unfold run_sub.
    destruct (rec bt body) as [x r' al|err al|al|]; try exact I.
    - destruct H as [H1 H2]. split; [cbn [sb]; lia|]. rewrite N.sub_diag, N.mul_0_r, N.add_0_l.
      pose proof (N.mul_le_mono_l (ln body - ln r') (ln body) ar ltac:(lia)). lia.
    - pose proof (N.le_0_l (a * ln r)). lia.
    - pose proof (N.le_0_l (a * ln r)). lia.
  Qed.

  Lemma dec_extobj_bnd : bnd L (ar + 1) (145 + cr) er true (dec_extobj reg rec).
  Proof.
    unfold bnd. intros bs HL. unfold dec_extobj.
    eapply bnd_at_mono with (a := ar + 1) (e := er); [|apply N.le_refl| |apply N.le_refl|].
    - step (bnd_tick L (ar + 1) er 32). step (dec_expnodeid_bnd (ar + 1) er ltac:(lia)). step (read_byte_bnd L (ar + 1) er).
      eapply bnd_at_mono with (c := cr) (s := false); [|apply N.le_refl|apply N.le_refl|apply N.le_refl|intros H; exact H].
      destruct (x1 =? 0)%Z; [eapply bnd_at_mono; [fin|apply N.le_refl|apply N.le_0_l|apply N.le_refl|auto]|].
      eapply bnd_at_mono with (c := 0 + cr) (s := true || false); [|apply N.le_refl|lia|apply N.le_refl|auto].
      step (read_u_bnd L (ar + 1) er 4).
      destruct ((x2 =? 0)%Z || (x2 =? null32)%Z); [eapply bnd_at_mono; [fin|apply N.le_refl|apply N.le_0_l|apply N.le_refl|auto]|].
      assert (HLr2 : ln r2 <= L) by lenL.
      (* the body: what decoding it allocates is charged to the bytes of the body *)
      eapply bnd_at_mono; [apply (bnd_at_bind_post _ _ 1 ar 0 cr er (1 <=? x2)%Z false)|lia|lia|apply N.le_refl|auto].
      + apply (read_n_bnd L 1 er x2 r2 HLr2).
      + intros body rb alb Eb Lrb.
        assert (Hbody : ln r2 - ln rb = ln body /\ ln body <= L).
        { unfold read_n in Eb. destruct (x2 <? 0)%Z; [discriminate|]. destruct (blen r2 <? x2)%Z eqn:El; [discriminate|].
          inversion Eb; subst. apply Z.ltb_ge in El. unfold ln, blen in *. rewrite firstn_length, skipn_length. split; lia. }
        destruct Hbody as [Hu Hb]. rewrite Hu.
        assert (Hsub : forall bt, okt bt ->
                  bnd_at 1 (ar * ln body + cr) er false
                    (bind (run_sub (rec bt) body) (fun v => ret (VExtObj x1 (Some x0) (Some v)))) rb).
        { intros bt Hok. eapply bnd_at_mono; [eapply bnd_at_bind; [apply (run_sub_bnd_at 1 bt body rb Hok Hb)|intros v rv alv Ev Lrv; fin]
                                            |apply N.le_refl|lia|apply N.le_refl|auto]. }
        destruct (x1 =? 2)%Z; [apply Hsub; exact Hxml|].
        destruct (lookup_expnodeid reg x0) as [t|] eqn:Elk; [apply Hsub; apply (Hlk x0 t Elk)|].
        eapply bnd_at_mono; [fin|apply N.le_refl|apply N.le_0_l|apply N.le_refl|auto].
      + discriminate.
    - lia.
    - reflexivity.
  Qed.
End Customs.
