(* E1 codec: a value decoded with f nesting levels left has nesting depth at most f (so it can be decoded again under the
   same limit: ua.MaxNestingLevel bounds the depth of everything the decoder returns). *)
From Coq Require Import NArith ZArith List Bool Lia.
From Coq.Strings Require Import Byte.
From Opcua Require Import Model.CodecTypes Model.Codec Model.CodecWf Model.CodecWfAll Proofs.CodecBase Proofs.CodecRoundtrip
  Proofs.CodecRT Proofs.CodecSplit Proofs.CodecCustomsA Proofs.CodecCustomsB Proofs.CodecCustomsC Proofs.CodecCustomsD
  Proofs.CodecRoundtripAll Proofs.CodecDecWf.
Import ListNotations.
Open Scope Z_scope.

Lemma ldepth_le : forall l d, Forall (fun x => (vdepth x <= d)%nat) l -> (ldepth l <= d)%nat.
Proof.
  intros l d H. induction H as [|x r Hx _ IH]; cbn [ldepth fold_right]; [lia|]. fold (ldepth r). lia.
Qed.

Lemma Forall_firstn' : forall A (P : A -> Prop) n l, Forall P l -> Forall P (firstn n l).
Proof. intros A P n. induction n as [|n IH]; intros l H; [constructor|]. destruct H; cbn [firstn]; [constructor|constructor; auto]. Qed.
Lemma Forall_skipn' : forall A (P : A -> Prop) n l, Forall P l -> Forall P (skipn n l).
Proof. intros A P n. induction n as [|n IH]; intros l H; [exact H|]. destruct H; cbn [skipn]; [constructor|auto]. Qed.

Lemma chunks_Forall : forall (P : val -> Prop) k s l, Forall P l -> Forall (Forall P) (chunks k s l).
Proof.
  intros P k s. induction k as [|k IH]; intros l H; cbn [chunks]; [constructor|].
  constructor; [apply Forall_firstn'; exact H|apply IH; apply Forall_skipn'; exact H].
Qed.

Lemma vdepth_split : forall dims l d, Forall (fun x => (vdepth x <= d)%nat) l -> (vdepth (split dims l) <= d)%nat.
Proof.
  induction dims as [|d0 ds IH]; intros l d H; [cbn [split]; rewrite vdepth_slice; apply ldepth_le; exact H|].
  destruct ds as [|d1 ds'].
  - rewrite split_one. rewrite vdepth_slice. apply ldepth_le. exact H.
  - rewrite split_cons2. rewrite vdepth_slice. apply ldepth_le.
    pose proof (chunks_Forall _ d0 (length l / d0) l H) as Hc.
    apply Forall_forall. intros y Hy. apply in_map_iff in Hy. destruct Hy as [c [<- Hin]].
    rewrite Forall_forall in Hc. apply IH. apply Hc. exact Hin.
Qed.

Lemma vdepth_variant : forall m a dl ds p, vdepth (VVariant m a dl ds (Some p)) = S (vdepth p).
Proof. reflexivity. Qed.

Definition Dp (d : nat) (v : val) : Prop := (vdepth v <= d)%nat.

Section Customs.
  Variable reg : list (Z * Z * ty).
  Variable rec : ty -> dec val.
  Variable fl : nat.
  Hypothesis Hrec : forall t, post (Dp fl) (rec t).

  Lemma depth_builtin : forall tid, post (Dp fl) (dec_builtin rec tid).
  Proof.
    intros tid. unfold dec_builtin. destruct (tid =? 15); [|apply Hrec].
    eapply post_bind; [apply post_read_bytes|]. intros b _. apply post_ret. unfold Dp. cbn. lia.
  Qed.

  Lemma depth_variant : post (Dp (S fl)) (dec_variant rec).
  Proof.
    unfold dec_variant. apply post_tick_bind. eapply post_bind; [apply post_read_byte|]. intros mask _. cbv zeta.
    destruct (mask mod 64 =? 0); [apply post_ret; unfold Dp; cbn; lia|].
    destruct (25 <? mask mod 64); [apply post_fail|].
    destruct (negb (bit mask 7)).
    { eapply post_bind; [apply depth_builtin|]. intros v Hv. apply post_ret. unfold Dp in *. rewrite vdepth_variant. lia. }
    eapply post_bind; [apply (post_read_i 4); lia|]. intros alen _.
    destruct (max_variant_array_length <? alen); [apply post_fail|].
    destruct (alen <? -1); [apply post_fail|].
    eapply post_bind; [apply post_remaining|]. intros rem _. destruct (rem <? alen); [apply post_fail|].
    eapply post_bind.
    { instantiate (1 := fun vals => match vals with None => True | Some l => Forall (Dp fl) l end).
      destruct (alen =? -1); [apply post_ret; exact I|]. apply post_tick_bind.
      eapply post_bind; [apply post_dec_n; apply depth_builtin|]. intros l [HF _]. apply post_ret. exact HF. }
    intros vals Hvals.
    eapply post_bind; [apply (post_variant_dims mask)|]. intros [dl ds] _. cbv beta iota.
    destruct ((0 <? dl) && negb (match dims_product ds 1 with Some c => c =? alen | None => false end)); [apply post_fail|].
    destruct (dl <? 2).
    - apply post_ret. unfold Dp. rewrite vdepth_variant. destruct vals as [l|]; [|cbn; lia].
      rewrite vdepth_slice. pose proof (ldepth_le l fl Hvals). lia.
    - destruct vals as [l|].
      + apply post_tick_bind. apply post_ret. unfold Dp. rewrite vdepth_variant. pose proof (vdepth_split (map Z.to_nat ds) l fl Hvals). lia.
      + apply post_ret. unfold Dp. rewrite vdepth_variant. pose proof (vdepth_split (map Z.to_nat ds) [] fl ltac:(constructor)). lia.
  Qed.

  Lemma depth_datavalue : post (Dp (S fl)) (dec_datavalue rec).
  Proof.
    unfold dec_datavalue. apply post_tick_bind. eapply post_bind; [apply post_read_byte|]. intros mask _.
    eapply post_bind.
    { instantiate (1 := fun v => bit mask 0 = true -> Dp fl v).
      destruct (bit mask 0); [eapply post_weaken; [apply Hrec|auto]|]. apply post_tick_bind. apply post_ret. discriminate. }
    intros v Hv.
    eapply post_bind; [eapply post_optf; apply (post_read_uok 4)|]. intros status _.
    eapply post_bind; [eapply post_optf; apply post_read_time|]. intros st _.
    eapply post_bind; [eapply post_optf; apply (post_read_uok 2)|]. intros sp _.
    eapply post_bind; [eapply post_optf; apply post_read_time|]. intros svt _.
    eapply post_bind; [eapply post_optf; apply (post_read_uok 2)|]. intros svp _.
    apply post_ret. unfold Dp in *. cbn [vdepth]. destruct (bit mask 0); [specialize (Hv eq_refl)|]; lia.
  Qed.

  Lemma depth_diag : post (Dp (S fl)) (dec_diag rec).
  Proof.
    unfold dec_diag. apply post_tick_bind. eapply post_bind; [apply post_read_byte|]. intros mask _.
    eapply post_bind; [eapply post_optf; apply (post_read_iok 4); lia|]. intros sym _.
    eapply post_bind; [eapply post_optf; apply (post_read_iok 4); lia|]. intros ns _.
    eapply post_bind; [eapply post_optf; apply (post_read_iok 4); lia|]. intros loc _.
    eapply post_bind; [eapply post_optf; apply (post_read_iok 4); lia|]. intros lt _.
    eapply post_bind; [eapply post_optf; apply post_read_string|]. intros info _.
    eapply post_bind; [eapply post_optf; apply (post_read_uok 4)|]. intros st _.
    eapply post_bind.
    { instantiate (1 := fun o => match o with Some i => Dp fl i | None => True end).
      destruct (bit mask 6); [|apply post_ret; exact I].
      eapply post_bind; [apply Hrec|]. intros i Hi. apply post_ret. exact Hi. }
    intros inner Hi. apply post_ret. unfold Dp in *. cbn [vdepth]. destruct (bit mask 6); [|lia]. destruct inner; lia.
  Qed.

  Lemma depth_extobj : post (Dp (S fl)) (dec_extobj reg rec).
  Proof.
    unfold dec_extobj. apply post_tick_bind. eapply post_bind; [apply post_expnodeid|]. intros tid _.
    eapply post_bind; [apply post_read_byte|]. intros mask _.
    assert (Hnone : Dp (S fl) (VExtObj mask (Some tid) None)).
    { unfold Dp. cbn [vdepth]. destruct (mask =? 0); lia. }
    destruct (mask =? 0) eqn:E0; [apply post_ret; exact Hnone|].
    eapply post_bind; [apply (post_read_u 4)|]. intros len _.
    destruct ((len =? 0) || (len =? null32)); [apply post_ret; exact Hnone|].
    eapply post_bind; [apply post_read_n|]. intros body [Hb Hr].
    assert (Hsmall : small body) by (unfold small; lia).
    assert (Hsome : forall bt, post (Dp (S fl)) (bind (run_sub (rec bt) body) (fun v => ret (VExtObj mask (Some tid) (Some v))))).
    { intros bt. eapply post_bind; [apply post_run_sub; [exact Hsmall|apply Hrec]|]. intros v Hv. apply post_ret.
      unfold Dp in *. cbn [vdepth]. rewrite E0. lia. }
    destruct (mask =? 2); [apply Hsome|]. destruct (lookup_expnodeid reg tid); [apply Hsome|apply post_ret; exact Hnone].
  Qed.
End Customs.

Section Main.
  Variable reg : list (Z * Z * ty).

  Lemma depth_fields : forall F (D : ty -> dec val) fs, Forall (fun t => post (Dp F) (D t)) fs ->
    post (fun vs => Forall (Dp F) vs) (dec_fields (map D fs)).
  Proof.
    intros F D fs H. induction H as [|t r Ht _ IH]; cbn [map dec_fields]; [apply post_ret; constructor|].
    eapply post_bind; [exact Ht|]. intros x Hx. eapply post_bind; [exact IH|]. intros xs Hxs. apply post_ret. constructor; assumption.
  Qed.

  Lemma level_depth : forall rec allow F, (forall c, post (Dp F) (level_custom reg rec allow c)) ->
    forall t, post (Dp F) (dec_level reg rec allow t).
  Proof.
    intros rec allow F Hcust t. induction t using ty_ind'; cbn [dec_level].
    - eapply post_bind; [apply post_read_byte|]. intros b _. apply post_ret. unfold Dp. cbn. lia.
    - unfold read_i, read_u. destruct s;
        (eapply post_bind; [eapply (post_bind _ _ _ (fun _ => True)); [apply post_read_n|intros d _; apply post_ret; exact I]
                           |intros z _; apply post_ret; unfold Dp; cbn; lia]).
    - eapply post_bind; [apply (post_read_u w)|]. intros z _. apply post_ret. unfold Dp. cbn. lia.
    - eapply post_bind; [apply post_read_string|]. intros z _. apply post_ret. unfold Dp. cbn. lia.
    - eapply post_bind; [apply post_read_time|]. intros z _. apply post_ret. unfold Dp. cbn. lia.
    - unfold dec_bytes. eapply post_bind; [apply (post_read_u 4)|]. intros n _.
      destruct (n =? null32); [apply post_ret; unfold Dp; cbn; lia|]. destruct (max_int32 <? n); [apply post_fail|].
      eapply post_bind; [apply post_remaining|]. intros r _. destruct (r <? n); [apply post_fail|].
      eapply post_bind; [apply post_read_n|]. intros d _. apply post_ret. unfold Dp. cbn. lia.
    - unfold dec_slice. eapply post_bind; [apply (post_read_u 4)|]. intros n _.
      destruct (n =? null32); [apply post_ret; unfold Dp; cbn; lia|]. destruct (max_int32 <? n); [apply post_fail|].
      eapply post_bind; [apply post_remaining|]. intros r _. destruct (r <? n); [apply post_fail|].
      apply post_tick_bind. eapply post_bind; [apply post_dec_n; exact IHt|]. intros l [HF _]. apply post_ret.
      unfold Dp. rewrite vdepth_slice. apply ldepth_le. exact HF.
    - unfold dec_ptr. destruct t; try apply post_panic;
        (apply post_tick_bind; eapply post_bind; [exact IHt|]; intros v Hv; apply post_ret; unfold Dp in *; cbn [vdepth]; exact Hv).
    - eapply post_bind; [apply depth_fields; exact H|]. intros vs Hvs. apply post_ret. unfold Dp. rewrite vdepth_struct.
      apply ldepth_le. exact Hvs.
    - exact (Hcust c).
  Qed.

  Lemma customs_depth : forall rec fl, (forall t, post (Dp fl) (rec t)) -> forall c, post (Dp (S fl)) (dec_custom reg rec c).
  Proof.
    intros rec fl Hrec c. destruct c; cbn [dec_custom].
    - apply depth_variant. exact Hrec.
    - apply depth_datavalue. exact Hrec.
    - apply depth_diag. exact Hrec.
    - eapply post_weaken; [apply post_loctext|]. intros v Hv. destruct v; try discriminate. unfold Dp. cbn. lia.
    - eapply post_weaken; [apply post_nodeid|]. intros v [Hv _]. destruct v; try discriminate. unfold Dp. cbn. lia.
    - eapply post_weaken; [apply post_expnodeid|]. intros v [Hv _]. destruct v; try discriminate. unfold Dp. cbn. lia.
    - apply depth_extobj. exact Hrec.
    - eapply post_weaken; [apply post_guid|]. intros v Hv. destruct v; try discriminate. unfold Dp. cbn. lia.
  Qed.

  (* the four decoders that are not nested return values of depth 0, whatever rec is *)
  Lemma flat_customs_depth : forall rec c, nested c = false -> post (Dp 0) (dec_custom reg rec c).
  Proof.
    intros rec c Hc. destruct c; try discriminate; cbn [dec_custom].
    - eapply post_weaken; [apply post_loctext|]. intros v Hv. destruct v; try discriminate. unfold Dp. cbn. lia.
    - eapply post_weaken; [apply post_nodeid|]. intros v [Hv _]. destruct v; try discriminate. unfold Dp. cbn. lia.
    - eapply post_weaken; [apply post_expnodeid|]. intros v [Hv _]. destruct v; try discriminate. unfold Dp. cbn. lia.
    - eapply post_weaken; [apply post_guid|]. intros v Hv. destruct v; try discriminate. unfold Dp. cbn. lia.
  Qed.

  Theorem decode_depth : forall fuel t, post (Dp fuel) (decode reg fuel t).
  Proof.
    induction fuel as [|f IHf]; intros t; cbn [decode].
    - apply level_depth. intros c. unfold level_custom. destruct (nested c) eqn:En; cbn [andb negb].
      + apply post_tick_bind. apply post_fail.
      + apply flat_customs_depth. exact En.
    - apply level_depth. intros c. unfold level_custom. rewrite andb_false_r. apply customs_depth. exact IHf.
  Qed.
End Main.
