From Coq Require Import NArith ZArith List Bool Lia FinFun.
From Opcua Require Import Model.RecvBase Model.RecvCrypto Model.RecvMerge Model.RecvChan Model.RecvFrame
  Proofs.RecvBaseProofs Proofs.RecvCryptoProofs Proofs.RecvMergeProofs Proofs.RecvChanProofs.
Import ListNotations.
Open Scope Z_scope.

Section FrameProofs.
  Variable uri_none : bytes -> bool.
  Variable cert_class : bytes -> N.
  Variable asym_for : bytes -> bytes -> option algo.

  Lemma vd_with_no_panic st a h b :
    chunk_decode b = Some h ->
    algo_ok a ->
    forall p, vd_with true st a h b <> Panic p.
  Proof.
    intros Hd Ha p. unfold vd_with.
    destruct ((match f_mode st with SNone => true | _ => false end) && (f_pnone st || negb (h_asym h))) eqn:E; [discriminate|].
    destruct a as [al|]; [|discriminate]. cbn in Ha.
    apply vd_no_panic; [exact Ha|]. apply chunk_decode_len in Hd. pose proof (zlen_nonneg (h_data h)). lia.
  Qed.

  Lemma try_insts_no_panic st l h b last :
    chunk_decode b = Some h -> (forall a, In a l -> algo_ok a) -> (forall p, last <> Panic p) ->
    forall p, try_insts true st l h b last <> Panic p.
  Proof.
    intros Hd. revert last. induction l as [|a l IH]; intros last Hl Hlast p; cbn [try_insts]; [apply Hlast|].
    destruct (vd_with true st a h b) as [d|e|q] eqn:E; [discriminate| |].
    - apply IH; [intros; apply Hl; now right | discriminate].
    - exfalso. apply (vd_with_no_panic st a h b Hd (Hl a (or_introl eq_refl)) q E).
  Qed.

  Lemma finish_no_panic (h : chunk_hdr) st' (r : res bytes) p :
    (forall q, r <> Panic q) -> snd (finish h st' r) <> Panic p.
  Proof.
    intros Hr. unfold finish. destruct r as [d|e|q]; cbn [bind]; [|discriminate|exfalso; now apply (Hr q)].
    unfold seq_decode. destruct (read_u32 d) as [[s r1]|]; [|discriminate].
    destruct (read_u32 r1) as [[q r2]|]; [|discriminate]. destruct (seq_ok (f_last st') s); discriminate.
  Qed.

  Lemma finish_state h st' r : fst (finish h st' r) = st' \/ exists n, fst (finish h st' r) = with_last st' n.
  Proof.
    unfold finish. destruct (bind r seq_decode) as [[[s q] rest]|e|p]; [|now left|now left].
    destruct (seq_ok (f_last st') s); [right; eexists; reflexivity|now left].
  Qed.

  (* readChunk never panics, whatever the frame, in every state whose algorithms are in place *)
  Theorem read_frame_no_panic st b p :
    state_ok asym_for st -> snd (read_frame uri_none cert_class asym_for true st b) <> Panic p.
  Proof.
    intros (Hcap & Hinst & Hopen & Hasym). unfold read_frame.
    destruct (Z.ltb_spec (f_cap st) 12); [lia|].
    destruct (chunk_decode b) as [h|] eqn:Hd; [|discriminate].
    destruct (bytes_eqb (h_type h) MT_OPN).
    - destruct (f_opening st) as [oa|] eqn:Eo; [|discriminate].
      destruct (asym_fields b) as [[uri cert]|]; [|discriminate].
      destruct (uri_none uri) eqn:Eu.
      + apply finish_no_panic. intros q.
        apply vd_with_no_panic; [exact Hd|]. now apply Hopen.
      + destruct (cert_class cert =? 0)%N; [discriminate|]. destruct (cert_class cert =? 1)%N; [discriminate|].
        destruct (asym_for uri cert) as [al|] eqn:Ea; [|discriminate].
        apply finish_no_panic. intros q. apply vd_with_no_panic; [exact Hd|]. cbn. now apply Hasym with uri cert.
    - destruct (bytes_eqb (h_type h) MT_CLO); [discriminate|].
      destruct (rev (find_insts st (h_chan h))) as [|a l] eqn:El; [discriminate|].
      apply finish_no_panic. intros q. apply try_insts_no_panic; [exact Hd| |discriminate].
      intros a' Hin. rewrite <- El in Hin. apply in_rev in Hin.
      unfold find_insts in Hin. destruct (find (fun kv => (fst kv =? h_chan h)%N) (f_insts st)) as [[c l']|] eqn:Ef; [|destruct Hin].
      apply find_some in Ef. destruct Ef as [Ef _]. now apply (Hinst c l' a').
  Qed.

  (* states stay ok: readChunk only replaces the opening instance's algorithm by one the oracle returned *)
  Lemma state_ok_with_last st n : state_ok asym_for st -> state_ok asym_for (with_last st n).
  Proof. intros (H1 & H2 & H3 & H4). repeat split; assumption. Qed.

  Lemma finish_state_ok h st' r : state_ok asym_for st' -> state_ok asym_for (fst (finish h st' r)).
  Proof. intros H. destruct (finish_state h st' r) as [->|[n ->]]; [exact H|now apply state_ok_with_last]. Qed.

  Theorem read_frame_state_ok st b : state_ok asym_for st -> state_ok asym_for (fst (read_frame uri_none cert_class asym_for true st b)).
  Proof.
    intros Hok. pose proof Hok as (Hcap & Hinst & Hopen & Hasym). unfold read_frame.
    destruct (f_cap st <? 12); [exact Hok|].
    destruct (chunk_decode b) as [h|]; [|exact Hok].
    destruct (bytes_eqb (h_type h) MT_OPN).
    - destruct (f_opening st) as [oa|] eqn:Eo; [|exact Hok].
      destruct (asym_fields b) as [[uri cert]|]; [|exact Hok].
      destruct (uri_none uri) eqn:Eu.
      + apply finish_state_ok. repeat split; cbn [f_cap f_insts f_opening f_mode]; assumption.
      + destruct (cert_class cert =? 0)%N; [cbn [fst]; repeat split; cbn [f_cap f_insts f_opening f_mode]; assumption|].
        destruct (cert_class cert =? 1)%N; [cbn [fst]; repeat split; cbn [f_cap f_insts f_opening f_mode]; assumption|].
        destruct (asym_for uri cert) as [al|] eqn:Ea.
        * apply finish_state_ok. repeat split; cbn [f_cap f_insts f_opening f_mode]; try assumption.
          intros oa' [= <-]. cbn. now apply Hasym with uri cert.
        * cbn [fst]. repeat split; cbn [f_cap f_insts f_opening f_mode]; assumption.
    - destruct (bytes_eqb (h_type h) MT_CLO); [exact Hok|].
      destruct (rev (find_insts st (h_chan h))); [exact Hok|]. now apply finish_state_ok.
  Qed.
End FrameProofs.

(* ---- memory held by the chunk table ---- *)
Open Scope N_scope.
Definition per_id_bounded (mc : N) (t : ctable) : Prop := forall r, nlen (cget t r) <= mc.

Lemma recv_step_per_id mc ms t c : 0 < mc -> mc < 4294967295 -> per_id_bounded mc t -> per_id_bounded mc (fst (recv_step mc ms t c)).
Proof.
  intros Hpos Hmc H r. unfold recv_step.
  destruct (ck_type c =? CT_A); cbn [fst].
  - rewrite cget_tdel. destruct (r =? ck_req c); [change (nlen (@nil chunk)) with 0; lia | apply H].
  - destruct (ck_type c =? CT_C).
    + destruct (over mc (nlen (cget t (ck_req c) ++ [c]) mod 4294967296)) eqn:E; cbn [fst].
      * rewrite cget_tdel. destruct (r =? ck_req c); [change (nlen (@nil chunk)) with 0; lia | apply H].
      * rewrite cget_tset. destruct (N.eqb_spec r (ck_req c)) as [->|]; [|apply H].
        unfold over in E. pose proof (H (ck_req c)) as Hb. rewrite nlen_app in *. change (nlen [c]) with 1 in *.
        rewrite N.mod_small in E by lia.
        destruct (N.ltb_spec 0 mc); [|lia]. destruct (N.ltb_spec mc (nlen (cget t (ck_req c)) + 1)); [discriminate|lia].
    + destruct (over ms (blen (merge (cget t (ck_req c) ++ [c])) mod 4294967296)); cbn [fst];
        rewrite cget_tdel; (destruct (r =? ck_req c); [change (nlen (@nil chunk)) with 0; lia | apply H]).
Qed.

Lemma recv_all_per_id mc ms cs : forall t, 0 < mc -> mc < 4294967295 -> per_id_bounded mc t -> per_id_bounded mc (fst (recv_all mc ms t cs)).
Proof.
  induction cs as [|c cs IH]; intros t Hpos Hmc H; [exact H|].
  cbn [recv_all]. pose proof (recv_step_per_id mc ms t c Hpos Hmc H) as H1.
  destruct (recv_step mc ms t c) as [t1 o]. cbn [fst] in H1. specialize (IH t1 Hpos Hmc H1).
  destruct (recv_all mc ms t1 cs) as [t2 os]. exact IH.
Qed.

(* the number of request ids in the table is not bounded by any negotiated limit *)
Definition flood (n : nat) : list chunk := map (fun i => Build_chunk CT_C (N.of_nat i + 1) (N.of_nat i) [0]) (seq 0 n).

Lemma recv_step_other mc ms t c r : r <> ck_req c -> cget (fst (recv_step mc ms t c)) r = cget t r.
Proof.
  intros Hne. unfold recv_step.
  destruct (ck_type c =? CT_A); cbn [fst]; [rewrite cget_tdel; destruct (N.eqb_spec r (ck_req c)); [contradiction|reflexivity]|].
  destruct (ck_type c =? CT_C).
  - destruct (over mc (nlen (cget t (ck_req c) ++ [c]) mod 4294967296)); cbn [fst];
      [rewrite cget_tdel | rewrite cget_tset]; destruct (N.eqb_spec r (ck_req c)); try contradiction; reflexivity.
  - destruct (over ms (blen (merge (cget t (ck_req c) ++ [c])) mod 4294967296)); cbn [fst];
      rewrite cget_tdel; destruct (N.eqb_spec r (ck_req c)); try contradiction; reflexivity.
Qed.

Lemma recv_all_other mc ms cs : forall t r, ~ In r (map ck_req cs) -> cget (fst (recv_all mc ms t cs)) r = cget t r.
Proof.
  induction cs as [|c cs IH]; intros t r Hn; [reflexivity|].
  cbn [recv_all]. pose proof (recv_step_other mc ms t c r) as H1.
  destruct (recv_step mc ms t c) as [t1 o]. cbn [fst] in H1.
  specialize (IH t1 r). destruct (recv_all mc ms t1 cs) as [t2 os]. cbn [fst] in *.
  rewrite IH by (intro; apply Hn; now right). apply H1. intro; apply Hn; now left.
Qed.

Lemma flood_retained mc ms cs : 0 < mc -> forall t,
  NoDup (map ck_req cs) -> (forall c, In c cs -> ck_type c = CT_C /\ cget t (ck_req c) = []) ->
  forall c, In c cs -> cget (fst (recv_all mc ms t cs)) (ck_req c) = [c].
Proof.
  intros Hpos. induction cs as [|c0 cs IH]; intros t Hnd Hc c Hin; [destruct Hin|].
  cbn [map] in Hnd. inversion Hnd as [|x xs Hnotin Hnd']; subst.
  destruct (Hc c0 (or_introl eq_refl)) as [Ht0 He0].
  assert (Hstep : fst (recv_step mc ms t c0) = tset t (ck_req c0) [c0]).
  { unfold recv_step. rewrite Ht0. change (CT_C =? CT_A) with false. change (CT_C =? CT_C) with true. cbn iota.
    rewrite He0. cbn [app]. change (nlen [c0]) with 1. change (1 mod 4294967296) with 1.
    unfold over. destruct (N.ltb_spec 0 mc); [|lia]. destruct (N.ltb_spec mc 1); [lia|]. reflexivity. }
  cbn [recv_all]. destruct (recv_step mc ms t c0) as [t1 o]. cbn [fst] in Hstep. subst t1.
  pose proof (recv_all_other mc ms cs (tset t (ck_req c0) [c0])) as Hoth.
  specialize (IH (tset t (ck_req c0) [c0]) Hnd').
  destruct (recv_all mc ms (tset t (ck_req c0) [c0]) cs) as [t2 os]. cbn [fst] in *.
  destruct Hin as [<-|Hin].
  - rewrite Hoth by exact Hnotin. rewrite cget_tset, N.eqb_refl. reflexivity.
  - apply IH; [|exact Hin]. intros c' Hin'. destruct (Hc c' (or_intror Hin')) as [H1 H2]. split; [exact H1|].
    rewrite cget_tset. destruct (N.eqb_spec (ck_req c') (ck_req c0)) as [Heq|]; [|exact H2].
    exfalso. apply Hnotin. rewrite <- Heq. now apply in_map.
Qed.

Lemma flood_reqs n : map ck_req (flood n) = map N.of_nat (seq 0 n).
Proof. unfold flood. rewrite map_map. reflexivity. Qed.

Lemma flood_nodup n : NoDup (map ck_req (flood n)).
Proof.
  rewrite flood_reqs. apply Injective_map_NoDup; [intros a b H; lia | apply seq_NoDup].
Qed.

(* ---- on a secured channel nothing is handed on unverified, whatever the (unauthenticated) OPN header says ---- *)
Open Scope Z_scope.
Section Secured.
  Variable uri_none : bytes -> bool.
  Variable cert_class : bytes -> N.
  Variable asym_for : bytes -> bytes -> option algo.

  Definition verified_by (st : fstate) (pn : bool) (al : algo) (h : chunk_hdr) (b d : bytes) : Prop :=
    verify_decrypt (a_dec al) (a_verify al) (a_rsl al) (a_lsl al) (f_mode st) pn true (h_asym h) (h_len h) (h_data h) b = Ok d.

  Lemma vd_with_secured st a h b d :
    f_mode st <> SNone -> vd_with true st a h b = Ok d -> exists al, a = Some al /\ verified_by st (f_pnone st) al h b d.
  Proof.
    intros Hm. unfold vd_with. destruct (f_mode st) eqn:E; [contradiction| |]; cbn [andb];
      (destruct a as [al|]; [|discriminate]; intros H; exists al; split; [reflexivity|]; unfold verified_by; now rewrite E).
  Qed.

  Lemma try_insts_ok st l h b last d :
    (forall x, last <> Ok x) -> try_insts true st l h b last = Ok d -> exists a, In a l /\ vd_with true st a h b = Ok d.
  Proof.
    revert last. induction l as [|a l IH]; intros last Hlast; cbn [try_insts]; [intros H; exfalso; now apply (Hlast d)|].
    destruct (vd_with true st a h b) as [x|e|p] eqn:E.
    - intros [= <-]. exists a. split; [now left|exact E].
    - intros H. destruct (IH (Err e) ltac:(discriminate) H) as (a' & H1 & H2). exists a'. split; [now right|exact H2].
    - discriminate.
  Qed.

  Lemma finish_ok (h : chunk_hdr) st' (r : res bytes) c : snd (finish h st' r) = Ok c -> exists d, r = Ok d.
  Proof.
    unfold finish. destruct r as [d|e|p]; cbn [bind]; [eauto|discriminate|discriminate].
  Qed.

  (* what is handed on passed the sequence check against the channel's remembered number *)
  Lemma finish_seq h st' r c : snd (finish h st' r) = Ok c ->
    seq_ok (f_last st') (ck_seq c) = true /\ f_last (fst (finish h st' r)) = Some (ck_seq c).
  Proof.
    unfold finish. destruct (bind r seq_decode) as [[[s q] rest]|e|p]; [|discriminate|discriminate].
    destruct (seq_ok (f_last st') s) eqn:E; [|discriminate]. cbn [snd fst]. intros [= <-]. cbn. auto.
  Qed.

  (* where the verifying algorithm comes from *)
  Definition candidate (st : fstate) (b : bytes) (al : algo) : Prop :=
    (exists c l, In (c, l) (f_insts st) /\ In (Some al) l) \/ f_opening st = Some (Some al) \/ (exists u ce, asym_for u ce = Some al).

  Theorem read_frame_secured st b c :
    f_mode st <> SNone -> snd (read_frame uri_none cert_class asym_for true st b) = Ok c ->
    exists h al pn d, chunk_decode b = Some h /\ candidate st b al /\ verified_by st pn al h b d.
  Proof.
    intros Hm. unfold read_frame.
    destruct (f_cap st <? 12); [discriminate|].
    destruct (chunk_decode b) as [h|] eqn:Hd; [|discriminate].
    destruct (bytes_eqb (h_type h) MT_OPN).
    - destruct (f_opening st) as [oa|] eqn:Eo; [|discriminate].
      destruct (asym_fields b) as [[uri cert]|]; [|discriminate].
      destruct (uri_none uri) eqn:Eu.
      + intros H. apply finish_ok in H. destruct H as [d H].
        apply vd_with_secured in H; [|exact Hm]. destruct H as (al & -> & Hv).
        exists h, al, true, d. split; [reflexivity|]. split; [right; left; exact Eo | exact Hv].
      + destruct (cert_class cert =? 0)%N; [discriminate|]. destruct (cert_class cert =? 1)%N; [discriminate|].
        destruct (asym_for uri cert) as [al|] eqn:Ea; [|discriminate].
        intros H. apply finish_ok in H. destruct H as [d H].
        apply vd_with_secured in H; [|exact Hm]. destruct H as (al' & [= <-] & Hv).
        exists h, al, false, d. split; [reflexivity|]. split; [right; right; eauto | exact Hv].
    - destruct (bytes_eqb (h_type h) MT_CLO); [discriminate|].
      destruct (rev (find_insts st (h_chan h))) as [|a0 l0] eqn:El; [discriminate|].
      intros H. apply finish_ok in H. destruct H as [d H].
      apply try_insts_ok in H; [|discriminate]. destruct H as (a & Hin & H).
      apply vd_with_secured in H; [|exact Hm]. destruct H as (al & -> & Hv).
      exists h, al, (f_pnone st), d. split; [reflexivity|]. split; [|exact Hv].
      left. rewrite <- El in Hin. apply in_rev in Hin. unfold find_insts in Hin.
      destruct (find (fun kv => (fst kv =? h_chan h)%N) (f_insts st)) as [[c0 l']|] eqn:Ef; [|destruct Hin].
      apply find_some in Ef. destruct Ef as [Ef _]. exists c0, l'. auto.
  Qed.

  (* readChunk never changes the channel's mode *)
  Lemma finish_mode h st' r : f_mode (fst (finish h st' r)) = f_mode st'.
  Proof. destruct (finish_state h st' r) as [->|[n ->]]; reflexivity. Qed.

  Lemma read_frame_mode st b : f_mode (fst (read_frame uri_none cert_class asym_for true st b)) = f_mode st.
  Proof.
    unfold read_frame. destruct (f_cap st <? 12); [reflexivity|]. destruct (chunk_decode b) as [h|]; [|reflexivity].
    destruct (bytes_eqb (h_type h) MT_OPN).
    - destruct (f_opening st); [|reflexivity]. destruct (asym_fields b) as [[uri cert]|]; [|reflexivity].
      destruct (uri_none uri); [now rewrite finish_mode|]. destruct (cert_class cert =? 0)%N; [reflexivity|]. destruct (cert_class cert =? 1)%N; [reflexivity|].
      destruct (asym_for uri cert); [now rewrite finish_mode|reflexivity].
    - destruct (bytes_eqb (h_type h) MT_CLO); [reflexivity|]. destruct (rev (find_insts st (h_chan h))); [reflexivity|now rewrite finish_mode].
  Qed.
End Secured.

(* ---- the sequence check at frame level ---- *)
Section FrameSeq.
  Variable uri_none : bytes -> bool.
  Variable cert_class : bytes -> N.
  Variable asym_for : bytes -> bytes -> option algo.

  Definition seq_post (last : option N) (x : fstate * res chunk) : Prop :=
    match snd x with
    | Ok c => seq_ok last (ck_seq c) = true /\ f_last (fst x) = Some (ck_seq c)
    | _ => f_last (fst x) = last
    end.

  Lemma finish_seq_post h st' r : seq_post (f_last st') (finish h st' r).
  Proof.
    unfold seq_post, finish. destruct (bind r seq_decode) as [[[s q] rest]|e|p]; cbn [snd fst]; try reflexivity.
    destruct (seq_ok (f_last st') s) eqn:E; cbn [snd fst]; [|reflexivity]. cbn. auto.
  Qed.

  Lemma read_frame_seq_post g st b : seq_post (f_last st) (read_frame uri_none cert_class asym_for g st b).
  Proof.
    unfold read_frame. destruct (f_cap st <? 12); [reflexivity|]. destruct (chunk_decode b) as [h|]; [|reflexivity].
    destruct (bytes_eqb (h_type h) MT_OPN).
    - destruct (f_opening st); [|reflexivity]. destruct (asym_fields b) as [[uri cert]|]; [|reflexivity].
      destruct (uri_none uri); [exact (finish_seq_post _ _ _)|].
      destruct (cert_class cert =? 0)%N; [reflexivity|]. destruct (cert_class cert =? 1)%N; [reflexivity|].
      destruct (asym_for uri cert) as [al|]; [|reflexivity].
      exact (finish_seq_post _ _ _).
    - destruct (bytes_eqb (h_type h) MT_CLO); [reflexivity|]. destruct (rev (find_insts st (h_chan h))); [reflexivity|].
      exact (finish_seq_post _ _ _).
  Qed.

  Fixpoint frame_seqs (st : fstate) (bs : list bytes) : list N :=
    match bs with
    | [] => []
    | b :: r => let x := read_frame uri_none cert_class asym_for true st b in
                match snd x with Ok c => ck_seq c :: frame_seqs (fst x) r | _ => frame_seqs (fst x) r end
    end.

  Lemma frame_seqs_incr bs : forall st, incr_from (f_last st) (frame_seqs st bs).
  Proof.
    induction bs as [|b r IH]; intros st; cbn [frame_seqs]; [exact I|].
    pose proof (read_frame_seq_post true st b) as H. unfold seq_post in H.
    destruct (snd (read_frame uri_none cert_class asym_for true st b)) as [c|e|p].
    - destruct H as [H1 H2]. cbn [incr_from]. split; [exact H1|]. rewrite <- H2. apply IH.
    - rewrite <- H. apply IH.
    - rewrite <- H. apply IH.
  Qed.
End FrameSeq.
