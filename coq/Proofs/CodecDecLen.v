(* E1 codec, C03: the re-encoding of a decoded value is never longer than the bytes the decoder consumed, and a decoded
   value that carries no empty-struct extension object body satisfies the FULL well-formedness rwf (the condition
   on the size of re-encoded extension object bodies included).  Second pass over the decoder, on top of decode_wf. *)
From Coq Require Import NArith ZArith List Bool Lia.
From Coq.Strings Require Import Byte.
From Opcua Require Import Model.CodecTypes Model.Codec Model.CodecWf Model.CodecWfAll Proofs.CodecBase Proofs.CodecRoundtrip
  Proofs.CodecRT Proofs.CodecSplit Proofs.CodecCustomsA Proofs.CodecCustomsB Proofs.CodecCustomsC Proofs.CodecCustomsD
  Proofs.CodecRoundtripAll Proofs.CodecDecWf.
Import ListNotations.
Open Scope Z_scope.

(* the encoder outcome, if it is a success, has at most n bytes *)
Definition elen (e : eres) (n : nat) : Prop := match e with EOk b => (length b <= n)%nat | _ => True end.

Lemma elen_eapp : forall a b n1 n2, elen a n1 -> elen b n2 -> elen (eapp a b) (n1 + n2).
Proof. intros [x| | |] [y| | |] n1 n2 H1 H2; cbn in *; try exact I. rewrite app_length. lia. Qed.
Lemma elen_mono : forall e n m, elen e n -> (n <= m)%nat -> elen e m.
Proof. intros [x| | |] n m H Hm; cbn in *; try exact I. lia. Qed.
Lemma elen_nil : forall n, elen (EOk []) n.
Proof. intros n. cbn. lia. Qed.
Lemma elen_le : forall w z n, (w <= n)%nat -> elen (EOk (le w z)) n.
Proof. intros w z n H. cbn. rewrite le_length. exact H. Qed.
Lemma elen_if : forall (b : bool) e n w, (b = true -> n = w) -> elen e w -> elen (if b then e else EOk []) n.
Proof. intros [|] e n w H He; [rewrite (H eq_refl); exact He|apply elen_nil]. Qed.
Lemma elen_if' : forall (b : bool) e n, (b = true -> elen e n) -> elen (if b then e else EOk []) n.
Proof. intros [|] e n H; [apply H; reflexivity|apply elen_nil]. Qed.

(* postcondition with the number of bytes consumed *)
Definition postn {A} (P : A -> nat -> Prop) (d : dec A) : Prop :=
  forall bs x rest al, small bs -> d bs = Ok x rest al ->
    (length rest <= length bs)%nat /\ P x (length bs - length rest)%nat.

Lemma postn_ret : forall A (P : A -> nat -> Prop) a, P a 0%nat -> postn P (ret a).
Proof. intros A P a H bs x rest al _ E. inversion E; subst. split; [lia|]. rewrite Nat.sub_diag. exact H. Qed.
Lemma postn_fail : forall A (P : A -> nat -> Prop) e, postn P (fail e).
Proof. intros A P e bs x rest al _ E. discriminate. Qed.
Lemma postn_panic : forall A (P : A -> nat -> Prop), postn P panic.
Proof. intros A P bs x rest al _ E. discriminate. Qed.
Lemma postn_weaken : forall A (P Q : A -> nat -> Prop) d, postn P d -> (forall x n, P x n -> Q x n) -> postn Q d.
Proof. intros A P Q d H HPQ bs x rest al Hs E. destruct (H bs x rest al Hs E). split; auto. Qed.

Lemma postn_bind : forall A B (P : A -> nat -> Prop) (Q : B -> nat -> Prop) (m : dec A) (f : A -> dec B),
  postn P m -> (forall a n1, P a n1 -> postn (fun b n2 => Q b (n1 + n2)%nat) (f a)) -> postn Q (bind m f).
Proof.
  intros A B P Q m f Hm Hf bs x rest al Hs E. unfold bind in E.
  destruct (m bs) as [a r1 al1|e al1|al1|] eqn:Em; try discriminate.
  destruct (Hm bs a r1 al1 Hs Em) as [L1 Pa]. apply add_al_ok in E. destruct E as [al' E].
  assert (Hs1 : small r1) by (unfold small, blen in *; lia).
  destruct (Hf a _ Pa r1 x rest al' Hs1 E) as [L2 Qx]. split; [lia|].
  replace (length bs - length rest)%nat with ((length bs - length r1) + (length r1 - length rest))%nat by lia. exact Qx.
Qed.

(* use what the first pass proved about the same decoder *)
Lemma postn_use : forall A (P : A -> Prop) (Q : A -> nat -> Prop) d,
  post P d -> postn (fun x n => P x -> Q x n) d -> postn Q d.
Proof.
  intros A P Q d H1 H2 bs x rest al Hs E. destruct (H1 bs x rest al Hs E) as [Px _].
  destruct (H2 bs x rest al Hs E) as [L Q']. split; [exact L|apply Q'; exact Px].
Qed.
Lemma postn_of_post : forall A (P : A -> Prop) d, post P d -> postn (fun x _ => P x) d.
Proof. intros A P d H bs x rest al Hs E. destruct (H bs x rest al Hs E). split; assumption. Qed.
Lemma postn_and : forall A (P Q : A -> nat -> Prop) d, postn P d -> postn Q d -> postn (fun x n => P x n /\ Q x n) d.
Proof.
  intros A P Q d H1 H2 bs x rest al Hs E. destruct (H1 bs x rest al Hs E) as [L Px]. destruct (H2 bs x rest al Hs E) as [_ Qx].
  split; [exact L|split; assumption].
Qed.

Lemma postn_tick_bind : forall A (Q : A -> nat -> Prop) k (d : dec A), postn Q d -> postn Q (bind (tick k) (fun _ => d)).
Proof.
  intros A Q k d H. eapply postn_bind with (P := fun _ n => n = 0%nat).
  - intros bs x rest al _ E. inversion E; subst. split; [lia|lia].
  - intros _ n1 ->. cbn [plus]. exact H.
Qed.

Lemma postn_remaining : postn (fun _ n => n = 0%nat) remaining.
Proof. intros bs x rest al _ E. inversion E; subst. split; lia. Qed.

Lemma postn_if : forall A (P : A -> nat -> Prop) (b : bool) (x y : dec A), postn P x -> postn P y -> postn P (if b then x else y).
Proof. intros A P [|] x y Hx Hy; assumption. Qed.

Lemma postn_opt : forall A (P : A -> nat -> Prop) (b : bool) (d : dec A) dflt, postn P d ->
  postn (fun z n => b = true -> P z n) (if b then d else ret dflt).
Proof.
  intros A P b d dflt H. destruct b.
  - eapply postn_weaken; [exact H|]. auto.
  - apply postn_ret. discriminate.
Qed.

Lemma postn_read_n : forall k, postn (fun d n => blen d = k /\ n = length d) (read_n k).
Proof.
  intros k bs x rest al Hs E. unfold read_n in E. destruct (k <? 0) eqn:E0; [discriminate|].
  destruct (blen bs <? k) eqn:E1; [discriminate|]. inversion E; subst. apply Z.ltb_ge in E0, E1.
  unfold blen in *. rewrite firstn_length, skipn_length. split; [lia|]. split; lia.
Qed.

Lemma postn_read_u : forall w, postn (fun _ n => n = w) (read_u w).
Proof.
  intros w. unfold read_u. eapply postn_bind; [apply postn_read_n|]. intros d n1 [Hd Hn]. apply postn_ret.
  unfold blen in Hd. lia.
Qed.
Lemma postn_read_i : forall w, postn (fun _ n => n = w) (read_i w).
Proof.
  intros w. unfold read_i. eapply postn_bind; [apply postn_read_n|]. intros d n1 [Hd Hn]. apply postn_ret.
  unfold blen in Hd. lia.
Qed.

Lemma postn_read_bytes : postn (fun o n => elen (enc_bytestring o) n) read_bytes.
Proof.
  unfold read_bytes. eapply postn_bind; [apply (postn_read_u 4)|]. intros k n1 ->.
  destruct ((k =? 0) || (k =? null32)); [apply postn_ret; apply (elen_le 4 null32); lia|].
  eapply postn_bind; [apply postn_read_n|]. intros d n2 [_ ->]. apply postn_ret.
  unfold enc_bytestring. destruct (max_int32 <? blen d); [exact I|]. rewrite eapp_EOk. apply elen_eapp; [apply elen_le; lia|cbn; lia].
Qed.

Lemma enc_string_bytestring : forall d n, elen (enc_bytestring (Some d)) n -> (4 <= n)%nat -> elen (enc_string d) n.
Proof.
  intros d n H H4. unfold enc_string, enc_bytestring in *. destruct d; [apply (elen_le 4 null32); exact H4|exact H].
Qed.

Lemma postn_read_string : postn (fun s n => elen (enc_string s) n) read_string.
Proof.
  unfold read_string.
  assert (HB4 : postn (fun (_ : option bytes) n => (4 <= n)%nat) read_bytes).
  { unfold read_bytes.
    eapply postn_bind; [apply (postn_read_u 4)|]. intros k n1 ->.
    destruct ((k =? 0) || (k =? null32)); [apply postn_ret; lia|].
    eapply postn_bind; [apply postn_read_n|]. intros d n2 _. apply postn_ret. lia. }
  eapply postn_bind; [apply (postn_and _ _ _ _ postn_read_bytes HB4)|].
  intros o n1 [He H4]. destruct o as [d|].
  - apply postn_tick_bind. apply postn_ret. rewrite Nat.add_0_r. apply enc_string_bytestring; assumption.
  - apply postn_ret. apply (elen_le 4 null32). lia.
Qed.

Lemma postn_read_time : postn (fun t n => elen (enc_time t) n) read_time.
Proof.
  unfold read_time. eapply postn_bind; [apply postn_read_n|]. intros d n1 [Hd ->]. cbv zeta.
  assert (Hl : length d = 8%nat) by (unfold blen in Hd; lia).
  destruct (unle d =? 0); [apply postn_ret; unfold enc_time; apply elen_le; lia|].
  destruct ((to_signed 8 (unle d) - time_offset) * 100 =? zero_time_ns); apply postn_ret; unfold enc_time; apply elen_le; lia.
Qed.

Ltac elen_calc := cbn [elen eapp]; repeat (progress (rewrite ?app_length, ?le_length; cbn [length])); lia.

Lemma postn_guid : postn (fun g n => elen (enc_guid g) n) dec_guid.
Proof.
  unfold dec_guid. apply postn_tick_bind.
  eapply postn_bind; [apply (postn_read_u 4)|]. intros d1 n1 ->.
  eapply postn_bind; [apply (postn_read_u 2)|]. intros d2 n2 ->.
  eapply postn_bind; [apply (postn_read_u 2)|]. intros d3 n3 ->.
  eapply postn_bind; [apply postn_read_n|]. intros d4 n4 [_ ->]. apply postn_ret. unfold enc_guid. elen_calc.
Qed.

Lemma postn_nodeid : postn (fun v n => elen (enc_nodeid v) n) dec_nodeid.
Proof.
  unfold dec_nodeid. apply postn_tick_bind. eapply postn_bind; [apply (postn_read_u 1)|]. intros mask n0 ->. cbv zeta.
  unfold enc_nodeid.
  destruct (mask mod 16 =? 0) eqn:E0; [|destruct (mask mod 16 =? 1) eqn:E1; [|destruct (mask mod 16 =? 2) eqn:E2;
    [|destruct (mask mod 16 =? 4) eqn:E4; [|destruct ((mask mod 16 =? 3) || (mask mod 16 =? 5)) eqn:E35; [|apply postn_fail]]]]].
  - eapply postn_bind; [apply (postn_read_u 1)|]. intros nid n1 ->. apply postn_ret. rewrite E0. elen_calc.
  - eapply postn_bind; [apply (postn_read_u 1)|]. intros ns n1 ->. eapply postn_bind; [apply (postn_read_u 2)|]. intros nid n2 ->.
    apply postn_ret. rewrite E0, E1. elen_calc.
  - eapply postn_bind; [apply (postn_read_u 2)|]. intros ns n1 ->. eapply postn_bind; [apply (postn_read_u 4)|]. intros nid n2 ->.
    apply postn_ret. rewrite E0, E1, E2. elen_calc.
  - eapply postn_bind; [apply (postn_read_u 2)|]. intros ns n1 ->. eapply postn_bind; [apply postn_guid|]. intros g n2 Hg.
    apply postn_ret. rewrite E0, E1, E2, E4. apply (elen_eapp _ _ 1 (2 + (n2 + 0))); [elen_calc|].
    apply elen_eapp; [elen_calc|]. eapply elen_mono; [exact Hg|lia].
  - eapply postn_bind; [apply (postn_read_u 2)|]. intros ns n1 ->. eapply postn_bind; [apply postn_read_bytes|]. intros b n2 Hb.
    apply postn_ret. rewrite E0, E1, E2, E4, E35. apply (elen_eapp _ _ 1 (2 + (n2 + 0))); [elen_calc|].
    apply elen_eapp; [elen_calc|]. eapply elen_mono; [exact Hb|lia].
Qed.

Lemma postn_expnodeid : postn (fun v n => elen (enc_expnodeid v) n) dec_expnodeid.
Proof.
  unfold dec_expnodeid. apply postn_tick_bind. eapply postn_bind; [apply postn_nodeid|]. intros nd n0 Hn. cbv zeta.
  eapply postn_bind; [eapply postn_opt; apply postn_read_string|]. intros uri n1 Hu.
  eapply postn_bind; [eapply postn_opt; apply (postn_read_u 4)|]. intros srv n2 Hs. apply postn_ret.
  cbn [enc_expnodeid]. apply elen_eapp; [exact Hn|]. apply elen_eapp; [apply elen_if'; exact Hu|].
  cbv beta in Hs. apply elen_if'. intros Hb. apply elen_le. rewrite (Hs Hb). lia.
Qed.

Lemma postn_loctext : postn (fun v n => elen (enc_loctext v) n) dec_loctext.
Proof.
  unfold dec_loctext. apply postn_tick_bind. eapply postn_bind; [apply (postn_read_u 1)|]. intros mask n0 ->.
  eapply postn_bind; [eapply postn_opt; apply postn_read_string|]. intros l n1 Hl.
  eapply postn_bind; [eapply postn_opt; apply postn_read_string|]. intros t n2 Ht. apply postn_ret.
  cbn [enc_loctext]. apply elen_eapp; [elen_calc|]. apply elen_eapp; [apply elen_if'; exact Hl|].
  eapply elen_mono; [apply elen_if'; exact Ht|lia].
Qed.

(* ------------------------------------------------------------------ the second-pass invariant *)
Definition K (reg : list (Z * Z * ty)) (t : ty) (v : val) (n : nat) : Prop :=
  elen (encode reg t v) n /\ (noempty v = true -> rwf reg t v = true).

Lemma noempty_diag : forall m a b c d i s inner,
  noempty (VDiag m a b c d i s inner) = match inner with None => true | Some x => noempty x end.
Proof. reflexivity. Qed.
Lemma noempty_datavalue : forall m x s st sp svt svp,
  noempty (VDataValue m x s st sp svt svp) = match x with None => true | Some y => noempty y end.
Proof. reflexivity. Qed.
Lemma noempty_variant : forall m a dl ds p, noempty (VVariant m a dl ds p) = match p with None => true | Some y => noempty y end.
Proof. reflexivity. Qed.
Lemma noempty_extobj : forall m t b,
  noempty (VExtObj m t b) = match b with None => true | Some x => negb (is_empty_body x) && noempty x end.
Proof. reflexivity. Qed.
Lemma noempty_slice : forall l, noempty (VSlice (Some l)) = forallb noempty l.
Proof.
  intros l. change (noempty (VSlice (Some l))) with
    ((fix go (l : list val) : bool := match l with [] => true | x :: r => noempty x && go r end) l).
  induction l as [|x r IH]; [reflexivity|]. cbn [forallb]. rewrite <- IH. reflexivity.
Qed.
Lemma noempty_struct : forall l, noempty (VStruct l) = forallb noempty l.
Proof.
  intros l. change (noempty (VStruct l)) with
    ((fix go (l : list val) : bool := match l with [] => true | x :: r => noempty x && go r end) l).
  induction l as [|x r IH]; [reflexivity|]. cbn [forallb]. rewrite <- IH. reflexivity.
Qed.
Lemma noempty_leaves : forall p, noempty p = true -> Forall (fun x => noempty x = true) (leaves p).
Proof.
  induction p using val_ind'; intros Hg; try (cbn [leaves]; constructor; [exact Hg|constructor]).
  - constructor.
  - rewrite leaves_slice. rewrite noempty_slice in Hg.
    induction H as [|x r Hx _ IH]; [constructor|]. cbn [forallb] in Hg. apply andb_true in Hg. destruct Hg as [G1 G2].
    cbn [flat_map]. apply Forall_app. split; [apply Hx; exact G1|apply IH; exact G2].
Qed.

(* rwf0 of a node + rwf of its children = rwf of the node *)
Lemma upgrade_diag : forall reg m sym ns locale loctext info status inner,
  rwf0 reg (TCustom CDiagInfo) (VDiag m sym ns locale loctext info status inner) = true ->
  (forall i, inner = Some i -> bit m 6 = true -> rwf reg (TCustom CDiagInfo) i = true) ->
  rwf reg (TCustom CDiagInfo) (VDiag m sym ns locale loctext info status inner) = true.
Proof.
  intros reg m sym ns locale loctext info status inner H0 Hi. rewrite rwf0_diag in H0. rewrite rwf_diag.
  apply andb_true in H0. destruct H0 as [H0 H6]. rewrite H0. cbn [andb].
  destruct (bit m 6); [|reflexivity]. cbn [imp] in *. destruct inner as [i|]; [|discriminate]. apply Hi; reflexivity.
Qed.

Lemma upgrade_datavalue : forall reg m value status st sp svt svp,
  rwf0 reg (TCustom CDataValue) (VDataValue m value status st sp svt svp) = true ->
  (forall x, value = Some x -> bit m 0 = true -> rwf reg (TCustom CVariant) x = true) ->
  rwf reg (TCustom CDataValue) (VDataValue m value status st sp svt svp) = true.
Proof.
  intros reg m value status st sp svt svp H0 Hv. rewrite rwf0_datavalue in H0. rewrite rwf_datavalue.
  apply andb_true in H0. destruct H0 as [H0 C5]. apply andb_true in H0. destruct H0 as [H0 C3].
  apply andb_true in H0. destruct H0 as [H0 C4]. apply andb_true in H0. destruct H0 as [H0 C2].
  apply andb_true in H0. destruct H0 as [H0 C1]. apply andb_true in H0. destruct H0 as [Hm C0].
  rewrite Hm, C1, C2, C3, C4, C5. cbn [andb]. repeat rewrite andb_true_r.
  destruct (bit m 0); [|reflexivity]. cbn [imp] in *. destruct value as [x|]; [|discriminate]. apply Hv; reflexivity.
Qed.

Lemma upgrade_variant : forall reg m alen dl dims value,
  rwf0 reg (TCustom CVariant) (VVariant m alen dl dims value) = true ->
  (forall p x, value = Some p -> In x (leaves p) -> rwf reg (variant_ty (m mod 64)) x = true) ->
  rwf reg (TCustom CVariant) (VVariant m alen dl dims value) = true.
Proof.
  intros reg m alen dl dims value H0 Hl. rewrite rwf0_variant in H0. rewrite rwf_variant.
  apply andb_true in H0. destruct H0 as [Hm H0]. rewrite Hm. cbn [andb].
  destruct (m mod 64 =? 0); [exact H0|]. destruct value as [p|]; [|discriminate].
  apply andb_true in H0. destruct H0 as [Hh _]. rewrite Hh. cbn [andb].
  rewrite (proj2 (payload_walkers reg (m mod 64) p)). apply forallb_forall. intros x Hx. apply (Hl p x eq_refl Hx).
Qed.

Ltac fieldw H := unfold eopt; apply elen_if'; let Hb := fresh "Hb" in intros Hb; apply elen_le; rewrite (H Hb); lia.

Section LenCustoms.
  Variable reg : list (Z * Z * ty).
  Variable rec : ty -> dec val.
  Hypothesis Hrec : forall t, desc_ok t = true -> postn (K reg t) (rec t).

  Lemma postn_diag : postn (fun v n => Pv reg (TCustom CDiagInfo) v -> K reg (TCustom CDiagInfo) v n) (dec_diag rec).
  Proof.
    unfold dec_diag. apply postn_tick_bind. eapply postn_bind; [apply (postn_read_u 1)|]. intros mask n0 ->.
    eapply postn_bind; [eapply postn_opt; apply (postn_read_i 4)|]. intros sym n1 H1. cbv beta in H1.
    eapply postn_bind; [eapply postn_opt; apply (postn_read_i 4)|]. intros ns n2 H2. cbv beta in H2.
    eapply postn_bind; [eapply postn_opt; apply (postn_read_i 4)|]. intros loc n3 H3. cbv beta in H3.
    eapply postn_bind; [eapply postn_opt; apply (postn_read_i 4)|]. intros lt n4 H4. cbv beta in H4.
    eapply postn_bind; [eapply postn_opt; apply postn_read_string|]. intros info n5 H5. cbv beta in H5.
    eapply postn_bind; [eapply postn_opt; apply (postn_read_u 4)|]. intros st n6 H6. cbv beta in H6.
    eapply postn_bind.
    { instantiate (1 := fun o n => bit mask 6 = true -> exists i, o = Some i /\ K reg (TCustom CDiagInfo) i n).
      destruct (bit mask 6).
      - eapply postn_bind; [apply Hrec; reflexivity|]. intros i n Hi. apply postn_ret. intros _. exists i.
        rewrite Nat.add_0_r. auto.
      - apply postn_ret. discriminate. }
    intros inner n7 H7. apply postn_ret. intros [Hw0 _]. split.
    - rewrite encode_diag. apply (elen_eapp _ _ 1); [elen_calc|].
      apply elen_eapp; [fieldw H1|]. apply elen_eapp; [fieldw H2|]. apply elen_eapp; [fieldw H3|].
      apply elen_eapp; [fieldw H4|]. apply elen_eapp; [unfold eopt; apply elen_if'; exact H5|].
      apply elen_eapp; [fieldw H6|].
      destruct (bit mask 6); [|apply elen_nil]. destruct (H7 eq_refl) as [i [-> [He _]]].
      eapply elen_mono; [exact He|lia].
    - rewrite noempty_diag. intros Hne. apply upgrade_diag; [exact Hw0|]. intros i -> Hb.
      destruct (H7 Hb) as [i' [Ei [_ Hr]]]. inversion Ei; subst i'. apply Hr. exact Hne.
  Qed.

  Lemma postn_datavalue : postn (fun v n => Pv reg (TCustom CDataValue) v -> K reg (TCustom CDataValue) v n) (dec_datavalue rec).
  Proof.
    unfold dec_datavalue. apply postn_tick_bind. eapply postn_bind; [apply (postn_read_u 1)|]. intros mask n0 ->.
    eapply postn_bind.
    { instantiate (1 := fun v n => bit mask 0 = true -> K reg (TCustom CVariant) v n).
      destruct (bit mask 0).
      - eapply postn_weaken; [apply Hrec; reflexivity|]. auto.
      - apply postn_tick_bind. apply postn_ret. discriminate. }
    intros v n1 H1.
    eapply postn_bind; [eapply postn_opt; apply (postn_read_u 4)|]. intros status n2 H2. cbv beta in H2.
    eapply postn_bind; [eapply postn_opt; apply postn_read_time|]. intros st n3 H3. cbv beta in H3.
    eapply postn_bind; [eapply postn_opt; apply (postn_read_u 2)|]. intros sp n4 H4. cbv beta in H4.
    eapply postn_bind; [eapply postn_opt; apply postn_read_time|]. intros svt n5 H5. cbv beta in H5.
    eapply postn_bind; [eapply postn_opt; apply (postn_read_u 2)|]. intros svp n6 H6. cbv beta in H6.
    apply postn_ret. intros [Hw0 _]. split.
    - rewrite encode_datavalue. apply (elen_eapp _ _ 1); [elen_calc|].
      apply elen_eapp; [apply elen_if'; intros Hb; exact (proj1 (H1 Hb))|].
      apply elen_eapp; [fieldw H2|]. apply elen_eapp; [unfold eopt; apply elen_if'; exact H3|].
      apply elen_eapp; [fieldw H4|]. apply elen_eapp; [unfold eopt; apply elen_if'; exact H5|].
      eapply elen_mono; [unfold eopt; apply elen_if'; intros Hb; apply elen_le; rewrite (H6 Hb); apply le_n|lia].
    - rewrite noempty_datavalue. intros Hne. apply upgrade_datavalue; [exact Hw0|]. intros x Ex Hb.
      inversion Ex; subst x. apply (proj2 (H1 Hb)). exact Hne.
  Qed.
End LenCustoms.

(* ------------------------------------------------------------------ Variant *)
Lemma postn_dec_n : forall A (P : A -> nat -> Prop) (Q : list A -> nat -> Prop) (d : dec A) k,
  postn P d -> Q [] 0%nat -> (forall x n1 l n2, P x n1 -> Q l n2 -> Q (x :: l) (n1 + (n2 + 0))%nat) ->
  postn (fun l n => Q l n /\ length l = k) (dec_n d k).
Proof.
  intros A P Q d k Hd Q0 Qc. induction k as [|k IH]; cbn [dec_n]; [apply postn_ret; split; [exact Q0|reflexivity]|].
  eapply postn_bind; [exact Hd|]. intros x n1 Px. eapply postn_bind; [exact IH|]. intros r n2 [Qr Hl].
  apply postn_ret. split; [apply Qc; assumption|cbn [length]; lia].
Qed.

Lemma postn_dec_dim : postn (fun _ n => n = 4%nat) dec_dim.
Proof.
  unfold dec_dim. eapply postn_bind; [apply (postn_read_i 4)|]. intros d n ->.
  destruct (d <? 1); [apply postn_fail|]. apply postn_ret. reflexivity.
Qed.

Lemma postn_variant_dims : forall mask, bit mask 7 = true ->
  postn (fun dd n => elen (enc_dims mask (fst dd) (snd dd)) n) (variant_dims_dec mask).
Proof.
  intros mask B7. unfold variant_dims_dec, enc_dims. rewrite B7. cbn [andb]. destruct (bit mask 6); [|apply postn_ret; apply elen_nil].
  eapply postn_bind; [apply (postn_read_i 4)|]. intros dl n0 ->.
  destruct ((dl <? 0) || (max_variant_array_dimensions <? dl)) eqn:E0; [apply postn_fail|].
  apply orb_false_iff in E0. destruct E0 as [E0 _]. apply Z.ltb_ge in E0.
  eapply postn_bind; [apply postn_remaining|]. intros r n1 ->.
  destruct (r / 4 <? dl); [apply postn_fail|]. apply postn_tick_bind.
  eapply postn_bind.
  { apply (postn_dec_n _ _ (fun ds n => n = (4 * length ds)%nat) _ _ postn_dec_dim); [reflexivity|].
    intros x n1 l n2 -> ->. cbn [length]. lia. }
  intros ds n2 [-> Hl]. apply postn_ret. cbn [fst snd].
  replace (zlen ds <? dl) with false by (symmetry; apply Z.ltb_ge; unfold zlen; lia).
  rewrite eapp_EOk. apply elen_eapp; [apply elen_le; lia|].
  cbn [elen]. rewrite <- Hl, firstn_all. rewrite concat_le4_length. lia.
Qed.

Section LenVariant.
  Variable reg : list (Z * Z * ty).
  Variable rec : ty -> dec val.
  Hypothesis Hrec1 : forall t, desc_ok t = true -> post (Pv reg t) (rec t).
  Hypothesis Hrec : forall t, desc_ok t = true -> postn (K reg t) (rec t).

  Definition Kleaf (tid : Z) (x : val) (n : nat) : Prop :=
    Pleaf reg tid x /\ elen (encode reg (variant_ty tid) x) n /\ (noempty x = true -> rwf reg (variant_ty tid) x = true).

  Lemma postn_builtin : forall tid, postn (Kleaf tid) (dec_builtin rec tid).
  Proof.
    intros tid. unfold Kleaf. apply postn_and; [apply postn_of_post; apply post_builtin; exact Hrec1|].
    unfold dec_builtin. destruct (tid =? 15) eqn:E.
    - apply Z.eqb_eq in E. subst tid.
      eapply postn_bind; [apply (postn_and _ _ _ _ postn_read_bytes (postn_of_post _ _ _ post_read_bytes))|].
      intros b n [He [Hb _]]. apply postn_ret. rewrite Nat.add_0_r. split; [exact He|]. intros _. destruct b; exact Hb.
    - eapply postn_weaken; [apply Hrec; apply variant_ty_desc_ok|]. intros x n [He Hr]. split; assumption.
  Qed.

  Lemma postn_variant : postn (fun v n => Pv reg (TCustom CVariant) v -> K reg (TCustom CVariant) v n) (dec_variant rec).
  Proof.
    unfold dec_variant. apply postn_tick_bind. eapply postn_bind; [apply (postn_read_u 1)|]. intros mask n0 ->.
    cbv zeta. set (tid := mask mod 64).
    destruct (tid =? 0) eqn:E0.
    { apply postn_ret. intros [Hw0 _]. split.
      - rewrite encode_variant. fold tid. rewrite E0. elen_calc.
      - intros _. apply upgrade_variant; [exact Hw0|]. intros p x Ep. discriminate. }
    destruct (25 <? tid) eqn:E25; [apply postn_fail|].
    destruct (bit mask 7) eqn:B7; cbn [negb].
    2:{ (* scalar *)
      eapply postn_bind; [apply postn_builtin|]. intros v n1 [[Hw _] [He Hr]]. apply postn_ret. intros [Hw0 _].
      pose proof (rwf0_variant_ty_not_slice reg tid v Hw) as Hns. split.
      - rewrite encode_variant. fold tid. rewrite E0. unfold enc_dims. rewrite B7. cbn [andb eopt].
        rewrite comb_pd_ok, eapp_nil_l, eapp_nil_r, (proj1 (payload_walkers reg tid v)), (leaves_not_slice v Hns).
        cbn [enc_list]. rewrite eapp_nil_r. apply (elen_eapp _ _ 1); [elen_calc|eapply elen_mono; [exact He|lia]].
      - rewrite noempty_variant. intros Hne. apply upgrade_variant; [exact Hw0|]. intros p x Ep Hin.
        inversion Ep; subst p. rewrite (leaves_not_slice v Hns) in Hin. destruct Hin as [<-|[]]. fold tid. apply Hr. exact Hne. }
    (* arrays *)
    eapply postn_bind; [apply (postn_read_i 4)|]. intros alen n1 ->.
    destruct (max_variant_array_length <? alen) eqn:Emax; [apply postn_fail|].
    destruct (alen <? -1) eqn:Emin; [apply postn_fail|].
    eapply postn_bind; [apply postn_remaining|]. intros rem nrem ->. destruct (rem <? alen); [apply postn_fail|].
    set (QL := fun (l : list val) (n : nat) =>
                 elen (enc_list (encode reg (variant_ty tid)) l) n /\ Forall (Pleaf reg tid) l /\
                 Forall (fun x => noempty x = true -> rwf reg (variant_ty tid) x = true) l).
    eapply postn_bind.
    { instantiate (1 := fun vals n => match vals with None => alen = -1 | Some l => QL l n /\ length l = Z.to_nat alen end).
      destruct (alen =? -1) eqn:Ea; [apply postn_ret; apply Z.eqb_eq; exact Ea|]. apply postn_tick_bind.
      eapply postn_bind.
      { apply (postn_dec_n _ _ QL _ _ (postn_builtin tid)).
        - unfold QL. split; [apply elen_nil|split; constructor].
        - unfold QL. intros x n2 l n3 [Px [Ex Rx]] [El [Pl Rl]]. split; [|split; constructor; assumption].
          cbn [enc_list]. fold (enc_list (encode reg (variant_ty tid))). apply elen_eapp; [exact Ex|].
          eapply elen_mono; [exact El|lia]. }
      intros l n2 Hl. apply postn_ret. rewrite Nat.add_0_r. exact Hl. }
    intros vals n2 Hvals.
    eapply postn_bind; [apply (postn_variant_dims mask B7)|]. intros [dl ds] n3 Hd. cbn [fst snd] in Hd. cbv beta iota.
    destruct ((0 <? dl) && negb (match dims_product ds 1 with Some c => c =? alen | None => false end)) eqn:Echk;
      [apply postn_fail|].
    (* whatever the branch: the payload p has the decoded elements as leaves *)
    assert (Hfin : forall p l n4, vals = Some l -> leaves p = l ->
              Pv reg (TCustom CVariant) (VVariant mask alen dl ds (Some p)) ->
              K reg (TCustom CVariant) (VVariant mask alen dl ds (Some p)) (1 + (4 + (n2 + (n3 + n4))))).
    { intros p l n4 Ev El [Hw0 _]. subst vals. destruct Hvals as [[He [HP HR]] Hl]. split.
      - rewrite encode_variant. fold tid. rewrite E0. cbn [eopt]. rewrite B7.
        destruct (enc_dims mask dl ds) as [dbs| | |] eqn:Edb.
        + rewrite comb_pd_ok, (proj1 (payload_walkers reg tid p)), El.
          apply (elen_eapp _ _ 1); [elen_calc|]. apply elen_eapp; [apply elen_le; lia|].
          apply elen_eapp; [exact He|]. eapply elen_mono; [exact Hd|lia].
        + unfold comb_pd. destruct (enc_payload reg tid p); exact I.
        + unfold comb_pd. destruct (enc_payload reg tid p); exact I.
        + unfold comb_pd. destruct (enc_payload reg tid p); exact I.
      - rewrite noempty_variant. intros Hne. apply upgrade_variant; [exact Hw0|]. intros p' x Ep Hin.
        inversion Ep; subst p'. fold tid. rewrite El in Hin. rewrite Forall_forall in HR. apply (HR x Hin).
        apply noempty_leaves in Hne. rewrite El in Hne. rewrite Forall_forall in Hne. apply Hne. exact Hin. }
    destruct (dl <? 2) eqn:Ed2.
    - apply postn_ret. intros HPv. destruct vals as [l|].
      + apply (Hfin (VSlice (Some l)) l 0%nat eq_refl); [|exact HPv].
        destruct Hvals as [[_ [HP _]] _]. apply leaves_flat. apply forallb_forall. intros x Hx.
        rewrite Forall_forall in HP. destruct (HP x Hx) as [Hw _]. apply (rwf0_variant_ty_not_slice reg tid x Hw).
      + (* nil array *)
        destruct HPv as [Hw0 _]. split.
        * rewrite encode_variant. fold tid. rewrite E0. cbn [eopt]. rewrite B7.
          destruct (enc_dims mask dl ds) as [dbs| | |] eqn:Edb; try exact I.
          rewrite comb_pd_ok. cbn [enc_payload]. rewrite eapp_nil_l.
          apply (elen_eapp _ _ 1); [elen_calc|]. apply elen_eapp; [apply elen_le; lia|]. eapply elen_mono; [exact Hd|lia].
        * intros _. apply upgrade_variant; [exact Hw0|]. intros p x Ep Hin. inversion Ep; subst p. destruct Hin.
    - destruct vals as [l|].
      + apply postn_tick_bind. apply postn_ret. intros HPv.
        apply (Hfin _ l 0%nat eq_refl); [|exact HPv].
        (* leaves (split dims l) = l, from what the first pass established about the result *)
        destruct HPv as [Hw0 _]. rewrite rwf0_variant in Hw0. fold tid in Hw0. rewrite E0 in Hw0.
        apply andb_true in Hw0. destruct Hw0 as [_ Hw0]. apply andb_true in Hw0. destruct Hw0 as [Hhdr _].
        destruct (hdr_array_facts mask alen dl ds _ B7 Hhdr) as [_ [_ [Hdl [_ [Hge [_ [Hprod _]]]]]]].
        apply Z.ltb_ge in Ed2. specialize (Hprod ltac:(lia)).
        destruct (dims_product_nprod ds alen Hge Hprod) as [Ealen HFd].
        destruct Hvals as [[_ [HP _]] Hl].
        assert (Hns : forallb not_slice l = true).
        { apply forallb_forall. intros x Hx. rewrite Forall_forall in HP. destruct (HP x Hx) as [Hw _].
          apply (rwf0_variant_ty_not_slice reg tid x Hw). }
        assert (Hne : map Z.to_nat ds <> []).
        { destruct ds; [unfold zlen in Hdl; cbn in Hdl; lia|discriminate]. }
        apply (shape_split (map Z.to_nat ds) l Hne HFd ltac:(lia) Hns).
      + (* unreachable: the product of dimensions >= 1 cannot be the nil length -1; still, the claim holds *)
        apply postn_ret. intros [Hw0 _]. exfalso.
        rewrite rwf0_variant in Hw0. fold tid in Hw0. rewrite E0 in Hw0.
        apply andb_true in Hw0. destruct Hw0 as [_ Hw0]. apply andb_true in Hw0. destruct Hw0 as [Hhdr _].
        destruct (hdr_array_facts mask alen dl ds _ B7 Hhdr) as [_ [_ [Hdl [_ [Hge [_ [Hprod Hc]]]]]]].
        apply Z.ltb_ge in Ed2. destruct (dims_product_nprod ds alen Hge (Hprod ltac:(lia))) as [Ealen _]. lia.
  Qed.
End LenVariant.

(* ------------------------------------------------------------------ ExtensionObject *)
Definition body_min_ok (t : ty) : bool := match t with TStruct [] => true | _ => Nat.leb 1 (minsize t) end.
(* registered body types are empty structs (the known finding) or occupy at least one byte *)
Definition reg_min_ok (reg : list (Z * Z * ty)) : bool := forallb (fun r => body_min_ok (snd r)) reg.

Lemma lookup_forallb : forall (Pb : ty -> bool) reg tid t,
  forallb (fun r => Pb (snd r)) reg = true -> lookup_expnodeid reg tid = Some t -> Pb t = true.
Proof.
  intros Pb reg tid t Hreg H. unfold lookup_expnodeid, lookup_nodeid, lookup in H.
  assert (Hf : forall p r, find p reg = Some r -> Pb (snd r) = true).
  { intros p r Hfind. apply find_some in Hfind. destruct Hfind as [Hin _]. rewrite forallb_forall in Hreg. exact (Hreg r Hin). }
  destruct tid; try discriminate. destruct nid as [nv|]; try discriminate. destruct nv; try discriminate.
  repeat match type of H with
         | (if ?c then _ else _) = _ => destruct c
         | match find ?p reg with _ => _ end = _ => destruct (find p reg) eqn:Ef; [apply Hf in Ef|]
         end; try discriminate; inversion H; subst; assumption.
Qed.

Lemma postn_run_sub : forall A (P : A -> nat -> Prop) (d : dec A) body, small body -> postn P d ->
  postn (fun x n => n = 0%nat /\ exists n', P x n' /\ (n' <= length body)%nat) (run_sub d body).
Proof.
  intros A P d body Hb Hd bs x rest al Hs E. unfold run_sub in E.
  destruct (d body) as [a r1 al1|e al1|al1|] eqn:Ed; try discriminate. inversion E; subst.
  destruct (Hd body x r1 al Hb Ed) as [L Px]. split; [lia|]. split; [lia|]. eexists. split; [exact Px|lia].
Qed.

Lemma upgrade_extobj_none : forall reg m tv, rwf0 reg (TCustom CExtObj) (VExtObj m (Some tv) None) = true ->
  rwf reg (TCustom CExtObj) (VExtObj m (Some tv) None) = true.
Proof. intros reg m tv H. rewrite rwf0_extobj in H. rewrite rwf_extobj. exact H. Qed.

Lemma rwf0_empty_struct_body : forall reg v, rwf0 reg (TPtr (TStruct [])) v = true -> is_empty_body v = true.
Proof.
  intros reg v H. destruct v; try discriminate. destruct p as [x|]; [|discriminate]. destruct x; try discriminate.
  destruct fs; [reflexivity|discriminate].
Qed.

Section LenExtObj.
  Variable reg : list (Z * Z * ty).
  Variable rec : ty -> dec val.
  Hypothesis Hreg : reg_desc_ok reg = true.
  Hypothesis Hmin : reg_min_ok reg = true.
  Hypothesis Hrec : forall t, desc_ok t = true -> postn (K reg t) (rec t).

  Lemma postn_extobj : postn (fun v n => Pv reg (TCustom CExtObj) v -> K reg (TCustom CExtObj) v n) (dec_extobj reg rec).
  Proof.
    unfold dec_extobj. apply postn_tick_bind. eapply postn_bind; [apply postn_expnodeid|]. intros tid n0 Ht. cbv beta in Ht.
    eapply postn_bind; [apply (postn_read_u 1)|]. intros mask n1 ->.
    assert (Hnone : forall n, (mask =? 0 = false -> (4 <= n)%nat) ->
              Pv reg (TCustom CExtObj) (VExtObj mask (Some tid) None) ->
              K reg (TCustom CExtObj) (VExtObj mask (Some tid) None) (n0 + (1 + n))).
    { intros n Hn [Hw0 _]. split; [|intros _; apply upgrade_extobj_none; exact Hw0].
      rewrite encode_extobj. apply elen_eapp; [exact Ht|]. apply elen_eapp; [elen_calc|].
      unfold enc_extobj_body. destruct (mask =? 0); [apply elen_nil|]. cbv zeta. change (blen []) with 0.
      rewrite app_nil_r. apply elen_le. apply Hn. reflexivity. }
    destruct (mask =? 0) eqn:E0; [apply postn_ret; apply Hnone; discriminate|].
    eapply postn_bind; [apply (postn_and _ _ _ _ (postn_read_u 4) (postn_of_post _ _ _ (post_read_u 4)))|].
    intros len n2 [-> Hlen]. cbv beta in Hlen. rewrite pow8_4 in Hlen.
    destruct ((len =? 0) || (len =? null32)) eqn:El; [apply postn_ret; apply Hnone; intros _; lia|].
    apply orb_false_iff in El. destruct El as [_ El]. apply Z.eqb_neq in El.
    eapply postn_bind; [apply (postn_and _ _ _ _ (postn_read_n len) (postn_of_post _ _ _ (post_read_n len)))|].
    intros body n3 [[Hb ->] [_ Hr]].
    assert (Hsmall : small body) by (unfold small; lia).
    assert (Hsome : forall bt, extobj_body_ty reg mask tid = Some bt -> desc_ok bt = true ->
              (forall v, rwf0 reg bt v = true -> is_empty_body v = false -> (1 <= minsize bt)%nat) ->
              postn (fun v n => Pv reg (TCustom CExtObj) v -> K reg (TCustom CExtObj) v (n0 + (1 + (4 + (length body + n)))))
                    (bind (run_sub (rec bt) body) (fun v => ret (VExtObj mask (Some tid) (Some v))))).
    { intros bt Ebt Hd Hminbt. eapply postn_bind; [apply postn_run_sub; [exact Hsmall|apply Hrec; exact Hd]|].
      intros v n4 [-> [n' [[He Hr'] Hn']]]. apply postn_ret. intros [Hw0 _].
      assert (Hbt : (if mask =? 2 then Some xml_body_ty else option_map TPtr (lookup_expnodeid reg tid)) = Some bt) by exact Ebt.
      split.
      - rewrite encode_extobj. apply elen_eapp; [exact Ht|]. apply elen_eapp; [elen_calc|].
        unfold enc_extobj_body. rewrite E0. cbv zeta. rewrite Hbt.
        destruct (encode reg bt v) as [bb| | |]; try exact I. cbn [elen] in He. elen_calc.
      - rewrite noempty_extobj. intros Hne. apply andb_true in Hne. destruct Hne as [Hne1 Hne2].
        apply negb_true_iff in Hne1. specialize (Hr' Hne2).
        rewrite rwf0_extobj, E0, Ebt in Hw0. rewrite rwf_extobj, E0, Ebt.
        apply andb_true in Hw0. destruct Hw0 as [Hhead Hw0]. rewrite Hhead, Hr'. cbn [andb].
        apply andb_true in Hw0. destruct Hw0 as [Hw0 _].
        destruct (roundtrip_all reg bt v (vdepth v) Hr' (le_n _) 0%nat) as [bb [Ebb [Lbb _]]]. rewrite Ebb in *. cbn [elen] in He.
        specialize (Hminbt v Hw0 Hne1). unfold blen, null32 in *.
        apply andb_true_intro. split; [apply Z.ltb_lt|apply Z.ltb_lt]; lia. }
    unfold extobj_body_ty in Hsome. destruct (mask =? 2) eqn:E2.
    - apply (Hsome xml_body_ty eq_refl eq_refl). intros _ _ _. cbn. lia.
    - destruct (lookup_expnodeid reg tid) as [t|] eqn:Elk; [|apply postn_ret; apply Hnone; intros _; lia].
      apply (Hsome (TPtr t) eq_refl (lookup_desc_ok reg tid t Hreg Elk)).
      intros v Hv Hne. pose proof (lookup_forallb body_min_ok reg tid t Hmin Elk) as Hb'.
      unfold body_min_ok in Hb'. destruct t; try (apply Nat.leb_le in Hb'; exact Hb').
      destruct fs; [|apply Nat.leb_le in Hb'; exact Hb'].
      rewrite (rwf0_empty_struct_body reg v Hv) in Hne. discriminate.
  Qed.
End LenExtObj.

(* ------------------------------------------------------------------ the decoder *)
Lemma leaf_rwf0_rwf : forall reg t v, leaf_ty t = true -> rwf0 reg t v = true -> rwf reg t v = true.
Proof.
  intros reg t v Hl H. destruct t; try discriminate; try (destruct v; exact H).
  destruct c; try discriminate; destruct v; exact H.
Qed.

Lemma upgrade_slice : forall reg e l, rwf0 reg (TSlice e) (VSlice (Some l)) = true ->
  Forall (fun x => rwf reg e x = true) l -> rwf reg (TSlice e) (VSlice (Some l)) = true.
Proof.
  intros reg e l H0 HF.
  change (rwf0 reg (TSlice e) (VSlice (Some l))) with
    (Nat.leb 1 (minsize e) && (zlen l <=? max_int32) &&
     (fix go (l : list val) : bool := match l with [] => true | x :: r => rwf0 reg e x && go r end) l) in H0.
  change (rwf reg (TSlice e) (VSlice (Some l))) with
    (Nat.leb 1 (minsize e) && (zlen l <=? max_int32) &&
     (fix go (l : list val) : bool := match l with [] => true | x :: r => rwf reg e x && go r end) l).
  apply andb_true in H0. destruct H0 as [H0 _]. rewrite H0. cbn [andb]. rewrite rwf_list_forall.
  apply forallb_forall. intros x Hx. rewrite Forall_forall in HF. apply HF. exact Hx.
Qed.

Section LenMain.
  Variable reg : list (Z * Z * ty).
  Hypothesis Hreg : reg_desc_ok reg = true.
  Hypothesis Hmin : reg_min_ok reg = true.

  Lemma postn_fields : forall (D : ty -> dec val) fs,
    Forall (fun t => postn (K reg t) (D t)) fs ->
    postn (fun vs n => elen (enc_struct (encode reg) fs vs) n /\ (forallb noempty vs = true -> rwf_struct reg fs vs = true))
          (dec_fields (map D fs)).
  Proof.
    intros D fs H. induction H as [|t fs' Ht _ IH]; cbn [map dec_fields].
    - apply postn_ret. split; [apply elen_nil|intros _; reflexivity].
    - eapply postn_bind; [exact Ht|]. intros x n1 [He Hr]. eapply postn_bind; [exact IH|]. intros xs n2 [Hes Hrs].
      apply postn_ret. split.
      + cbn [enc_struct]. fold (enc_struct (encode reg)). apply elen_eapp; [exact He|]. eapply elen_mono; [exact Hes|lia].
      + cbn [forallb rwf_struct]. fold (rwf_struct reg). intros Hg. apply andb_true in Hg. destruct Hg as [G1 G2].
        rewrite (Hr G1), (Hrs G2). reflexivity.
  Qed.

  (* leaf descriptors: well-formedness from the first pass, only the length is new *)
  Ltac leaf_case H1 Ht :=
    apply (postn_use _ _ _ _ (H1 _ Ht));
    eapply postn_weaken;
    [|intros x n He [Hw0 _]; split; [exact He|intros _; apply leaf_rwf0_rwf; [reflexivity|exact Hw0]]].

  Lemma level_len : forall rec allow,
    (forall t, desc_ok t = true -> post (Pv reg t) (dec_level reg rec allow t)) ->
    (forall c, postn (K reg (TCustom c)) (level_custom reg rec allow c)) ->
    forall t, desc_ok t = true -> postn (K reg t) (dec_level reg rec allow t).
  Proof.
    intros rec allow H1 Hcust t. induction t using ty_ind'; intros Ht.
    - leaf_case H1 Ht. cbn [dec_level]. eapply postn_bind; [apply (postn_read_u 1)|]. intros b n ->. apply postn_ret.
      cbn [encode]. elen_calc.
    - leaf_case H1 Ht. cbn [dec_level]. destruct s.
      + eapply postn_bind; [apply (postn_read_i w)|]. intros z n ->. apply postn_ret. cbn [encode]. apply elen_le. lia.
      + eapply postn_bind; [apply (postn_read_u w)|]. intros z n ->. apply postn_ret. cbn [encode]. apply elen_le. lia.
    - leaf_case H1 Ht. cbn [dec_level]. eapply postn_bind; [apply (postn_read_u w)|]. intros z n ->. apply postn_ret.
      cbn [encode]. apply elen_le. lia.
    - leaf_case H1 Ht. cbn [dec_level]. eapply postn_bind; [apply postn_read_string|]. intros s n He. apply postn_ret.
      cbn [encode]. eapply elen_mono; [exact He|lia].
    - leaf_case H1 Ht. cbn [dec_level]. eapply postn_bind; [apply postn_read_time|]. intros s n He. apply postn_ret.
      cbn [encode]. eapply elen_mono; [exact He|lia].
    - leaf_case H1 Ht. cbn [dec_level]. unfold dec_bytes. eapply postn_bind; [apply (postn_read_u 4)|]. intros k n0 ->.
      destruct (k =? null32); [apply postn_ret; apply (elen_le 4 null32); lia|].
      destruct (max_int32 <? k); [apply postn_fail|].
      eapply postn_bind; [apply postn_remaining|]. intros r n1 ->. destruct (r <? k); [apply postn_fail|].
      eapply postn_bind; [apply postn_read_n|]. intros d n2 [_ ->]. apply postn_ret.
      cbn [encode]. unfold enc_bytestring. destruct (max_int32 <? blen d); [exact I|]. elen_calc.
    - (* slice *)
      apply (postn_use _ _ _ _ (H1 _ Ht)).
      cbn [desc_ok] in Ht. apply andb_true in Ht. destruct Ht as [Hmin' Ht].
      change (dec_level reg rec allow (TSlice t)) with
        (dec_slice (match t with TPtr x => 8 + tsize x | TCustom _ => 8 | _ => tsize t end)%N (dec_level reg rec allow t)).
      unfold dec_slice. eapply postn_bind; [apply (postn_read_u 4)|]. intros k n0 ->.
      destruct (k =? null32).
      { apply postn_ret. intros _. split; [apply (elen_le 4 null32); lia|intros _; reflexivity]. }
      destruct (max_int32 <? k); [apply postn_fail|].
      eapply postn_bind; [apply postn_remaining|]. intros r n1 ->. destruct (r <? k); [apply postn_fail|].
      apply postn_tick_bind.
      eapply postn_bind.
      { apply (postn_dec_n _ _ (fun l n => elen (enc_list (encode reg t) l) n /\
                                           Forall (fun x => noempty x = true -> rwf reg t x = true) l) _ _ (IHt Ht)).
        - split; [apply elen_nil|constructor].
        - intros x n2 l n3 [Ex Rx] [El Rl]. split; [|constructor; assumption].
          cbn [enc_list]. fold (enc_list (encode reg t)). apply elen_eapp; [exact Ex|]. eapply elen_mono; [exact El|lia]. }
      intros l n2 [[He HR] Hl]. apply postn_ret. intros [Hw0 _]. split.
      + change (encode reg (TSlice t) (VSlice (Some l)))
          with (if max_int32 <? zlen l then EErr else eapp (EOk (le 4 (zlen l))) (enc_list (encode reg t) l)).
        destruct (max_int32 <? zlen l); [exact I|]. apply elen_eapp; [apply elen_le; lia|]. eapply elen_mono; [exact He|lia].
      + rewrite noempty_slice. intros Hne. apply upgrade_slice; [exact Hw0|].
        rewrite forallb_forall in Hne. rewrite Forall_forall in *. intros x Hx. apply (HR x Hx). apply Hne. exact Hx.
    - (* pointer *)
      cbn [desc_ok] in Ht. change (dec_level reg rec allow (TPtr t)) with (dec_ptr t (dec_level reg rec allow t)).
      unfold dec_ptr. destruct t; try apply postn_panic;
        (apply postn_tick_bind; eapply postn_bind; [apply IHt; exact Ht|]; intros v n [He Hr]; apply postn_ret; split;
         [cbn [encode]; eapply elen_mono; [exact He|lia]
         |intros Hne; match goal with |- rwf _ (TPtr ?e) _ = true => change (ptr_elem_ok e && rwf reg e v = true) end;
          rewrite (Hr Hne); reflexivity]).
    - (* struct *)
      cbn [desc_ok] in Ht. rewrite forallb_forall in Ht.
      change (dec_level reg rec allow (TStruct fs)) with
        (bind (dec_fields (map (dec_level reg rec allow) fs)) (fun vs => ret (VStruct vs))).
      eapply postn_bind.
      + apply postn_fields. rewrite Forall_forall in *. intros t Hin. apply H; [exact Hin|apply Ht; exact Hin].
      + intros vs n [He Hr]. apply postn_ret. split.
        * change (encode reg (TStruct fs) (VStruct vs)) with (enc_struct (encode reg) fs vs). eapply elen_mono; [exact He|lia].
        * rewrite noempty_struct. exact Hr.
    - (* hand-written codecs *)
      exact (Hcust c).
  Qed.

  Lemma customs_len : forall rec,
    (forall t, desc_ok t = true -> post (Pv reg t) (rec t)) ->
    (forall t, desc_ok t = true -> postn (K reg t) (rec t)) ->
    forall c, postn (K reg (TCustom c)) (dec_custom reg rec c).
  Proof.
    intros rec Hrec1 Hrec c. pose proof (customs_wf reg Hreg rec Hrec1 c) as H1.
    destruct c; cbn [dec_custom] in *.
    + apply (postn_use _ _ _ _ H1). apply postn_variant; assumption.
    + apply (postn_use _ _ _ _ H1). apply postn_datavalue; assumption.
    + apply (postn_use _ _ _ _ H1). apply postn_diag; assumption.
    + apply (postn_use _ _ _ _ H1). eapply postn_weaken; [apply postn_loctext|]. intros v n He [Hw0 _].
      split; [destruct v; exact He || exact I|intros _; destruct v; exact Hw0].
    + apply (postn_use _ _ _ _ H1). eapply postn_weaken; [apply postn_nodeid|]. intros v n He [Hw0 _].
      split; [destruct v; exact He || exact I|intros _; destruct v; exact Hw0].
    + apply (postn_use _ _ _ _ H1). eapply postn_weaken; [apply postn_expnodeid|]. intros v n He [Hw0 _].
      split; [destruct v; exact He || exact I|intros _; destruct v; exact Hw0].
    + apply (postn_use _ _ _ _ H1). apply postn_extobj; assumption.
    + apply (postn_use _ _ _ _ H1). eapply postn_weaken; [apply postn_guid|]. intros v n He [Hw0 _].
      split; [destruct v; exact He || exact I|intros _; destruct v; exact Hw0].
  Qed.

  Theorem decode_len : forall fuel t, desc_ok t = true -> postn (K reg t) (decode reg fuel t).
  Proof.
    induction fuel as [|f IHf]; intros t Ht.
    - apply (level_len (fun _ => fail EOther) false); [intros t' Ht'; apply (decode_wf reg Hreg 0 t' Ht')| |exact Ht].
      intros c. unfold level_custom. destruct c; cbn [nested andb negb];
        try (apply postn_tick_bind; apply postn_fail);
        (apply customs_len; [intros t' _; apply post_fail|intros t' _; apply postn_fail]).
    - apply (level_len (decode reg f) true); [intros t' Ht'; apply (decode_wf reg Hreg (S f) t' Ht')| |exact Ht].
      intros c. unfold level_custom. rewrite andb_false_r. apply customs_len; [intros t'; apply decode_wf; exact Hreg|exact IHf].
  Qed.
End LenMain.
