From Coq Require Import List Bool NArith Lia Permutation PeanoNat.
From Coq Require Import ZifyN ZifyNat ZifyBool.
From Coq.Strings Require Import Byte.
From Opcua Require Import Model.PureBytes Proofs.PureBytesProofs Model.EndpointSelect.
Import ListNotations.
Open Scope N_scope.

Definition no_nil (s : list (option endpoint)) : Prop := Forall (fun o => o <> None) s.

Lemma no_nil_perm : forall a b, Permutation a b -> no_nil a -> no_nil b.
Proof. intros a b HP H. unfold no_nil in *. rewrite Forall_forall in *. intros x Hx. apply H. eapply Permutation_in; [apply Permutation_sym; exact HP | exact Hx]. Qed.

Lemma no_nil_existsb : forall s, no_nil s -> existsb is_none s = false.
Proof.
  induction s as [|o s IH]; intro H; [reflexivity|]. inversion H; subst. cbn. rewrite IH by assumption.
  destruct o; [reflexivity | congruence].
Qed.

(* ---------- sortedness ---------- *)

Lemma sorted_desc_tail : forall a s, sorted_desc (a :: s) = true -> sorted_desc s = true.
Proof. intros a [|b s] H; [reflexivity|]. cbn [sorted_desc] in H. apply andb_true_iff in H. apply H. Qed.

Lemma sorted_desc_head_max : forall s a b, sorted_desc (a :: s) = true -> In b s -> lvl b <= lvl a.
Proof.
  induction s as [|c s IH]; intros a b Hs Hin; [destruct Hin|].
  cbn [sorted_desc] in Hs. apply andb_true_iff in Hs. destruct Hs as [Hca Hs].
  destruct Hin as [->|Hin]; [lia|]. specialize (IH c b Hs Hin). lia.
Qed.

Lemma sorted_desc_nth_le : forall s i j a b, sorted_desc s = true -> (i <= j)%nat ->
  nth_error s i = Some a -> nth_error s j = Some b -> lvl b <= lvl a.
Proof.
  induction s as [|c s IH]; intros i j a b Hs Hij Ha Hb; [destruct i; discriminate|].
  destruct i as [|i].
  - cbn in Ha. inversion Ha; subst c. destruct j as [|j].
    + cbn in Hb. inversion Hb; subst. lia.
    + cbn in Hb. apply nth_error_In in Hb. eapply sorted_desc_head_max; eassumption.
  - destruct j as [|j]; [lia|]. cbn in Ha, Hb. eapply IH; [eapply sorted_desc_tail; eassumption| |eassumption|eassumption]. lia.
Qed.

Lemma insert_desc_perm : forall a s, Permutation (a :: s) (insert_desc a s).
Proof.
  induction s as [|b s IH]; cbn; [apply Permutation_refl|].
  destruct (lvl b <? lvl a); [apply Permutation_refl|].
  eapply Permutation_trans; [apply perm_swap|]. apply perm_skip. exact IH.
Qed.

Lemma insert_desc_sorted : forall a s, sorted_desc s = true -> sorted_desc (insert_desc a s) = true.
Proof.
  induction s as [|b s IH]; intro Hs; [reflexivity|].
  cbn [insert_desc]. destruct (lvl b <? lvl a) eqn:E.
  - cbn [sorted_desc]. apply andb_true_iff. split; [lia|exact Hs].
  - specialize (IH (sorted_desc_tail _ _ Hs)).
    destruct s as [|c s].
    + cbn. rewrite andb_true_r. lia.
    + cbn [insert_desc] in *. cbn [sorted_desc] in Hs. apply andb_true_iff in Hs. destruct Hs as [Hcb Hs].
      destruct (lvl c <? lvl a) eqn:E2.
      * cbn [sorted_desc]. rewrite Hs. rewrite !andb_true_iff. repeat split; lia.
      * cbn [sorted_desc] in *. rewrite IH. rewrite andb_true_r. lia.
Qed.

Lemma sort_desc_perm : forall s, Permutation s (sort_desc s).
Proof.
  induction s as [|a s IH]; [apply perm_nil|]. unfold sort_desc in *. cbn [fold_right].
  eapply Permutation_trans; [apply perm_skip; exact IH|]. apply insert_desc_perm.
Qed.

Lemma sort_desc_sorted : forall s, sorted_desc (sort_desc s) = true.
Proof. induction s as [|a s IH]; [reflexivity|]. unfold sort_desc in *. cbn [fold_right]. apply insert_desc_sorted. exact IH. Qed.

(* ---------- the loop ---------- *)

Section WithTables.
  Variable tbl : list (bytes * bytes).
  Variable prefix : bytes.
  Variable minv : N.

  (* the three tests of the loop body *)
  Definition code_match (uri : bytes) (mode : N) (p : endpoint) : bool :=
    (is_empty uri && (ep_mode p =? mode)) || (beqb (ep_uri p) uri && (mode =? minv)) || (beqb (ep_uri p) uri && (ep_mode p =? mode)).

  (* "matches" on an already-normalised policy URI *)
  Definition matches_uri (uri : bytes) (mode : N) (e : endpoint) : bool :=
    (is_empty uri || beqb (ep_uri e) uri) && ((mode =? minv) || (ep_mode e =? mode)).

  Lemma matches_is_matches_uri : forall policy mode e,
    is_empty (format_policy tbl prefix policy) = is_empty policy ->
    matches tbl prefix minv policy mode e = matches_uri (format_policy tbl prefix policy) mode e.
  Proof. intros policy mode e H. unfold matches, matches_uri. rewrite H. reflexivity. Qed.

  Lemma is_empty_beqb : forall u v, is_empty v = true -> beqb u v = is_empty u.
  Proof. intros u [|y v] H; [|discriminate]. destruct u; reflexivity. Qed.

  (* outside the "don't care about both" case the three tests say exactly "matches" *)
  Lemma code_match_matches : forall uri mode e, is_empty uri && (mode =? minv) = false ->
    code_match uri mode e = matches_uri uri mode e.
  Proof.
    intros uri mode e H. unfold code_match, matches_uri.
    destruct (is_empty uri) eqn:Eu; cbn [andb orb] in *.
    - rewrite H. cbn [orb andb]. rewrite andb_false_r. cbn [orb].
      destruct (ep_mode e =? mode); [reflexivity|]. rewrite andb_false_r. reflexivity.
    - destruct (beqb (ep_uri e) uri); cbn [andb orb]; reflexivity.
  Qed.

  Lemma dont_care_matches : forall uri mode e, is_empty uri && (mode =? minv) = true -> matches_uri uri mode e = true.
  Proof. intros uri mode e H. apply andb_true_iff in H. destruct H as [H1 H2]. unfold matches_uri. rewrite H1, H2. reflexivity. Qed.

  Lemma first_match_unfold : forall uri mode p s i,
    first_match minv uri mode (Some p :: s) i = if code_match uri mode p then SelOk i (Some p) else first_match minv uri mode s (S i).
  Proof.
    intros. cbn [first_match]. unfold code_match.
    destruct (is_empty uri && (ep_mode p =? mode)); [reflexivity|].
    destruct (beqb (ep_uri p) uri && (mode =? minv)); [reflexivity|].
    destruct (beqb (ep_uri p) uri && (ep_mode p =? mode)); reflexivity.
  Qed.

  Lemma first_match_ok : forall uri mode s i j r, first_match minv uri mode s i = SelOk j r ->
    exists e k, r = Some e /\ j = (i + k)%nat /\ nth_error s k = Some (Some e) /\ code_match uri mode e = true /\
      forall k' e', (k' < k)%nat -> nth_error s k' = Some (Some e') -> code_match uri mode e' = false.
  Proof.
    induction s as [|o s IH]; intros i j r H; [discriminate|].
    destruct o as [p|]; [|discriminate]. rewrite first_match_unfold in H.
    destruct (code_match uri mode p) eqn:E.
    - inversion H; subst. exists p, 0%nat. repeat split; try reflexivity; try assumption; [lia|]. intros k' e' Hk. lia.
    - destruct (IH _ _ _ H) as (e & k & -> & -> & Hn & Hm & Hb). exists e, (S k). repeat split; try assumption; [lia|].
      intros k' e' Hk Hn'. destruct k' as [|k'].
      + cbn in Hn'. inversion Hn'; subst. exact E.
      + cbn in Hn'. eapply Hb; [|eassumption]. lia.
  Qed.

  Lemma first_match_err : forall uri mode s i x, first_match minv uri mode s i = SelErr x ->
    x = ErrNoMatch /\ forall e', In (Some e') s -> code_match uri mode e' = false.
  Proof.
    induction s as [|o s IH]; intros i x H.
    - inversion H. split; [reflexivity|]. intros e' [].
    - destruct o as [p|]; [|discriminate]. rewrite first_match_unfold in H.
      destruct (code_match uri mode p) eqn:E; [discriminate|].
      destruct (IH _ _ H) as [-> Hall]. split; [reflexivity|]. intros e' [Heq|Hin]; [inversion Heq; subst; exact E | apply Hall; exact Hin].
  Qed.

  Lemma first_match_no_panic : forall uri mode s i, no_nil s -> first_match minv uri mode s i <> SelPanic.
  Proof.
    induction s as [|o s IH]; intros i Hn; [discriminate|]. inversion Hn; subst.
    destruct o as [p|]; [|congruence]. rewrite first_match_unfold. destruct (code_match uri mode p); [discriminate|]. apply IH. assumption.
  Qed.

  (* ---------- the whole function, for every slice the sort may have produced ---------- *)

  Definition best_spec (eps : list (option endpoint)) (uri : bytes) (mode : N) (s : list (option endpoint)) (r : sel_res) : Prop :=
    match r with
    | SelOk i o => exists e, o = Some e /\ nth_error s i = Some (Some e) /\ In (Some e) eps /\ matches_uri uri mode e = true /\
                   (forall e', In (Some e') eps -> matches_uri uri mode e' = true -> ep_level e' <= ep_level e)
    | SelErr ErrNoEndpoints => eps = []
    | SelErr ErrNoMatch => eps <> [] /\ forall e', In (Some e') eps -> matches_uri uri mode e' = false
    | SelPanic => False
    end.

  Theorem select_sorted_best : forall eps s policy mode,
    no_nil eps -> Permutation eps s -> sorted_desc s = true ->
    best_spec eps (format_policy tbl prefix policy) mode s (select_sorted tbl prefix minv s policy mode).
  Proof.
    intros eps s policy mode Hnn HP Hs.
    assert (Hnns : no_nil s) by (eapply no_nil_perm; eassumption).
    unfold select_sorted. destruct s as [|e0 s'] eqn:Es.
    - cbn. apply Permutation_sym, Permutation_nil in HP. exact HP.
    - rewrite <- Es in *. unfold sort_panics. rewrite (no_nil_existsb _ Hnns), andb_false_r.
      set (uri := format_policy tbl prefix policy).
      assert (Hne : eps <> []). { intro E. subst eps. apply Permutation_nil in HP. congruence. }
      destruct (is_empty uri && (mode =? minv)) eqn:Edc.
      + (* don't care: the head of the sorted slice *)
        cbn [best_spec]. destruct e0 as [e|]. 2:{ rewrite Es in Hnns. inversion Hnns; congruence. }
        exists e. split; [reflexivity|]. split; [rewrite Es; reflexivity|].
        split. { eapply Permutation_in; [apply Permutation_sym; exact HP|]. rewrite Es. left. reflexivity. }
        split; [apply dont_care_matches; exact Edc|].
        intros e' Hin _. eapply Permutation_in in Hin; [|exact HP]. rewrite Es in Hin, Hs.
        destruct Hin as [Heq|Hin]; [inversion Heq; lia|].
        apply (sorted_desc_head_max _ _ _ Hs Hin).
      + destruct (first_match minv uri mode s 0) as [j r|x|] eqn:Ef.
        * destruct (first_match_ok _ _ _ _ _ _ Ef) as (e & k & -> & -> & Hn & Hm & Hb). cbn [best_spec Nat.add].
          exists e. split; [reflexivity|]. split; [exact Hn|].
          split. { eapply Permutation_in; [apply Permutation_sym; exact HP|]. eapply nth_error_In; exact Hn. }
          rewrite code_match_matches in Hm by exact Edc. split; [exact Hm|].
          intros e' Hin Hm'. eapply Permutation_in in Hin; [|exact HP].
          apply In_nth_error in Hin. destruct Hin as [k' Hk'].
          destruct (Nat.lt_ge_cases k' k) as [Hlt|Hge].
          -- specialize (Hb _ _ Hlt Hk'). rewrite code_match_matches in Hb by exact Edc. congruence.
          -- apply (sorted_desc_nth_le s k k' (Some e) (Some e') Hs Hge Hn Hk').
        * destruct (first_match_err _ _ _ _ _ Ef) as [-> Hall]. cbn [best_spec]. split; [exact Hne|].
          intros e' Hin. eapply Permutation_in in Hin; [|exact HP]. specialize (Hall _ Hin).
          rewrite code_match_matches in Hall by exact Edc. exact Hall.
        * exfalso. eapply first_match_no_panic; eassumption.
  Qed.

  (* the answer is an error exactly when nothing matches *)
  Corollary select_sorted_error_iff : forall eps s policy mode,
    no_nil eps -> Permutation eps s -> sorted_desc s = true ->
    ((exists x, select_sorted tbl prefix minv s policy mode = SelErr x) <->
     (forall e', In (Some e') eps -> matches_uri (format_policy tbl prefix policy) mode e' = false)).
  Proof.
    intros eps s policy mode Hnn HP Hs. pose proof (select_sorted_best eps s policy mode Hnn HP Hs) as H.
    destruct (select_sorted tbl prefix minv s policy mode) as [j r|x|]; cbn [best_spec] in H.
    - destruct H as (e & _ & _ & Hin & Hm & _). split; [intros [x Hx]; discriminate|]. intro Hall. rewrite (Hall _ Hin) in Hm. discriminate.
    - split; [|intros _; eexists; reflexivity]. intros _. destruct x; [subst eps; intros e' []| apply H].
    - destruct H.
  Qed.

  (* the level of the answer does not depend on which sorted permutation the unstable sort produced *)
  Corollary select_sorted_level_unique : forall eps s1 s2 policy mode i1 e1 i2 e2,
    no_nil eps -> Permutation eps s1 -> sorted_desc s1 = true -> Permutation eps s2 -> sorted_desc s2 = true ->
    select_sorted tbl prefix minv s1 policy mode = SelOk i1 (Some e1) ->
    select_sorted tbl prefix minv s2 policy mode = SelOk i2 (Some e2) -> ep_level e1 = ep_level e2.
  Proof.
    intros eps s1 s2 policy mode i1 e1 i2 e2 Hnn HP1 Hs1 HP2 Hs2 H1 H2.
    pose proof (select_sorted_best eps s1 policy mode Hnn HP1 Hs1) as B1. rewrite H1 in B1.
    pose proof (select_sorted_best eps s2 policy mode Hnn HP2 Hs2) as B2. rewrite H2 in B2.
    cbn [best_spec] in B1, B2. destruct B1 as (a & Ea & _ & Ina & Ma & Maxa). destruct B2 as (b & Eb & _ & Inb & Mb & Maxb).
    inversion Ea; inversion Eb; subst. specialize (Maxa _ Inb Mb). specialize (Maxb _ Ina Ma). lia.
  Qed.

  (* table facts, decidable on the generated table *)
  Definition table_ok : bool :=
    forallb (fun kv => negb (is_empty (fst kv)) && negb (is_empty (snd kv)) &&
                       beqb (format_policy tbl prefix (fst kv)) (snd kv) && beqb (format_policy tbl prefix (snd kv)) (snd kv)) tbl.

  Lemma format_policy_empty_iff : forallb (fun kv => negb (is_empty (snd kv))) tbl = true ->
    forall policy, is_empty (format_policy tbl prefix policy) = is_empty policy.
  Proof.
    intros Ht policy. destruct policy as [|c policy]; [reflexivity|]. unfold format_policy.
    destruct (bassoc (c :: policy) tbl) as [v|] eqn:E.
    - cbn [is_empty]. clear -Ht E. induction tbl as [|[k' v'] t IH]; [discriminate|].
      cbn [bassoc] in E. cbn [forallb] in Ht. apply andb_true_iff in Ht. destruct Ht as [H1 H2].
      destruct (beqb (c :: policy) k'); [inversion E; subst; cbn in H1; destruct v; [discriminate|reflexivity] | apply IH; assumption].
    - destruct (negb (has_prefix (c :: policy) prefix)); [|reflexivity]. destruct prefix; reflexivity.
  Qed.
End WithTables.

(* ---------- the correspondence check's permutation test is sound ---------- *)

Lemma remove_one_perm : forall n l l', remove_one n l = Some l' -> Permutation l (n :: l').
Proof.
  induction l as [|m l IH]; intros l' H; [discriminate|]. cbn [remove_one] in H.
  destruct (Nat.eqb n m) eqn:E.
  - apply Nat.eqb_eq in E. inversion H; subst. apply Permutation_refl.
  - destruct (remove_one n l) as [r|] eqn:Er; [|discriminate]. cbn in H. inversion H; subst.
    eapply Permutation_trans; [apply perm_skip; apply IH; reflexivity|]. apply perm_swap.
Qed.

Lemma is_perm_of_perm : forall idx pool, is_perm_of idx pool = true -> Permutation pool idx.
Proof.
  induction idx as [|i idx IH]; intros pool H.
  - destruct pool; [apply perm_nil | discriminate].
  - cbn [is_perm_of] in H. destruct (remove_one i pool) as [pool'|] eqn:E; [|discriminate].
    eapply Permutation_trans; [apply remove_one_perm; exact E|]. apply perm_skip. apply IH. exact H.
Qed.

Lemma pick_map : forall A (l : list A) idx s, pick l idx = Some s -> map (nth_error l) idx = map Some s.
Proof.
  induction idx as [|i idx IH]; intros s H.
  - inversion H. reflexivity.
  - cbn [pick] in H. destruct (nth_error l i) eqn:E; [|discriminate]. destruct (pick l idx) eqn:Ep; [|discriminate].
    inversion H; subst. cbn. rewrite E. f_equal. apply IH. reflexivity.
Qed.

Lemma map_nth_error_seq : forall A (l : list A), map (nth_error l) (seq 0 (length l)) = map Some l.
Proof.
  intros A l. assert (G : forall pre, map (nth_error (pre ++ l)) (seq (length pre) (length l)) = map Some l).
  { induction l as [|a l IH]; intro pre; [reflexivity|]. cbn [length seq map]. f_equal.
    - rewrite nth_error_app2 by lia. rewrite Nat.sub_diag. reflexivity.
    - specialize (IH (pre ++ [a])). rewrite <- app_assoc in IH. cbn in IH. rewrite app_length in IH. cbn in IH.
      replace (length pre + 1)%nat with (S (length pre)) in IH by lia. exact IH. }
  apply (G []).
Qed.

Lemma map_Some_perm : forall A (a b : list A), Permutation (map Some a) (map Some b) -> Permutation a b.
Proof.
  intros A a b H. apply (Permutation_map (fun o : option A => match o with Some x => [x] | None => [] end)) in H.
  rewrite !map_map in H.
  assert (F : forall l : list A, concat (map (fun x => [x]) l) = l) by (induction l; cbn; congruence).
  assert (H2 : Permutation (concat (map (fun x : A => [x]) a)) (concat (map (fun x : A => [x]) b))).
  { clear F. remember (map (fun x : A => [x]) a) as la. remember (map (fun x : A => [x]) b) as lb. clear -H.
    induction H; cbn; [apply perm_nil | apply Permutation_app_head; assumption
                      | rewrite !app_assoc; apply Permutation_app_tail, Permutation_app_comm | eapply Permutation_trans; eassumption]. }
  rewrite !F in H2. exact H2.
Qed.

Theorem perm_check_sound : forall A (l : list A) idx s,
  is_perm_of idx (seq 0 (length l)) = true -> pick l idx = Some s -> Permutation l s.
Proof.
  intros A l idx s Hp Hk. apply map_Some_perm. rewrite <- (pick_map _ _ _ _ Hk), <- map_nth_error_seq.
  apply Permutation_map. apply is_perm_of_perm. exact Hp.
Qed.
