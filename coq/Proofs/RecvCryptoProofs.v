From Coq Require Import NArith ZArith List Bool Lia.
From Opcua Require Import Model.RecvBase Model.RecvCrypto Proofs.RecvBaseProofs.
Import ListNotations.
Open Scope Z_scope.

Lemma zlen_app a b : zlen (a ++ b) = zlen a + zlen b.
Proof. unfold zlen. rewrite app_length. lia. Qed.
Lemma zlen_nonneg b : 0 <= zlen b.
Proof. unfold zlen. lia. Qed.

Lemma slice_ok b lo hi : 0 <= lo -> lo <= hi -> hi <= zlen b ->
  exists x, slice b lo hi = Ok x /\ zlen x = hi - lo /\ x = firstn (Z.to_nat hi - Z.to_nat lo) (skipn (Z.to_nat lo) b).
Proof.
  intros H1 H2 H3. unfold slice, zlen in *.
  destruct (Z.leb_spec 0 lo); [|lia]. destruct (Z.leb_spec lo hi); [|lia].
  destruct (Z.leb_spec hi (Z.of_nat (length b))); [|lia]. cbn [andb].
  eexists. split; [reflexivity|]. split; [|reflexivity].
  rewrite firstn_length, skipn_length. lia.
Qed.

Lemma slice_inv b lo hi x : slice b lo hi = Ok x ->
  0 <= lo /\ lo <= hi /\ hi <= zlen b /\ zlen x = hi - lo /\ x = firstn (Z.to_nat hi - Z.to_nat lo) (skipn (Z.to_nat lo) b).
Proof.
  unfold slice, zlen.
  destruct (Z.leb_spec 0 lo); cbn [andb]; [|discriminate].
  destruct (Z.leb_spec lo hi); cbn [andb]; [|discriminate].
  destruct (Z.leb_spec hi (Z.of_nat (length b))); [|discriminate].
  intros [= <-]. repeat split; try lia. rewrite firstn_length, skipn_length. lia.
Qed.

Lemma index_ok b i : 0 <= i -> i < zlen b -> exists x, index b i = Ok x.
Proof.
  intros H1 H2. unfold index, zlen in *.
  destruct (Z.leb_spec 0 i); [|lia]. destruct (Z.ltb_spec i (Z.of_nat (length b))); [|lia]. cbn. eauto.
Qed.

Lemma split_at b k : 0 <= k <= zlen b ->
  firstn (Z.to_nat k - Z.to_nat 0) (skipn (Z.to_nat 0) b) ++ firstn (Z.to_nat (zlen b) - Z.to_nat k) (skipn (Z.to_nat k) b) = b.
Proof.
  intros H. cbn [Z.to_nat skipn]. rewrite Nat.sub_0_r.
  rewrite (firstn_all2 (skipn (Z.to_nat k) b)).
  - apply firstn_skipn.
  - rewrite skipn_length. unfold zlen in *. lia.
Qed.

(* ---- header decoding consumes h_len bytes, at least 12 ---- *)
Lemma read_u32_len b n r : read_u32 b = Some (n, r) -> zlen b = 4 + zlen r.
Proof.
  unfold read_u32. destruct b as [|b0 [|b1 [|b2 [|b3 r']]]]; try discriminate.
  intros [= _ <-]. unfold zlen. cbn [length]. lia.
Qed.

Lemma read_bytes_len b n r : read_bytes b = Some (n, r) -> zlen b = 4 + n + zlen r /\ 0 <= n.
Proof.
  unfold read_bytes. destruct (read_u32 b) as [[m r']|] eqn:E; [|discriminate].
  apply read_u32_len in E.
  destruct ((m =? 0)%N || (m =? 4294967295)%N).
  - intros [= <- <-]. lia.
  - destruct (Z.leb_spec (Z.of_N m) (zlen r')); [|discriminate].
    intros [= <- <-]. split; [|lia]. unfold zlen in *. rewrite skipn_length. lia.
Qed.

Local Opaque Z.add.
Lemma chunk_decode_len r h : chunk_decode r = Some h -> zlen r = h_len h + zlen (h_data h) /\ 12 <= h_len h.
Proof.
  unfold chunk_decode.
  destruct r as [|t0 [|t1 [|t2 [|ct r0]]]]; try discriminate.
  destruct (read_u32 r0) as [[size r1]|] eqn:E0; [|discriminate].
  destruct (read_u32 r1) as [[chan r2]|] eqn:E1; [|discriminate].
  apply read_u32_len in E0, E1.
  assert (Hz : zlen (t0 :: t1 :: t2 :: ct :: r0) = 4 + zlen r0) by (unfold zlen; cbn [length]; lia).
  destruct (bytes_eqb [t0; t1; t2] MT_OPN).
  - destruct (read_bytes r2) as [[n1 r3]|] eqn:E2; [|discriminate].
    destruct (read_bytes r3) as [[n2 r4]|] eqn:E3; [|discriminate].
    destruct (read_bytes r4) as [[n3 r5]|] eqn:E4; [|discriminate].
    apply read_bytes_len in E2, E3, E4. intros [= <-]. unfold h_len, h_data. cbv beta iota. lia.
  - destruct (bytes_eqb [t0; t1; t2] MT_MSG || bytes_eqb [t0; t1; t2] MT_CLO); [|discriminate].
    destruct (read_u32 r2) as [[tok r3]|] eqn:E2; [|discriminate].
    apply read_u32_len in E2. intros [= <-]. unfold h_len, h_data. cbv beta iota. lia.
Qed.
Local Transparent Z.add.

Section VDProofs.
  Variable dec : bytes -> option bytes.
  Variable verify : bytes -> bytes -> bool.
  Variables rsl lsl : Z.
  Variable mode : smode.
  Variable policy_none : bool.
  Hypothesis Hrsl : 0 <= rsl.

  Notation vd := (verify_decrypt dec verify rsl lsl mode policy_none true).
  Notation tail := (vd_tail verify rsl lsl true).
  Notation front := (vd_front dec).

  Lemma tail_no_panic enc hl b : 0 <= hl <= zlen b -> forall p, tail enc hl b <> Panic p.
  Proof.
    intros Hbl p. unfold vd_tail. cbn [andb]. destruct (Z.ltb_spec (zlen b) (hl + rsl)); [discriminate|].
    destruct (slice_ok b (zlen b - rsl) (zlen b)) as (sig & -> & Hsl & _); try lia.
    destruct (slice_ok b 0 (zlen b - rsl)) as (mtv & -> & Hml & _); try lia.
    cbn [bind]. destruct (negb (verify mtv sig)); [discriminate|].
    destruct enc.
    - destruct (Z.ltb_spec (zlen mtv) (hl + (if 256 <? lsl then 2 else 1))); [discriminate|].
      destruct (index_ok mtv (zlen mtv - 1)) as (x & ->); try (destruct (256 <? lsl); lia).
      cbn [bind]. destruct (256 <? lsl) eqn:E.
      + destruct (index_ok mtv (zlen mtv - 2)) as (y & ->); try lia. cbn [bind].
        destruct (Z.ltb_spec (zlen mtv - (Z.of_N x * 256 + Z.of_N y + 1 + 1)) hl); [discriminate|].
        destruct (slice_ok mtv hl (zlen mtv - (Z.of_N x * 256 + Z.of_N y + 1 + 1))) as (d & -> & _); try lia. discriminate.
      + cbn [bind]. destruct (Z.ltb_spec (zlen mtv - (Z.of_N x + 1)) hl); [discriminate|].
        destruct (slice_ok mtv hl (zlen mtv - (Z.of_N x + 1))) as (d & -> & _); try lia. discriminate.
    - cbn [bind]. destruct (Z.ltb_spec (zlen mtv - 0) hl); [discriminate|].
      destruct (slice_ok mtv hl (zlen mtv - 0)) as (d & -> & _); try lia. discriminate.
  Qed.

  Lemma front_shape enc hl r : 0 <= hl <= zlen r ->
    (exists e, front enc hl r = Err e) \/ (exists b, front enc hl r = Ok b /\ hl <= zlen b).
  Proof.
    intros Hhl. unfold vd_front. destruct enc; [|right; eexists; split; [reflexivity|lia]].
    destruct (slice_ok r hl (zlen r)) as (ct & -> & _ & _); try lia. cbn [bind].
    destruct (dec ct) as [pl|]; [|left; eauto].
    destruct (slice_ok r 0 hl) as (hd & -> & Hhd & _); try lia. cbn [bind].
    right. eexists. split; [reflexivity|]. rewrite zlen_app. pose proof (zlen_nonneg pl). lia.
  Qed.

  (* no Go panic, whatever the bytes, the mode and the algorithm's functions *)
  Lemma vd_no_panic asym hl data r : 0 <= hl <= zlen r -> forall p, vd asym hl data r <> Panic p.
  Proof.
    intros Hhl p. unfold verify_decrypt.
    destruct ((match mode with SNone => true | _ => false end) && (policy_none || negb asym)); [discriminate|].
    destruct (front_shape (encrypted mode asym) hl r Hhl) as [[e ->]|(b & -> & Hb)]; cbn [bind]; [discriminate|].
    apply tail_no_panic. lia.
  Qed.

  Lemma tail_ok_inv enc hl b d : tail enc hl b = Ok d ->
    exists mtv sig pad, b = mtv ++ sig /\ zlen sig = rsl /\ verify mtv sig = true
        /\ 0 <= pad /\ hl + pad <= zlen mtv /\ slice mtv hl (zlen mtv - pad) = Ok d.
  Proof.
    unfold vd_tail. cbn [andb]. intros Hrest.
    destruct (Z.ltb_spec (zlen b) (hl + rsl)); [discriminate|].
    destruct (slice b (zlen b - rsl) (zlen b)) as [sig| |] eqn:Es; cbn [bind] in Hrest; try discriminate.
    destruct (slice b 0 (zlen b - rsl)) as [mtv| |] eqn:Em; cbn [bind] in Hrest; try discriminate.
    apply slice_inv in Es, Em. destruct Es as (Hs0 & _ & _ & Hsl & Hs). destruct Em as (_ & Hm0 & _ & Hml & Hm).
    destruct (verify mtv sig) eqn:Ev; cbn [negb] in Hrest; [|discriminate].
    assert (Hsplit : b = mtv ++ sig).
    { rewrite Hm, Hs. symmetry. apply split_at. lia. }
    destruct enc.
    - destruct (Z.ltb_spec (zlen mtv) (hl + (if 256 <? lsl then 2 else 1))); [discriminate|].
      destruct (index mtv (zlen mtv - 1)) as [x| |]; cbn [bind] in Hrest; try discriminate.
      destruct (256 <? lsl).
      + destruct (index mtv (zlen mtv - 2)) as [y| |]; cbn [bind] in Hrest; try discriminate.
        destruct (Z.ltb_spec (zlen mtv - (Z.of_N x * 256 + Z.of_N y + 1 + 1)) hl); [discriminate|].
        exists mtv, sig, (Z.of_N x * 256 + Z.of_N y + 1 + 1). repeat split; try assumption; lia.
      + cbn [bind] in Hrest. destruct (Z.ltb_spec (zlen mtv - (Z.of_N x + 1)) hl); [discriminate|].
        exists mtv, sig, (Z.of_N x + 1). repeat split; try assumption; lia.
    - cbn [bind] in Hrest. destruct (Z.ltb_spec (zlen mtv - 0) hl); [discriminate|].
      exists mtv, sig, 0. repeat split; try assumption; lia.
  Qed.

  (* verify-before-use: whatever is returned was cut out of a message whose tag verified *)
  Lemma vd_authentic asym hl data r d :
    (mode <> SNone \/ (policy_none = false /\ asym = true)) ->
    vd asym hl data r = Ok d ->
    exists b mtv sig pad,
      (if encrypted mode asym
       then exists ct p, slice r hl (zlen r) = Ok ct /\ dec ct = Some p /\ b = firstn (Z.to_nat hl) r ++ p
       else b = r)
      /\ b = mtv ++ sig /\ zlen sig = rsl /\ verify mtv sig = true
      /\ 0 <= pad /\ hl + pad <= zlen mtv /\ slice mtv hl (zlen mtv - pad) = Ok d.
  Proof.
    intros Hsec. unfold verify_decrypt.
    replace ((match mode with SNone => true | _ => false end) && (policy_none || negb asym)) with false.
    2:{ destruct Hsec as [H|[-> ->]]; [destruct mode; try reflexivity; contradiction | destruct mode; reflexivity]. }
    unfold vd_front. destruct (encrypted mode asym).
    - destruct (slice r hl (zlen r)) as [ct| |] eqn:Ec; cbn [bind]; try discriminate.
      destruct (dec ct) as [p|] eqn:Ed; [|discriminate].
      destruct (slice r 0 hl) as [hd| |] eqn:Eh; cbn [bind]; try discriminate.
      intros H. destruct (tail_ok_inv _ _ _ _ H) as (mtv & sig & pad & H1 & H2 & H3 & H4 & H5 & H6).
      exists (hd ++ p), mtv, sig, pad. repeat split; try assumption.
      exists ct, p. repeat split; try assumption.
      apply slice_inv in Eh. destruct Eh as (_ & _ & _ & _ & ->). cbn [Z.to_nat skipn]. now rewrite Nat.sub_0_r.
    - cbn [bind]. intros H. destruct (tail_ok_inv _ _ _ _ H) as (mtv & sig & pad & H1 & H2 & H3 & H4 & H5 & H6).
      exists r, mtv, sig, pad. repeat split; assumption.
  Qed.
End VDProofs.

(* ---- what the peer produces, and the reduction to the algorithm's properties ---- *)
Definition secure (enc mac : bytes -> bytes) (e : bool) (hl : Z) (m : bytes) : bytes :=
  let pt := m ++ mac m in
  if e then firstn (Z.to_nat hl) pt ++ enc (skipn (Z.to_nat hl) pt) else pt.

Lemma vd_only_peer_chunks dec enc verify mac (signed : bytes -> Prop) rsl lsl mode pn asym hl data r d :
  0 <= rsl -> 0 <= hl <= zlen r ->
  (mode <> SNone \/ (pn = false /\ asym = true)) ->
  (forall m s, zlen s = rsl -> verify m s = true -> signed m /\ s = mac m) ->
  (forall c p, dec c = Some p -> c = enc p) ->
  verify_decrypt dec verify rsl lsl mode pn true asym hl data r = Ok d ->
  exists m, signed m /\ r = secure enc mac (encrypted mode asym) hl m.
Proof.
  intros Hrsl Hhl Hsec Hunf Hdec H.
  destruct (vd_authentic dec verify rsl lsl mode pn Hrsl asym hl data r d Hsec H)
    as (b & mtv & sig & pad & Hb & Hsplit & Hsl & Hv & _).
  destruct (Hunf mtv sig Hsl Hv) as [Hsigned ->].
  exists mtv. split; [exact Hsigned|]. unfold secure.
  destruct (encrypted mode asym).
  - destruct Hb as (ct & p & Hct & Hd & Hbe).
    apply Hdec in Hd. subst ct.
    apply slice_inv in Hct. destruct Hct as (_ & _ & _ & _ & Hct).
    rewrite <- Hsplit, Hbe.
    assert (Hl : length (firstn (Z.to_nat hl) r) = Z.to_nat hl).
    { rewrite firstn_length. unfold zlen in Hhl. lia. }
    rewrite firstn_app, Hl, Nat.sub_diag, firstn_O, app_nil_r, firstn_firstn, Nat.min_id.
    rewrite skipn_app, Hl, Nat.sub_diag. cbn [skipn].
    rewrite (skipn_all2 (firstn (Z.to_nat hl) r)) by lia. cbn [app].
    rewrite Hct. rewrite (firstn_all2 (skipn (Z.to_nat hl) r)).
    + symmetry. apply firstn_skipn.
    + rewrite skipn_length. unfold zlen. lia.
  - now rewrite <- Hsplit, Hb.
Qed.

(* toy instantiation satisfies the hypotheses *)
Lemma toy_xor_invol k c : toy_xor k (toy_xor k c) = c.
Proof.
  unfold toy_xor. rewrite map_map. rewrite <- (map_id c) at 2. apply map_ext. intro x.
  now rewrite N.lxor_assoc, N.lxor_nilpotent, N.lxor_0_r.
Qed.

Lemma toy_dec_inverse block k c p : toy_dec block k c = Some p -> c = toy_xor k p.
Proof.
  unfold toy_dec. destruct (zlen c mod block =? 0); [|discriminate]. intros [= <-]. now rewrite toy_xor_invol.
Qed.

Lemma toy_verify_mac k m s n : zlen s = Z.of_nat n -> toy_verify k m s = true -> s = toy_mac k n m.
Proof.
  unfold toy_verify, bytes_eqb, zlen. intros Hl. destruct (list_eq_dec N.eq_dec s (toy_mac k (length s) m)); [|discriminate].
  intros _. replace n with (length s) by lia. exact e.
Qed.
