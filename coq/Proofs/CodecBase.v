(* E1 codec: little-endian lemmas and the `decodes` relation used by the round-trip proofs. *)
From Coq Require Import NArith ZArith List Bool Lia.
From Coq.Strings Require Import Byte.
From Opcua Require Import Model.CodecTypes Model.Codec.
Import ListNotations.
Open Scope Z_scope.

Lemma Z_of_byte_of_Z : forall z, Z_of_byte (byte_of_Z z) = z mod 256.
Proof.
  intros z. unfold Z_of_byte, byte_of_Z.
  pose proof (Z.mod_pos_bound z 256 ltac:(lia)) as Hb.
  destruct (Byte.of_N (Z.to_N (z mod 256))) as [b|] eqn:E.
  - apply Byte.to_of_N in E. rewrite E. rewrite Z2N.id; lia.
  - apply Byte.of_N_None_iff in E. lia.
Qed.

Lemma pow8_S : forall w, pow8 (S w) = 256 * pow8 w.
Proof.
  intros w. unfold pow8. rewrite Nat2Z.inj_succ.
  replace (8 * Z.succ (Z.of_nat w)) with (8 + 8 * Z.of_nat w) by lia.
  rewrite Z.pow_add_r by lia. reflexivity.
Qed.
Lemma pow8_pos : forall w, 0 < pow8 w.
Proof. intros w. unfold pow8. apply Z.pow_pos_nonneg; lia. Qed.

Lemma unle_le : forall w z, unle (le w z) = z mod pow8 w.
Proof.
  induction w as [|w IH]; intros z.
  - cbn [le unle]. unfold pow8. cbn. rewrite Z.mod_1_r. reflexivity.
  - cbn [le unle]. rewrite Z_of_byte_of_Z, IH, pow8_S.
    pose proof (pow8_pos w). rewrite Z.rem_mul_r by lia. reflexivity.
Qed.

Lemma le_length : forall w z, length (le w z) = w.
Proof. induction w as [|w IH]; intros z; cbn [le length]; [reflexivity|]. rewrite IH. reflexivity. Qed.

(* ------------------------------------------------------------------ decodes *)
Definition decodes {A} (d : dec A) (input : bytes) (a : A) (rest : bytes) : Prop :=
  exists al, d input = Ok a rest al.

Lemma decodes_ret : forall A (a : A) bs, decodes (ret a) bs a bs.
Proof. intros. eexists. reflexivity. Qed.

Lemma decodes_bind : forall A B (m : dec A) (f : A -> dec B) bs a bs' b bs'',
  decodes m bs a bs' -> decodes (f a) bs' b bs'' -> decodes (bind m f) bs b bs''.
Proof.
  intros A B m f bs a bs' b bs'' [al1 H1] [al2 H2]. unfold decodes, bind. rewrite H1, H2. cbn. eexists. reflexivity.
Qed.

Lemma decodes_tick : forall n bs, decodes (tick n) bs tt bs.
Proof. intros. eexists. reflexivity. Qed.

Lemma decodes_remaining : forall bs, decodes remaining bs (blen bs) bs.
Proof. intros. eexists. reflexivity. Qed.

Lemma decodes_read_n : forall a rest, decodes (read_n (blen a)) (a ++ rest) a rest.
Proof.
  intros a rest. unfold decodes, read_n, blen.
  destruct (Z.of_nat (length a) <? 0) eqn:E0; [apply Z.ltb_lt in E0; lia|].
  replace (Z.of_nat (length (a ++ rest)) <? Z.of_nat (length a)) with false.
  2:{ symmetry. apply Z.ltb_ge. rewrite app_length. lia. }
  rewrite Nat2Z.id. rewrite firstn_app, Nat.sub_diag, firstn_all, firstn_O, app_nil_r.
  rewrite skipn_app, Nat.sub_diag, skipn_all, skipn_O. cbn. eexists. reflexivity.
Qed.

Lemma decodes_read_n' : forall n a rest, n = blen a -> decodes (read_n n) (a ++ rest) a rest.
Proof. intros n a rest ->. apply decodes_read_n. Qed.

Lemma decodes_read_u : forall w z rest, 0 <= z < pow8 w -> decodes (read_u w) (le w z ++ rest) z rest.
Proof.
  intros w z rest Hz. unfold read_u. eapply decodes_bind.
  - apply decodes_read_n'. unfold blen. rewrite le_length. reflexivity.
  - rewrite unle_le, Z.mod_small by exact Hz. apply decodes_ret.
Qed.

Lemma to_signed_mod : forall w z, (1 <= w)%nat -> - (pow8 w / 2) <= z < pow8 w / 2 -> to_signed w (z mod pow8 w) = z.
Proof.
  intros w z Hw Hz. unfold to_signed.
  assert (Hev : pow8 w = 2 * (pow8 w / 2)).
  { destruct w as [|w]; [lia|]. rewrite pow8_S. replace (256 * pow8 w) with ((128 * pow8 w) * 2) by lia.
    rewrite Z.div_mul by lia. lia. }
  pose proof (pow8_pos w) as Hp.
  destruct (Z_lt_ge_dec z 0) as [Hneg|Hpos].
  - replace (z mod pow8 w) with (z + pow8 w).
    2:{ symmetry. rewrite <- (Z.mod_add z 1 (pow8 w)) by lia. rewrite Z.mul_1_l. apply Z.mod_small. lia. }
    destruct (z + pow8 w <? pow8 w / 2) eqn:E; [apply Z.ltb_lt in E; lia|lia].
  - rewrite Z.mod_small by lia. destruct (z <? pow8 w / 2) eqn:E; [reflexivity|apply Z.ltb_ge in E; lia].
Qed.

Lemma decodes_read_i : forall w z rest, (1 <= w)%nat -> - (pow8 w / 2) <= z < pow8 w / 2 ->
  decodes (read_i w) (le w z ++ rest) z rest.
Proof.
  intros w z rest Hw Hz. unfold read_i. eapply decodes_bind.
  - apply decodes_read_n'. unfold blen. rewrite le_length. reflexivity.
  - rewrite unle_le, to_signed_mod by assumption. apply decodes_ret.
Qed.

(* results of successful encodes *)
Lemma eapp_ok : forall a b bs, eapp a b = EOk bs -> exists x y, a = EOk x /\ b = EOk y /\ bs = x ++ y.
Proof.
  intros [x| | |] b bs H; cbn in H; try discriminate.
  destruct b as [y| | |]; try discriminate. inversion H. eauto.
Qed.
