From Coq Require Import NArith ZArith List Bool Lia Sorting.Sorted.
From Opcua Require Import Model.RecvBase Model.RecvMerge Model.RecvChan Proofs.RecvBaseProofs.
Import ListNotations.
Open Scope Z_scope.

Lemma iget_tset t k v k' : iget (tset t k v) k' = if (k' =? k)%N then v else iget t k'.
Proof. unfold iget. rewrite tfind_tset. destruct (k' =? k)%N; reflexivity. Qed.

Lemma tfind_In {V} (t : tbl V) k v : tfind t k = Some v -> In (k, v) t.
Proof.
  induction t as [|[k0 v0] t IH]; cbn [tfind]; [discriminate|].
  destruct (N.eqb_spec k k0) as [->|]; [intros [= ->]; now left | intros H; right; auto].
Qed.

Lemma iget_all t k j : In j (iget t k) -> In j (all_insts t).
Proof.
  unfold iget, all_insts. destruct (tfind t k) as [l|] eqn:E; [|intros []].
  intros H. apply in_concat. exists l. split; [|exact H].
  apply tfind_In in E. apply in_map_iff. exists (k, l). auto.
Qed.

(* stored under its own channel id *)
Definition WF (t : itable) : Prop := forall k j, In j (iget t k) -> i_chan j = k.

Lemma WF_expire t i : WF t -> WF (expire_one true t i).
Proof.
  intros H k j. unfold expire_one. rewrite iget_tset. destruct (N.eqb_spec k (i_chan i)) as [->|]; [|apply H].
  intros Hin. apply filter_In in Hin. apply H. tauto.
Qed.

Lemma WF_fold L : forall t, WF t -> WF (fold_left (expire_one true) L t).
Proof. induction L as [|i L IH]; intros t H; cbn [fold_left]; [exact H|]. apply IH. now apply WF_expire. Qed.

Lemma expire_one_sub t i k j : In j (iget (expire_one true t i) k) -> In j (iget t k) /\ (i_chan i = k -> i_id i <> i_id j).
Proof.
  unfold expire_one. rewrite iget_tset. destruct (N.eqb_spec k (i_chan i)) as [->|Hne].
  - intros Hin. apply filter_In in Hin. destruct Hin as [H1 H2]. split; [exact H1|].
    intros _ Heq. rewrite Heq, N.eqb_refl in H2. discriminate.
  - intros H. split; [exact H|]. intros Heq. congruence.
Qed.

Lemma fold_expire_sub L : forall t k j, In j (iget (fold_left (expire_one true) L t) k) ->
  In j (iget t k) /\ (forall i, In i L -> i_chan i = k -> i_id i <> i_id j).
Proof.
  induction L as [|i L IH]; intros t k j H; cbn [fold_left] in H.
  - split; [exact H|]. intros i [].
  - apply IH in H. destruct H as [H1 H2]. apply expire_one_sub in H1. destruct H1 as [H1 H3].
    split; [exact H1|]. intros i' [<-|Hin]; [exact H3 | now apply H2].
Qed.

(* after the sweep nothing that is due remains, nothing new appears *)
Lemma sweep_spec s : WF (insts s) ->
  WF (insts (sweep true s)) /\ now (sweep true s) = now s /\ next_id (sweep true s) = next_id s /\
  forall k j, In j (iget (insts (sweep true s)) k) -> In j (iget (insts s) k) /\ now s < due j.
Proof.
  intros Hwf. unfold sweep. cbn [insts now next_id]. split; [now apply WF_fold|]. split; [reflexivity|]. split; [reflexivity|].
  intros k j H. apply fold_expire_sub in H. destruct H as [H1 H2]. split; [exact H1|].
  destruct (Z.ltb_spec (now s) (due j)) as [|Hdue]; [assumption|]. exfalso.
  apply (H2 j); [|now apply Hwf|reflexivity].
  apply filter_In. split; [now apply iget_all with k|]. now apply Z.leb_le.
Qed.

Definition CInv (s : cstate) : Prop := WF (insts s) /\ forall k j, In j (iget (insts s) k) -> now s < due j.

Lemma cstep_inv s o : CInv s -> CInv (cstep true s o).
Proof.
  intros [Hwf Hdue]. destruct o as [chan token key created life | chan token key | dt]; cbn [cstep].
  - set (s1 := {| insts := _; now := now s; next_id := _ |}).
    assert (Hwf1 : WF (insts s1)).
    { subst s1. cbn [insts]. intros k j. rewrite iget_tset. destruct (N.eqb_spec k chan) as [->|]; [|apply Hwf].
      intros Hin. apply in_app_or in Hin. destruct Hin as [Hin|[<-|[]]]; [now apply Hwf | reflexivity]. }
    destruct (sweep_spec s1 Hwf1) as (H1 & H2 & _ & H4). split; [exact H1|].
    intros k j Hin. rewrite H2. now apply H4 in Hin.
  - destruct (sweep_spec s Hwf) as (H1 & H2 & _ & H4). split; [exact H1|].
    intros k j Hin. rewrite H2. now apply H4 in Hin.
  - set (s1 := {| insts := insts s; now := _; next_id := _ |}).
    destruct (sweep_spec s1 Hwf) as (H1 & H2 & _ & H4). split; [exact H1|].
    intros k j Hin. rewrite H2. now apply H4 in Hin.
Qed.

Lemma crun_inv ops : forall s, CInv s -> CInv (crun true s ops).
Proof. induction ops as [|o ops IH]; intros s H; cbn; [exact H|]. apply IH. now apply cstep_inv. Qed.

Lemma cinit_inv t0 : CInv (cinit t0).
Proof. split; intros k j H; destruct H. Qed.

(* ---- replay ---- *)
Open Scope N_scope.
Lemma seq_ok_after l n : seq_ok (Some l) n = true <-> seq_after l n.
Proof.
  unfold seq_ok, seq_after. rewrite orb_true_iff, andb_true_iff, N.ltb_lt, N.leb_le, N.ltb_lt. tauto.
Qed.

Fixpoint incr_from (last : option N) (l : list N) : Prop :=
  match l with [] => True | a :: r => seq_ok last a = true /\ incr_from (Some a) r end.

Lemma accept_seq_incr h : forall last, incr_from last (map ck_seq (accept_seq last h)).
Proof.
  induction h as [|[v c] r IH]; intros last; cbn [accept_seq map incr_from]; [exact I|].
  destruct v; cbn [andb]; [|apply IH]. destruct (seq_ok last (ck_seq c)) eqn:E; [|apply IH].
  cbn [map incr_from]. split; [exact E|apply IH].
Qed.

Lemma incr_from_increasing l : forall last, incr_from last l -> increasing l.
Proof.
  induction l as [|a [|b r] IH]; intros last H; cbn [increasing]; try exact I.
  destruct H as [_ H]. split; [apply seq_ok_after; apply H | apply (IH (Some a)); exact H].
Qed.

(* a numbering that follows the rule passes the check unchanged *)
Lemma seq_next_ok s s' : seq_next s s' -> seq_ok (Some s) s' = true.
Proof. intros H. apply seq_ok_after. unfold seq_next, seq_after in *. lia. Qed.

Lemma accept_seq_chain cs : forall last,
  (forall c r, cs = c :: r -> seq_ok last (ck_seq c) = true) -> chain (map ck_seq cs) ->
  accept_seq last (map (fun c => (true, c)) cs) = cs.
Proof.
  induction cs as [|c cs IH]; intros last Hhd Hc; [reflexivity|].
  cbn [map accept_seq andb]. rewrite (Hhd c cs eq_refl). f_equal. apply IH.
  - intros c' r' ->. cbn [map chain] in Hc. apply seq_next_ok. apply Hc.
  - destruct cs; [exact I|]. cbn [map chain] in Hc |- *. apply Hc.
Qed.

Lemma seq_filter_chain cs : chain (map ck_seq cs) -> seq_filter cs = cs.
Proof. intros H. apply accept_seq_chain; [reflexivity | exact H]. Qed.

(* below the roll-over zone the accepted numbers are strictly increasing, hence pairwise distinct *)
Lemma incr_from_sorted l : forall last, incr_from last l -> Forall (fun x => x < 4294966271) l ->
  Sorted N.lt l /\ (forall x, last = Some x -> x < 4294966271 -> Forall (N.lt x) l).
Proof.
  induction l as [|a r IH]; intros last H Hb; [split; [constructor|intros; constructor]|].
  destruct H as [H1 H2]. inversion Hb as [|? ? Ha Hr]; subst.
  destruct (IH (Some a) H2 Hr) as [Hs Hf]. specialize (Hf a eq_refl Ha).
  split.
  - constructor; [exact Hs|]. destruct r; constructor. inversion Hf; assumption.
  - intros x -> Hx. apply seq_ok_after in H1. unfold seq_after in H1.
    assert (x < a) by lia. constructor; [assumption|].
    rewrite Forall_forall in *. intros y Hy. specialize (Hf y Hy). lia.
Qed.
Close Scope N_scope.

Lemma filter_StronglySorted {A} (R : A -> A -> Prop) f l : StronglySorted R l -> StronglySorted R (filter f l).
Proof.
  induction 1 as [|a l Hs IH Hall]; cbn [filter]; [constructor|].
  destruct (f a); [|exact IH]. constructor; [exact IH|].
  apply Forall_forall. intros x Hx. apply filter_In in Hx. rewrite Forall_forall in Hall. apply Hall. tauto.
Qed.

Lemma map_StronglySorted {A B} (R : B -> B -> Prop) (g : A -> B) l :
  StronglySorted (fun x y => R (g x) (g y)) l -> StronglySorted R (map g l).
Proof.
  induction 1 as [|a l Hs IH Hall]; cbn [map]; constructor; [exact IH|].
  apply Forall_forall. intros y Hy. apply in_map_iff in Hy. destruct Hy as (x & <- & Hx).
  rewrite Forall_forall in Hall. now apply Hall.
Qed.

(* ---- what is in the table was installed by the history ---- *)
Lemma sweep_sub s k j : In j (iget (insts (sweep true s)) k) -> In j (iget (insts s) k).
Proof. unfold sweep. cbn [insts]. intros H. apply fold_expire_sub in H. tauto. Qed.

Lemma sweep_next_id f s : next_id (sweep f s) = next_id s.
Proof. reflexivity. Qed.

Lemma crun_sub ops : forall s k j, In j (iget (insts (crun true s ops)) k) ->
  In j (iget (insts s) k) \/ In j (installed (next_id s) ops).
Proof.
  induction ops as [|o ops IH]; intros s k j H; [left; exact H|].
  cbn [crun fold_left] in H. fold (crun true (cstep true s o) ops) in H.
  apply IH in H. destruct o as [chan token key created life | chan token key | dt]; cbn [cstep installed] in *.
  - rewrite sweep_next_id in H. cbn [next_id] in H. destruct H as [H|H]; [|right; right; exact H].
    apply sweep_sub in H. cbn [insts] in H. rewrite iget_tset in H.
    destruct (N.eqb_spec k chan) as [->|]; [|left; exact H].
    apply in_app_or in H. destruct H as [H|[<-|[]]]; [left; exact H | right; left; reflexivity].
  - rewrite sweep_next_id in H. destruct H as [H|H]; [|right; exact H].
    apply sweep_sub in H. left. exact H.
  - rewrite sweep_next_id in H. cbn [next_id] in H. destruct H as [H|H]; [|right; exact H].
    apply sweep_sub in H. left. exact H.
Qed.

Lemma accepts_spec s chan key : accepts s chan key = true <-> exists i, In i (iget (insts s) chan) /\ i_key i = key.
Proof.
  unfold accepts. rewrite existsb_exists. split; intros (i & H1 & H2); exists i; split; try assumption.
  - now apply N.eqb_eq. - now apply N.eqb_eq.
Qed.
