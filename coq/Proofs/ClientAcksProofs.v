From Coq Require Import List Bool Arith Lia.
From Opcua Require Import Model.ClientAcks.
Import ListNotations.

(* retained acknowledgements come from the pending list *)
Lemma retry_acks_incl pending res a : In a (retry_acks pending res) -> In a pending.
Proof.
  revert res. induction pending as [|x p IH]; intros [|r res] H; cbn in H; try contradiction.
  destruct r; try (right; eapply IH; exact H). destruct H as [<-|H]; [left; reflexivity | right; eapply IH; exact H].
Qed.

Lemma handle_acks_incl pending res a : In a (handle_acks pending res) -> In a pending.
Proof. unfold handle_acks. destruct (_ =? _); [apply retry_acks_incl | intros []]. Qed.

(* T1: a data notification of a known subscription is in the acknowledgement list of the very next request *)
Lemma placed_in_next pending r :
  pr_known r = true -> pr_data r = true -> In (pr_sub r, pr_seq r) (fst (publish_step pending r)).
Proof. intros Hk Hd. unfold publish_step. rewrite Hk, Hd. cbn. apply in_or_app. right. left. reflexivity. Qed.

Lemma delivered_placed : forall h pending a,
  In a (delivered pending h) -> exists acks, In acks (requests pending h) /\ In a acks.
Proof.
  induction h as [|r rest IH]; intros pending a H; cbn in H; [contradiction|].
  assert (Hrest : In a (delivered (fst (publish_step pending r)) rest) ->
                  exists acks, In acks (requests pending (r :: rest)) /\ In a acks).
  { intros H'. destruct (IH _ _ H') as [acks [H1 H2]]. exists acks. split; [right; exact H1 | exact H2]. }
  destruct (snd (publish_step pending r)) as [b|] eqn:E; [|apply Hrest; exact H].
  destruct H as [<-|H]; [|apply Hrest; exact H].
  (* b was just delivered: it is in the new pending list, which heads the remaining requests *)
  exists (fst (publish_step pending r)). split.
  - cbn. right. destruct rest; cbn; left; reflexivity.
  - unfold publish_step in *. destruct (pr_known r); [|cbn in E; discriminate].
    destruct (pr_data r); cbn in E; [|discriminate]. injection E as <-. cbn. apply in_or_app. right. left. reflexivity.
Qed.

(* T2: nothing is acknowledged that was not received (or was pending at the start) *)
Lemma step_incl pending r a :
  In a (fst (publish_step pending r)) -> In a pending \/ snd (publish_step pending r) = Some a.
Proof.
  unfold publish_step. destruct (pr_known r), (pr_data r); cbn; intros H;
    try (left; eapply handle_acks_incl; exact H).
  apply in_app_or in H. destruct H as [H|[<-|[]]]; [left; eapply handle_acks_incl; exact H | right; reflexivity].
Qed.

Lemma requests_sound : forall h pending acks a,
  In acks (requests pending h) -> In a acks -> In a pending \/ In a (delivered pending h).
Proof.
  induction h as [|r rest IH]; intros pending acks a Hacks Ha; cbn in Hacks.
  - destruct Hacks as [<-|[]]. left. exact Ha.
  - destruct Hacks as [<-|Hacks]; [left; exact Ha|].
    destruct (IH _ _ _ Hacks Ha) as [H|H].
    + destruct (step_incl _ _ _ H) as [H'|H']; [left; exact H'|]. right. cbn. rewrite H'. left. reflexivity.
    + right. cbn. destruct (snd (publish_step pending r)); [right|]; exact H.
Qed.

(* T3: an acknowledgement answered OK / SubInvalid / SeqUnknown by a conforming server is dropped: it is sent again
   only if it is received again.  Stated on one step: what is retained was answered AckOther. *)
Lemma retry_only_other : forall pending res a,
  List.length pending = List.length res -> In a (retry_acks pending res) ->
  exists i, nth_error pending i = Some a /\ nth_error res i = Some AckOther.
Proof.
  induction pending as [|x p IH]; intros [|r res] a Hlen H; cbn [retry_acks] in H; try contradiction.
  cbn in Hlen. injection Hlen as Hlen.
  destruct r.
  - destruct (IH _ _ Hlen H) as [i [H1 H2]]. exists (S i). split; assumption.
  - destruct (IH _ _ Hlen H) as [i [H1 H2]]. exists (S i). split; assumption.
  - destruct (IH _ _ Hlen H) as [i [H1 H2]]. exists (S i). split; assumption.
  - destruct H as [E|H].
    + subst. exists 0. split; reflexivity.
    + destruct (IH _ _ Hlen H) as [i [H1 H2]]. exists (S i). split; assumption.
Qed.

Lemma retry_acks_nodup : forall pending res, NoDup pending -> NoDup (retry_acks pending res).
Proof.
  induction pending as [|x p IH]; intros [|r res] H; cbn; try constructor.
  inversion H; subst. destruct r; try (apply IH; assumption).
  constructor; [|apply IH; assumption]. intros Hin. apply H2. eapply retry_acks_incl. exact Hin.
Qed.

(* an acknowledgement that the server answered with a final status is not retained *)
Lemma final_status_dropped : forall pending res i a st,
  NoDup pending -> List.length pending = List.length res ->
  nth_error pending i = Some a -> nth_error res i = Some st -> st <> AckOther ->
  ~ In a (retry_acks pending res).
Proof.
  induction pending as [|x p IH]; intros [|r res] i a st Hnd Hlen Hp Hr Hst Hin; cbn [retry_acks] in Hin; try contradiction.
  cbn in Hlen. injection Hlen as Hlen. inversion Hnd as [|? ? Hx Hnd']; subst.
  destruct i as [|i]; cbn in Hp, Hr.
  - injection Hp as <-. injection Hr as <-.
    assert (Hin' : In x (retry_acks p res)) by (destruct r; try exact Hin; congruence).
    apply Hx. eapply retry_acks_incl. exact Hin'.
  - assert (Hin' : In a (retry_acks p res) \/ a = x).
    { destruct r; try (left; exact Hin). destruct Hin as [E|Hin]; [right; symmetry; exact E | left; exact Hin]. }
    destruct Hin' as [Hin'|E].
    + eapply IH; eassumption.
    + subst. apply Hx. eapply nth_error_In. exact Hp.
Qed.

(* reconnect bookkeeping *)
Lemma restore_one_ok tf e : se_create_ok e = true -> se_items_ok e = true -> survived e (fst (restore_one tf e)) = true.
Proof.
  intros Hc Hi. unfold restore_one, recreate. rewrite Hc, Hi.
  destruct (tf || negb (se_transfer_ok e)); cbn; [apply Nat.eqb_refl|].
  destruct (se_republish_ok e); cbn; [reflexivity | apply Nat.eqb_refl].
Qed.

(* consecutive reconnects keep the whole item table when every recreate succeeds *)
Lemma round_keeps_items p e groups :
  se_create_ok e = true -> se_items_ok e = true ->
  snd (round_items p e groups) = groups /\
  (fst (round_items p e groups) = total_items groups \/ fst (round_items p e groups) = 0).
Proof.
  intros Hc Hi. unfold round_items.
  assert (H : forall tf e', se_create_ok e' = true -> se_items_ok e' = true -> se_items_ok e' = se_items_ok e ->
           let f := fst (restore_one tf e') in
           (match f with Recreated _ => (total_items groups, if se_items_ok e then groups else []) | Lost => (0, []) | _ => (0, groups) end)
           = (total_items groups, groups) \/
           (match f with Recreated _ => (total_items groups, if se_items_ok e then groups else []) | Lost => (0, []) | _ => (0, groups) end)
           = (0, groups)).
  { intros tf e' Hc' Hi' He. unfold restore_one, recreate. rewrite Hc', Hi'.
    destruct (tf || negb (se_transfer_ok e')); cbn; [rewrite Hi; left; reflexivity|].
    destruct (se_republish_ok e'); cbn; [right; reflexivity | rewrite Hi; left; reflexivity]. }
  destruct p as [|tf]; cbn [reconnect_subs fst map restore_all].
  - destruct (H false (kept_env e) Hc Hi eq_refl) as [E|E]; cbn in E |- *; rewrite E; cbn; split; auto.
  - destruct (H tf e Hc Hi eq_refl) as [E|E]; cbn in E |- *; rewrite E; cbn; split; auto.
Qed.

Lemma rounds_keep_items : forall k p e groups,
  se_create_ok e = true -> se_items_ok e = true ->
  snd (rounds_items k p e groups) = groups /\
  forall r, In r (fst (rounds_items k p e groups)) -> r = total_items groups \/ r = 0.
Proof.
  induction k as [|k IH]; intros p e groups Hc Hi; cbn [rounds_items]; [split; [reflexivity | intros r []]|].
  destruct (round_keeps_items p e groups Hc Hi) as [H1 H2].
  destruct (round_items p e groups) as [req g1]. cbn in H1, H2. subst g1.
  destruct (IH p e groups Hc Hi) as [H3 H4].
  destruct (rounds_items k p e groups) as [reqs gk]. cbn in *. split; [exact H3|].
  intros r [<-|Hr]; [exact H2 | apply H4; exact Hr].
Qed.

(* a subscription whose restore succeeded (republished, or recreateSubscription returned nil) is counted in activeSubs *)
Lemma restored_counts tf e : snd (restore_one tf e) = true -> 1 <= active_one tf e.
Proof.
  unfold restore_one, active_one.
  destruct (tf || negb (se_transfer_ok e)).
  - intros H. rewrite H. apply le_n.
  - destruct (se_republish_ok e); cbn; intros H; [apply le_n | rewrite H; auto with arith].
Qed.

Lemma active_sum_ge tf (f : sub_env -> sub_env) es e :
  In e es -> 1 <= active_one tf (f e) -> 1 <= fold_right (fun e n => active_one tf (f e) + n) 0 es.
Proof.
  induction es as [|x t IH]; intros Hin Hge; [contradiction|]. cbn.
  destruct Hin as [->|Hin]; [lia | specialize (IH Hin Hge); lia].
Qed.

(* every notification handed to the application - by Publish or by Republish - is in the pending list right after *)
Lemma publish_step_placed pending r a : snd (publish_step pending r) = Some a -> In a (fst (publish_step pending r)).
Proof.
  unfold publish_step. destruct (pr_known r); [|cbn; discriminate]. destruct (pr_data r); cbn; [|discriminate].
  intros H. injection H as <-. apply in_or_app. right. left. reflexivity.
Qed.

Lemma ev_step_placed pending e a : snd (ev_step pending e) = Some a -> In a (fst (ev_step pending e)).
Proof.
  destruct e as [r|sb sq|sb]; cbn.
  - apply publish_step_placed.
  - intros H. injection H as <-. apply in_or_app. right. left. reflexivity.
  - discriminate.
Qed.

(* what is queued stays queued across the recreate of any subscription and across a republish *)
Lemma ev_step_keeps_pending pending e a :
  (forall r, e <> EPublish r) -> In a pending -> In a (fst (ev_step pending e)).
Proof.
  intros He Hin. destruct e as [r|sb sq|sb]; cbn.
  - exfalso. eapply He. reflexivity.
  - apply in_or_app. left. exact Hin.
  - exact Hin.
Qed.

Lemma ev_delivered_placed : forall h pending a,
  In a (ev_delivered pending h) -> exists acks, In acks (ev_requests pending h) /\ In a acks.
Proof.
  unfold ev_delivered, ev_requests.
  induction h as [|e rest IH]; intros pending a H; cbn in H; [contradiction|].
  fold (ev_step pending e) in *.
  assert (Hrest : In a (ev_delivered_gen true (fst (ev_step pending e)) rest) ->
                  exists acks, In acks (ev_requests_gen true pending (e :: rest)) /\ In a acks).
  { intros H'. destruct (IH _ _ H') as [acks [H1 H2]]. exists acks. split; [right; exact H1 | exact H2]. }
  destruct (snd (ev_step pending e)) as [b|] eqn:E; [|apply Hrest; exact H].
  destruct H as [<-|H]; [|apply Hrest; exact H].
  exists (fst (ev_step pending e)). split.
  - cbn. right. fold (ev_step pending e). destruct rest; cbn; left; reflexivity.
  - apply ev_step_placed. exact E.
Qed.
