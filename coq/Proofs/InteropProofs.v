(* InteropProofs.v — lemmas about the step models of Model/Interop.v that hold for EVERY server configuration
   (any list of enabled pairs, any tables), and the characterisation of the finite configuration set. *)
From Coq Require Import ZArith Bool List String Lia.
From Opcua Require Import Model.Interop.
Import ListNotations.
Open Scope string_scope.
Open Scope Z_scope.

(* ---- advertised endpoints are exactly the enabled pairs, in order ---- *)
Lemma init_endpoints_pairs : forall L S A,
  map (fun e => (ep_pol e, ep_mode e)) (init_endpoints L S A) = map (fun s => (sc_pol s, sc_mode s)) S.
Proof. intros L S A. unfold init_endpoints. rewrite map_map. reflexivity. Qed.

Lemma init_endpoints_tokens : forall L S A e, In e (init_endpoints L S A) -> ep_toks e = tokens_of S A.
Proof.
  intros L S A e Hin. unfold init_endpoints in Hin. apply in_map_iff in Hin.
  destruct Hin as [s [He _]]. subst e. reflexivity.
Qed.

Lemma select_endpoint_sound : forall eps pol mode ep,
  select_endpoint eps pol mode = Some ep -> In ep eps /\ ep_pol ep = pol /\ ep_mode ep = mode.
Proof.
  intros eps pol mode ep H. unfold select_endpoint in H. apply find_some in H. destruct H as [Hin Hb].
  apply andb_prop in Hb. destruct Hb as [Hp Hm]. apply String.eqb_eq in Hp. apply Z.eqb_eq in Hm. auto.
Qed.

(* an enabled pair is always found by a client asking for it *)
Lemma select_endpoint_enabled : forall L S A pol mode,
  In {| sc_pol := pol; sc_mode := mode |} S ->
  exists ep, select_endpoint (init_endpoints L S A) pol mode = Some ep.
Proof.
  intros L S A pol mode Hin.
  destruct (select_endpoint (init_endpoints L S A) pol mode) as [ep|] eqn:E; [eexists; reflexivity|].
  exfalso. unfold select_endpoint in E.
  pose proof (find_none _ _ E) as Hn.
  specialize (Hn {| ep_pol := pol; ep_mode := mode; ep_level := level_of L pol mode; ep_toks := tokens_of S A |}).
  cbn [ep_pol ep_mode] in Hn. rewrite String.eqb_refl, Z.eqb_refl in Hn. cbn in Hn.
  assert (Hin' : In {| ep_pol := pol; ep_mode := mode; ep_level := level_of L pol mode; ep_toks := tokens_of S A |} (init_endpoints L S A)).
  { unfold init_endpoints. apply in_map_iff. exists {| sc_pol := pol; sc_mode := mode |}. split; [reflexivity|exact Hin]. }
  specialize (Hn Hin'). discriminate.
Qed.

(* a selected endpoint is an enabled pair *)
Lemma select_endpoint_only_enabled : forall L S A pol mode ep,
  select_endpoint (init_endpoints L S A) pol mode = Some ep -> In {| sc_pol := pol; sc_mode := mode |} S.
Proof.
  intros L S A pol mode ep H. apply select_endpoint_sound in H. destruct H as [Hin [Hp Hm]].
  unfold init_endpoints in Hin. apply in_map_iff in Hin. destruct Hin as [s [He Hs]]. subst ep.
  cbn [ep_pol ep_mode] in Hp, Hm. destruct s as [p m]. cbn in Hp, Hm. subst. exact Hs.
Qed.

(* ---- token policies ---- *)
Lemma tokpol_eqb_eq : forall a b, tokpol_eqb a b = true <-> a = b.
Proof.
  intros [ta ua] [tb ub]. unfold tokpol_eqb. cbn [tp_type tp_uri]. split.
  - intro H. apply andb_prop in H. destruct H as [Ht Hu]. apply String.eqb_eq in Hu. subst.
    destruct ta, tb; try discriminate; reflexivity.
  - intro H. inversion H. subst. rewrite String.eqb_refl. destruct tb; reflexivity.
Qed.

Lemma token_step_incl : forall a acc s t, In t acc -> In t (token_step a acc s).
Proof.
  intros a acc s t Hin. unfold token_step.
  destruct (negb (tok_eqb a TAnon) && String.eqb _ "None"); [exact Hin|].
  destruct (existsb _ acc); [exact Hin|]. apply in_or_app. left. exact Hin.
Qed.

Lemma fold_token_step_incl : forall a S acc t, In t acc -> In t (fold_left (token_step a) S acc).
Proof.
  intros a S. induction S as [|s S IH]; intros acc t Hin; cbn [fold_left]; [exact Hin|].
  apply IH. apply token_step_incl. exact Hin.
Qed.

Lemma fold_auth_incl : forall S A acc t, In t acc ->
  In t (fold_left (fun acc auth => fold_left (token_step auth) S acc) A acc).
Proof.
  intros S A. induction A as [|a A IH]; intros acc t Hin; cbn [fold_left]; [exact Hin|].
  apply IH. apply fold_token_step_incl. exact Hin.
Qed.

Lemma token_step_adds : forall a acc s,
  (tok_eqb a TAnon = true \/ String.eqb (sc_pol s) "None" = false) ->
  In {| tp_type := a; tp_uri := match a with TAnon => "None" | TUser => sc_pol s end |} (token_step a acc s).
Proof.
  intros a acc s H. unfold token_step.
  assert (E : negb (tok_eqb a TAnon) && String.eqb (match a with TAnon => "None" | TUser => sc_pol s end) "None" = false).
  { destruct H as [H|H]; [rewrite H; reflexivity|]. destruct a; [reflexivity|]. cbn. exact H. }
  rewrite E.
  destruct (existsb _ acc) eqn:Ex.
  - apply existsb_exists in Ex. destruct Ex as [x [Hin Hx]]. apply tokpol_eqb_eq in Hx. subst x. exact Hin.
  - apply in_or_app. right. left. reflexivity.
Qed.

(* with anonymous enabled and at least one pair enabled, every endpoint offers an anonymous token with policy None *)
Lemma anon_offered : forall S A, S <> [] -> In TAnon A -> In {| tp_type := TAnon; tp_uri := "None" |} (tokens_of S A).
Proof.
  intros S A HS HA. unfold tokens_of. generalize (@nil tokpol) as acc.
  induction A as [|a A IH]; intro acc; [destruct HA|].
  cbn [fold_left]. destruct HA as [Ha|Ha].
  - subst a. apply fold_auth_incl. destruct S as [|s S]; [congruence|]. cbn [fold_left].
    apply fold_token_step_incl. apply (token_step_adds TAnon acc s). left. reflexivity.
  - apply IH. exact Ha.
Qed.

(* a username token is offered for every enabled pair whose policy is not None *)
Lemma fold_token_step_user : forall S s, In s S -> String.eqb (sc_pol s) "None" = false ->
  forall acc, In {| tp_type := TUser; tp_uri := sc_pol s |} (fold_left (token_step TUser) S acc).
Proof.
  intros S s HS Hn. induction S as [|s' S IHS]; intro acc; [destruct HS|].
  cbn [fold_left]. destruct HS as [E|HS].
  - subst s'. apply fold_token_step_incl. apply (token_step_adds TUser acc s). right. exact Hn.
  - apply IHS. exact HS.
Qed.

Lemma user_offered : forall S A s, In s S -> String.eqb (sc_pol s) "None" = false -> In TUser A ->
  In {| tp_type := TUser; tp_uri := sc_pol s |} (tokens_of S A).
Proof.
  intros S A s HS Hn HA. unfold tokens_of. generalize (@nil tokpol) as acc.
  induction A as [|a A IH]; intro acc; [destruct HA|].
  cbn [fold_left]. destruct HA as [Ha|Ha].
  - subst a. apply fold_auth_incl. apply fold_token_step_user; assumption.
  - apply IH. exact Ha.
Qed.

(* hence a client asking for the anonymous token always finds one, on any endpoint of any non-empty server *)
Lemma anon_resolvable : forall L S ep, In TAnon server_auth -> In ep (init_endpoints L S server_auth) ->
  exists u, security_from_endpoint ep TAnon = Some u.
Proof.
  intros L S ep HA Hin. unfold security_from_endpoint.
  destruct (find (fun p => tok_eqb (tp_type p) TAnon) (ep_toks ep)) as [p|] eqn:E; [eexists; reflexivity|].
  exfalso. pose proof (find_none _ _ E) as Hn.
  rewrite (init_endpoints_tokens _ _ _ _ Hin) in Hn.
  assert (HS : S <> []).
  { intro HS. subst S. destruct Hin. }
  specialize (Hn _ (anon_offered S server_auth HS HA)). cbn in Hn. discriminate.
Qed.

(* ---- the configuration set ---- *)
Definition std_config (T : tables) (c : config) : Prop :=
  c_extra c = [] /\ In (c_pol c) (t_supported T) /\ In (c_mode c) modes /\
  0 < level_of (t_levels T) (c_pol c) (c_mode c) /\
  In (c_kb c, c_skb c) (key_pairs T (c_pol c) (c_mode c)) /\ token_advertised T c = true.

Definition none_cell (T : tables) (c : config) : Prop :=
  exists xpol xm, c_extra c = [{| sc_pol := xpol; sc_mode := xm |}] /\ c_pol c = "None" /\ c_mode c = 1 /\ c_kb c = 0 /\
    In xpol (t_supported T) /\ String.eqb xpol "None" = false /\ In xm modes /\ 0 < level_of (t_levels T) xpol xm /\
    In (c_skb c) key_sizes /\ asym_accept (t_rows T) xpol 0 (c_skb c) = true /\ token_advertised T c = true.

Lemma in_configs_of_policy : forall T pol c,
  In c (configs_of_policy T pol) <-> c_pol c = pol /\ c_extra c = [] /\ In (c_mode c) modes /\
  0 < level_of (t_levels T) pol (c_mode c) /\ In (c_kb c, c_skb c) (key_pairs T pol (c_mode c)) /\ token_advertised T c = true.
Proof.
  intros T pol c. unfold configs_of_policy. rewrite in_flat_map. split.
  - intros [m [Hm H]]. destruct (0 <? level_of (t_levels T) pol m) eqn:El; [|destruct H].
    apply in_flat_map in H. destruct H as [kp [Hkp H]]. apply in_flat_map in H. destruct H as [t [Ht H]].
    cbv zeta in H.
    destruct (token_advertised T {| c_pol := pol; c_mode := m; c_kb := fst kp; c_skb := snd kp; c_tok := t; c_extra := [] |}) eqn:Ea; [|destruct H].
    destruct H as [H|[]]. subst c. cbn [c_pol c_mode c_kb c_skb c_tok c_extra].
    apply Z.ltb_lt in El. rewrite <- surjective_pairing. auto 10.
  - intros [Hp [Hx [Hm [Hl [Hk Ha]]]]]. exists (c_mode c). split; [exact Hm|].
    apply Z.ltb_lt in Hl. rewrite Hl. apply in_flat_map. exists (c_kb c, c_skb c). split; [exact Hk|].
    apply in_flat_map. exists (c_tok c). split; [destruct (c_tok c); cbn; auto|].
    cbv zeta. destruct c as [p m k sk t x]. cbn [c_pol c_mode c_kb c_skb c_tok c_extra fst snd] in *. subst p x. rewrite Ha. left. reflexivity.
Qed.

Lemma in_none_cells_of : forall T xpol c,
  In c (none_cells_of T xpol) <->
  String.eqb xpol "None" = false /\ exists xm, c_extra c = [{| sc_pol := xpol; sc_mode := xm |}] /\ c_pol c = "None" /\
    c_mode c = 1 /\ c_kb c = 0 /\ In xm modes /\ 0 < level_of (t_levels T) xpol xm /\ In (c_skb c) key_sizes /\
    asym_accept (t_rows T) xpol 0 (c_skb c) = true /\ token_advertised T c = true.
Proof.
  intros T xpol c. unfold none_cells_of. destruct (String.eqb xpol "None") eqn:En.
  - split; [intros []|intros [H _]; discriminate].
  - rewrite in_flat_map. split.
    + intros [xm [Hm H]]. split; [reflexivity|]. destruct (0 <? level_of (t_levels T) xpol xm) eqn:El; [|destruct H].
      apply in_flat_map in H. destruct H as [skb [Hs H]]. apply filter_In in Hs. destruct Hs as [Hs1 Hs2].
      apply in_flat_map in H. destruct H as [t [Ht H]]. cbv zeta in H.
      destruct (token_advertised T _) eqn:Ea in H; [|destruct H]. destruct H as [H|[]]. subst c.
      cbn [c_pol c_mode c_kb c_skb c_tok c_extra]. apply Z.ltb_lt in El. exists xm. auto 12.
    + intros [_ [xm [Hx [Hp [Hmo [Hk [Hm [Hl [Hs [Hacc Ha]]]]]]]]]]. exists xm. split; [exact Hm|].
      apply Z.ltb_lt in Hl. rewrite Hl. apply in_flat_map. exists (c_skb c). split; [apply filter_In; auto|].
      apply in_flat_map. exists (c_tok c). split; [destruct (c_tok c); cbn; auto|].
      cbv zeta. destruct c as [p m k sk t x]. cbn [c_pol c_mode c_kb c_skb c_tok c_extra] in *. subst p m k x. rewrite Ha. left. reflexivity.
Qed.

Lemma in_all_configs : forall T c, In c (all_configs T) <-> std_config T c \/ none_cell T c.
Proof.
  intros T c. unfold all_configs. rewrite in_app_iff, !in_flat_map. split.
  - intros [[pol [Hs H]]|[xpol [Hs H]]].
    + left. apply in_configs_of_policy in H. destruct H as [Hp [Hx H]]. subst pol. unfold std_config. auto.
    + right. apply in_none_cells_of in H. destruct H as [Hn [xm H]]. exists xpol, xm.
      destruct H as [A [B [C [D [E [F [G [I J]]]]]]]]. auto 14.
  - intros [[Hx [Hs H]]|[xpol [xm [A [B [C [D [E [F [G [I [J [K L]]]]]]]]]]]]].
    + left. exists (c_pol c). split; [exact Hs|]. apply in_configs_of_policy. auto.
    + right. exists xpol. split; [exact E|]. apply in_none_cells_of. split; [exact F|]. exists xm. auto 12.
Qed.
